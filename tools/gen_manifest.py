#!/usr/bin/env python3
"""Regenerates MANIFEST.json from the table below (kept valid against /root/.vp/MANIFEST.schema.json)."""
import json, os
V = os.path.dirname(os.path.dirname(os.path.abspath(__file__)))
props = {json.loads(l)['id']: json.loads(l) for l in open(os.path.join(V, 'properties.jsonl'))}

CHECKS = {
 'C01': dict(text='All clauses proved in Lean for every dimension, signature, start index and admissible basis on a hand-written model of _swap_blades/_compute_sign (string algorithm = Clifford cocycle up to the orientation twist; cocycle identity; generator relations); the model is tied to the code by an entry-by-entry table/cayley/spelling diff over enumerated and seeded configurations plus a direct relation/associativity oracle on the real objects.',
             note='Lean kernel, axioms {propext, Classical.choice, Quot.sound}; tie sampled over configurations (all signature orderings d<=3, sampled d=4, custom bases, lazy d=7,8); labels beyond one hex digit excluded.',
             tech='Lean 4 proof (induction on signature / word lemmas) + differential table correspondence', ref='6/C01'),
 'C02': dict(text='codegen_product/codegen_gp modelled generically over the coefficient ring and proved to refine the Clifford product on finitely supported functions (no term omitted, duplicated or misattributed) for all key tuples in any order; each real generated function is identified as a polynomial map by running it on a free polynomial ring and compared with the model and with the bilinear extension over the real sign table.',
             note='Lean kernel + standard axioms; compile/exec and CPython dict order trusted; programs quantifier sampled in the tie (all ordered tuples d<=1, subset pairs d=2, seeded above), inputs quantifier discharged exactly by the tracer ring.',
             tech='Lean 4 refinement proof + tracer-ring translation validation of generated functions', ref='6/C02'),
 'C03': dict(text='The seven filtered products are the same generic generator with filters whose bit-level characterisations (xor = sum iff disjoint, xor = difference iff subset, swap sign) are proved for all naturals; tie and oracle as C02 with the graded-part and (ab-+ba)/2 definitions.',
             note='as C02', tech='Lean 4 proof (bit lemmas, csign_swap) + tracer-ring correspondence', ref='6/C03'),
 'C04': dict(text='add/sub/neg/involutions/grade modelled on key-value lists; blade-wise denotation and the mod-4 sign rules proved; tie by tracer correspondence for all pure grades in every dimension d<=8 and seeded storage patterns; involutivity and (anti)automorphism checked on the real code.',
             note='as C02', tech='Lean 4 proof + tracer-ring correspondence', ref='6/C04'),
 'C05': dict(text='hodge/unhodge/polarity/rp modelled with the real sign conventions (incl. custom-basis pseudoscalar orientation); tie by tracer correspondence over all signatures d<=3 (sampled above), custom and named bases; inverse pairs, E^hodge(E)=pss, polarity definition, ZeroDivisionError iff degenerate, rp definition and identity, dual dispatch checked on the real code.',
             note='as C02; polarity is generated through sympy (trusted printer)', tech='Lean 4 model + tracer-ring correspondence + identity oracle', ref='6/C05'),
 'C09': dict(text='The operator dictionaries are modelled as a get-or-generate state machine with a name-keyed numspace; proved for all histories and all interleavings of atomic steps: names are injective in (operator, ordered key tuple), every call is served by its own function from every reachable state with or without wrapper, failing generations leave the state unchanged. Tie: real function names vs. the model name function, every call of seeded histories (direct, wrapper, registered, symbolic call, raising, injected faults, 8 threads) compared with a fresh algebra; operand immutability.',
             note='Lean kernel + standard axioms; GIL atomicity of single dict operations and cached_property are assumptions; the thread run is a test that supports the interleaving theorem',
             tech='Lean 4 invariant proofs over histories and schedules + differential history replay against fresh algebras', ref='6/C09'),
 'C10': dict(text='generate-at-most-once and cached-call-is-free proved by induction over arbitrary sequential histories of the protocol model (the cache key contains no values); tie: generation/compile/wrap events of the real code observed by rebinding module globals, per-call generation trace diffed against the model, for int/float/Fraction/ndarray/sympy/mixed coefficients and composite operators with nested generation.',
             note='Lean kernel + standard axioms; a generation attempt that raises stores nothing and is retried (modelled as failing generation)',
             tech='Lean 4 invariant proof + event-trace correspondence', ref='6/C10'),
 'C08': dict(text='Congruence of the denotation proved for every generator of the model (all product-type operators through the one refinement theorem, add/sub/neg/involutions/Hodge): equal elements in, equal element out, for permutations, zero padding and repeated keys alike, all coefficient rings. Tie: metamorphic run of every real operator (incl. composite, inverse/division, outer series) on reference vs. permuted / zero-padded (also higher-grade padding) / full canonical / full binary storage with tracer-ring coefficients, plus a canonical-permuted-canonical history with and without wrapper.',
             note='composite sympy-path operators (sw, proj, inv, div, outer*) are covered by the metamorphic run only (their generation path is modelled under C06/C07); dense operands of those in d >= 3 are thorough-only',
             tech='Lean 4 congruence corollaries of the refinement theorems + metamorphic tracer-ring comparison', ref='6/C08'),
 'C15': dict(text='MultiVector.__new__ modelled branch by branch (keyword re-keying, sanitising, grade inference, graded-mode check, mapping / full-length / symbolic / mismatch branches, final grade check) and the accessors; tie: every constructor form x spellings x grades x graded mode x convenience constructors diffed against the model (keys, values or error class), getattr for permuted spellings; direct round-trip oracle through getattr/items/in/grade/asfullmv/map/filter.',
             note='values are integers or symbols; one open finding (graded mode + Mapping) is listed in known_findings.json',
             tech='Lean 4 model + proofs of the round-trip and error clauses + constructor-call correspondence', ref='6/C15'),
 'C17': dict(text='kingdon.polynomial modelled operation by operation (merge addition, factor-merge multiplication, shortcuts of RationalPolynomial, addition-chain powers); proved for ALL stored inputs: evaluation into any commutative ring / field is a homomorphism for add, sub, neg, mul, pow, rational add/sub/mul/div/inv; == and the zero tests are sound; normal forms are preserved and on them the zero tests are exact. Tie: enumerated and seeded operator programs on the real classes vs. the model with literal comparison of the args structure, plus denotation of every intermediate value in an independent free ring.',
             note='integer coefficients only (python floats are outside the model); programs are well typed',
             tech='Lean 4 proof (evaluation homomorphism, normal forms) + structural differential testing', ref='6/C17'),
 'C11': dict(text='MultiVector and TapeRecorder are two implementations of one operator surface; their dispatch tables (method -> operator, operand order; dual/undual kind selection per r; plain-number operands) are re-extracted from the source by behavioural probing on every run and proved to agree by decide; registered = direct is proved by induction over expression trees for arbitrary agreeing tables. Tie/oracle: generated python functions over the documented surface evaluated as f(args), register(f)(args) and register(symbolic=True)(f)(args), incl. same-named closures and nested registered calls.',
             note='open findings F17/F18 (symbolic route: coefficient access, sqrt/norm raise) and F19 (two registered functions sharing __name__) are listed in known_findings.json; pow/grade/coefficient nodes are covered by the differential run, not by the tree theorem',
             tech='Lean 4: decide over tables regenerated from source + tree induction; three-route differential evaluation', ref='6/C11'),
 'C14': dict(text='The relabelling map e_K -> eps_K e_K is proved to be an involutive ring homomorphism from every admissible custom-basis algebra onto the default-basis algebra of the bit-ordered signature (from the twist theorem); default bases are untwisted; the named bases are re-extracted and proved admissible; the equality probe table shows metric/basis differences are distinguished. Tie: eps_K and the bit-ordered signature of the model vs. values obtained from generator products on the real default-basis algebra; oracle: every operator, accessor spelling, matrix representation and the rejection clause through the map with tracer coefficients.',
             note='Hodge/regressive/polarity commute up to the orientation sign of the custom pseudoscalar; start index alone is a renaming (repository test requires it)',
             tech='Lean 4 proof (isomorphism from the twist theorem) + relabelled differential runs', ref='6/C14'),
 'C16': dict(text='_call_binary modelled as a structural recursion over operand trees; proved: operand order kept, numbers become scalars, callables are replaced by their value at any depth, sequences map in order; the reflected-method table is re-extracted from source and checked by decide. Tie: operand trees on the real code vs. the model (each named operator application re-evaluated with plain operands). Oracle: indexing commutes with every operator for three trailing shapes, ndarray and list-of-arrays containers, int/slice/tuple/list indices; __setitem__ and itermv.',
             note='numpy element-wise semantics and indexing are trusted',
             tech='Lean 4 proof over operand trees + decide over regenerated table + array differential runs', ref='6/C16'),
 'C20': dict(text='encode/walker, the front-end decoding and the drag handler are modelled; proved by induction over subject trees of any depth: decode(encode(t)) yields exactly the coefficient vectors of the reachable multivectors (array-valued ones expanded), key2idx is a bijection, a drag overwrites exactly the stored coefficients of the addressed subject. Tie: real GraphWidget payloads vs. the model text; oracle: the payload is decoded by the actual toElement/decode lines of graph.js under node and compared with the true coefficients; drag sequences on several subjects sharing blades.',
             note='traitlets, buffer transport and everything in the browser beyond toElement/decode are trusted',
             tech='Lean 4 proof (tree induction) + payload correspondence + front-end code executed under node', ref='6/C20'),
 'C06': dict(text='The generation path of sw/proj/normsq is modelled (compositions evaluated once on symbolic RationalPolynomial operands, falsy-coefficient filter after each step); proved for every admissible configuration, all key tuples and every valuation in every field: the generated polynomials denote a*b*~a, (a|b)*~b, a*~a, and a coefficient dropped by the filter evaluates to 0 under every valuation. Tie: the real generated functions as polynomial maps (tracer ring) vs. the model polynomials; oracle: vs. the composition of elementary operators on the real code, also after in-place updates of the operand.',
             note="sympy's cse and printer between kingdon's polynomials and the compiled text are trusted (covered by the tracer correspondence only); dense operands in d >= 4 are thorough-only",
             tech='Lean 4 proof (partial-homomorphism naturality + filter soundness) + tracer-ring correspondence', ref='6/C06'),
 'C07': dict(text='codegen_hitzer_inv is modelled generically in the coefficient type (d <= 5); tie: the real generated inverse as a rational map (tracer field) vs. model numerator/denominator by cross-multiplication; oracle with exact Fractions: x*x.inv() = 1 = x.inv()*x (exact d<=5, 1e-7 for the iterative scheme d>=6), a/b, n/x, x**-n, ZeroDivisionError only for operands whose left-multiplication determinant vanishes.',
             note='PARTIAL: the polynomial identities x*num = denom are proved by reflection for small d only (see Properties/C07.lean); d = 5 and the iterative scheme (d >= 6) are validated by exact/1e-7 differential testing, which is testing, not proof',
             tech='Lean 4 reflection (decide +kernel on polynomial normal forms) for small d + exact differential testing', ref='6/C07'),
 'C12': dict(text='Naturality: every generator of the model commutes with mapping a ring homomorphism over the stored coefficients (substitution of numbers for symbols is one), proved for all key tuples; for kingdon RationalPolynomial symbols the zero filter is proved sound. Oracle: symbolic/mixed/string coefficients, then subs (exact) and positional/keyword calls (1e-9) vs. numeric operands; binding order of call arguments.',
             note='PARTIAL: sympy is the symbolic ring; that its simplifier is falsy only for 0 and that printing preserves semantics is trusted',
             tech='Lean 4 naturality proofs + symbolic-vs-numeric differential testing', ref='6/C12'),
 'C13': dict(text='In the model the generators do not depend on any option: symbol classes related by a homomorphism yield the same function (naturality), a wrapper serves each call with its own function (C09). Oracle: the option product {cse} x {graded} x {codegen_symbolcls} x {wrapper} (+pretty_blade) on grade-block operands, every operator, two passes per algebra, vs. default options; graded mode: success and complete grades.',
             note='open findings F7a/F7b (graded mode with degenerate metrics) are listed in known_findings.json; quick tier samples the option product',
             tech='Lean 4 naturality/serving corollaries + option-product differential testing', ref='6/C13'),
 'C18': dict(text='matrix_rep (Kronecker construction, ordered blade products for default and custom bases, ordering transform), asmatrix and frommatrix are modelled; tie: matrix_basis entry by entry vs. the model for every signature ordering d<=3 (sampled above) and custom/named bases; oracle: multiplicativity on all blade pairs, linearity, first column, frommatrix, expr_as_matrix on linear expressions (symbolic/numeric/array/res_like).',
             note='PARTIAL: expr_as_matrix relies on sympy collect/coeff/lambdify (trusted); see Properties/C18.lean for what is proved about the Kronecker construction',
             tech='Lean 4 model + theorems on the Kronecker construction + matrix correspondence', ref='6/C18'),
 'C19': dict(text='Outer series modelled as wedge powers with the early break; tie: model wedge powers vs. the real outerexp/outersin/outercos at rational points; oracle (1e-9): outer series, outertan, exp vs. 60 terms of the power series for every sign of square and dtype, sqrt/**0.5/powers/norm/normalized on Study numbers.',
             note='PARTIAL: the code computes in floating point and with numpy/sympy transcendental functions, which the exact model cannot exhibit; one open finding (exp of ndarray operands)',
             tech='Lean 4 identities in exact arithmetic + numeric differential testing with tolerance', ref='6/C19'),
}
NOT_YET = 'check not built yet in this round (design in DESIGN.md section 6); not claimed until it runs green on the unchanged tree'

m = {
 'version': 1,
 'setup_cmd': 'cd lean && lake build',
 'hooks': {'guard': 'KINGDON_VERIF', 'enable': 'no hook is needed: generation events and served functions are observed by rebinding module globals from the harness; checks export KINGDON_VERIF=1 for forward compatibility',
           'baseline_off_cmd': 'cd /repo && /venv/bin/python -m pytest -ra -q -p no:cacheprovider --timeout=900 --continue-on-collection-errors',
           'source_commits': [], 'add_only': True},
 'engines': [{'name': 'lean-model', 'path': 'lean/', 'serves_properties': sorted(CHECKS), 'kind_free_text': 'Lean 4 model + theorems (lake build, #print axioms audit), line-protocol driver'},
             {'name': 'harness', 'path': 'harness/', 'serves_properties': sorted(CHECKS), 'kind_free_text': 'Python correspondence/differential harness running the real kingdon from /repo'}],
 'checks': [], 'not_applicable': [],
 'notes': 'Every check: (1) regenerates the declarative tables from /repo, (2) lake build + axiom audit of the property theorems, (3) correspondence model vs. real code through the line protocol, (4) direct property oracle on the real code; see DESIGN.md. Exit 0 ok, 1 violation, 2 infrastructure error.',
}
for pid in sorted(props):
    if pid in CHECKS:
        c = CHECKS[pid]
        m['checks'].append({
            'property_id': pid, 'quick_cmd': f'./check {pid} --tier quick', 'thorough_cmd': f'./check {pid} --tier thorough',
            'evidence_file': f'evidence/{pid}.json', 'replay_cmd_template': f'./check {pid} --replay {{path}}',
            'engine': 'lean-model', 'level_claimed': {'category': 'proof', 'text': c['text'], 'design_ref': c['ref']},
            'level_note': c['note'], 'technique': c['tech']})
    else:
        m['not_applicable'].append({'property_id': pid, 'reason': NOT_YET})
json.dump(m, open(os.path.join(V, 'MANIFEST.json'), 'w'), indent=1)
print('checks:', [c['property_id'] for c in m['checks']])

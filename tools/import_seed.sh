#!/bin/bash
# usage: import_seed.sh C03 A   -- verify a sub-agent's seeded change in a scratch worktree and store it under seeded/
set -u
PID=$1; V=$2
SRC=/tmp/wt/$PID/_seed/$V
DST=/verif/seeded/$PID-$V
WT=/tmp/verify-$PID-$V
[ -f $SRC/patch.diff ] || { echo "no patch at $SRC"; exit 2; }
git -C /repo worktree remove --force $WT 2>/dev/null
git -C /repo worktree add -q --detach $WT HEAD || exit 2
mkdir -p $WT/_seed/$V && cp $SRC/demo.py $WT/_seed/$V/
cd $WT
/venv/bin/python _seed/$V/demo.py > /tmp/verify-$PID-$V.clean.log 2>&1; CLEAN=$?
git apply $SRC/patch.diff || { echo "patch does not apply"; git -C /repo worktree remove --force $WT; exit 2; }
/venv/bin/python _seed/$V/demo.py > /tmp/verify-$PID-$V.mut.log 2>&1; MUT=$?
/venv/bin/python -m pytest -q -p no:cacheprovider --timeout=900 -n 4 > /tmp/verify-$PID-$V.tests.log 2>&1; TESTS=$?
TAIL=$(tail -1 /tmp/verify-$PID-$V.tests.log)
cd /; git -C /repo worktree remove --force $WT
echo "$PID-$V demo_clean_rc=$CLEAN demo_mutant_rc=$MUT tests_rc=$TESTS ($TAIL)"
if [ $CLEAN -eq 0 ] && [ $MUT -ne 0 ] && [ $TESTS -eq 0 ]; then
  mkdir -p $DST && cp $SRC/patch.diff $SRC/demo.py $DST/
  /venv/bin/python - "$SRC/meta.json" "$DST/meta.json" "$PID" "$V" "$TAIL" <<'PY'
import json,sys
src,dst,pid,v,tail=sys.argv[1:]
try: m=json.load(open(src))
except Exception: m={}
m.update({'property':pid,'variant':v,'confirmed_by_builder':{'scratch_worktree':'/tmp/verify-%s-%s (removed)'%(pid,v),
 'ran':['demo.py on clean tree -> rc 0','git apply patch.diff','demo.py on changed tree -> rc != 0','pytest -n 4 whole suite on changed tree -> '+tail]}})
json.dump(m,open(dst,'w'),indent=1)
PY
  echo "stored $DST"
else
  echo "REJECTED $PID-$V"
fi

#!/bin/bash
# usage: run_all.sh <seed> [tier]   -- runs every registered check once, prints one summary line per check
SEED=${1:-0}; TIER=${2:-quick}
cd /verif
for c in C01 C02 C03 C04 C05 C06 C07 C08 C09 C10 C11 C12 C13 C14 C15 C16 C17 C18 C19 C20; do
  s=$(date +%s); out=$(VERIF_SEED=$SEED timeout 7200 ./check $c --tier $TIER 2>&1); rc=$?; e=$(date +%s)
  echo "seed=$SEED $c rc=$rc $((e-s))s viol=$(echo "$out" | grep -c '^VIOLATION') known=$(echo "$out" | grep -c '^KNOWN') :: $(echo "$out" | grep -v Warn | tail -1 | cut -c1-160)"
  echo "$out" | grep '^VIOLATION' | head -3
done

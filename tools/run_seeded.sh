#!/bin/bash
# usage: run_seeded.sh <seed-dir-name> <check-id>...   applies seeded/<name>/patch.diff to /repo, runs checks, reverts
S=/verif/seeded/$1; shift
[ -f $S/patch.diff ] || { echo "no such seed"; exit 2; }
cd /repo && git apply $S/patch.diff || { echo "patch does not apply to current /repo"; exit 2; }
cd /verif
for c in "$@"; do
  out=$(timeout 1200 ./check $c --tier quick 2>&1); rc=$?
  echo "[$(basename $S)] $c rc=$rc $(echo "$out" | grep -c '^VIOLATION') violation line(s): $(echo "$out" | grep '^VIOLATION' | head -2 | tr '\n' ' ')"
done
git -C /repo checkout -- .
# the generated parts of the model were rewritten from the changed tree: regenerate them from the restored one
(cd /verif && /venv/bin/python -c "from harness import extract_tables, pytolean, pytolean_poly; extract_tables.write_if_changed(); pytolean.write_if_changed(); pytolean_poly.write_if_changed()" >/dev/null 2>&1)
# the runs above rewrote evidence/ from a changed tree: restore the committed evidence (of the unchanged tree)
git -C /verif checkout -- evidence

#!/usr/bin/env python3
"""Builds lean/obligations.json from lean/Kingdon/Properties/Cnn*.lean: every `theorem` declared there is an
obligation of property Cnn; the docstring (if any) is its one-line statement; names ending in `_partial`
are partial results, names starting with `not_`/ending `_witness` are proved negations/witnesses."""
import re, os, json, glob
L = os.path.join(os.path.dirname(os.path.dirname(os.path.abspath(__file__))), 'lean')
res = {}
for f in sorted(glob.glob(os.path.join(L, 'Kingdon/Properties/C*.lean'))):
    base = os.path.basename(f)[:-5]
    pid = base[:3]
    src = open(f).read()
    ns = None
    for m in re.finditer(r'(?:/--(?P<doc>.*?)-/\s*)?^(?P<kw>theorem|namespace|end)\s+(?P<name>[\w\.\']+)', src, re.S | re.M):
        if m.group('kw') == 'namespace':
            ns = m.group('name')
        elif m.group('kw') == 'theorem':
            name = (ns + '.' if ns else '') + m.group('name')
            doc = ' '.join((m.group('doc') or '').split())[:300]
            short = m.group('name')
            status = 'partial' if short.endswith('_partial') else 'witness' if (short.endswith('_witness') or short.startswith('not_')) else 'full'
            res.setdefault(pid, []).append({'name': name, 'module': 'Kingdon.Properties.' + base, 'status': status, 'statement': doc})
json.dump(res, open(os.path.join(L, 'obligations.json'), 'w'), indent=1)
print({k: len(v) for k, v in res.items()})

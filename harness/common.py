"""Shared machinery of the checks: context, Lean build/audit/driver client, evidence, violations."""
import os, sys, json, time, hashlib, random, subprocess, fcntl, re, fnmatch, itertools, traceback

VERIF = os.path.dirname(os.path.dirname(os.path.abspath(__file__)))
REPO = os.environ.get('VERIF_REPO', '/repo')
LEAN = os.path.join(VERIF, 'lean')
if REPO not in sys.path:
    sys.path.insert(0, REPO)
os.environ.setdefault('KINGDON_VERIF', '1')

ALLOWED_AXIOMS = {'propext', 'Classical.choice', 'Quot.sound'}
FORBIDDEN = re.compile(r'\bsorry\b|\badmit\b|^\s*axiom\s|native_decide|bv_decide|implemented_by|\bunsafe\s|maxHeartbeats\s+0\b', re.M)

TRUSTED_BASE = [
    'Lean 4.33.0 kernel (thorough tier: leanchecker re-check of the compiled property modules)',
    'axioms allowed: propext, Classical.choice, Quot.sound (audited by #print axioms on every run); no native_decide, bv_decide, sorry',
    'Mathlib v4.33.0 definitions used in statements (Finsupp, CommRing)',
    'the tie: harness/*.py (generators, tracer ring, canonicalisers, differ), harness/extract_tables.py, the parser/printer of lean/Kingdon/Driver.lean',
    'modelled by hand, validated by correspondence on every run: all algorithmic code of kingdon (sign table, generators, caches, constructors, polynomial classes)',
    'not modelled: CPython (dict order, compile/exec), sympy (simplify, cse, printing), numpy, IEEE floats',
]


def _strip_comments(src):
    src = re.sub(r'/-.*?-/', '', src, flags=re.S)
    return re.sub(r'--.*', '', src)


class Lean:
    """build, audit and drive the Lean model"""
    _built = None
    partial_build = []
    build_errors = ''
    translation = {}

    @staticmethod
    def build(pid=None, timeout=3000):
        """regenerate the generated parts of the model from the current source (tables by probing, Source.lean by
        translation), then build.  If the whole library does not build, build only what property `pid` needs (the
        driver and its own property modules): a property whose modules still compile is not affected by a proof that
        broke elsewhere."""
        if Lean._built is not None:
            return Lean._built
        os.makedirs(os.path.join(LEAN, '.lake'), exist_ok=True)
        t0 = time.time()
        # regenerate tables from the current source before building
        try:
            from harness import extract_tables
            extract_tables.write_if_changed()
        except Exception as e:      # translator failure is reported as a broken tie, not a crash
            Lean._built = (False, 'extract_tables failed: ' + ''.join(traceback.format_exception_only(type(e), e)))
            return Lean._built
        try:
            from harness import pytolean, pytolean_poly
            Lean.translation = pytolean.write_if_changed()
            Lean.translation.update({'polynomial.py:' + k: v for k, v in pytolean_poly.write_if_changed().items()})
        except Exception as e:
            Lean._built = (False, 'pytolean failed: ' + ''.join(traceback.format_exception_only(type(e), e)))
            return Lean._built
        with open(os.path.join(LEAN, '.lake', 'verif.lock'), 'w') as lk:
            fcntl.flock(lk, fcntl.LOCK_EX)
            try:
                p = subprocess.run(['lake', 'build'], cwd=LEAN, capture_output=True, text=True, timeout=timeout)
                ok, log = p.returncode == 0, (p.stdout + p.stderr)[-6000:]
                if not ok and pid is not None:
                    mods = sorted({o['module'] for o in Lean.obligations(pid)})
                    failed = sorted(set(re.findall(r'^- (Kingdon[\w\.]*)', p.stdout + p.stderr, re.M)))
                    p2 = subprocess.run(['lake', 'build', 'kdriver'] + mods, cwd=LEAN, capture_output=True, text=True, timeout=timeout)
                    if p2.returncode == 0:
                        ok, log = True, 'modules outside this property failed to build: ' + ', '.join(failed)
                        Lean.partial_build = failed
                    else:
                        # the driver alone?  (then the correspondence can still run; the obligations are reported broken by the audit)
                        p3 = subprocess.run(['lake', 'build', 'kdriver'], cwd=LEAN, capture_output=True, text=True, timeout=timeout)
                        failed2 = sorted(set(re.findall(r'^- (Kingdon[\w\.]*)', p2.stdout + p2.stderr, re.M)))
                        if p3.returncode == 0:
                            ok, log = True, 'property modules failed to build: ' + ', '.join(failed2)
                            Lean.partial_build = failed2
                            Lean.build_errors = (p2.stdout + p2.stderr)[-3000:]
                        else:
                            log = (p2.stdout + p2.stderr)[-6000:]
            except subprocess.TimeoutExpired:
                ok, log = False, 'lake build timed out'
        Lean._built = (ok, log)
        Lean.build_s = time.time() - t0
        return Lean._built

    @staticmethod
    def obligations(pid):
        with open(os.path.join(LEAN, 'obligations.json')) as f:
            return json.load(f).get(pid, [])

    @staticmethod
    def audit(pid):
        """returns list of dicts {name, status(full|partial|negation), statement, ok, axioms|error}"""
        obs = Lean.obligations(pid)
        if not obs:
            return []
        mods = sorted({o['module'] for o in obs})
        d = os.path.join(LEAN, '.lake', 'audit')
        os.makedirs(d, exist_ok=True)
        # one audit file per module: a module that no longer compiles does not hide the theorems of the others
        def one(m):
            path = os.path.join(d, f'Audit_{pid}_{m.split(".")[-1]}_{os.getpid()}.lean')
            with open(path, 'w') as f:
                f.write(f'import {m}\n')
                for o in obs:
                    if o['module'] == m:
                        f.write(f'#print axioms {o["name"]}\n')
            p = subprocess.run(['lake', 'env', 'lean', path], cwd=LEAN, capture_output=True, text=True, timeout=900)
            try:
                os.remove(path)
            except OSError:
                pass
            return p.stdout + p.stderr
        # a module counts only if lake says it is up to date with its sources now (a stale .olean proves nothing)
        fresh = {}
        if Lean.partial_build:
            with open(os.path.join(LEAN, '.lake', 'verif.lock'), 'w') as lk:
                fcntl.flock(lk, fcntl.LOCK_EX)
                for m in mods:
                    p = subprocess.run(['lake', 'build', m], cwd=LEAN, capture_output=True, text=True, timeout=3000)
                    fresh[m] = (p.returncode == 0, (p.stdout + p.stderr)[-1200:])
        else:
            fresh = {m: (True, '') for m in mods}
        from concurrent.futures import ThreadPoolExecutor
        with ThreadPoolExecutor(max_workers=6) as ex:
            good = [m for m in mods if fresh[m][0]]
            outs = dict(zip(good, ex.map(one, good)))
        for m in mods:
            if not fresh[m][0]:
                outs[m] = 'MODULE DOES NOT BUILD: ' + fresh[m][1]
        res = []
        for o in obs:
            nm = o['name']
            out = outs[o['module']]
            short = nm
            m = re.search(r"'" + re.escape(short) + r"' depends on axioms: \[([^\]]*)\]", out, re.S)
            m0 = re.search(r"'" + re.escape(short) + r"' does not depend on any axioms", out)
            r = dict(o)
            if m:
                ax = {a.strip() for a in m.group(1).replace('\n', ' ').split(',') if a.strip()}
                r['axioms'] = sorted(ax)
                r['ok'] = ax <= ALLOWED_AXIOMS
                if not r['ok']:
                    r['error'] = 'uses axioms outside the allowed set'
            elif m0:
                r['axioms'] = []
                r['ok'] = True
            else:
                r['ok'] = False
                r['error'] = 'theorem not found / module does not compile: ' + out[-400:]
            res.append(r)
        # forbidden tokens in the sources of the involved modules and everything under Kingdon/
        bad = []
        for root, _, files in os.walk(os.path.join(LEAN, 'Kingdon')):
            for fn in files:
                if fn.endswith('.lean'):
                    src = _strip_comments(open(os.path.join(root, fn)).read())
                    for mm in FORBIDDEN.finditer(src):
                        bad.append(f'{fn}: {mm.group(0).strip()}')
        if bad:
            for r in res:
                r['ok'] = False
                r['error'] = 'forbidden token in sources: ' + '; '.join(bad[:5])
        return res

    @staticmethod
    def leanchecker(pid):
        mods = sorted({o['module'] for o in Lean.obligations(pid)})
        if not mods:
            return True, ''
        p = subprocess.run(['lake', 'env', 'leanchecker'] + mods, cwd=LEAN, capture_output=True, text=True, timeout=3000)
        return p.returncode == 0, (p.stdout + p.stderr)[-2000:]

    @staticmethod
    def drive(lines, timeout=1800):
        """pipe protocol lines through the model driver; returns the list of output lines"""
        if not lines:
            return []
        inp = '\n'.join(lines) + '\n'
        exe = os.path.join(LEAN, '.lake', 'build', 'bin', 'kdriver')
        # the compiled driver (built by `lake build` together with the library, so never older than the model) is 10-50x
        # faster than interpreting Main.lean; the interpreter is the fallback
        cmd = [exe] if (os.path.exists(exe) and not os.environ.get('VERIF_INTERPRET_DRIVER')) else ['lake', 'env', 'lean', '--run', 'Main.lean']
        p = subprocess.run(cmd, cwd=LEAN, input=inp, capture_output=True, text=True, timeout=timeout)
        out = p.stdout.split('\n')
        if out and out[-1] == '':
            out.pop()
        if p.returncode != 0 or len(out) != len(lines):
            raise DriverError(f'driver rc={p.returncode} lines_in={len(lines)} lines_out={len(out)} stderr={p.stderr[-800:]}')
        return out


class DriverError(Exception):
    pass


class Ctx:
    def __init__(self, pid, tier, seed):
        self.pid, self.tier, self.seed = pid, tier, seed
        self.rng = random.Random(f'{pid}-{seed}')
        self.t0 = time.time()
        self.evaluations = 0
        self.distinct = set()
        self.samples = []
        self.dist = {}
        self.violations = []
        self.broken = []          # broken proof obligations / correspondences (not by themselves violations)
        self.notes = []
        self.audit_res = []
        self.assumptions = []
        self.exhaustive = False
        self.rule = ''
        self.extra = {}
        self.model_ok = True

    @property
    def quick(self):
        return self.tier == 'quick'

    def over_budget(self):
        """thorough runs stop *sampling* (never comparing) when the wall-clock budget is used up (VERIF_BUDGET_S, default
        1500 s); the evidence records how much was skipped"""
        if self.quick:
            return False
        budget = float(os.environ.get('VERIF_BUDGET_S', '1500'))
        if time.time() - self.t0 > budget:
            self.dist['skipped-by-time-budget'] = self.dist.get('skipped-by-time-budget', 0) + 1
            return True
        return False

    # ---- counting -------------------------------------------------------------------------
    def case(self, desc, nontrivial=True, tag=None, sample=True):
        self.evaluations += 1
        if nontrivial:
            self.distinct.add(hashlib.md5(repr(desc).encode()).hexdigest())
        if tag is not None:
            self.dist[tag] = self.dist.get(tag, 0) + 1
        # samples spread over the run (geometric spacing) rather than the first few, which are the most trivial
        if sample and nontrivial and len(self.samples) < 8 and len(self.distinct) in (1, 5, 40, 200, 900, 2500, 6000, 15000):
            if not self.samples or self.samples[-1] is not desc:
                self.samples.append(desc)

    def count(self, tag, n=1):
        self.dist[tag] = self.dist.get(tag, 0) + n

    # ---- lean -----------------------------------------------------------------------------
    def lean_prepare(self):
        ok, log = Lean.build(self.pid)
        if not ok:
            self.model_ok = False
            self.broken.append({'what': 'lake build failed', 'detail': log[-1500:]})
            return False
        try:
            self.audit_res = Lean.audit(self.pid)
        except Exception as e:
            self.broken.append({'what': 'axiom audit failed to run', 'detail': repr(e)})
            return True
        for r in self.audit_res:
            if not r['ok']:
                self.broken.append({'what': f'proof obligation {r["name"]} not discharged', 'detail': r.get('error', '')})
        if self.tier == 'thorough':
            try:
                ok, log = Lean.leanchecker(self.pid)
                self.extra['leanchecker'] = 'ok' if ok else log
                if not ok:
                    self.broken.append({'what': 'leanchecker rejected a property module', 'detail': log})
            except Exception as e:
                self.extra['leanchecker'] = 'not run: ' + repr(e)
        return True

    def drive(self, lines):
        if not self.model_ok:
            return None
        try:
            return Lean.drive(lines)
        except Exception as e:
            self.model_ok = False
            self.broken.append({'what': 'model driver failed', 'detail': repr(e)[:1500]})
            return None

    # ---- violations -----------------------------------------------------------------------
    def violation(self, kind, inp, expected=None, observed=None, key=None, note=None):
        """a concrete input on which the real code fails the property"""
        self.violations.append({'kind': kind, 'input': inp, 'expected': expected, 'observed': observed,
                                'finding_key': key or kind, 'note': note})

    def mismatch(self, kind, inp, model, impl, note=None):
        """model and implementation disagree (not by itself a violation: triaged by the oracle)"""
        self.broken.append({'what': f'correspondence {kind} diverges', 'input': inp, 'model': model, 'impl': impl,
                            'note': note})

    # ---- finish ---------------------------------------------------------------------------
    def finish(self):
        os.makedirs(os.path.join(VERIF, 'evidence'), exist_ok=True)
        os.makedirs(os.path.join(VERIF, 'replays'), exist_ok=True)
        known = []
        kf_path = os.path.join(VERIF, 'known_findings.json')
        if os.path.exists(kf_path):
            known = [k for k in json.load(open(kf_path)).get('findings', [])
                     if k.get('property') == self.pid and k.get('status') == 'open']
        lines, nviol, seen_known = [], 0, {}
        groups = {}
        for v in self.violations:
            groups.setdefault(v['finding_key'], []).append(v)
        for key, vs in sorted(groups.items()):
            kf = next((k for k in known if fnmatch.fnmatchcase(key, k['finding_key'])), None)
            if kf is not None:
                seen_known.setdefault(kf['id'], (kf, 0))
                seen_known[kf['id']] = (kf, seen_known[kf['id']][1] + len(vs))
                continue
            v = vs[0]
            h = hashlib.md5(json.dumps(v, sort_keys=True, default=str).encode()).hexdigest()[:10]
            rp = os.path.join('replays', f'{self.pid}-{h}.json')
            with open(os.path.join(VERIF, rp), 'w') as f:
                json.dump({'property': self.pid, 'seed': self.seed, 'tier': self.tier, 'count_same_key': len(vs), **v},
                          f, indent=1, default=str)
            lines.append(f'VIOLATION property={self.pid} replay={rp}')
            nviol += 1
        for kid, (kf, n) in seen_known.items():
            print(f'KNOWN-FINDING: property={self.pid} {kf["id"]}: {kf["what"]} (re-observed on {n} case(s))')
        if self.broken and nviol == 0:
            # a proof obligation or correspondence no longer checks and the search found no failing input
            h = hashlib.md5(json.dumps(self.broken, sort_keys=True, default=str).encode()).hexdigest()[:10]
            rp = os.path.join('replays', f'{self.pid}-broken-{h}.json')
            # when the generated parts of the model changed, say how: the diff of the translated source / tables against
            # the committed (reviewed) version usually names the edited python function
            gen_diff = None
            try:
                g = subprocess.run(['git', 'diff', '--no-color', '-U1', '--', 'lean/Kingdon/Generated'], cwd=VERIF,
                                   capture_output=True, text=True, timeout=60).stdout
                if g.strip():
                    gen_diff = g.split('\n')[:120]
            except Exception:
                pass
            with open(os.path.join(VERIF, rp), 'w') as f:
                json.dump({'property': self.pid, 'seed': self.seed, 'tier': self.tier,
                           'no_failing_input_found': True, 'broken': self.broken[:20],
                           'generated_model_diff_vs_committed': gen_diff,
                           'translation_report': {k: v for k, v in (getattr(Lean, 'translation', {}) or {}).items() if v != 'ok'},
                           'searched': {'evaluations': self.evaluations, 'rule': self.rule}}, f, indent=1, default=str)
            lines.append(f'VIOLATION property={self.pid} replay={rp} no-failing-input-found')
            nviol += 1
        elif self.broken:
            for b in self.broken[:5]:
                print(f'NOTE: {b["what"]}')
        obligations = len(self.audit_res)
        discharged = sum(1 for r in self.audit_res if r['ok'])
        ev = {
            'property_id': self.pid, 'tier': self.tier, 'seed': self.seed, 'level': 'proof',
            'coverage': {
                'obligations': obligations, 'discharged': discharged,
                'checker_cmd': 'cd lean && lake build && lake env lean .lake/audit/Audit_%s.lean  (thorough: lake env leanchecker <property modules>)' % self.pid,
                'trusted_base': TRUSTED_BASE,
                'theorems': [{'name': r['name'], 'status': r.get('status'), 'statement': r.get('statement'),
                              'axioms': r.get('axioms'), 'ok': r['ok']} for r in self.audit_res],
                'evaluations': self.evaluations, 'distinct_nontrivial': len(self.distinct),
                'rule': self.rule, 'samples': self.samples[:8], 'distribution': self.dist,
                'exhaustive': self.exhaustive,
                'known_findings_reobserved': {k: n for k, (kf, n) in seen_known.items()},
                'broken': [b['what'] for b in self.broken],
                **self.extra,
            },
            'assumptions': self.assumptions,
            'wall_s': round(time.time() - self.t0, 2),
            'violations': nviol,
        }
        if obligations == 0:
            # no theorem registered (yet) for this property: the level-specific keys would be vacuous; fall back to the
            # exploration-style counts the schema accepts and say so
            for k in ('obligations', 'discharged'):
                ev['coverage'].pop(k)
            ev['coverage']['explanation'] = 'no proof obligation is registered for this property in lean/obligations.json; this run is differential testing only'
        with open(os.path.join(VERIF, 'evidence', f'{self.pid}.json'), 'w') as f:
            json.dump(ev, f, indent=1, default=str)
        for l in lines:
            print(l)
        print(f'{self.pid} {self.tier} seed={self.seed}: {self.evaluations} cases, {len(self.distinct)} distinct non-trivial, '
              f'{discharged}/{obligations} obligations, {nviol} violation(s), {ev["wall_s"]}s')
        return 1 if nviol else 0


# ---- algebra configurations --------------------------------------------------------------------

def cfg_token(sig, start=None, basis=None):
    return f'{",".join(map(str, sig))};{"-" if start is None else start};{"-" if not basis else ",".join(basis)}'


def make_algebra(sig, start=None, basis=None, **opts):
    from kingdon import Algebra
    kw = dict(opts)
    if basis:
        # custom bases go through (p,q,r) + basis like Algebra.fromname does, or signature + basis
        kw['basis'] = list(basis)
    if start is not None:
        kw['start_index'] = start
    return Algebra(signature=list(sig), **kw)


def all_signatures(d):
    return [list(s) for s in itertools.product((1, -1, 0), repeat=d)]


def hexd(n):
    return '0123456789abcdef'[n]


def random_custom_basis(rng, d, start=None):
    """admissible custom basis: generator labels start..start+d-1 in random order, each blade spelled by a random
    permutation of its generators, random order within each grade"""
    if start is None:
        start = rng.choice([0, 1, 2])
    labels = [start + i for i in range(d)]
    rng.shuffle(labels)
    by_grade = {}
    for I in range(2 ** d):
        gens = [labels[j] for j in range(d) if I >> j & 1]
        rng.shuffle(gens)
        by_grade.setdefault(len(gens), []).append('e' + ''.join(hexd(g) for g in gens))
    basis = []
    for g in sorted(by_grade):
        names = by_grade[g]
        if g == 1:
            names = ['e' + hexd(l) for l in labels]   # order of the vectors defines the bits
        else:
            rng.shuffle(names)
        basis.extend(names)
    return basis


def canon_mv(keys, polys, scale=1):
    """canonical text of a multivector with tracer-polynomial coefficients: same as the driver's renderMV"""
    acc = {}
    for k, p in zip(keys, polys):
        from harness.tracer import P
        p = P.lift(p)
        acc[k] = acc[k] + p if k in acc else p
    items = [(k, p) for k, p in sorted(acc.items()) if not p.iszero()]
    if not items:
        return '0'
    return ';'.join(f'{k}={p.render(scale)}' for k, p in items)


def tracer_mv(alg, keys, base):
    from kingdon import MultiVector
    from harness.tracer import P
    return MultiVector.fromkeysvalues(alg, tuple(keys), [P.var(base + i) for i in range(len(keys))])


def main(run_func, pid):
    import argparse
    ap = argparse.ArgumentParser()
    ap.add_argument('--tier', default=os.environ.get('VERIF_TIER', 'quick'))
    ap.add_argument('--replay')
    a = ap.parse_args()
    seed = int(os.environ.get('VERIF_SEED', '0'))
    if a.replay:
        # a replay file records the seed and tier of the run that found it: re-run the check under the same conditions
        rp = a.replay if os.path.isabs(a.replay) else os.path.join(VERIF, a.replay)
        rec = json.load(open(rp))
        seed, a.tier = int(rec.get('seed', seed)), rec.get('tier', a.tier)
        print(f'replaying {a.replay}: property={rec.get("property")} seed={seed} tier={a.tier} kind={rec.get("kind")}')
        print('recorded input:', json.dumps(rec.get('input'), default=str)[:800])
    ctx = Ctx(pid, a.tier, seed)
    try:
        run_func(ctx)
    except Exception as e:
        tb = traceback.extract_tb(e.__traceback__)
        in_kingdon = [f for f in tb if os.path.join(REPO, 'kingdon') in f.filename]
        text = ''.join(traceback.format_exception(type(e), e, e.__traceback__))[-3000:]
        if in_kingdon:
            # the library raised where the unchanged library does not: an input on which the property fails to hold
            last_h = [f for f in tb if os.path.join(VERIF, 'harness') in f.filename]
            ctx.violation('uncaught-exception-in-kingdon',
                          {'harness_call_site': f'{os.path.basename(last_h[-1].filename)}:{last_h[-1].lineno}' if last_h else None,
                           'raised_at': f'{os.path.basename(in_kingdon[-1].filename)}:{in_kingdon[-1].lineno} in {in_kingdon[-1].name}'},
                          'no exception (the unchanged library completes this check)', text, key=f'crash:{type(e).__name__}')
        else:
            print(text)
            print(f'{pid}: harness error (not a verdict)')
            sys.exit(2)
    sys.exit(ctx.finish())

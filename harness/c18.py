"""C18 — matrix representations are faithful.

Tie:    `alg.matrix_basis` of the real code vs. the Lean model of the Kronecker construction + ordering transform
        (Mx.matrixBasis), entry by entry, for every signature ordering and custom/named bases.
Oracle: asmatrix is linear and multiplicative on all pairs of basis blades (complete by linearity), its first column
        holds the coefficients in canonical order, frommatrix inverts it; expr_as_matrix(f, .., x) returns A, y with
        y = f(.., x) and A . coefficients(x) = coefficients(y) for linear expressions, with symbolic, numeric and
        array-valued other inputs and with res_like.
"""
import itertools, warnings
from fractions import Fraction
from harness.common import *
from harness.opcorr import key_tuples, grade


def run(ctx):
    import numpy as np, sympy
    from kingdon import MultiVector
    from kingdon.matrixreps import expr_as_matrix
    warnings.simplefilter('ignore')
    ctx.rule = ('every signature ordering d<=3 (sampled d=4; d<=4 all, d=5 sampled in thorough), custom and named bases: matrix basis vs. '
                'the model; homomorphism on all blade pairs; first column / frommatrix on seeded multivectors; expr_as_matrix on linear '
                'operator expressions with symbolic / numeric / array inputs and res_like; a case is one comparison')
    ctx.lean_prepare()
    rng = ctx.rng
    cfgs = []
    for d in range(0, 4):
        cfgs += [(s, None) for s in all_signatures(d)]
    cfgs += [(s, None) for s in rng.sample(all_signatures(4), 6 if ctx.quick else 81)]
    if not ctx.quick:
        cfgs += [([rng.choice((1, -1, 0)) for _ in range(5)], None) for _ in range(4)]
    cfgs += [([0, 1, 1], ["e", "e1", "e2", "e0", "e20", "e01", "e12", "e012"]),
             ([0, 1, 1, 1], ["e", "e1", "e2", "e3", "e0", "e01", "e02", "e03", "e12", "e31", "e23", "e032", "e013", "e021", "e123", "e0123"])]
    for _ in range(4 if ctx.quick else 20):
        d = rng.choice([2, 3, 3])
        cfgs.append(([rng.choice((1, -1, 0)) for _ in range(d)], random_custom_basis(rng, d)))
    lines, plan = [], []
    for sig, basis in cfgs:
        alg = make_algebra(sig, None, basis)
        d = alg.d
        N = 2 ** d
        desc = {'sig': sig, 'basis': basis}
        tok = cfg_token(sig, None if basis else int(alg.start_index), list(alg.canon2bin.keys()) if basis else None)
        try:
            B = alg.matrix_basis
        except Exception as e:
            ctx.violation('matrix-basis-raises', desc, 'matrices', repr(e)[:200], key='matrix:raises')
            continue
        lines.append(f'matrix {tok}')
        plan.append((desc, ';'.join(','.join(str(int(v)) for v in np.array(M).reshape(-1)) for M in B)))
        names = list(alg.canon2bin.keys())
        keys = list(alg.canon2bin.values())
        mats = {k: np.array(B[i]) for i, k in enumerate(keys)}
        # homomorphism on all pairs of basis blades
        bad = None
        for I in keys:
            for J in keys:
                s = int(alg.signs[I, J])
                exp = s * mats[I ^ J] if s else np.zeros((N, N), dtype=int)
                if not np.array_equal(mats[I] @ mats[J], exp):
                    bad = (I, J)
                    break
            if bad:
                break
        ctx.case(('homomorphism', tok), tag=f'd={d}')
        ctx.count('blade-pairs', N * N)
        if bad:
            ctx.violation('not-multiplicative', {**desc, 'I': bad[0], 'J': bad[1]}, 'R(I) R(J) = sign(I,J) R(I xor J)', 'differs', key='matrix:homomorphism')
        # through the public API on multivectors: linear, multiplicative, first column, frommatrix
        for _ in range(3 if ctx.quick else 10):
            kx = list(dict.fromkeys(key_tuples(rng, d, 1)[0] or keys))
            ky = list(dict.fromkeys(key_tuples(rng, d, 1)[0] or keys))
            x = MultiVector.fromkeysvalues(alg, tuple(kx), [rng.randint(-5, 6) for _ in kx])
            y = MultiVector.fromkeysvalues(alg, tuple(ky), [rng.randint(-5, 6) for _ in ky])
            case = {**desc, 'kx': kx, 'ky': ky, 'vx': list(x.values()), 'vy': list(y.values())}
            ctx.case(case, tag='api')
            def M(mv):
                m = mv.asmatrix()
                return np.array(m) if not isinstance(m, int) else np.zeros((N, N), dtype=int)
            if kx and ky:
                if not np.array_equal(M(x * y), M(x) @ M(y)):
                    ctx.violation('asmatrix-product', case, '(x*y).asmatrix() == x.asmatrix() @ y.asmatrix()', 'differs', key='asmatrix:product')
                if not np.array_equal(M(x + y), M(x) + M(y)) or not np.array_equal(M(3 * x), 3 * M(x)):
                    ctx.violation('asmatrix-linear', case, 'linear', 'differs', key='asmatrix:linear')
            if kx:
                col = list(M(x)[:, 0])
                coeff = {}
                for k, v in zip(x.keys(), x.values()):
                    coeff[k] = coeff.get(k, 0) + v
                exp = [coeff.get(k, 0) for k in keys]
                if [int(c) for c in col] != exp:
                    ctx.violation('first-column', case, exp, [int(c) for c in col], key='asmatrix:first-column')
                back = MultiVector.frommatrix(alg, M(x))
                if {k: int(v) for k, v in zip(back.keys(), back.values()) if v != 0} != {k: v for k, v in coeff.items() if v != 0}:
                    ctx.violation('frommatrix', case, coeff, dict(zip(back.keys(), back.values())), key='asmatrix:frommatrix')
    out = ctx.drive(lines)
    if out is not None:
        nb = 0
        for (desc, exp), got in zip(plan, out):
            if exp != got:
                nb += 1
                if nb <= 4:
                    ctx.mismatch('matrix-basis', desc, got[:200], exp[:200])
        ctx.count('driver-lines', len(lines)); ctx.count('driver-mismatches', nb)
    expr_pass(ctx, np, sympy, expr_as_matrix)
    boundary_pass(ctx, np, sympy, expr_as_matrix)
    ctx.assumptions = ['expr_as_matrix extracts coefficients with sympy collect/coeff and evaluates arrays through sympy.lambdify: trusted, only '
                       'their composition with kingdon is checked']


EXPRS = [
    ('R >> x', lambda R, x: R >> x), ('R * x', lambda R, x: R * x), ('x * R', lambda R, x: x * R), ('R.cp(x)', lambda R, x: R.cp(x)),
    ('R.acp(x)', lambda R, x: R.acp(x)), ('R | x', lambda R, x: R | x), ('R ^ x', lambda R, x: R ^ x), ('x @ R', lambda R, x: x @ R),
    ('R & x', lambda R, x: R & x), ('R.lc(x)', lambda R, x: R.lc(x)), ('(R | x) * R', lambda R, x: (R | x) * R),
    ('R * x * ~R + x', lambda R, x: R * x * ~R + x), ('~x', lambda R, x: ~x), ('x.hodge()', lambda R, x: x.hodge()),
    ('(R * x) / 2', lambda R, x: (R * x) / 2), ('R * x / 4 + x', lambda R, x: R * x / 4 + x), ('0.5 * (R >> x)', lambda R, x: 0.5 * (R >> x)),
]


def boundary_pass(ctx, np, sympy, expr_as_matrix):
    """(a) d = 7 (above the dimension where sign table and blades become lazy): the matrices of basis blades multiply like the
    blades - on pairs that do not commute - and the first column / frommatrix round trip holds; (b) `res_like` taken from another
    Algebra object that compares equal to the operands' algebra (a second constructor call; the same algebra with another start
    index, which renames the blades): the rows of A and the returned y belong to the binary keys of res_like"""
    from kingdon import Algebra, MultiVector
    rng = ctx.rng
    for sig in ([1, 1, -1, 1, 0, 1, 1],) if ctx.quick else ([1] * 7, [1, 1, -1, 1, 0, 1, 1]):
        alg = make_algebra(list(sig))
        keys = list(alg.canon2bin.values())
        S = alg.signs
        pairs = [(1, 2), (2, 1), (3, 5), (1, 3), (64, 65), (7, 11)] + [(rng.choice(keys), rng.choice(keys)) for _ in range(4)]
        for I, J in pairs:
            bI = MultiVector.fromkeysvalues(alg, (I,), [1]); bJ = MultiVector.fromkeysvalues(alg, (J,), [1])
            case = {'sig': list(sig), 'blades': [I, J]}
            ctx.case(case, tag='matrix-d7')
            prod = bI * bJ
            lhs = np.asarray(prod.asmatrix()) if len(prod.keys()) else np.zeros((2 ** alg.d, 2 ** alg.d))
            rhs = np.asarray(bI.asmatrix()) @ np.asarray(bJ.asmatrix())
            if not np.array_equal(lhs, rhs):
                ctx.violation('homomorphism', case, 'asmatrix(x*y) == asmatrix(x) @ asmatrix(y)', 'differs (sign %d)' % int(S[I, J]), key='matrix:homomorphism:d7')
                break
            back = {int(k): v for k, v in zip(MultiVector.frommatrix(alg, bI.asmatrix()).keys(), MultiVector.frommatrix(alg, bI.asmatrix()).values()) if v != 0}
            if back != {I: 1}:
                ctx.violation('frommatrix', case, {I: 1}, back, key='matrix:frommatrix:d7')
                break
    # (c) matrices are values: what a caller does with a returned matrix (in-place arithmetic) or with the multivector afterwards
    # (in-place coefficient update) does not change what asmatrix() returns next - also for the algebra's shared blade objects
    for sig in ([1, 1, 1], [0, 1, 1]):
        alg = make_algebra(list(sig))
        N = 2 ** alg.d
        a = MultiVector.fromkeysvalues(alg, (1, 2, 4), [2.0, 3.0, 5.0]); b = MultiVector.fromkeysvalues(alg, (3, 5), [7.0, 1.0])
        blade = alg.blades[list(alg.canon2bin)[1]]
        for who, x in (('a multivector', a), ('a blade object of the algebra', blade)):
            M0 = np.array(x.asmatrix(), dtype=float).copy()
            S = x.asmatrix(); 
            try:
                S += np.asarray(b.asmatrix()); S *= 3
            except Exception:
                pass
            case = {'sig': list(sig), 'object': who, 'scenario': 'S = x.asmatrix(); S += other; S *= 3; x.asmatrix() again'}
            ctx.case(case, tag='matrix-aliasing')
            M1 = np.array(x.asmatrix(), dtype=float)
            if not np.array_equal(M0, M1):
                ctx.violation('first-column', case, 'the matrix of x, as before', 'the matrix the caller computed in place', key='matrix:aliasing')
                continue
        xs = MultiVector.fromkeysvalues(alg, (1, 2, 4), [np.array([1.0, 2.0]), np.array([3.0, 4.0]), np.array([5.0, 6.0])])
        xs0 = xs[0]
        m_before = np.array(xs0.asmatrix(), dtype=float).copy()
        y = MultiVector.fromkeysvalues(alg, (1, 2, 4), [9.0, 8.0, 7.0])
        xm = MultiVector.fromkeysvalues(alg, (1, 2, 4), [1.0, 3.0, 5.0])
        xm.asmatrix()
        xm.values()[0] = 4.0
        case = {'sig': list(sig), 'scenario': 'asmatrix(); coefficient changed in place; asmatrix() again'}
        ctx.case(case, tag='matrix-stale')
        col = np.array(xm.asmatrix(), dtype=float)[:, 0]
        exp = np.zeros(N); 
        for k, v in zip(xm.keys(), xm.values()):
            exp[list(alg.canon2bin.values()).index(k)] = v
        if not np.array_equal(col, exp):
            ctx.violation('first-column', case, exp.tolist(), col.tolist(), key='matrix:stale')
    for sig, twin_kw in (([0, 1, 1, 1], {'start_index': 1}), ([1, 1, 1], {'start_index': 0}), ([1, 1, 1], {})):
        alg = make_algebra(list(sig))
        twin = make_algebra(list(sig), **twin_kw)
        if not (alg == twin):
            ctx.count('twin-not-equal')
            continue
        full = list(alg.canon2bin.values())
        R = alg.multivector(name='R', keys=tuple(k for k in full if bin(k).count('1') % 2 == 0))
        x = alg.multivector(name='x', keys=tuple(k for k in full if bin(k).count('1') == 1))
        for name, f in EXPRS[:4]:
            rl_keys = rng.sample(full, 2)
            res_like = MultiVector.fromkeysvalues(twin, tuple(rl_keys), [1, 1])
            case = {'sig': list(sig), 'expr': name, 'res_like_from': 'an equal Algebra object' + (f' with {twin_kw}' if twin_kw else ''), 'res_like': rl_keys}
            ctx.case(case, tag='expr:res_like-twin')
            try:
                A, y = expr_as_matrix(f, R, x, res_like=res_like)
                ok = check_Ax(alg, f, R, x, A, y, res_like, 'res_like', np, sympy)
            except Exception as e:
                ok = 'raises ' + repr(e)[:150]
            if ok is not True:
                ctx.violation('expr-as-matrix', case, 'rows for the keys of res_like', str(ok)[:250], key='expr:res_like-twin')


def expr_pass(ctx, np, sympy, expr_as_matrix):
    from kingdon import MultiVector
    rng = ctx.rng
    for sig in ([1, 1, 1], [0, 1, 1], [1, -1]) + (() if ctx.quick else ([0, 1, 1, 1], [1, 1, 1, 1])):
        alg = make_algebra(list(sig))
        d = alg.d
        full = list(alg.canon2bin.values())
        g1 = [k for k in full if grade(k) == 1]
        even = [k for k in full if grade(k) % 2 == 0]
        for name, f in EXPRS:
            if 'hodge' in name and 0 not in sig and d != 3:
                pass
            for xkeys in (g1, rng.sample(full, min(len(full), 3))):
                for mode in ('symbolic', 'numeric', 'numeric-int', 'numeric-fraction', 'array', 'res_like'):
                    if ctx.quick and rng.random() < 0.35:
                        continue
                    Rkeys = even if rng.random() < 0.6 else rng.sample(full, min(len(full), 3))
                    if mode in ('symbolic', 'res_like'):
                        R = alg.multivector(name='R', keys=tuple(Rkeys))
                    elif mode == 'numeric':
                        R = MultiVector.fromkeysvalues(alg, tuple(Rkeys), [float(rng.randint(-3, 4)) for _ in Rkeys])
                    elif mode == 'numeric-int':         # python ints: the entries of A need not be integers
                        R = MultiVector.fromkeysvalues(alg, tuple(Rkeys), [rng.choice((1, 2, 3, -1, 5)) for _ in Rkeys])
                    elif mode == 'numeric-fraction':
                        from fractions import Fraction
                        R = MultiVector.fromkeysvalues(alg, tuple(Rkeys), [Fraction(rng.randint(-3, 4), rng.choice((1, 2, 3))) for _ in Rkeys])
                    else:
                        R = MultiVector.fromkeysvalues(alg, tuple(Rkeys), [np.array([float(rng.randint(-3, 4)), float(rng.randint(1, 3))]) for _ in Rkeys])
                    x = alg.multivector(name='x', keys=tuple(xkeys))
                    case = {'sig': list(sig), 'expr': name, 'mode': mode, 'Rkeys': Rkeys, 'xkeys': list(xkeys)}
                    kw = {}
                    if mode == 'res_like':
                        rl_keys = rng.sample(full, min(len(full), 2))
                        # only the keys of res_like matter: its values may be a list, an ndarray (of ones or zeros), a tuple
                        vform = rng.choice(['list', 'ndarray-ones', 'ndarray-zeros', 'tuple', 'list-zeros'])
                        vals = {'list': [1] * len(rl_keys), 'ndarray-ones': np.ones(len(rl_keys)), 'ndarray-zeros': np.zeros(len(rl_keys)),
                                'tuple': tuple([1] * len(rl_keys)), 'list-zeros': [0] * len(rl_keys)}[vform]
                        kw['res_like'] = MultiVector.fromkeysvalues(alg, tuple(rl_keys), vals)
                        case['res_like'] = rl_keys
                        case['res_like_values'] = vform
                    ctx.case(case, tag='expr:' + mode)
                    try:
                        A, y = expr_as_matrix(f, R, x, **kw)
                    except Exception as e:
                        ctx.count('expr-raises:' + type(e).__name__)
                        if mode in ('symbolic', 'numeric', 'numeric-int', 'res_like'):
                            ctx.violation('expr-raises', case, 'A, y', repr(e)[:200], key=f'expr:raises:{mode}:{type(e).__name__}')
                        continue
                    try:
                        ok = check_Ax(alg, f, R, x, A, y, kw.get('res_like'), mode, np, sympy)
                    except Exception as e:
                        ok = 'check failed: ' + repr(e)[:150]
                    if ok is not True:
                        ctx.violation('expr-as-matrix', case, 'A . coefficients(x) == coefficients(y) and y == f(.., x)', str(ok)[:300], key=f'expr:{mode}')


def check_Ax(alg, f, R, x, A, y, res_like, mode, np, sympy):
    xs = list(x.values())
    ykeys = list(y.keys())
    if res_like is not None:
        if tuple(ykeys) != tuple(res_like.keys()):
            return f'y keys {ykeys} != res_like keys {list(res_like.keys())}'
    if mode == 'array':
        # evaluate at the two array positions
        for pos in range(2):
            Rp = R[pos]
            def at(e):
                e = np.asarray(e)
                return e.reshape(-1)[pos] if e.ndim >= 1 and e.size > 1 else e.reshape(-1)[0]
            yp = f(Rp, x)
            for i, k in enumerate(ykeys):
                yi = sympy.sympify(getattr(yp, alg.bin2canon[k]))
                row = sum(sympy.nsimplify(float(at(A[i][j]))) * xs[j] for j in range(len(xs)))
                if sympy.simplify(sympy.expand(sympy.nsimplify(yi) - row)) != 0:
                    return f'array position {pos}, blade {k}: A.x = {row}, y = {yi}'
                yret = np.asarray(list(y.values())[i], dtype=object).reshape(-1)
                yr = yret[pos] if yret.size > 1 else yret[0]
                if sympy.simplify(sympy.expand(sympy.nsimplify(sympy.sympify(yr)) - row)) != 0:
                    return f'array position {pos}, blade {k}: returned y = {yr}, A.x = {row}'
        return True
    yf = f(R, x)          # y = f(.., x) (restricted to the res_like keys)
    for i, k in enumerate(ykeys):
        yi_direct = sympy.sympify(getattr(yf, alg.bin2canon[k]))
        yi = sympy.sympify(list(y.values())[i])
        if sympy.simplify(sympy.expand(yi - yi_direct)) != 0:
            return f'y differs from f(.., x) on blade {k}: {yi} vs {yi_direct}'
        row = sum(sympy.sympify(A[i, j]) * xs[j] for j in range(len(xs)))
        if sympy.simplify(sympy.expand(yi - row)) != 0:
            return f'blade {k}: A.x = {row}, y = {yi}'
    return True

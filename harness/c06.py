"""C06 — sandwich, projection and squared norm equal their defining compositions.

Tie:    the real generated functions alg.sw / alg.proj / alg.normsq, identified as polynomial maps by the tracer ring,
        vs. the Lean model of the generation path (symbolic RationalPolynomial operands through gp / ip / reverse with the
        falsy-coefficient filter after every step: Gen6.swGen / projGen / normsqGen).
Oracle: on the real code the same function vs. a*b*~a, (a|b)*~b, a*~a built from the elementary operators, blade by
        blade as polynomial maps (so a blade may be missing only if its coefficient is identically zero).
"""
from harness.common import *
from harness.opcorr import *


def highdim_pass(ctx):
    """d = 4, 5: the structured operands where shortcuts that are valid up to three dimensions stop being valid
    (non-simple k-vectors, non-versor left operands with scalar / vector right operands, results with grade >= 4
    parts); real code only, generated function vs. composition of elementary operators as polynomial maps"""
    rng = ctx.rng
    algs = [make_algebra([1, 1, 1, 1]), make_algebra([1, -1, -1, -1]),
            make_algebra([0, 1, 1, 1], basis=["e", "e1", "e2", "e3", "e0", "e01", "e02", "e03", "e12", "e31", "e23", "e032", "e013", "e021", "e123", "e0123"])]
    if not ctx.quick:
        algs.append(make_algebra([1, 1, 1, 1, -1]))
    alg5 = make_algebra([1, 1, 1, 1, 1])
    for alg in algs + [alg5]:
        d = alg.d
        full = list(alg.canon2bin.values())
        g = {r: [k for k in full if grade(k) == r] for r in range(d + 1)}
        even = [k for k in full if grade(k) % 2 == 0]
        if alg is alg5:
            xs = [g[2][:4] + g[4][:1], [0] + g[3][:3], [3, 12, 17]]
            ys = [[0], g[1][:3]]
            ns = [[7, 25], [3, 12], g[2][:5]]
        else:
            xs = [g[2], [0] + g[3], g[1] + g[2][:3], even, [3, 12]]
            ys = [[0], g[1], [0] + g[1][:2], g[2][:2]]
            ns = [g[2], [3, 12], g[3], g[1] + g[2][:2], [5, 10]]
            if ctx.quick:
                xs = rng.sample(xs, 3) + [g[2]] if g[2] not in xs[:0] else xs
                xs = [list(t) for t in dict.fromkeys(tuple(t) for t in xs)]
        desc = {'sig': [int(v) for v in alg.signature], 'pass': 'highdim'}
        for kx in xs:
            x = tracer_mv(alg, kx, 0)
            for ky in ys:
                y = tracer_mv(alg, ky, 1000)
                for op, real, comp in (('sw', lambda: x >> y, lambda: x * y * ~x), ('proj', lambda: x @ y, lambda: (x | y) * ~y)):
                    case = {**desc, 'op': op, 'kx': kx, 'ky': ky}
                    ctx.case(case, tag=f'highdim:{op}:d{d}')
                    try:
                        zd, exp = mv_to_dict(real()), mv_to_dict(comp())
                    except Exception as e:
                        ctx.violation('raises', case, 'a multivector', repr(e)[:300], key=f'{op}:raises:{type(e).__name__}')
                        continue
                    if not dict_equal(zd, exp):
                        missing = sorted(set(exp) - set(zd))
                        ctx.violation('composition', {**case, 'blades_missing': missing}, canon_dict(exp), canon_dict(zd),
                                      key=f'{op}:composition' + (':dropped-blade' if missing else ''))
        if alg is alg5:
            # a large right operand stored densely in binary key order (asfullmv(canonical=False)): canonical vs binary layout
            yb = tracer_mv(alg, list(range(2 ** d)), 1000)
            yc = tracer_mv(alg, full, 1000)
            for kx in ([1, 2, 4, 8, 16], [3, 5, 6, 9, 10, 0]):
                x = tracer_mv(alg, kx, 0)
                for op, real, comp in (('proj', lambda y: x @ y, lambda y: (x | y) * ~y),):
                    for layout, y in (('binary', yb), ('canonical', yc)):
                        case = {**desc, 'op': op, 'kx': kx, 'ky': 'dense, ' + layout + ' key order'}
                        ctx.case(case, tag=f'highdim:{op}:dense')
                        try:
                            zd, exp = mv_to_dict(real(y)), mv_to_dict(comp(y))
                        except Exception as e:
                            ctx.violation('raises', case, 'a multivector', repr(e)[:300], key=f'{op}:raises:{type(e).__name__}')
                            continue
                        if not dict_equal(zd, exp):
                            ctx.violation('composition', case, canon_dict(exp)[:300], canon_dict(zd)[:300], key=f'{op}:composition:dense')
        for kx in ns:
            x = tracer_mv(alg, kx, 0)
            case = {**desc, 'op': 'normsq', 'kx': kx}
            ctx.case(case, tag=f'highdim:normsq:d{d}')
            try:
                zd, exp = mv_to_dict(x.normsq()), mv_to_dict(x * ~x)
            except Exception as e:
                ctx.violation('raises', case, 'a multivector', repr(e)[:300], key=f'normsq:raises:{type(e).__name__}')
                continue
            if not dict_equal(zd, exp):
                missing = sorted(set(exp) - set(zd))
                ctx.violation('composition', {**case, 'blades_missing': missing}, canon_dict(exp), canon_dict(zd),
                              key='normsq:composition' + (':dropped-blade' if missing else ''))


def registered_order_pass(ctx):
    """sw / proj / normsq inside registered (compiled) functions, with and without a wrapper and nested in another registered
    function, called in an interleaved history with operands that store the same blades in different orders: every call equals
    the composition of elementary operators on the same operands"""
    from fractions import Fraction
    from kingdon import MultiVector
    rng = ctx.rng
    ident = lambda f: f
    for sig in ([1, 1, 1], [0, 1, 1]):
        for wname, wrapper in (('no-wrapper', None), ('wrapper', ident)):
            alg = make_algebra(sig, wrapper=wrapper) if wrapper else make_algebra(sig)
            @alg.register
            def r_sw(a, b): return a >> b
            @alg.register
            def r_proj(a, b): return a @ b
            @alg.register
            def r_nsq(a, b): return a.normsq() + b.normsq()
            @alg.register
            def r_nested(a, b): return r_sw(a, b) + r_proj(a, b)
            funcs = {'sw': (r_sw, lambda a, b: a * b * ~a), 'proj': (r_proj, lambda a, b: (a | b) * ~b),
                     'normsq': (r_nsq, lambda a, b: a * ~a + b * ~b), 'nested': (r_nested, lambda a, b: a * b * ~a + (a | b) * ~b)}
            base = [(0, 3, 5), (1, 2, 4), (0, 1, 6)]
            orders = []
            for ks_ in base:
                perm = list(ks_); rng.shuffle(perm)
                if tuple(perm) == ks_:
                    perm = perm[1:] + perm[:1]
                orders.append((ks_, tuple(perm)))
            for name, (rf, comp) in funcs.items():
                hist = []
                for ks_, perm in orders:
                    hist += [(ks_, base[1]), (perm, base[1]), (ks_, base[1]), (base[1], perm), (base[1], ks_)]
                for kx, ky in hist:
                    a = MultiVector.fromkeysvalues(alg, tuple(kx), [Fraction(rng.randint(1, 9)) for _ in kx])
                    b = MultiVector.fromkeysvalues(alg, tuple(ky), [Fraction(rng.randint(1, 9)) for _ in ky])
                    case = {'sig': sig, 'route': 'registered:' + wname, 'f': name, 'kx': list(kx), 'ky': list(ky)}
                    ctx.case(case, tag='registered-order')
                    try:
                        exp = mv_to_dict(comp(a, b))
                    except ZeroDivisionError:
                        continue
                    try:
                        got = mv_to_dict(rf(a, b))
                    except Exception as ex:
                        got = 'raises ' + repr(ex)[:150]
                    if got != exp:
                        ctx.violation('registered-composition', case, str(exp)[:250], str(got)[:250], key=f'{name}:registered-order:{wname}')
                        break


def symbolic_options_pass(ctx):
    """sw / proj / normsq applied to intermediate results inside functions registered with symbolic=True, under the options that
    decide how coefficients are simplified and printed - codegen_symbolcls=sympy.Symbol, a simp_func that does not expand
    (identity, factor), cse on and off: the compiled function returns what the composition of elementary operators returns"""
    import sympy
    from fractions import Fraction
    from kingdon import MultiVector
    rng = ctx.rng
    def norm_of_sw(R, x): return (R >> x).normsq()
    def proj_on_sw(R, x): return x @ (R >> x)
    def sw_of_product(R, x): return (R * x) >> x
    def normsq_of_sum(R, x): return (R + x).normsq()
    comps = {'norm_of_sw': lambda R, x: (lambda y: y * ~y)(R * x * ~R), 'proj_on_sw': lambda R, x: (lambda y: (x | y) * ~y)(R * x * ~R),
             'sw_of_product': lambda R, x: (R * x) * x * ~(R * x), 'normsq_of_sum': lambda R, x: (R + x) * ~(R + x)}
    variants = [('symcls=sympy,simp=identity', {'codegen_symbolcls': sympy.Symbol, 'simp_func': (lambda v: v)}),
                ('symcls=sympy,simp=identity,cse=False', {'codegen_symbolcls': sympy.Symbol, 'simp_func': (lambda v: v), 'cse': False}),
                ('symcls=sympy,simp=factor', {'codegen_symbolcls': sympy.Symbol, 'simp_func': (lambda v: sympy.factor(v) if isinstance(v, sympy.Expr) else v)}),
                ('simp=identity', {'simp_func': (lambda v: v)}), ('cse=False', {'cse': False})]
    for sig in ([1, 1, 1], [0, 1, 1]):
        plain = make_algebra(sig)
        for optname, kw in variants:
            alg = make_algebra(sig, **kw)
            for f in (norm_of_sw, proj_on_sw, sw_of_product, normsq_of_sum):
                kR = rng.choice([[0, 3], [0, 3, 5], [1, 2]]); kx = rng.choice([[1, 2], [1, 2, 4], [3, 5]])
                vR = [Fraction(rng.randint(1, 5)) for _ in kR]; vx = [Fraction(rng.randint(1, 5)) for _ in kx]
                case = {'sig': sig, 'options': optname, 'registered_symbolic': f.__name__, 'kR': kR, 'kx': kx, 'vR': [str(v) for v in vR], 'vx': [str(v) for v in vx]}
                ctx.case(case, tag='symbolic-options')
                try:
                    exp = mv_to_dict(comps[f.__name__](MultiVector.fromkeysvalues(plain, tuple(kR), list(vR)), MultiVector.fromkeysvalues(plain, tuple(kx), list(vx))))
                except ZeroDivisionError:
                    continue
                try:
                    got = mv_to_dict(alg.register(symbolic=True)(f)(MultiVector.fromkeysvalues(alg, tuple(kR), list(vR)), MultiVector.fromkeysvalues(alg, tuple(kx), list(vx))))
                except ZeroDivisionError:
                    continue
                except Exception as ex:
                    ctx.violation('registered-composition', case, str(exp)[:200], 'raises ' + repr(ex)[:150], key=f'{f.__name__}:symbolic-options:raises')
                    continue
                if got != exp:
                    ctx.violation('registered-composition', case, str(exp)[:250], str(got)[:250], key=f'{f.__name__}:symbolic-options')


def run(ctx):
    ctx.rule = ('per configuration (signatures d<=2 all, d=3,4 sampled, 2DPGA/3DPGA, seeded custom bases; d=5 thorough) ordered pairs of '
                'key tuples: all subset pairs for d<=2 (sampled in quick), grade-block and random sparse patterns above; '
                'each of sw, proj, normsq compared as a polynomial map with the model of the generation path and with the '
                'composition of elementary operators on the real code; non-trivial = both operands non-empty')
    ctx.lean_prepare()
    rng = ctx.rng
    cache = AlgCache()
    R = OpRun(ctx)
    cfgs = []
    for d in (1, 2):
        for s in all_signatures(d):
            cfgs.append(('sig', s, None, None))
    for s in rng.sample(all_signatures(3), 6 if ctx.quick else 27):
        cfgs.append(('sig', s, None, None))
    for s in rng.sample(all_signatures(4), 3 if ctx.quick else 20):
        cfgs.append(('sig', s, None, None))
    cfgs.append(('named', [0, 1, 1], None, ["e", "e1", "e2", "e0", "e20", "e01", "e12", "e012"]))
    cfgs.append(('named', [0, 1, 1, 1], None, ["e", "e1", "e2", "e3", "e0", "e01", "e02", "e03", "e12", "e31", "e23", "e032", "e013", "e021", "e123", "e0123"]))
    for _ in range(2 if ctx.quick else 12):
        d = rng.choice([2, 3])
        cfgs.append(('custom', [rng.choice((1, -1, 0)) for _ in range(d)], None, random_custom_basis(rng, d)))
    # start indices: blade names with other digits, among them the hex letters (ea, eb, eab: the generated symbols then
    # contain letters after the operand letter)
    cfgs += [('start', [1, 1], 10, None), ('start', [1, -1, 1], 9, None), ('start', [0, 1, 1], 13, None), ('start', [1, 1, 1], 0, None),
             ('start', [rng.choice((1, -1, 0)) for _ in range(2)], rng.choice((2, 5, 11, 14)), None)]
    if not ctx.quick:
        for _ in range(3):
            cfgs.append(('sig', [rng.choice((1, -1, 0)) for _ in range(5)], None, None))
    for tag, sig, start, basis in cfgs:
        alg = cache.get(sig, start, basis)
        tok = tok_of(alg, basis)
        d = alg.d
        desc = {'sig': sig, 'basis': basis}
        full = list(alg.canon2bin.values())
        if d <= 2:
            subs = all_subsets(d)
            pats = [(a, b) for a in subs for b in subs]
            if ctx.quick and d == 2:
                pats = rng.sample(pats, 45)
            # permuted variants
            extra = key_tuples(rng, d, 4, ['perm', 'subset'])
            pats += [(extra[0], extra[1]), (extra[2], extra[3])]
        else:
            n = (16 if d == 3 else 6) if ctx.quick else (60 if d == 3 else 25 if d == 4 else 6)
            ts = key_tuples(rng, d, 2 * n, ['grades', 'small', 'subset', 'single'])
            pats = []
            for i in range(n):
                a, b = ts[2 * i] or full, ts[2 * i + 1] or full
                lim = 4 if d >= 4 else 6
                pats.append((a[:lim], b[:lim]))
            # grade blocks (valid in every mode): even versor on vector / bivector etc.
            even = [k for k in full if grade(k) % 2 == 0]
            g1 = [k for k in full if grade(k) == 1]
            g2 = [k for k in full if grade(k) == 2]
            if d == 3 or not ctx.quick:
                pats += [(even, g1), (g1, g2), (g2, g1)] if d <= 3 else [(g1, g2), (g2[:3], g1)]
        for kx, ky in pats:
            kx = list(dict.fromkeys(kx)); ky = list(dict.fromkeys(ky))
            x, y = tracer_mv(alg, kx, 0), tracer_mv(alg, ky, 1000)
            for op, real, comp in (('sw', lambda: x >> y, lambda: x * y * ~x), ('proj', lambda: x @ y, lambda: (x | y) * ~y),
                                   ('normsq', lambda: x.normsq(), lambda: x * ~x)):
                if op == 'normsq' and ky != pats[0][1] and rng.random() < 0.5:
                    continue
                case = {**desc, 'op': op, 'kx': kx, 'ky': ky if op != 'normsq' else []}
                try:
                    zd = mv_to_dict(real())
                except Exception as e:
                    ctx.violation('raises', case, 'a multivector', repr(e)[:300], key=f'{op}:raises:{type(e).__name__}')
                    continue
                ctx.case(case, nontrivial=bool(kx) and (bool(ky) or op == 'normsq'), tag=f'op:{op}')
                ctx.count(f'd={d}')
                exp = mv_to_dict(comp())
                if not dict_equal(zd, exp):
                    missing = sorted(set(exp) - set(zd))
                    ctx.violation('composition', {**case, 'blades_missing': missing}, canon_dict(exp), canon_dict(zd),
                                  key=f'{op}:composition' + (':dropped-blade' if missing else ''))
                R.lines.append(f'gen6 {op} {tok} {ks(kx)} {ks(ky) if op != "normsq" else "-"}')
                R.plan.append((case, canon_dict(zd)))
    R.flush()
    highdim_pass(ctx)
    registered_order_pass(ctx)
    symbolic_options_pass(ctx)
    # the same multivector object after in-place updates of its coefficients (stale state)
    import numpy as np
    from fractions import Fraction
    from kingdon import MultiVector
    for sig in ([1, 1, 1], [0, 1, 1]):
        alg = cache.get(sig)
        a = MultiVector.fromkeysvalues(alg, (1, 2, 4), [np.array([1.0, 2.0]), np.array([3.0, 5.0]), np.array([-2.0, 1.0])])
        b = MultiVector.fromkeysvalues(alg, (3, 5), [np.array([2.0, 1.0]), np.array([1.0, 4.0])])
        lst = [Fraction(2), Fraction(3), Fraction(5)]
        c = MultiVector.fromkeysvalues(alg, (1, 2, 6), lst)
        for step in range(3):
            for nm, real, comp in (('normsq', lambda: a.normsq(), lambda: a * ~a), ('sw', lambda: a >> b, lambda: a * b * ~a),
                                   ('proj', lambda: a @ b, lambda: (a | b) * ~b), ('normsq-list', lambda: c.normsq(), lambda: c * ~c),
                                   ('norm', lambda: (a.norm() * a.norm()), lambda: a * ~a)):
                l, r = real(), comp()
                ctx.case(('inplace', sig, step, nm), tag='inplace-update')
                dl = {k: np.array(v, dtype=float) for k, v in zip(l.keys(), l.values())}
                dr = {k: np.array(v, dtype=float) for k, v in zip(r.keys(), r.values())}
                ok = all(np.allclose(dl.get(k, 0.0), dr.get(k, 0.0)) for k in set(dl) | set(dr))
                if not ok:
                    ctx.violation('composition-after-update', {'sig': sig, 'op': nm, 'updates_before': step}, str(dr), str(dl), key=f'{nm}:stale')
            a[0] = MultiVector.fromkeysvalues(alg, (1, 2, 4), [7.0 + step, -1.0, 2.0])      # in-place update of element 0
            lst[1] = Fraction(11 + step)                                                  # writes into the list passed as values
    ctx.assumptions = ["sympy's cse and printer sit between kingdon's polynomials and the compiled text: covered by the tracer "
                       'correspondence only', 'dense operands in d >= 4 take seconds to minutes each and are not in the quick tier']

"""C12 — symbolic evaluation commutes with numeric evaluation.

Theorem side: naturality of every generator in the coefficient ring (Properties/C12.lean).
Oracle on the real code: op(xs, ys) with symbolic (sympy) or mixed coefficients, then numbers substituted — by sympy
`subs` (compared exactly) and by calling the resulting multivector positionally / by keyword (compared to 1e-9: the call
route prints Rational literals as float divisions) — against op(xn, yn) on numeric operands holding those values.
"""
import itertools, warnings
from fractions import Fraction
from harness.common import *
from harness.opcorr import BIN, UN, key_tuples

BINS = ['gp', 'op', 'ip', 'lc', 'rc', 'sp', 'cp', 'acp', 'rp', 'add', 'sub', 'sw', 'proj', 'div']
UNS = ['neg', 'reverse', 'involute', 'conjugate', 'hodge', 'unhodge', 'normsq', 'inv', 'polarity', 'unpolarity', 'outerexp']
SLOW = {'sw', 'proj', 'div', 'inv', 'normsq', 'outerexp'}


def to_frac(v):
    import sympy
    if isinstance(v, Fraction):
        return v
    if isinstance(v, int):
        return Fraction(v)
    if isinstance(v, sympy.Expr):
        v = sympy.nsimplify(v) if not v.is_Rational else v
        if v.is_Rational:
            return Fraction(int(v.p), int(v.q))
        raise ValueError(f'not rational: {v}')
    if isinstance(v, float):
        return v
    return Fraction(v)


def mv_vals(mv):
    d = {}
    for k, v in zip(mv.keys(), mv.values()):
        d[k] = d.get(k, 0) + v
    return d


def run(ctx):
    import sympy
    from kingdon import MultiVector
    warnings.simplefilter('ignore')
    ctx.rule = ('operators x small key patterns x partitions of the coefficients into symbolic (sympy symbols / string coefficients) and '
                'numeric, rational values away from poles; routes: subs (exact), positional call and keyword call (1e-9); a case is one '
                '(operator, pattern, partition, route); plus the binding order of positional/keyword arguments for symbol names of '
                'mixed length')
    ctx.lean_prepare()
    rng = ctx.rng
    cfgs = [[1, 1], [1, 1, 1], [0, 1, 1], [1, -1, 1]] + ([] if ctx.quick else [[1, 1, 1, 1], [0, 1, 1, 1], [1, -1], [-1, -1, 0]])
    for sig in cfgs:
        alg = make_algebra(sig)
        d = alg.d
        full = list(alg.canon2bin.values())
        npat = 12 if ctx.quick else 40
        for _ in range(npat):
            kx = list(dict.fromkeys(key_tuples(rng, d, 1, ['small', 'grades', 'single'])[0] or [1]))[:3]
            ky = list(dict.fromkeys(key_tuples(rng, d, 1, ['small', 'grades', 'single'])[0] or [2]))[:3]
            for op in BINS + UNS:
                if op in SLOW and rng.random() < (0.6 if ctx.quick else 0.2):
                    continue
                if op == 'outerexp' and len({bin(k).count('1') for k in kx}) != 1:
                    continue
                binary = op in BIN and op in BINS
                # partition of coefficients: 's' symbolic, 'n' numeric, 'str' string coefficient
                partx = [rng.choice(['s', 's', 'n', 'str']) for _ in kx]
                party = [rng.choice(['s', 'n']) for _ in ky]
                if all(p == 'n' for p in partx + (party if binary else [])):
                    partx[0] = 's'
                valx = [Fraction(rng.randint(1, 9), rng.choice([1, 2, 3])) * rng.choice([1, -1]) for _ in kx]
                valy = [Fraction(rng.randint(1, 9), rng.choice([1, 2])) * rng.choice([1, -1]) for _ in ky]
                symx = [sympy.Symbol(f'x{alg.bin2canon[k][1:]}') for k in kx]
                symy = [sympy.Symbol(f'y{alg.bin2canon[k][1:]}') for k in ky]
                def build(keys, part, vals, syms):
                    vs = []
                    for p, v, s in zip(part, vals, syms):
                        vs.append(s if p == 's' else (s.name if p == 'str' else sympy.Rational(v.numerator, v.denominator)))
                    return alg.multivector(keys=tuple(keys), values=vs)
                xs = build(kx, partx, valx, symx)
                ys = build(ky, party, valy, symy)
                xn = MultiVector.fromkeysvalues(alg, tuple(kx), list(valx))
                yn = MultiVector.fromkeysvalues(alg, tuple(ky), list(valy))
                case = {'sig': sig, 'op': op, 'kx': kx, 'ky': ky if binary else [], 'partition': [partx, party if binary else []],
                        'values': [[str(v) for v in valx], [str(v) for v in valy] if binary else []]}
                try:
                    num = BIN[op](xn, yn) if binary else UN[op](xn)
                    num_d = {k: v for k, v in mv_vals(num).items() if v != 0}
                    nerr = None
                except ZeroDivisionError:
                    continue          # pole
                except Exception as e:
                    ctx.count('numeric-raises:' + type(e).__name__)
                    continue
                try:
                    sym = BIN[op](xs, ys) if binary else UN[op](xs)
                except ZeroDivisionError:
                    ctx.count('symbolic-zerodiv')
                    continue
                except Exception as e:
                    ctx.violation('symbolic-raises', case, 'a symbolic multivector', repr(e)[:200], key=f'symbolic:raises:{op}:{type(e).__name__}')
                    continue
                subsmap = {s: sympy.Rational(v.numerator, v.denominator) for s, v in list(zip(symx, valx)) + list(zip(symy, valy))}
                # route 1: subs (exact)
                ctx.case({**case, 'route': 'subs'}, tag=f'subs:{op}')
                try:
                    got = {}
                    for k, v in mv_vals(sym).items():
                        vv = sympy.sympify(v).subs(subsmap)
                        vv = sympy.nsimplify(sympy.simplify(vv))
                        f = to_frac(vv)
                        if f != 0:
                            got[k] = f
                    exp = {k: (to_frac(v) if not isinstance(v, float) else v) for k, v in num_d.items()}
                    if not same(got, exp, exact=(op != 'outerexp')):
                        ctx.violation('subs-differs', {**case, 'route': 'subs'}, {k: str(v) for k, v in exp.items()}, {k: str(v) for k, v in got.items()},
                                      key=f'subs:{op}')
                except ZeroDivisionError:
                    pass
                except ValueError as e:
                    ctx.count('subs-not-rational')
                # route 2/3: call
                free = sorted(sym.free_symbols, key=lambda s: s.name)
                if free:
                    vals_by_name = {s.name: float(subsmap[s]) for s in free}
                    for route in ('call-positional', 'call-keyword'):
                        ctx.case({**case, 'route': route}, tag=f'{route}')
                        try:
                            r = sym(*[vals_by_name[s.name] for s in free]) if route == 'call-positional' else sym(**vals_by_name)
                            got = {k: float(v) for k, v in mv_vals(r).items()}
                            expf = {k: float(v) for k, v in num_d.items()}
                            if not same(got, expf, exact=False):
                                ctx.violation('call-differs', {**case, 'route': route}, expf, got, key=f'{route}:{op}')
                        except ZeroDivisionError:
                            pass
                        except Exception as e:
                            ctx.violation('call-raises', {**case, 'route': route}, 'a multivector', repr(e)[:200], key=f'{route}:raises:{type(e).__name__}')
    binding_pass(ctx)
    irrational_pass(ctx)
    call_route_pass(ctx)
    ctx.assumptions = ['sympy (simplify, expand, subs, printing) is the symbolic ring: that its zero test is sound is trusted',
                       'the call route evaluates Rational literals in floating point: compared with tolerance, never claimed exact']


def same(a, b, exact):
    keys = set(a) | set(b)
    for k in keys:
        x, y = a.get(k, 0), b.get(k, 0)
        if exact and not isinstance(x, float) and not isinstance(y, float):
            if x != y:
                return False
        else:
            if abs(float(x) - float(y)) > 1e-9 * max(1.0, abs(float(y))):
                return False
    return True


def binding_pass(ctx):
    """positional arguments bind to the free symbols in name order, keyword arguments by name"""
    import sympy
    rng = ctx.rng
    for sig in ([1, 1], [1, 1, 1], [0, 1, 1]):
        alg = make_algebra(sig)
        for name in ('x', 'ab', 'u'):
            x = alg.multivector(name=name)            # symbols name, name1, name2, name12, ... : mixed lengths
            syms = sorted(x.free_symbols, key=lambda s: s.name)
            vals = {s.name: float(i + 2) for i, s in enumerate(syms)}
            exp = {k: vals[str(v)] for k, v in zip(x.keys(), x.values())}
            for route in ('positional', 'keyword', 'keyword-shuffled'):
                ctx.case(('binding', tuple(sig), name, route), tag='binding')
                if route == 'positional':
                    r = x(*[vals[s.name] for s in syms])
                elif route == 'keyword':
                    r = x(**vals)
                else:
                    items = list(vals.items()); rng.shuffle(items)
                    r = x(**dict(items))
                got = {k: float(v) for k, v in zip(r.keys(), r.values())}
                if got != exp:
                    ctx.violation('binding', {'sig': sig, 'name': name, 'route': route, 'symbols_in_name_order': [s.name for s in syms]}, exp, got,
                                  key=f'binding:{route}')
            # a product, called
            y = alg.multivector(name='y', keys=tuple(list(alg.canon2bin.values())[:2]))
            z = x * y
            fs = sorted(z.free_symbols, key=lambda s: s.name)
            v2 = {s.name: float(rng.randint(1, 5)) for s in fs}
            r = z(*[v2[s.name] for s in fs])
            from kingdon import MultiVector
            xn = MultiVector.fromkeysvalues(alg, tuple(x.keys()), [v2[str(v)] for v in x.values()])
            yn = MultiVector.fromkeysvalues(alg, tuple(y.keys()), [v2[str(v)] for v in y.values()])
            e = mv_vals(xn * yn)
            g = {k: float(v) for k, v in mv_vals(r).items()}
            ctx.case(('binding-product', tuple(sig), name), tag='binding')
            if not same(g, {k: float(v) for k, v in e.items()}, exact=False):
                ctx.violation('binding', {'sig': sig, 'name': name, 'route': 'product-positional'}, e, g, key='binding:product')


def irrational_pass(ctx):
    """norm, normalized, sqrt and exp (roots, cos/sinc): symbolic result with numbers substituted — of either sign — against
    the same operator on float operands; compared as complex numbers to 1e-9"""
    import sympy
    from kingdon import MultiVector
    rng = ctx.rng
    for sig in ([1, 1], [1, 1, 1], [1, 1, 1, -1], [0, 1, 1], [1, -1]):
        alg = make_algebra(sig)
        d = alg.d
        N = 2 ** d
        singles = [[k] for k in range(1, N)]
        rng.shuffle(singles)
        vectors = [[1 << i for i in range(d)][:n] for n in (2, 3) if n <= d]
        study = [[0, k] for k in (3 % N, N - 1) if k]
        for op in ('norm', 'normalized', 'sqrt', 'exp'):
            pats = {'norm': singles[:4] + vectors, 'normalized': singles[:4] + vectors, 'sqrt': study + [[0]], 'exp': singles[:5] + vectors[:1]}[op]
            for kx in pats:
                for signs in ([1] * len(kx), [-1] * len(kx), [rng.choice([1, -1]) for _ in kx]):
                    part = [rng.choice(['s', 's', 'n']) for _ in kx]
                    if all(p == 'n' for p in part):
                        part[0] = 's'
                    vals = [sg * Fraction(rng.randint(1, 9), rng.choice([1, 2, 4])) for sg in signs]
                    syms = [sympy.Symbol(f't{alg.bin2canon[k][1:]}') for k in kx]
                    xs = alg.multivector(keys=tuple(kx), values=[s if p == 's' else sympy.Rational(v.numerator, v.denominator) for p, v, s in zip(part, vals, syms)])
                    xn = MultiVector.fromkeysvalues(alg, tuple(kx), [float(v) for v in vals])
                    case = {'sig': sig, 'op': op, 'kx': kx, 'partition': part, 'values': [str(v) for v in vals]}
                    try:
                        num = {k: complex(v) for k, v in mv_vals(UN[op](xn)).items()}
                    except Exception as e:
                        ctx.count('irrational-numeric-raises:' + type(e).__name__)
                        continue
                    if any(v != v or abs(v) == float('inf') for v in num.values()):
                        continue
                    try:
                        sym = UN[op](xs)
                    except Exception as e:
                        ctx.count('irrational-symbolic-raises:' + type(e).__name__)
                        continue
                    subsmap = {s: sympy.Float(float(v)) for s, v in zip(syms, vals)}
                    ctx.case({**case, 'route': 'subs'}, tag=f'irrational:{op}')
                    try:
                        got = {}
                        for k, v in mv_vals(sym).items():
                            got[k] = complex(sympy.N(sympy.sympify(v).subs(subsmap)))
                    except Exception as e:
                        ctx.count('irrational-subs-raises:' + type(e).__name__)
                        continue
                    bad = [k for k in set(got) | set(num) if abs(got.get(k, 0) - num.get(k, 0)) > 1e-9 * max(1.0, abs(num.get(k, 0)))]
                    if bad:
                        ctx.violation('subs-differs', {**case, 'route': 'subs'}, {k: str(v) for k, v in num.items()}, {k: str(v) for k, v in got.items()},
                                      key=f'subs:{op}')


def call_route_pass(ctx):
    """evaluation by *calling*: (1) several symbolic multivectors with the same key tuple on algebras with and without a
    wrapper, interleaved; (2) coefficients that still contain powers of sums when they are printed (string coefficients
    such as '(a + b)**2', a non-expanding simp_func): the call must agree with sympy substitution"""
    import sympy
    rng = ctx.rng
    ident = lambda f: f
    for wrapper in (None, ident):
        alg = make_algebra([1, 1], **({'wrapper': wrapper} if wrapper else {}))
        u = alg.vector(name='u'); v = alg.vector(name='v')
        mvs = {'u*v': u * v, 'v*u': v * u, 'u+v': u + v, '2u-v': 2 * u - v}
        order = list(mvs) * 3
        rng.shuffle(order)
        for step, nm in enumerate(order):
            m = mvs[nm]
            fs = sorted(m.free_symbols, key=lambda sy: sy.name)
            vals = {sy: Fraction(rng.randint(1, 9), rng.choice([1, 2])) for sy in fs}
            exp = {k: float(sympy.sympify(c).subs({sy: sympy.Rational(x.numerator, x.denominator) for sy, x in vals.items()})) for k, c in zip(m.keys(), m.values())}
            case = {'wrapper': bool(wrapper), 'multivector': nm, 'step': step}
            ctx.case(case, tag='call-route:interleaved')
            try:
                r = m(*[float(vals[sy]) for sy in fs])
                got = {k: float(c) for k, c in zip(r.keys(), r.values())}
            except Exception as e:
                ctx.violation('call-raises', case, exp, repr(e)[:200], key='call-route:raises')
                continue
            if not same({k: v for k, v in got.items() if v}, {k: v for k, v in exp.items() if v}, exact=False):
                ctx.violation('call-differs', case, exp, got, key='call-route:interleaved')
    exprs = ['(a + b)**2', '(a - 2*b)**3', '(a + b)**2 - (a - b)**2', '(a*b + 1)**2', '3*(a + b)**3 + a', '(a + b + c)**2', '1/(a + b)**2', '(a + b)**4']
    for simp in (None, 'factor', 'identity'):
        kw = {}
        if simp == 'factor':
            kw['simp_func'] = lambda v: sympy.factor(v) if isinstance(v, sympy.Expr) else v
        elif simp == 'identity':
            kw['simp_func'] = lambda v: v
        alg = make_algebra([1, 1, 1], **kw)
        for _ in range(6 if ctx.quick else 30):
            ks = rng.sample(range(8), 3)
            es = [rng.choice(exprs) for _ in ks]
            try:
                x = alg.multivector(keys=tuple(ks), values=list(es))
                y = alg.multivector(keys=tuple(rng.sample(range(8), 2)), values=['a + b', 'c'])
            except Exception as e:
                ctx.count('call-route-construct-raises:' + type(e).__name__)
                continue
            for nm, m in (('x', x), ('x*y', x * y), ('x|x', x | x)):
                fs = sorted(m.free_symbols, key=lambda sy: sy.name)
                if not fs:
                    continue
                vals = {sy: Fraction(rng.randint(1, 5), rng.choice([1, 2])) * rng.choice([1, -1]) for sy in fs}
                try:
                    exp = {k: float(sympy.sympify(c).subs({sy: sympy.Rational(v_.numerator, v_.denominator) for sy, v_ in vals.items()})) for k, c in zip(m.keys(), m.values())}
                except Exception:
                    continue
                if any(e != e or abs(e) == float('inf') for e in exp.values()):
                    continue
                case = {'simp_func': simp, 'keys': ks, 'coefficients': es, 'multivector': nm, 'values': {sy.name: str(v_) for sy, v_ in vals.items()}}
                ctx.case(case, tag='call-route:powers-of-sums')
                try:
                    r = m(**{sy.name: float(v_) for sy, v_ in vals.items()})
                    got = {k: float(c) for k, c in zip(r.keys(), r.values())}
                except ZeroDivisionError:
                    continue
                except Exception as e:
                    ctx.violation('call-raises', case, exp, repr(e)[:200], key='call-route:powers:raises')
                    continue
                if not same({k: v for k, v in got.items() if abs(v) > 1e-12}, {k: v for k, v in exp.items() if abs(v) > 1e-12}, exact=False):
                    ctx.violation('call-differs', case, exp, got, key='call-route:powers-of-sums')
    # (3) results of *mixed* symbolic multivectors (some coefficients contain no symbol: ints, Fractions, floats, complex) called
    # several times, with plain numbers and with integer / float arrays: every result - inspected only after all calls were
    # made - holds the value of its own arguments, constants keep their exact value whatever the dtype of the arguments
    import numpy as np
    alg = make_algebra([1, 1, 1])
    consts = [Fraction(3, 2), 1.5, 2, Fraction(1, 2), 0.25 + 0.5j]
    for trial in range(4 if ctx.quick else 20):
        ks = rng.sample(range(8), 3)
        const = rng.choice(consts)
        coeffs = ['s', const, 's*t + 1']
        rng.shuffle(coeffs)
        m0 = alg.multivector(keys=tuple(ks), values=list(coeffs))
        other = alg.multivector(keys=tuple(rng.sample(range(8), 2)), values=[2, Fraction(1, 3)])
        for nm, m in (('x', m0), ('x.cp(y)', m0.cp(other)), ('x + y', m0 + other)):
            fs = sorted(getattr(m, 'free_symbols', []), key=lambda sy: sy.name)
            if not fs:
                continue
            argsets = [{sy.name: rng.randint(1, 9) for sy in fs}, {sy.name: rng.randint(1, 9) for sy in fs},
                       {sy.name: np.array([1, 2, 4]) + i for i, sy in enumerate(fs)}, {sy.name: np.array([0.5, 2.0]) * (i + 1) for i, sy in enumerate(fs)}]
            results = []
            case = {'keys': ks, 'coefficients': [str(c) for c in coeffs], 'multivector': nm}
            ctx.case(case, tag='call-route:mixed-constants')
            try:
                for a in argsets:
                    results.append(m(**a))
            except Exception as e:
                ctx.violation('call-raises', case, 'a multivector', repr(e)[:200], key='call-route:mixed:raises')
                continue
            for a, r in zip(argsets, results):
                bad = None
                for k, c in zip(m.keys(), m.values()):
                    got = np.asarray(dict(zip(r.keys(), r.values())).get(k, 0), dtype=complex)
                    f = sympy.lambdify([sympy.Symbol(n) for n in a], sympy.sympify(c), 'numpy')
                    exp = np.asarray(f(*[np.asarray(v, dtype=complex) for v in a.values()]), dtype=complex)
                    if not np.allclose(np.broadcast_to(got, np.broadcast(got, exp).shape), np.broadcast_to(exp, np.broadcast(got, exp).shape), rtol=1e-9, atol=1e-12):
                        bad = (k, exp.tolist(), got.tolist())
                        break
                if bad:
                    ctx.violation('call-differs', {**case, 'arguments': {n: (v.tolist() if hasattr(v, 'tolist') else v) for n, v in a.items()},
                                                   'blade': bad[0], 'inspected': 'after all calls of this multivector were made'},
                                  str(bad[1])[:200], str(bad[2])[:200], key='call-route:mixed-constants')
                    break
    # (4) coefficients that use functions whose python names differ from sympy's (Max, Min, Abs, sign) and (5) exact evaluation at
    # python ints beyond 2**53: calling the multivector agrees with sympy substitution - exactly for integer arguments
    alg = make_algebra([1, 1, 1])
    fexprs = ['Max(s, t)', 'Min(s, t)', 'Abs(s - t)', 'Max(s, t) - Min(s, t)', 's*Max(t, 1)', 'Min(s, 0) + t']
    for trial in range(4 if ctx.quick else 20):
        ks = rng.sample(range(8), 2)
        x = alg.multivector(keys=tuple(ks), values=[rng.choice(fexprs), 's'])
        y = alg.multivector(keys=tuple(rng.sample(range(8), 2)), values=['t', 2])
        for nm, m in (('x', x), ('x|y', x | y), ('x*y', x * y)):
            fs = sorted(getattr(m, 'free_symbols', []), key=lambda sy: sy.name)
            if not fs:
                continue
            for pt in ({'s': -3, 't': 0}, {'s': 2, 't': 5}, {'s': 0, 't': -1}, {'s': 4, 't': 4}):
                a = {sy.name: pt[sy.name] for sy in fs}
                case = {'keys': ks, 'coefficients': [str(c) for c in x.values()], 'multivector': nm, 'arguments': a}
                ctx.case(case, tag='call-route:named-functions')
                exp = {int(k): sympy.sympify(c).subs({sympy.Symbol(n): v for n, v in a.items()}) for k, c in zip(m.keys(), m.values())}
                for form, thunk in (('keyword', lambda: m(**a)), ('positional', lambda: m(*[a[sy.name] for sy in fs]))):
                    try:
                        r = thunk()
                        got = {int(k): sympy.sympify(v) for k, v in zip(r.keys(), r.values())}
                    except Exception as e:
                        ctx.violation('call-raises', {**case, 'form': form}, str(exp)[:200], repr(e)[:200], key='call-route:named-functions:raises')
                        break
                    if any(sympy.simplify(got.get(k, 0) - exp.get(k, 0)) != 0 for k in set(got) | set(exp)):
                        ctx.violation('call-differs', {**case, 'form': form}, str(exp)[:200], str(got)[:200], key='call-route:named-functions')
                        break
    for trial in range(3 if ctx.quick else 12):
        u = alg.vector(name='u'); v = alg.vector(name='v')
        big = [10 ** 17 + 1, 10 ** 17, 3, 10 ** 17, 10 ** 17 - 1, 2]
        rng.shuffle(big)
        for nm, m in (('u^v', u ^ v), ('u*v', u * v), ('u|v', u | v)):
            fs = sorted(m.free_symbols, key=lambda sy: sy.name)
            a = {sy.name: big[i % len(big)] + rng.randint(0, 3) for i, sy in enumerate(fs)}
            case = {'multivector': nm, 'arguments': {k_: str(v_) for k_, v_ in a.items()}}
            ctx.case(case, tag='call-route:big-ints')
            exp = {int(k): int(sympy.sympify(c).subs({sympy.Symbol(n): sympy.Integer(v_) for n, v_ in a.items()})) for k, c in zip(m.keys(), m.values())}
            try:
                r = m(**a)
                got = {int(k): v_ for k, v_ in zip(r.keys(), r.values())}
            except Exception as e:
                ctx.violation('call-raises', case, str(exp)[:200], repr(e)[:200], key='call-route:big-ints:raises')
                continue
            if any(got.get(k, 0) != exp.get(k, 0) for k in set(got) | set(exp)):
                ctx.violation('call-differs', case, str(exp)[:250], str(got)[:250], key='call-route:big-ints')
    # (6) array arguments with an exact zero at SOME sample, and a result with ONE free symbol called positionally with array-like
    # values (length 3, length 1, 0-d, 2-d): every sample of every blade equals the substitution
    alg = make_algebra([1, 1, 1])
    one = alg.multivector(keys=(1, 6), values=['s', Fraction(3, 2)]).cp(alg.multivector(keys=(2, 4), values=[1, 2]))
    two = alg.vector(name='u') * alg.multivector(keys=(1, 2), values=['t', 2])
    grids = [np.array([0.0, 1.0, 2.0]), np.array([2.0]), np.array(3.0), np.array([[0.0, 1.0], [2.0, 0.0]])]
    for nm, m in (('one free symbol', one), ('four free symbols', two)):
        fs = sorted(m.free_symbols, key=lambda sy: sy.name)
        for gi, grid in enumerate(grids):
            a = {sy.name: (grid if j == 0 else grid * 0 + (j + 1.0)) for j, sy in enumerate(fs)}
            for form in ('keyword', 'positional'):
                case = {'multivector': nm, 'argument_shape': list(np.shape(grid)), 'first_argument': np.asarray(grid).tolist(), 'form': form}
                ctx.case(case, tag='call-route:array-samples')
                try:
                    r = m(**a) if form == 'keyword' else m(*[a[sy.name] for sy in fs])
                    rd = dict(zip(r.keys(), r.values()))
                except Exception as e:
                    ctx.violation('call-raises', case, 'a multivector', repr(e)[:200], key='call-route:array-samples:raises')
                    continue
                bad = None
                for k, c in zip(m.keys(), m.values()):
                    f = sympy.lambdify([sympy.Symbol(n) for n in a], sympy.sympify(c), 'numpy')
                    exp = np.asarray(f(*[np.asarray(v, dtype=float) for v in a.values()]), dtype=float)
                    got = np.asarray(rd.get(k, 0), dtype=float)
                    shp = np.broadcast(got, exp).shape
                    if not np.allclose(np.broadcast_to(got, shp), np.broadcast_to(exp, shp)):
                        bad = (int(k), exp.tolist(), got.tolist()); break
                if bad:
                    ctx.violation('call-differs', {**case, 'blade': bad[0]}, str(bad[1])[:200], str(bad[2])[:200], key='call-route:array-samples')

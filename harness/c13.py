"""C13 — algebra options change speed, never results.

Oracle on the real code: the same operands through Algebra(..., cse, graded, codegen_symbolcls, wrapper, pretty_blade)
for the option product; every operator; grade-block key patterns (valid in all modes); results compared blade by blade
with the default-option algebra.  In graded mode: everything that succeeds in default mode succeeds, and every result
stores complete grades.
Theorem side: the generators are generic in the coefficient type (one model for every symbol class), see C02-C06, C12.
"""
import itertools, warnings
from fractions import Fraction
from harness.common import *
from harness.opcorr import BIN, UN, grade

BINS = ['gp', 'op', 'ip', 'lc', 'rc', 'sp', 'cp', 'acp', 'rp', 'add', 'sub', 'sw', 'proj', 'div']
UNS = ['neg', 'reverse', 'involute', 'conjugate', 'hodge', 'unhodge', 'normsq', 'inv', 'polarity', 'unpolarity',
       'outerexp', 'outersin', 'outercos', 'outertan', 'sqrt']


def ident(f):
    return f


def closure_wrapper(f):
    def inner(*a):
        return f(*a)
    return inner


def result(fn):
    try:
        r = fn()
    except Exception as e:
        return ('raise', type(e).__name__, None)
    d = {}
    for k, v in zip(r.keys(), r.values()):
        d[k] = d.get(k, 0) + v
    return ('ok', {k: v for k, v in d.items() if v != 0}, tuple(r.keys()))


def close(a, b):
    keys = set(a) | set(b)
    for k in keys:
        x, y = a.get(k, 0), b.get(k, 0)
        if isinstance(x, Fraction) and isinstance(y, Fraction):
            if x != y:
                return False
        else:
            try:
                if abs(complex(x) - complex(y)) > 1e-9 * max(1.0, abs(complex(y))):
                    return False
            except Exception:
                if x != y:
                    return False
    return True


def run(ctx):
    import sympy
    from kingdon import MultiVector
    warnings.simplefilter('ignore')
    ctx.rule = ('option product {cse} x {graded} x {codegen_symbolcls: default, sympy.Symbol} x {wrapper: None, identity, closure} '
                '(+ pretty_blade) per signature (d<=3 quick, d<=4 thorough), every operator, grade-block operands with exact values; '
                'a case is one (options, operator, operands) compared with the default options')
    ctx.lean_prepare()
    rng = ctx.rng
    sigs = [[1, 1], [1, 1, 1], [1, -1, 1], [0, 1, 1]] if ctx.quick else \
        [[1, 1], [1, -1], [1, 1, 1], [1, -1, 1], [0, 1, 1], [1, 1, 0], [1, 1, 1, 1], [0, 1, 1, 1], [1, 1, 1, -1], [0, 0, 1]]
    option_sets = []
    for cse, graded, symcls, wrapper in itertools.product((True, False), (False, True), (None, 'sympy'), (None, 'ident', 'closure')):
        if (cse, graded, symcls, wrapper) == (True, False, None, None):
            continue
        option_sets.append({'cse': cse, 'graded': graded, 'symcls': symcls, 'wrapper': wrapper})
    if ctx.quick:
        # all single-option changes, all pairs with graded, and a seeded sample of the rest
        base = [o for o in option_sets if sum([not o['cse'], o['graded'], o['symcls'] is not None, o['wrapper'] is not None]) == 1]
        rest = [o for o in option_sets if o not in base]
        option_sets = base + rng.sample(rest, 5)
    option_sets.append({'cse': True, 'graded': False, 'symcls': None, 'wrapper': None, 'pretty_blade': 'E'})
    for sig in sigs:
        d = len(sig)
        base_alg = make_algebra(sig)
        full = list(base_alg.canon2bin.values())
        blocks = []
        for gs in ([0], [1], [2], [0, 2], [1, 2], [0, 1], [d], [d - 1], list(range(d + 1))):
            gs = sorted({g for g in gs if 0 <= g <= d})
            ks = [k for k in full if grade(k) in gs]
            if ks and ks not in blocks:
                blocks.append(ks)
        if ctx.quick:
            blocks = blocks[:6]
        cases = []
        for kx in blocks:
            vx = [Fraction(rng.randint(1, 7), rng.choice([1, 2])) * rng.choice([1, -1]) for _ in kx]
            for ky in rng.sample(blocks, 2 if ctx.quick else 4):
                vy = [Fraction(rng.randint(1, 7)) * rng.choice([1, -1]) for _ in ky]
                for op in BINS:
                    if len(kx) * len(ky) > 24 and op in ('sw', 'proj', 'div'):
                        continue
                    cases.append((op, kx, vx, ky, vy))
            for op in UNS:
                if op.startswith('outer') and len({grade(k) for k in kx}) != 1:
                    continue
                if op == 'inv' and len(kx) > 6:
                    continue
                if op == 'sqrt':
                    if not (0 in kx and len({grade(k) for k in kx}) <= 2):
                        continue
                    vx2 = [float(abs(v)) + 3.0 if k == 0 else float(v) / 4 for k, v in zip(kx, vx)]
                    cases.append((op, kx, vx2, None, None))
                    continue
                cases.append((op, kx, vx, None, None))
        def evaluate(alg, op, kx, vx, ky, vy):
            x = MultiVector.fromkeysvalues(alg, tuple(kx), list(vx))
            if ky is None:
                return result(lambda: UN[op](x))
            y = MultiVector.fromkeysvalues(alg, tuple(ky), list(vy))
            return result(lambda: BIN[op](x, y))
        baseline = [evaluate(base_alg, *c) for c in cases]
        for opts in option_sets:
            kw = {'cse': opts['cse'], 'graded': opts['graded']}
            if opts['symcls']:
                kw['codegen_symbolcls'] = sympy.Symbol
            if opts['wrapper']:
                kw['wrapper'] = ident if opts['wrapper'] == 'ident' else closure_wrapper
            if 'pretty_blade' in opts:
                kw['pretty_blade'] = opts['pretty_blade']
            try:
                alg = make_algebra(sig, **kw)
            except Exception as e:
                ctx.violation('construct-raises', {'sig': sig, 'options': opts}, 'an algebra', repr(e)[:200], key='construct')
                continue
            heavy_sym = opts['symcls'] is not None
            # two passes over the cases on the same algebra object: the second one (shuffled) re-evaluates every pattern
            # after all the others have been generated (name-keyed routes must still serve the right function)
            order = list(zip(cases, baseline))
            second = list(order)
            rng.shuffle(second)
            for c, base in order + [(c, b) for c, b in second if b[0] == 'ok' and (opts['wrapper'] or opts['graded'])]:
                op, kx, vx, ky, vy = c
                if heavy_sym and (d >= 3 and op in ('sw', 'proj', 'div', 'inv', 'outerexp', 'outersin', 'outercos', 'normsq') and len(kx) > 3):
                    continue
                if heavy_sym and ctx.quick and rng.random() < 0.5:
                    continue
                got = evaluate(alg, *c)
                case = {'sig': sig, 'options': opts, 'op': op, 'kx': kx, 'ky': ky, 'vx': [str(v) for v in vx], 'vy': None if vy is None else [str(v) for v in vy]}
                ctx.case(case, tag='opts:' + ','.join(k for k, v in (('nocse', not opts['cse']), ('graded', opts['graded']), ('sympy', heavy_sym), ('wrapper', opts['wrapper'])) if v) or 'opts:pretty')
                if base[0] != 'ok':
                    continue
                degenerate = 0 in sig
                if got[0] == 'raise':
                    ctx.violation('option-raises', case, 'the default-option result ' + str(base[1])[:150], 'raises ' + got[1],
                                  key=f'raises:{optkey(opts)}:{"degenerate" if degenerate else "nondegenerate"}:{op if not opts["graded"] else "any"}')
                    continue
                if not close(got[1], base[1]):
                    ctx.violation('option-differs', case, str(base[1])[:300], str(got[1])[:300], key=f'differs:{optkey(opts)}:{op}')
                    continue
                if opts['graded'] and got[2]:
                    ks_ = got[2]
                    gs = tuple(sorted({grade(k) for k in ks_}))
                    if tuple(ks_) != tuple(alg.indices_for_grades[gs]):
                        ctx.violation('graded-incomplete', case, list(alg.indices_for_grades[gs]), list(ks_),
                                      key=f'graded-incomplete:{"degenerate" if degenerate else "nondegenerate"}')
    blades_pass(ctx)
    strict_wrapper_pass(ctx)
    registered_symbolic_options_pass(ctx)
    chained_operators_pass(ctx)
    named_symbolic_pass(ctx)
    ctx.assumptions = ['floats only where kingdon itself introduces them (sqrt, outer series): compared to 1e-9',
                       'codegen_symbolcls=sympy.Symbol is slow; dense composite operators are skipped for it in d >= 3']


def strict_wrapper(f):
    """a numba-like wrapper: the wrapped function accepts numbers (and arrays of numbers) only"""
    import numbers
    import numpy as np
    def ok(v):
        if isinstance(v, (numbers.Number, Fraction)) and not hasattr(v, 'free_symbols'):
            return True
        if isinstance(v, np.ndarray):
            return v.dtype != object
        if isinstance(v, (list, tuple)):
            return all(ok(u) for u in v)
        return False
    def g(*args):
        if not all(ok(a) for a in args):
            raise TypeError('strict wrapper: non-numeric argument ' + repr(args)[:80])
        return f(*args)
    g.__name__ = f.__name__
    return g


def strict_wrapper_pass(ctx):
    """(1) a wrapper that only accepts numbers, alone and together with codegen_symbolcls=sympy.Symbol: code generation must not push
    symbolic values through the wrapper; (2) codegen_symbolcls=sympy.Symbol in d = 6 (iterative inverse); (3) registered functions of
    one, two and three arguments (both compilation routes) on algebras with a wrapper: same results as without"""
    import sympy
    from kingdon import MultiVector
    rng = ctx.rng
    def reg1(x): return x * x + x
    def reg2(x, y): return x * y - (y | x)
    def reg3(u, v, w): return u * v * w * v * u
    for sig in ([1, 1, 1], [0, 1, 1]):
        base_alg = make_algebra(sig)
        for optname, kw in (('wrapper=strict', {'wrapper': strict_wrapper}), ('wrapper=strict,symcls=sympy', {'wrapper': strict_wrapper, 'codegen_symbolcls': sympy.Symbol}),
                            ('wrapper=identity', {'wrapper': ident})):
            alg = make_algebra(sig, **kw)
            N = 2 ** alg.d
            pats = [[1, 2, 4], [0, 3], [3, 5, 6], [0, 7], [1, 6]]
            for kx in pats:
                vx = [Fraction(rng.randint(1, 7)) for _ in kx]
                ky = rng.choice(pats); vy = [Fraction(rng.randint(1, 7)) for _ in ky]
                for op in ['gp', 'sw', 'proj', 'div', 'inv', 'normsq', 'polarity', 'hodge', 'outerexp', 'reverse']:
                    def ev(a):
                        x = MultiVector.fromkeysvalues(a, tuple(kx), list(vx)); y = MultiVector.fromkeysvalues(a, tuple(ky), list(vy))
                        return result(lambda: BIN[op](x, y) if op in BIN and op in BINS else UN[op](x))
                    base = ev(base_alg)
                    if base[0] != 'ok':
                        continue
                    got = ev(alg)
                    case = {'sig': sig, 'options': optname, 'op': op, 'kx': kx, 'ky': ky}
                    ctx.case(case, tag='opts:' + optname)
                    if got[0] != 'ok':
                        ctx.violation('option-raises', case, str(base[1])[:150], str(got[1])[:200], key=f'raises:{optname}:{op}')
                    elif not close(got[1], base[1]):
                        ctx.violation('option-differs', case, str(base[1])[:200], str(got[1])[:200], key=f'differs:{optname}:{op}')
            # registered functions of arity 1..3, both routes
            for symbolic in (False, True):
                for nm, f, ar in (('x*x+x', reg1, 1), ('x*y-(y|x)', reg2, 2), ('u*v*w*v*u', reg3, 3)):
                    args_k = [rng.choice(pats[:3]) for _ in range(ar)]
                    args_v = [[Fraction(rng.randint(1, 5)) for _ in k] for k in args_k]
                    def evr(a):
                        rf = a.register(symbolic=True)(f) if symbolic else a.register(f)
                        return result(lambda: rf(*[MultiVector.fromkeysvalues(a, tuple(k), list(v)) for k, v in zip(args_k, args_v)]))
                    base = evr(base_alg)
                    if base[0] != 'ok':
                        continue
                    got = evr(alg)
                    case = {'sig': sig, 'options': optname, 'registered': nm, 'symbolic_route': symbolic, 'keys': args_k}
                    ctx.case(case, tag='opts:registered:' + optname)
                    if got[0] != 'ok':
                        ctx.violation('option-raises', case, str(base[1])[:150], str(got[1])[:200], key=f'raises:{optname}:registered:{ar}')
                    elif not close(got[1], base[1]):
                        ctx.violation('option-differs', case, str(base[1])[:200], str(got[1])[:200], key=f'differs:{optname}:registered:{ar}')
    # d = 6: the iterative inverse with sympy symbols
    a6 = make_algebra([1, 1, 1, 1, 1, 1]); s6 = make_algebra([1, 1, 1, 1, 1, 1], codegen_symbolcls=sympy.Symbol)
    for kx, vx in (([3, 12], [2.0, 3.0]), ([1, 6], [1.0, 2.0]), ([0, 3], [2.0, 1.0])):
        def ev6(a):
            x = MultiVector.fromkeysvalues(a, tuple(kx), list(vx))
            return result(lambda: x.inv())
        base, got = ev6(a6), ev6(s6)
        case = {'sig': [1] * 6, 'options': 'symcls=sympy', 'op': 'inv', 'kx': kx}
        ctx.case(case, tag='opts:sympy:d6')
        if base[0] == 'ok' and (got[0] != 'ok' or not close(got[1], base[1])):
            ctx.violation('option-differs', case, str(base[1])[:200], str(got[1])[:200], key='differs:sympy:inv:d6')


def registered_symbolic_options_pass(ctx):
    """registered functions through the symbolic route (`alg.register(symbolic=True)`) under the options that decide in which
    arithmetic the expression is traced - the default codegen symbol class (kingdon's RationalPolynomial), sympy.Symbol, cse off:
    quotients, inverses and negative powers of scalars, pseudoscalars and single blades; every variant returns what the plain
    function returns on the same operands"""
    import sympy
    from kingdon import MultiVector
    rng = ctx.rng
    def quotient(x, y): return x / y
    def times_inverse(x, y): return x * y.inv()
    def twice(x, y): return (x / y) / y
    def product_over_square(x, y): return (x * y) / (y * y)
    def neg_power(x, y): return x * y ** -2
    def one_minus_quotient(x, y): return 1 - x / y
    def two_minus_inverse(x, y): return (2 - y.inv()) * x
    funcs = [quotient, times_inverse, twice, product_over_square, neg_power, one_minus_quotient, two_minus_inverse]
    for sig in ([1, 1, 1], [1, -1]):
        d = len(sig)
        variants = [('default', {}), ('cse=False', {'cse': False}), ('symcls=sympy', {'codegen_symbolcls': sympy.Symbol})]
        divisors = [[0], [2 ** d - 1], [1], [2], [1, 2]]
        for f in funcs:
            for ky in divisors:
                kx = rng.choice([[1, 2], [0, 3], [1, 2, 2 ** d - 1]])
                vx = [Fraction(rng.randint(1, 7)) for _ in kx]; vy = [Fraction(rng.choice((2, 3, 5, -4)))]
                plain_alg = make_algebra(sig)
                exp = result(lambda: f(MultiVector.fromkeysvalues(plain_alg, tuple(kx), list(vx)), MultiVector.fromkeysvalues(plain_alg, tuple(ky), list(vy))))
                if exp[0] != 'ok':
                    continue
                for optname, kw in variants:
                    alg = make_algebra(sig, **kw)
                    rf = alg.register(symbolic=True)(f)
                    got = result(lambda: rf(MultiVector.fromkeysvalues(alg, tuple(kx), list(vx)), MultiVector.fromkeysvalues(alg, tuple(ky), list(vy))))
                    case = {'sig': sig, 'options': optname, 'registered': f.__name__, 'symbolic_route': True, 'kx': kx, 'ky': ky, 'vx': [str(v) for v in vx], 'vy': [str(v) for v in vy]}
                    ctx.case(case, tag='opts:registered-symbolic:' + optname)
                    if got[0] != 'ok':
                        ctx.violation('option-raises', case, str(exp[1])[:150], str(got[1])[:200], key=f'raises:{optname}:registered-symbolic:{f.__name__}')
                    elif not close(got[1], exp[1]):
                        ctx.violation('option-differs', case, str(exp[1])[:200], str(got[1])[:200], key=f'differs:{optname}:registered-symbolic:{f.__name__}')


def chained_operators_pass(ctx):
    """results fed into further operators (r = x*y; r*z, r+z, ~r, z|r, r.grade(..), -r ^ z) under EVERY combination of the options
    {cse} x {graded} x {codegen_symbolcls} x {wrapper}: the chain returns the default-option element (graded mode insists on
    complete grades in canonical order, so a result stored in another order breaks the next operator)"""
    import sympy
    from kingdon import MultiVector
    rng = ctx.rng
    chains = {'(x*y)*z': lambda x, y, z: (x * y) * z, '(x*y)+z': lambda x, y, z: (x * y) + z, '~(x*y)': lambda x, y, z: ~(x * y),
              'z|(x*y)': lambda x, y, z: z | (x * y), '(x+y)^z': lambda x, y, z: (x + y) ^ z, '-(x^y)*z': lambda x, y, z: -(x ^ y) * z,
              '(x*y).grade(1)*z': lambda x, y, z: (x * y).grade(1) * z, '(x|y)-(z*x)': lambda x, y, z: (x | y) - (z * x)}
    for sig in ([1, 1, 1], [1, -1, 1, 1]):
        d = len(sig)
        base_alg = make_algebra(sig)
        full = list(base_alg.canon2bin.values())
        g = lambda *gs: [k for k in full if grade(k) in gs]
        operands = [(g(1), g(2), g(1)), (g(2), g(1), g(0, 2)), (g(1), g(1), g(2)), (g(0, 2), g(1), g(1))]
        for cse, graded, symcls, wrapper in itertools.product((True, False), (False, True), (None, 'sympy'), (None, 'ident')):
            if (cse, graded, symcls, wrapper) == (True, False, None, None):
                continue
            kw = {'cse': cse, 'graded': graded}
            if symcls: kw['codegen_symbolcls'] = sympy.Symbol
            if wrapper: kw['wrapper'] = ident
            alg = make_algebra(sig, **kw)
            opts = {'cse': cse, 'graded': graded, 'symcls': symcls, 'wrapper': wrapper}
            for kx, ky, kz in (operands if not ctx.quick else rng.sample(operands, 2)):
                vals = [[Fraction(rng.randint(1, 7)) for _ in k] for k in (kx, ky, kz)]
                for cname, fn in chains.items():
                    def ev(a):
                        ms = [MultiVector.fromkeysvalues(a, tuple(k), list(v)) for k, v in zip((kx, ky, kz), vals)]
                        return result(lambda: fn(*ms))
                    base = ev(base_alg)
                    if base[0] != 'ok':
                        continue
                    got = ev(alg)
                    case = {'sig': sig, 'options': opts, 'chain': cname, 'kx': kx, 'ky': ky, 'kz': kz}
                    ctx.case(case, tag='opts:chain')
                    if got[0] != 'ok':
                        ctx.violation('option-raises', case, str(base[1])[:150], 'raises ' + str(got[1])[:150], key=f'raises:chain:{optkey(opts)}')
                        break
                    if not close(got[1], base[1]):
                        ctx.violation('option-differs', case, str(base[1])[:200], str(got[1])[:200], key=f'differs:chain:{optkey(opts)}')
                        break


def named_symbolic_pass(ctx):
    """named (symbolic) multivectors made through every entry point (alg.multivector(name=..), alg.vector(name=..),
    MultiVector(alg, name=..)) under each codegen symbol class (default, sympy.Symbol, kingdon's RationalPolynomial forced):
    the coefficients a user gets are the same kind of object, results evaluate with mv(**values) to the same numbers, and the
    square-root operators work alike"""
    import sympy
    from kingdon import MultiVector
    from kingdon.polynomial import RationalPolynomial
    for sig in ([1, 1, 1], [1, 1, -1]):
        base_alg = make_algebra(sig)
        for optname, kw in (('symcls=sympy', {'codegen_symbolcls': sympy.Symbol}), ('symcls=RationalPolynomial', {'codegen_symbolcls': RationalPolynomial.fromname}),
                            ('symcls=RationalPolynomial,cse=False', {'codegen_symbolcls': RationalPolynomial.fromname, 'cse': False})):
            alg = make_algebra(sig, **kw)
            makers = {'alg.multivector(name, grades)': lambda a: a.multivector(name='x', grades=(1,)), 'alg.vector(name)': lambda a: a.vector(name='x'),
                      'MultiVector(alg, name, grades)': lambda a: MultiVector(a, name='x', grades=(1,))}
            for mname, mk in makers.items():
                def outcome(a):
                    x = mk(a)
                    kinds = sorted({type(v).__module__.split('.')[0] for v in x.values()})
                    r = x * x + x
                    vals = {str(sy): 2.0 + i for i, sy in enumerate(sorted(r.free_symbols, key=str))}
                    called = r(**vals)
                    ev = {int(k): (float(v) if not hasattr(v, 'free_symbols') or not v.free_symbols else 'unevaluated') for k, v in zip(called.keys(), called.values())}
                    n = x.norm()
                    return kinds, ev, 'norm ok'
                def safe(a):
                    try:
                        return outcome(a)
                    except Exception as ex:
                        return 'raises ' + type(ex).__name__
                exp, got = safe(base_alg), safe(alg)
                case = {'sig': sig, 'options': optname, 'constructor': mname}
                ctx.case(case, tag='opts:named-symbolic')
                if exp != got:
                    ctx.violation('option-differs', case, str(exp)[:250], str(got)[:250], key=f'differs:named-symbolic:{optname}')


def blades_pass(ctx):
    """operands taken from `alg.blades` (by name) instead of being built from key tuples: every option set must give the
    same products of named basis blades as the default options (d = 4 and custom bases, where the canonical order of a
    grade differs from the binary order)"""
    import sympy
    rng = ctx.rng
    cfgs = [([1, 1, 1, 1], None), ([1, 1, 1, -1], None), ([0, 1, 1], ["e", "e1", "e2", "e0", "e20", "e01", "e12", "e012"]),
            ([1, 1, 1], ['e', 'e1', 'e2', 'e3', 'e12', 'e31', 'e23', 'e123'])]
    for sig, basis in cfgs:
        base_alg = make_algebra(sig, None, basis)
        names = list(base_alg.canon2bin.keys())
        pairs = [(a, b) for a in names for b in names]
        if ctx.quick:
            pairs = rng.sample(pairs, min(len(pairs), 70))
        def table(alg):
            out = {}
            for a, b in pairs:
                try:
                    x, y = alg.blades[a], alg.blades[b]
                    out[a, b] = ({k: v for k, v in zip((x * y).keys(), (x * y).values()) if v != 0},
                                 {k: v for k, v in zip((x ^ y).keys(), (x ^ y).values()) if v != 0},
                                 {k: v for k, v in zip((x - y).keys(), (x - y).values()) if v != 0})
                except Exception as e:
                    out[a, b] = 'raise:' + type(e).__name__
            return out
        base = table(base_alg)
        for opts in ({'graded': True}, {'graded': True, 'cse': False}, {'graded': True, 'wrapper': ident}, {'cse': False},
                     {'codegen_symbolcls': sympy.Symbol}):
            alg = make_algebra(sig, None, basis, **opts)
            got = table(alg)
            for (a, b), e in base.items():
                case = {'sig': sig, 'basis': basis, 'options': {k: (v if isinstance(v, bool) else str(v)[:20]) for k, v in opts.items()}, 'blades': [a, b]}
                ctx.case(case, tag='blades:' + ','.join(sorted(opts)))
                if got[a, b] != e:
                    degenerate = 0 in sig
                    if isinstance(got[a, b], str) and opts.get('graded') and degenerate:
                        key = 'raises:blades:graded:degenerate:any'
                    else:
                        key = 'blades:' + ','.join(sorted(opts))
                    ctx.violation('option-differs', case, str(e)[:300], str(got[a, b])[:300], key=key)
                    break


def optkey(o):
    return '+'.join(k for k, v in (('nocse', not o['cse']), ('graded', o['graded']), ('sympy', o['symcls'] is not None),
                                  ('wrapper-' + str(o['wrapper']), o['wrapper'] is not None)) if v) or 'pretty'

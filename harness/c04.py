"""C04 — sum, difference, negation, involutions and grade selection act blade-wise."""
from harness.common import *
from harness.opcorr import *
from harness.c02 import patterns, wrapper_history_pass

UNARY = ['neg', 'reverse', 'involute', 'conjugate']


def run(ctx):
    ctx.rule = ('add/sub on ordered key-tuple pairs (disjoint, overlapping, empty, permuted); neg and the three involutions and '
                'grade(*gs) on key tuples incl. every pure grade in every dimension d<=8; all compared as polynomial maps with '
                'the model and with the blade-wise definitions; involutivity and (anti-)automorphism checked on the real code')
    ctx.lean_prepare()
    rng = ctx.rng
    cache = AlgCache()
    R = OpRun(ctx)
    cfgs = standard_configs(ctx, 3 if ctx.quick else 4, 8 if ctx.quick else 40, sample_sig=8 if ctx.quick else None)
    for d in (5, 6, 7, 8):
        cfgs.append(('sig', [rng.choice((1, -1, 0)) for _ in range(d)], None, None))
    for tag, sig, start, basis in cfgs:
        if ctx.over_budget():
            continue
        alg = cache.get(sig, start, basis)
        tok = tok_of(alg, basis)
        desc = {'sig': sig, 'basis': basis}
        full = list(alg.canon2bin.values())
        d = alg.d
        pats = patterns(ctx, d)
        if d >= 2 and ctx.quick:
            pats = rng.sample(pats, min(len(pats), 40 if d <= 4 else 6))
        for kx, ky in pats:
            kx = full if kx is None else kx; ky = full if ky is None else ky
            for op in ('add', 'sub'):
                R.binary(alg, tok, desc, op, kx, ky)
        # unary: seeded tuples + every pure grade + pairs of grades
        tuples = [t if t is not None else full for t in key_tuples(rng, d, 10 if ctx.quick else 60)]
        for g in range(d + 1):
            ks_g = [k for k in full if grade(k) == g]
            tuples.append(ks_g)
            if len(ks_g) > 1:
                sub = rng.sample(ks_g, min(len(ks_g), 3))
                tuples.append(sub)
        for g in range(d):
            tuples.append([k for k in full if grade(k) in (g, g + 1)][: 40])
        if d >= 6:
            tuples = [t[:48] for t in tuples]
        for kx in tuples:
            for op in UNARY:
                R.unary(alg, tok, desc, op, kx)
            # grade selection: exactly the stored coefficients of the requested grades
            for _ in range(2):
                gs = sorted(rng.sample(range(d + 1), rng.randint(0, min(d + 1, 3))))
                x = tracer_mv(alg, kx, 0)
                try:
                    z = x.grade(*gs) if rng.random() < 0.5 else x.grade(tuple(gs))
                except Exception as e:
                    ctx.violation('raises', {**desc, 'op': 'grade', 'gs': gs, 'kx': kx}, None, repr(e), key='grade:raises')
                    continue
                zd = mv_to_dict(z)
                case = {**desc, 'op': 'grade', 'gs': gs, 'kx': list(kx)}
                ctx.case(case, nontrivial=bool(kx) and bool(gs), tag='op:grade')
                xd = tracer_dict(kx, 0) if len(set(kx)) == len(kx) else None
                if xd is not None:
                    exp = {k: v for k, v in xd.items() if grade(k) in gs}
                    if not dict_equal(zd, exp):
                        ctx.violation('oracle', case, canon_dict(exp), canon_dict(zd), key='grade:denotation')
                    R.lines.append(f'grade {tok} {ks(gs)} {ks(kx)}')
                    R.plan.append((case, canon_dict(zd)))
        # identities on the real code: involutivity, (anti)automorphism
        if d <= 4:
            for kx, ky in zip(key_tuples(rng, d, 3, ['subset', 'perm', 'grades']), key_tuples(rng, d, 3, ['subset', 'perm', 'grades'])):
                x, y = tracer_mv(alg, kx, 0), tracer_mv(alg, ky, 1000)
                case = {**desc, 'kx': kx, 'ky': ky}
                ctx.case(('ident', case), tag='identities')
                for nm, f, anti in (('reverse', lambda a: ~a, True), ('conjugate', lambda a: a.conjugate(), True),
                                    ('involute', lambda a: a.involute(), False)):
                    if not dict_equal(mv_to_dict(f(f(x))), mv_to_dict(x)):
                        ctx.violation('identity', {**case, 'f': nm}, 'f(f(x)) == x', canon_dict(mv_to_dict(f(f(x)))), key=f'{nm}:involutive')
                    l = mv_to_dict(f(x * y))
                    r = mv_to_dict(f(y) * f(x)) if anti else mv_to_dict(f(x) * f(y))
                    if not dict_equal(l, r):
                        ctx.violation('identity', {**case, 'f': nm}, 'f(xy) == f(y)f(x) resp. f(x)f(y)', [canon_dict(l), canon_dict(r)], key=f'{nm}:automorphism')
    R.flush()
    wrapper_history_pass(ctx, ['add', 'sub'])

"""C04 — sum, difference, negation, involutions and grade selection act blade-wise."""
from harness.common import *
from harness.opcorr import *
from harness.c02 import patterns, wrapper_history_pass

UNARY = ['neg', 'reverse', 'involute', 'conjugate']


def registered_linear_pass(ctx):
    """sums, differences, negation and the involutions inside registered functions (both compilation routes), with a plain number on
    either side, against the same function applied directly"""
    from fractions import Fraction
    from kingdon import MultiVector
    rng = ctx.rng
    def f_nl(x): return 3 - x
    def f_nr(x): return x - 3
    def f_al(x): return 3 + x
    def f_ar(x): return x + 3
    def f_neg(x): return -x - (2 - ~x)
    def f_two(x, y): return (5 - x) + (y - 2) - (x - y)
    def f_inv(x): return 1 - x.involute() + (7 - x.conjugate())
    # sums and differences whose operands have fractional coefficients on the symbolic route (an inverse or a quotient on one side,
    # a polynomial on the other), and a plain number minus a quotient
    def f_pm_inv(x, y): return (x - y.inv()) + (x + y.inv())
    def f_inv_pm(x, y): return (y.inv() - x) + (y.inv() + x)
    def f_num_quot(x, y): return (1 - x / y) + (2 + x / y)
    def f_quot_quot(x, y): return x / y - y / x
    funcs_frac = [('(x - y.inv()) + (x + y.inv())', f_pm_inv, 2), ('(y.inv() - x) + (y.inv() + x)', f_inv_pm, 2), ('(1 - x / y) + (2 + x / y)', f_num_quot, 2),
                  ('x / y - y / x', f_quot_quot, 2)]
    funcs = [('3 - x', f_nl, 1), ('x - 3', f_nr, 1), ('3 + x', f_al, 1), ('x + 3', f_ar, 1), ('-x - (2 - ~x)', f_neg, 1),
             ('(5 - x) + (y - 2) - (x - y)', f_two, 2), ('1 - x.involute() + (7 - x.conjugate())', f_inv, 1)]
    for sig in ([1, 1, 1], [0, 1, 1], [1, -1, 1, 1]):
        alg = make_algebra(sig)
        N = 2 ** alg.d
        for nm, f, ar in funcs_frac:
            try:
                rf = alg.register(symbolic=True)(f)
            except Exception:
                continue
            for kx, ky in (([1, 2], [1, 2]), ([0, 1], [1]), ([1, 2], [0]), ([0, 3], [0, 3])):
                kx = [k for k in kx if k < N]; ky = [k for k in ky if k < N]
                args = [MultiVector.fromkeysvalues(alg, tuple(kx), [Fraction(rng.randint(1, 9)) for _ in kx]), MultiVector.fromkeysvalues(alg, tuple(ky), [Fraction(rng.randint(2, 9)) for _ in ky])]
                case = {'sig': sig, 'function': nm, 'symbolic_route': True, 'keys': [kx, ky]}
                ctx.case(case, tag='registered-linear:fractions')
                try:
                    exp = mv_to_dict(f(*args))
                    got = mv_to_dict(rf(*args))
                except ZeroDivisionError:
                    continue
                except Exception as e:
                    ctx.count('registered-linear:fractions:raises:' + type(e).__name__)
                    continue
                if got != exp:
                    ctx.violation('registered-differs', case, str(exp)[:200], str(got)[:200], key='registered:linear:symbolic:fractions')
        for nm, f, ar in funcs:
            for symbolic in (False, True):
                try:
                    rf = alg.register(symbolic=True)(f) if symbolic else alg.register(f)
                except Exception as e:
                    ctx.violation('register-raises', {'sig': sig, 'function': nm, 'symbolic': symbolic}, 'a registered function', repr(e)[:200], key='registered:raises')
                    continue
                for _ in range(3):
                    args = []
                    for _a in range(ar):
                        ks = rng.sample(range(N), rng.randint(1, min(N, 4)))
                        if rng.random() < 0.5 and 0 not in ks:
                            ks[0] = 0
                        args.append(MultiVector.fromkeysvalues(alg, tuple(ks), [Fraction(rng.randint(1, 9)) for _ in ks]))
                    case = {'sig': sig, 'function': nm, 'symbolic_route': symbolic, 'keys': [list(a.keys()) for a in args]}
                    ctx.case(case, tag='registered-linear')
                    exp = mv_to_dict(f(*args))
                    try:
                        got = mv_to_dict(rf(*args))
                    except Exception as e:
                        ctx.violation('registered-raises', case, str(exp)[:200], repr(e)[:200], key='registered:linear:raises')
                        continue
                    if got != exp:
                        ctx.violation('registered-differs', case, str(exp)[:200], str(got)[:200], key='registered:linear:' + ('symbolic' if symbolic else 'tape'))


def scalar_operand_pass(ctx):
    """plain numbers as operands of + and -: `a + s`, `s + a`, `a - s`, `s - a`, `alg.add/sub` with one or two plain numbers (also
    through the list / callable operand forms), for every kind of coefficient container (list, tuple, one ndarray, list of
    arrays, 2-d ndarray) and with or without a stored scalar blade: the number acts on the scalar blade only and the
    result has as many coefficients as keys"""
    import numpy as np
    from fractions import Fraction
    from kingdon import MultiVector
    rng = ctx.rng
    def asdict(mv):
        ks_, vs = list(mv.keys()), mv.values()
        n = len(vs) if not isinstance(vs, np.ndarray) else vs.shape[0]
        if n != len(ks_):
            return f'{len(ks_)} keys but {n} coefficients'
        return {int(k): np.asarray(vs[i], dtype=float) for i, k in enumerate(ks_)}
    def same(a, b):
        if isinstance(a, str) or isinstance(b, str):
            return False
        ks_ = set(a) | set(b)
        z = np.zeros(1)
        return all(np.allclose(np.broadcast_arrays(a.get(k, z), b.get(k, z))[0], np.broadcast_arrays(a.get(k, z), b.get(k, z))[1]) for k in ks_)
    for sig in ([1, 1, 1], [0, 1, 1]):
        alg = make_algebra(sig)
        for keys in ((1, 2, 4), (0, 1, 2), (3, 0, 5), (7,), (0,)):
            n = len(keys)
            base = [float(rng.randint(1, 9)) for _ in keys]
            containers = {
                'list': lambda: list(base), 'tuple': lambda: tuple(base), 'ndarray': lambda: np.array(base),
                'list-of-arrays': lambda: [np.array([b, b + 1.0]) for b in base], 'ndarray-2d': lambda: np.array([[b, b + 1.0, b + 2.0] for b in base]),
            }
            for cname, mk in containers.items():
                for sc in (2.5, 3, -1.5, np.float64(2.5), np.int64(3), np.float32(0.5)):
                    x = MultiVector.fromkeysvalues(alg, tuple(keys), mk())
                    xd = asdict(x)
                    plus = dict(xd); plus[0] = plus.get(0, np.zeros(1)) + sc
                    minus = dict(xd); minus[0] = minus.get(0, np.zeros(1)) - sc
                    rminus = {k: -v for k, v in xd.items()}; rminus[0] = rminus.get(0, np.zeros(1)) + sc
                    forms = {'a + s': (lambda: x + sc, plus), 's + a': (lambda: sc + x, plus), 'a - s': (lambda: x - sc, minus),
                             's - a': (lambda: sc - x, rminus), 'alg.add(a, s)': (lambda: alg.add(x, sc), plus),
                             'alg.sub(s, a)': (lambda: alg.sub(sc, x), rminus)}
                    for fname, (thunk, exp) in forms.items():
                        case = {'sig': sig, 'keys': list(keys), 'container': cname, 'scalar': float(sc), 'scalar_type': type(sc).__name__, 'form': fname}
                        ctx.case(case, tag='scalar-operand')
                        try:
                            got = asdict(thunk())
                        except Exception as ex:
                            got = 'raises ' + repr(ex)[:120]
                        if not same(got, exp):
                            ctx.violation('scalar-operand', case, str({k: v.tolist() for k, v in exp.items()})[:200],
                                          str(got if isinstance(got, str) else {k: v.tolist() for k, v in got.items()})[:200],
                                          key=f'scalar-operand:{fname}:{cname}')
        # both operands plain numbers
        a = MultiVector.fromkeysvalues(alg, (1, 2), [Fraction(3), Fraction(4)])
        two = {'alg.add(5, 3)': (lambda: [alg.add(5, 3)], [{0: 8}]), 'alg.sub(5, 3)': (lambda: [alg.sub(5, 3)], [{0: 2}]),
               'alg.sub(3, 5)': (lambda: [alg.sub(3, 5)], [{0: -2}]), 'alg.sub(lambda: 5, 3)': (lambda: [alg.sub(lambda: 5, 3)], [{0: 2}]),
               'alg.sub([5, a], 3)': (lambda: alg.sub([5, a], 3), [{0: 2}, {0: -3, 1: 3, 2: 4}]),
               'alg.add(1, (10, 20))': (lambda: alg.add(1, (10, 20)), [{0: 11}, {0: 21}]),
               'alg.sub(7, [a, 2])': (lambda: alg.sub(7, [a, 2]), [{0: 7, 1: -3, 2: -4}, {0: 5}])}
        for fname, (thunk, exp) in two.items():
            case = {'sig': sig, 'form': fname}
            ctx.case(case, tag='scalar-operand:numbers')
            try:
                got = [{int(k): v for k, v in zip(r.keys(), r.values()) if v != 0} for r in thunk()]
            except Exception as ex:
                got = 'raises ' + repr(ex)[:120]
            if got != exp:
                ctx.violation('scalar-operand', case, str(exp), str(got)[:200], key=f'scalar-operand:numbers:{fname}')


def run(ctx):
    ctx.rule = ('add/sub on ordered key-tuple pairs (disjoint, overlapping, empty, permuted); neg and the three involutions and '
                'grade(*gs) on key tuples incl. every pure grade in every dimension d<=8; all compared as polynomial maps with '
                'the model and with the blade-wise definitions; involutivity and (anti-)automorphism checked on the real code')
    ctx.lean_prepare()
    rng = ctx.rng
    cache = AlgCache()
    R = OpRun(ctx)
    cfgs = standard_configs(ctx, 3 if ctx.quick else 4, 8 if ctx.quick else 40, sample_sig=8 if ctx.quick else None)
    for d in (5, 6, 7, 8):
        cfgs.append(('sig', [rng.choice((1, -1, 0)) for _ in range(d)], None, None))
    for tag, sig, start, basis in cfgs:
        if ctx.over_budget():
            continue
        alg = cache.get(sig, start, basis)
        tok = tok_of(alg, basis)
        desc = {'sig': sig, 'basis': basis}
        full = list(alg.canon2bin.values())
        d = alg.d
        pats = patterns(ctx, d)
        if d >= 2 and ctx.quick:
            pats = rng.sample(pats, min(len(pats), 40 if d <= 4 else 6))
        for kx, ky in pats:
            kx = full if kx is None else kx; ky = full if ky is None else ky
            for op in ('add', 'sub'):
                R.binary(alg, tok, desc, op, kx, ky)
        # unary: seeded tuples + every pure grade + pairs of grades
        tuples = [t if t is not None else full for t in key_tuples(rng, d, 10 if ctx.quick else 60)]
        for g in range(d + 1):
            ks_g = [k for k in full if grade(k) == g]
            tuples.append(ks_g)
            if len(ks_g) > 1:
                sub = rng.sample(ks_g, min(len(ks_g), 3))
                tuples.append(sub)
        for g in range(d):
            tuples.append([k for k in full if grade(k) in (g, g + 1)][: 40])
        if d >= 6:
            tuples = [t[:48] for t in tuples]
        for kx in tuples:
            for op in UNARY:
                R.unary(alg, tok, desc, op, kx)
            # grade selection: exactly the stored coefficients of the requested grades
            for _ in range(2):
                gs = sorted(rng.sample(range(d + 1), rng.randint(0, min(d + 1, 3))))
                x = tracer_mv(alg, kx, 0)
                try:
                    z = x.grade(*gs) if rng.random() < 0.5 else x.grade(tuple(gs))
                except Exception as e:
                    ctx.violation('raises', {**desc, 'op': 'grade', 'gs': gs, 'kx': kx}, None, repr(e), key='grade:raises')
                    continue
                zd = mv_to_dict(z)
                case = {**desc, 'op': 'grade', 'gs': gs, 'kx': list(kx)}
                ctx.case(case, nontrivial=bool(kx) and bool(gs), tag='op:grade')
                xd = tracer_dict(kx, 0) if len(set(kx)) == len(kx) else None
                if xd is not None:
                    exp = {k: v for k, v in xd.items() if grade(k) in gs}
                    if not dict_equal(zd, exp):
                        ctx.violation('oracle', case, canon_dict(exp), canon_dict(zd), key='grade:denotation')
                    R.lines.append(f'grade {tok} {ks(gs)} {ks(kx)}')
                    R.plan.append((case, canon_dict(zd)))
        # identities on the real code: involutivity, (anti)automorphism
        if d <= 4:
            for kx, ky in zip(key_tuples(rng, d, 3, ['subset', 'perm', 'grades']), key_tuples(rng, d, 3, ['subset', 'perm', 'grades'])):
                x, y = tracer_mv(alg, kx, 0), tracer_mv(alg, ky, 1000)
                case = {**desc, 'kx': kx, 'ky': ky}
                ctx.case(('ident', case), tag='identities')
                for nm, f, anti in (('reverse', lambda a: ~a, True), ('conjugate', lambda a: a.conjugate(), True),
                                    ('involute', lambda a: a.involute(), False)):
                    if not dict_equal(mv_to_dict(f(f(x))), mv_to_dict(x)):
                        ctx.violation('identity', {**case, 'f': nm}, 'f(f(x)) == x', canon_dict(mv_to_dict(f(f(x)))), key=f'{nm}:involutive')
                    l = mv_to_dict(f(x * y))
                    r = mv_to_dict(f(y) * f(x)) if anti else mv_to_dict(f(x) * f(y))
                    if not dict_equal(l, r):
                        ctx.violation('identity', {**case, 'f': nm}, 'f(xy) == f(y)f(x) resp. f(x)f(y)', [canon_dict(l), canon_dict(r)], key=f'{nm}:automorphism')
    R.flush()
    wrapper_history_pass(ctx, ['add', 'sub'])
    registered_linear_pass(ctx)
    scalar_operand_pass(ctx)
    # the same element in different key orders through the by-name routes (wrapper, registered), incl. key sets whose decimal /
    # hexadecimal digit strings coincide when concatenated (d = 5, 6)
    from harness.c09 import collision_search
    collision_search(ctx, ops=('add', 'sub'))

"""C05 — duality maps invert each other and define the regressive product."""
from harness.common import *
from harness.opcorr import *
from harness.c02 import patterns, wrapper_history_pass


def run(ctx):
    ctx.rule = ('hodge, unhodge, polarity, unpolarity on key tuples and rp on ordered key-tuple pairs, for all signatures d<=3 '
                '(sampled d=4; d<=4 all in thorough, sampled to 6), custom and named bases: compared as polynomial maps with the '
                'model; on the real code: undual(dual(x))=x, E^hodge(E)=pss, polarity(x)=x*pss^-1, ZeroDivisionError iff degenerate, '
                'a&b=unhodge(hodge(a)^hodge(b)), pss identity of &, dual()/undual() dispatch on r')
    ctx.lean_prepare()
    rng = ctx.rng
    cache = AlgCache()
    R = OpRun(ctx)
    cfgs = standard_configs(ctx, 3 if ctx.quick else 4, 10 if ctx.quick else 50, sample_sig=None)
    for s in rng.sample(all_signatures(4), 25 if ctx.quick else 0):
        cfgs.append(('sig', s, None, None))
    for d in ((5,) if ctx.quick else (5, 5, 5, 6, 6)):
        cfgs.append(('sig', [rng.choice((1, -1, 0)) for _ in range(d)], None, None))
        cfgs.append(('sig', [rng.choice((1, -1)) for _ in range(d)], None, None))
    for tag, sig, start, basis in cfgs:
        alg = cache.get(sig, start, basis)
        tok = tok_of(alg, basis)
        desc = {'sig': sig, 'basis': basis}
        full = list(alg.canon2bin.values())
        d = alg.d
        N = 2 ** d
        degenerate = 0 in sig
        tuples = [t if t is not None else full for t in key_tuples(rng, d, 6 if ctx.quick else 30)]
        tuples.append(full)
        tuples.append([k for k in full if grade(k) % 2 == 1])
        if d >= 5:
            tuples = [t[:12] for t in tuples[:4]]
        for kx in tuples:
            for op in ('hodge', 'unhodge'):
                R.unary(alg, tok, desc, op, kx)
            if d <= 4:
                for op in ('polarity', 'unpolarity'):
                    R.unary(alg, tok, desc, op, kx)
            x = tracer_mv(alg, kx, 0)
            xd = mv_to_dict(x)
            case = {**desc, 'kx': list(kx)}
            ctx.case(('dual-ident', case), nontrivial=bool(kx), tag='identities')
            for nm, f, g in (('hodge', lambda a: a.hodge(), lambda a: a.unhodge()),):
                for a, b, lbl in ((f, g, 'un(dual)'), (g, f, 'dual(un)')):
                    got = mv_to_dict(b(a(x)))
                    if not dict_equal(got, xd):
                        ctx.violation('identity', {**case, 'which': nm + ':' + lbl}, canon_dict(xd), canon_dict(got), key=f'{nm}:inverse')
            if d <= 4:
                # polarity: raises exactly for degenerate metrics; inverse pair; x * pss^-1
                try:
                    p = x.polarity()
                    raised = False
                except ZeroDivisionError:
                    raised = True
                except Exception as e:
                    ctx.violation('raises', {**case, 'op': 'polarity'}, 'ZeroDivisionError or value', repr(e), key='polarity:raises')
                    continue
                if raised != degenerate:
                    ctx.violation('polarity-raise', {**case, 'degenerate': degenerate}, f'raises={degenerate}', f'raises={raised}', key='polarity:zerodiv')
                if not raised:
                    for lbl, got in (('unpol(pol)', mv_to_dict(p.unpolarity())), ('pol(unpol)', mv_to_dict(x.unpolarity().polarity()))):
                        if not dict_equal(got, xd):
                            ctx.violation('identity', {**case, 'which': 'polarity:' + lbl}, canon_dict(xd), canon_dict(got), key='polarity:inverse')
                    exp = mv_to_dict(x * alg.pss.inv())
                    if not dict_equal(mv_to_dict(p), exp):
                        ctx.violation('identity', {**case, 'which': 'polarity = x*pss^-1'}, canon_dict(exp), canon_dict(mv_to_dict(p)), key='polarity:def')
            # dual()/undual() dispatch
            r = sig.count(0)
            for meth, pol, hod in (('dual', 'polarity', 'hodge'), ('undual', 'unpolarity', 'unhodge')):
                try:
                    got = mv_to_dict(getattr(x, meth)())
                    if r == 0:
                        exp = mv_to_dict(getattr(x, pol)())
                    elif r == 1:
                        exp = mv_to_dict(getattr(x, hod)())
                    else:
                        ctx.violation('dual-dispatch', {**case, 'meth': meth, 'r': r}, 'an error for r>1', canon_dict(got), key='dual:dispatch')
                        continue
                    if d <= 4 or r == 1:
                        if not dict_equal(got, exp):
                            ctx.violation('dual-dispatch', {**case, 'meth': meth, 'r': r}, canon_dict(exp), canon_dict(got), key='dual:dispatch')
                except ZeroDivisionError:
                    ctx.violation('dual-dispatch', {**case, 'meth': meth, 'r': r}, 'no ZeroDivisionError in auto mode', 'ZeroDivisionError', key='dual:dispatch')
                except Exception as e:
                    if r <= 1:
                        ctx.violation('dual-dispatch', {**case, 'meth': meth, 'r': r}, 'a value', repr(e), key='dual:dispatch')
        # every basis blade E: E ^ hodge(E) = pss
        if d <= 5:
            for name, K in alg.canon2bin.items():
                E = alg.blades[name]
                got = {k: v for k, v in zip((E ^ E.hodge()).keys(), (E ^ E.hodge()).values()) if v != 0}
                pssd = {k: v for k, v in zip(alg.pss.keys(), alg.pss.values())}
                ctx.case(('E^hodge(E)', desc, name), tag='blade-hodge')
                if got != pssd:
                    ctx.violation('blade-hodge', {**desc, 'blade': name}, pssd, got, key='hodge:wedge-pss')
        # regressive product
        pats = patterns(ctx, d)
        if d >= 2:
            pats = rng.sample(pats, min(len(pats), (24 if d <= 3 else 8) if ctx.quick else 200))
        for kx, ky in pats:
            kx = full if kx is None else kx; ky = full if ky is None else ky
            if d >= 5:
                kx, ky = kx[:10], ky[:10]
            zd = R.binary(alg, tok, desc, 'rp', kx, ky, oracle=False)
            if zd is None:
                continue
            x, y = tracer_mv(alg, kx, 0), tracer_mv(alg, ky, 1000)
            exp = mv_to_dict((x.hodge() ^ y.hodge()).unhodge())
            if not dict_equal(zd, exp):
                ctx.violation('rp-def', {**desc, 'kx': kx, 'ky': ky}, canon_dict(exp), canon_dict(zd), key='rp:def')
            for lbl, got in (('pss&x', mv_to_dict(alg.pss & y)), ('x&pss', mv_to_dict(y & alg.pss))):
                if not dict_equal(got, mv_to_dict(y)):
                    ctx.violation('rp-identity', {**desc, 'ky': ky, 'which': lbl}, canon_dict(mv_to_dict(y)), canon_dict(got), key='rp:identity')
    R.flush()
    wrapper_history_pass(ctx, ['rp'])
    ctx.assumptions = ['polarity/unpolarity are generated through sympy (RationalPolynomial -> lambdify with CSE): trusted printer']

"""C05 — duality maps invert each other and define the regressive product."""
from harness.common import *
from harness.opcorr import *
from harness.c02 import patterns, wrapper_history_pass


def route_pass(ctx):
    """the duality maps through the by-name routes: with a wrapper (numspace lookup) in an interleaved history, and inside
    registered (compiled) functions; every result compared with the plain operators on a wrapper-free algebra"""
    from fractions import Fraction
    from kingdon import MultiVector
    rng = ctx.rng
    ident = lambda f: f

    def f_du(x): return x.dual().undual()
    def f_ud(x): return x.undual().dual()
    def f_h(x): return x.hodge().unhodge()
    def f_join(a, b): return (a.dual() ^ b.dual()).undual()
    def f_kind(x): return x.undual(kind='hodge')
    for sig in ([1, 1, 1], [0, 1], [0, 1, 1, 1], [1, 1, 1, -1], [0, 1, 1], [1, -1]):
        plain = make_algebra(sig)
        wrapped = make_algebra(sig, wrapper=ident)
        d = len(sig)
        full = list(plain.canon2bin.values())
        pats = [full, [k for k in full if grade(k) % 2 == 1], [k for k in full if grade(k) == 1], [k for k in full if grade(k) == d - 1]]
        ops = ['dual', 'undual', 'hodge', 'unhodge'] + (['polarity', 'unpolarity'] if 0 not in sig else [])
        calls = [(op, kx) for kx in pats for op in ops]
        seq = calls + list(reversed(calls)) + calls
        for op, kx in seq:
            vals = [Fraction(rng.randint(1, 9)) for _ in kx]
            xp = MultiVector.fromkeysvalues(plain, tuple(kx), list(vals))
            xw = MultiVector.fromkeysvalues(wrapped, tuple(kx), list(vals))
            case = {'sig': sig, 'route': 'wrapper-history', 'op': op, 'kx': kx}
            ctx.case(case, tag='route:wrapper')
            try:
                e, g = mv_to_dict(getattr(xp, op)()), mv_to_dict(getattr(xw, op)())
            except Exception as ex:
                continue
            if e != g:
                ctx.violation('route', case, str(e)[:200], str(g)[:200], key=f'route:wrapper:{op}')
                break
        for alg in (plain, wrapped):
            regs = [(f, alg.register(f)) for f in (f_du, f_ud, f_h, f_kind)]
            rj = alg.register(f_join)
            for kx in pats:
                vals = [Fraction(rng.randint(1, 9)) for _ in kx]
                x = MultiVector.fromkeysvalues(alg, tuple(kx), list(vals))
                for f, rf in regs:
                    case = {'sig': sig, 'route': 'registered' + ('+wrapper' if alg is wrapped else ''), 'f': f.__name__, 'kx': kx}
                    ctx.case(case, tag='route:registered')
                    try:
                        e = mv_to_dict(f(x))
                    except Exception:
                        continue
                    try:
                        g = mv_to_dict(rf(x))
                    except Exception as ex:
                        ctx.violation('route-raises', case, str(e)[:200], repr(ex)[:200], key=f'route:registered:{f.__name__}:raises')
                        continue
                    if e != g:
                        ctx.violation('route', case, str(e)[:200], str(g)[:200], key=f'route:registered:{f.__name__}')
                if sig.count(0) <= 1:
                    y = MultiVector.fromkeysvalues(alg, tuple(pats[2]), [Fraction(rng.randint(1, 9)) for _ in pats[2]])
                    try:
                        e, g = mv_to_dict(f_join(x, y)), mv_to_dict(rj(x, y))
                        if e != g:
                            ctx.violation('route', {'sig': sig, 'route': 'registered', 'f': 'f_join', 'kx': kx}, str(e)[:200], str(g)[:200], key='route:registered:f_join')
                    except Exception:
                        pass


def kind_pass(ctx):
    """`x.dual(kind=..)` / `x.undual(kind=..)`: an explicitly requested kind is that map in every algebra (`'hodge'` is
    `x.hodge()`, `'polarity'` is `x.polarity()` - or raises what that raises in a degenerate metric), `'auto'` is the polarity
    for r = 0 and the Hodge dual for r = 1"""
    from fractions import Fraction
    from kingdon import MultiVector
    rng = ctx.rng
    def outcome(thunk):
        try:
            return mv_to_dict(thunk())
        except Exception as ex:
            return 'raises ' + type(ex).__name__
    for sig in ([1, 1, 1], [1, -1], [0, 1, 1], [0, 1, 1, 1], [1, 0, 0], [0, 0], [1], [], [1, 1, 1, -1], [0, 1, -1, 0]):
        alg = make_algebra(sig)
        full = list(alg.canon2bin.values())
        r = list(sig).count(0)
        pats = [full] + [t if t is not None else full for t in key_tuples(rng, alg.d, 3, ['subset', 'grades', 'small'])]
        for kx in pats:
            x = MultiVector.fromkeysvalues(alg, tuple(kx), [Fraction(rng.randint(1, 9)) for _ in kx])
            for direction, hodge, polar in (('dual', 'hodge', 'polarity'), ('undual', 'unhodge', 'unpolarity')):
                table = {'hodge': hodge, 'polarity': polar}
                if r == 0:
                    table['auto'] = polar
                elif r == 1:
                    table['auto'] = hodge
                for kind, meth in table.items():
                    case = {'sig': sig, 'kx': list(kx), 'call': f'x.{direction}(kind={kind!r})', 'expected_as': f'x.{meth}()'}
                    ctx.case(case, tag='dual-kind')
                    exp = outcome(lambda: getattr(x, meth)())
                    got = outcome(lambda: getattr(x, direction)(kind=kind))
                    if exp != got:
                        ctx.violation('dual-kind', case, str(exp)[:200], str(got)[:200], key=f'dual-kind:{direction}:{kind}')
                        break


def run(ctx):
    ctx.rule = ('hodge, unhodge, polarity, unpolarity on key tuples and rp on ordered key-tuple pairs, for all signatures d<=3 '
                '(sampled d=4; d<=4 all in thorough, sampled to 6), custom and named bases: compared as polynomial maps with the '
                'model; on the real code: undual(dual(x))=x, E^hodge(E)=pss, polarity(x)=x*pss^-1, ZeroDivisionError iff degenerate, '
                'a&b=unhodge(hodge(a)^hodge(b)), pss identity of &, dual()/undual() dispatch on r')
    ctx.lean_prepare()
    rng = ctx.rng
    cache = AlgCache()
    R = OpRun(ctx)
    cfgs = standard_configs(ctx, 3 if ctx.quick else 4, 10 if ctx.quick else 50, sample_sig=None)
    for s in rng.sample(all_signatures(4), 25 if ctx.quick else 0):
        cfgs.append(('sig', s, None, None))
    for d in ((5,) if ctx.quick else (5, 5, 5, 6, 6)):
        cfgs.append(('sig', [rng.choice((1, -1, 0)) for _ in range(d)], None, None))
        cfgs.append(('sig', [rng.choice((1, -1)) for _ in range(d)], None, None))
    for tag, sig, start, basis in cfgs:
        if ctx.over_budget():
            continue
        alg = cache.get(sig, start, basis)
        tok = tok_of(alg, basis)
        desc = {'sig': sig, 'basis': basis}
        full = list(alg.canon2bin.values())
        d = alg.d
        N = 2 ** d
        degenerate = 0 in sig
        tuples = [t if t is not None else full for t in key_tuples(rng, d, 6 if ctx.quick else 30)]
        tuples.append(full)
        tuples.append([k for k in full if grade(k) % 2 == 1])
        if d >= 5:
            tuples = [t[:12] for t in tuples[:4]]
        for kx in tuples:
            for op in ('hodge', 'unhodge'):
                R.unary(alg, tok, desc, op, kx)
            if d <= 4:
                for op in ('polarity', 'unpolarity'):
                    R.unary(alg, tok, desc, op, kx)
            x = tracer_mv(alg, kx, 0)
            xd = mv_to_dict(x)
            case = {**desc, 'kx': list(kx)}
            ctx.case(('dual-ident', case), nontrivial=bool(kx), tag='identities')
            for nm, f, g in (('hodge', lambda a: a.hodge(), lambda a: a.unhodge()),):
                for a, b, lbl in ((f, g, 'un(dual)'), (g, f, 'dual(un)')):
                    got = mv_to_dict(b(a(x)))
                    if not dict_equal(got, xd):
                        ctx.violation('identity', {**case, 'which': nm + ':' + lbl}, canon_dict(xd), canon_dict(got), key=f'{nm}:inverse')
            if d <= 4:
                # polarity: raises exactly for degenerate metrics; inverse pair; x * pss^-1
                try:
                    p = x.polarity()
                    raised = False
                except ZeroDivisionError:
                    raised = True
                except Exception as e:
                    ctx.violation('raises', {**case, 'op': 'polarity'}, 'ZeroDivisionError or value', repr(e), key='polarity:raises')
                    continue
                if raised != degenerate:
                    ctx.violation('polarity-raise', {**case, 'degenerate': degenerate}, f'raises={degenerate}', f'raises={raised}', key='polarity:zerodiv')
                if not raised:
                    for lbl, got in (('unpol(pol)', mv_to_dict(p.unpolarity())), ('pol(unpol)', mv_to_dict(x.unpolarity().polarity()))):
                        if not dict_equal(got, xd):
                            ctx.violation('identity', {**case, 'which': 'polarity:' + lbl}, canon_dict(xd), canon_dict(got), key='polarity:inverse')
                    exp = mv_to_dict(x * alg.pss.inv())
                    if not dict_equal(mv_to_dict(p), exp):
                        ctx.violation('identity', {**case, 'which': 'polarity = x*pss^-1'}, canon_dict(exp), canon_dict(mv_to_dict(p)), key='polarity:def')
            # dual()/undual() dispatch
            r = sig.count(0)
            for meth, pol, hod in (('dual', 'polarity', 'hodge'), ('undual', 'unpolarity', 'unhodge')):
                try:
                    got = mv_to_dict(getattr(x, meth)())
                    if r == 0:
                        exp = mv_to_dict(getattr(x, pol)())
                    elif r == 1:
                        exp = mv_to_dict(getattr(x, hod)())
                    else:
                        ctx.violation('dual-dispatch', {**case, 'meth': meth, 'r': r}, 'an error for r>1', canon_dict(got), key='dual:dispatch')
                        continue
                    if d <= 4 or r == 1:
                        if not dict_equal(got, exp):
                            ctx.violation('dual-dispatch', {**case, 'meth': meth, 'r': r}, canon_dict(exp), canon_dict(got), key='dual:dispatch')
                except ZeroDivisionError:
                    ctx.violation('dual-dispatch', {**case, 'meth': meth, 'r': r}, 'no ZeroDivisionError in auto mode', 'ZeroDivisionError', key='dual:dispatch')
                except Exception as e:
                    if r <= 1:
                        ctx.violation('dual-dispatch', {**case, 'meth': meth, 'r': r}, 'a value', repr(e), key='dual:dispatch')
        # every basis blade E: E ^ hodge(E) = pss
        if d <= 5:
            for name, K in alg.canon2bin.items():
                E = alg.blades[name]
                got = {k: v for k, v in zip((E ^ E.hodge()).keys(), (E ^ E.hodge()).values()) if v != 0}
                pssd = {k: v for k, v in zip(alg.pss.keys(), alg.pss.values())}
                ctx.case(('E^hodge(E)', desc, name), tag='blade-hodge')
                if got != pssd:
                    ctx.violation('blade-hodge', {**desc, 'blade': name}, pssd, got, key='hodge:wedge-pss')
        # regressive product
        pats = patterns(ctx, d)
        if d >= 2:
            pats = rng.sample(pats, min(len(pats), (24 if d <= 3 else 8) if ctx.quick else 200))
        for kx, ky in pats:
            kx = full if kx is None else kx; ky = full if ky is None else ky
            if d >= 5:
                kx, ky = kx[:10], ky[:10]
            zd = R.binary(alg, tok, desc, 'rp', kx, ky, oracle=False)
            if zd is None:
                continue
            x, y = tracer_mv(alg, kx, 0), tracer_mv(alg, ky, 1000)
            exp = mv_to_dict((x.hodge() ^ y.hodge()).unhodge())
            if not dict_equal(zd, exp):
                ctx.violation('rp-def', {**desc, 'kx': kx, 'ky': ky}, canon_dict(exp), canon_dict(zd), key='rp:def')
            for lbl, got in (('pss&x', mv_to_dict(alg.pss & y)), ('x&pss', mv_to_dict(y & alg.pss))):
                if not dict_equal(got, mv_to_dict(y)):
                    ctx.violation('rp-identity', {**desc, 'ky': ky, 'which': lbl}, canon_dict(mv_to_dict(y)), canon_dict(got), key='rp:identity')
    R.flush()
    wrapper_history_pass(ctx, ['rp'])
    route_pass(ctx)
    kind_pass(ctx)
    ctx.assumptions = ['polarity/unpolarity are generated through sympy (RationalPolynomial -> lambdify with CSE): trusted printer']

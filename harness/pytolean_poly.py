#!/usr/bin/env python3
"""Translator for kingdon/polynomial.py: the methods of `Polynomial` and `RationalPolynomial` (and `compare`) become Lean
definitions over the prelude `Kingdon/Model/PyPoly.lean`, statement by statement, in `do` notation over `Py.M`.

python is dynamically typed and these methods dispatch on `isinstance`; the translation is *per instantiation*: a
target fixes the static kind of every parameter and local (TARGETS below), `isinstance(x, self.__class__)` and
`self.__class__ != other.__class__` are decided from those kinds, and operators between objects become calls of the
instantiation of the dunder method python would dispatch to (`p + q` with two Polynomials -> `poly_add`,
`n * p` with an int on the left -> `Polynomial.__rmul__ = __mul__` -> `poly_mul_int`, `r == 0` -> `rat_eq_int`).
Kinds: int, bool, atom (an element of a monomial list: int | str | None), mono (a monomial list), omono (monomial or None),
args (`Polynomial.args`: list of monomials), poly (a Polynomial object; same Lean type as args, but `==`, `+`, `*` dispatch),
rat (RationalPolynomial = (numer, denom)), orat (what `inv()` returns: a RationalPolynomial, or the int 0 -> none).
`while` loops become `for _ in List.range fuel` with the loop condition as `break` test and a final check that the
condition is false (else "FUEL"); the fuel expression is given per target, and the equivalence proofs show it suffices.
Modelled by rule rather than translated (pinned by a hash of their source text; a change turns every translation into
a stub so that all dependent proofs break): `Polynomial.__init__/__len__/__getitem__`, `RationalPolynomial.__init__`.
"""
import ast, os, sys, hashlib, textwrap

VERIF = os.path.dirname(os.path.dirname(os.path.abspath(__file__)))
REPO = os.environ.get('VERIF_REPO', '/repo')
SRC = 'kingdon/polynomial.py'

KT = {'int': 'Int', 'bool': 'Bool', 'atom': 'Py.Atom', 'mono': 'Py.Mono', 'omono': 'Option Py.Mono', 'args': 'Py.Poly',
      'poly': 'Py.Poly', 'rat': 'Py.Rat', 'orat': 'Option Py.Rat',
      'ac': 'Int', 'ilist': 'List Int', 'chains': 'Py.Dict Int (List Int)', 'pdict': 'Py.Dict Int β', 'T': 'β', 'tlist': 'List β',
      'opfun': 'β → β → Py.M β'}
DEFAULT = {'int': '0', 'bool': 'false', 'atom': 'Py.Atom.none', 'mono': '[]', 'omono': 'none', 'args': '[]', 'poly': '[]',
           'rat': '([], [])', 'orat': 'none', 'ac': '0', 'ilist': '[]', 'chains': '[]', 'pdict': '[]', 'tlist': '[]'}
ONE = '[[Py.Atom.num 1]]'


class Unsupported(Exception):
    pass


class T:
    def __init__(self, qual, lean, params, ret, locals=None, fuel=None, file=None, generic=False, generator=False):
        self.qual, self.lean, self.params, self.ret = qual, lean, params, ret
        self.file = file or SRC       # python file the function lives in
        self.generic = generic        # generic in the type β of the multiplied values
        self.generator = generator    # a generator: the translation returns the list of yielded values
        self.locals = locals or {}
        self.fuel = fuel or []      # fuel expressions (Lean, over the locals) of the `while` loops in order of appearance
        self.cls = qual.split('.')[0] if '.' in qual else None


ADD_L = {'ai': 'int', 'bi': 'int', 'al': 'int', 'bl': 'int', 'res': 'args', 'ea': 'omono', 'eb': 'omono', 'diff': 'int'}
MUL_L = {'res': 'poly', 'al': 'int', 'bl': 'int', 'ai': 'int', 'bi': 'int', 'A': 'mono', 'B': 'mono', 'C': 'mono', 'i': 'int', 'j': 'int',
         'ea': 'atom', 'eb': 'atom'}
RADD_L = {'na': 'poly', 'da': 'poly', 'nb': 'poly', 'db': 'poly', 'nn': 'poly', 'nd': 'poly'}
RMUL_L = {'na': 'poly', 'da': 'poly', 'nb': 'poly', 'db': 'poly', 'numer': 'poly', 'denom': 'poly', 'fl1': 'mono', 'fl2': 'mono',
          'nnn': 'mono', 'nnd': 'mono', 'p1': 'int', 'p2': 'int', 'f1': 'atom', 'f2': 'atom'}

CG = 'kingdon/codegen.py'
TARGETS = [
    T('AdditionChains.minimal_chains', 'minimal_chains', [('self', 'ac')], 'chains',
      {'chains': 'chains', 'chain': 'ilist', 'right_summand': 'int', 'left_summand': 'int', 'value': 'int'}, fuel=['(self + 1).toNat'], file=CG),
    T('power_supply', 'power_supply', [('operation', 'opfun'), ('x', 'T'), ('exponents', 'int')], 'tlist',
      {'target': 'int', 'addition_chains': 'ac', 'powers': 'pdict', 'chain': 'ilist', 'step': 'int'}, file=CG, generic=True, generator=True),
    T('compare', 'compare', [('a', 'omono'), ('b', 'omono')], 'int', {'la': 'int', 'lb': 'int', 'l': 'int'}),
    T('Polynomial.__eq__', 'poly_eq_int', [('self', 'poly'), ('other', 'int')], 'bool'),
    T('Polynomial.__eq__', 'poly_eq', [('self', 'poly'), ('other', 'poly')], 'bool'),
    T('Polynomial.__add__', 'poly_add', [('self', 'poly'), ('other', 'poly')], 'poly', ADD_L, fuel=['(al + bl).toNat']),
    T('Polynomial.__mul__', 'poly_mul', [('self', 'poly'), ('other', 'poly')], 'poly', MUL_L, fuel=['A.length + B.length']),
    T('Polynomial.__mul__', 'poly_mul_int', [('self', 'poly'), ('other', 'int')], 'poly', MUL_L, fuel=['A.length + B.length']),
    T('Polynomial.__neg__', 'poly_neg', [('self', 'poly')], 'poly'),
    T('Polynomial.__sub__', 'poly_sub', [('self', 'poly'), ('other', 'poly')], 'poly'),
    T('Polynomial.__bool__', 'poly_bool', [('self', 'poly')], 'bool'),
    T('RationalPolynomial.__eq__', 'rat_eq_int', [('self', 'rat'), ('other', 'int')], 'bool'),
    T('RationalPolynomial.__eq__', 'rat_eq', [('self', 'rat'), ('other', 'rat')], 'bool'),
    T('RationalPolynomial.__add__', 'rat_add', [('self', 'rat'), ('other', 'rat')], 'rat', RADD_L),
    T('RationalPolynomial.__mul__', 'rat_mul', [('self', 'rat'), ('other', 'rat')], 'rat', RMUL_L, fuel=['fl1.length + fl2.length']),
    T('RationalPolynomial.__mul__', 'rat_mul_int', [('self', 'rat'), ('other', 'int')], 'rat', RMUL_L, fuel=['fl1.length + fl2.length']),
    T('RationalPolynomial.inv', 'rat_inv', [('self', 'rat')], 'orat'),
    T('RationalPolynomial.__neg__', 'rat_neg', [('self', 'rat')], 'rat'),
    T('RationalPolynomial.__sub__', 'rat_sub', [('self', 'rat'), ('other', 'rat')], 'rat'),
    T('RationalPolynomial.__truediv__', 'rat_div', [('self', 'rat'), ('other', 'rat')], 'rat'),
    T('RationalPolynomial.__rtruediv__', 'rat_rdiv_int', [('self', 'rat'), ('other', 'int')], 'rat'),
    T('RationalPolynomial.__bool__', 'rat_bool', [('self', 'rat')], 'bool'),
    T('Polynomial.__pow__', 'poly_pow', [('self', 'poly'), ('power', 'int')], 'poly', {'last': 'poly'}),
    T('RationalPolynomial.__pow__', 'rat_pow', [('self', 'rat'), ('power', 'int')], 'rat', {'last': 'rat'}),
]

# dispatch of operators between objects: (op, kind left, kind right) -> (lean function, swap operands)
BINOP = {('Add', 'poly', 'poly'): ('poly_add', False), ('Mult', 'poly', 'poly'): ('poly_mul', False),
         ('Mult', 'poly', 'int'): ('poly_mul_int', False), ('Mult', 'int', 'poly'): ('poly_mul_int', True),   # __rmul__ = __mul__
         ('Add', 'rat', 'rat'): ('rat_add', False), ('Mult', 'rat', 'rat'): ('rat_mul', False),
         ('Mult', 'rat', 'int'): ('rat_mul_int', False), ('Div', 'int', 'rat'): ('rat_rdiv_int', True)}      # int / rat: __rtruediv__
EQ = {('poly', 'int'): 'poly_eq_int', ('poly', 'poly'): 'poly_eq', ('rat', 'int'): 'rat_eq_int', ('rat', 'rat'): 'rat_eq'}
NEG = {'poly': 'poly_neg', 'rat': 'rat_neg'}
METHODS = {('poly', '__bool__'): ('poly_bool', 'bool'), ('rat', 'inv'): ('rat_inv', 'orat')}

# methods modelled by rule: their text is pinned
PINNED = {
    'Polynomial.__init__': None, 'Polynomial.__len__': None, 'Polynomial.__getitem__': None, 'RationalPolynomial.__init__': None,
}
PINNED_HASH = None   # filled below from the pinned reference texts

PINNED_TEXT = {
 'Polynomial.__init__': '''def __init__(self, coeff):
    if isinstance(coeff, self.__class__):
        self.args = coeff.args
    elif isinstance(coeff, (list, tuple)):
        self.args = coeff
    elif isinstance(coeff, (int, float)):
        self.args = [[coeff]]
    elif isinstance(coeff, str):
        self.args = [[1, coeff]] if coeff[0] != '-' else [[-1, coeff[1:]]]''',
 'Polynomial.__len__': '''def __len__(self):
    return len(self.args)''',
 'codegen:AdditionChains.__getitem__': '''def __getitem__(self, n: int) -> Tuple[int, ...]:
    return self.minimal_chains[n]''',
 'Polynomial.__getitem__': '''def __getitem__(self, item):
    return self.args[item]''',
 'RationalPolynomial.__init__': '''def __init__(self, numer, denom=None):
    if isinstance(numer, self.__class__):
        numer = numer.numer
        denom = numer.denom
    elif isinstance(numer, (list, tuple)):
        numer = Polynomial(numer)
    if denom is None:
        denom = Polynomial([[1]])
    elif isinstance(denom, (list, tuple)):
        denom = Polynomial(denom)
    self.numer = numer
    self.denom = denom''',
}


def find_func(tree, qual):
    parts = qual.split('.')
    body = tree.body
    node = None
    for p in parts:
        node = next((n for n in body if isinstance(n, (ast.FunctionDef, ast.ClassDef)) and n.name == p), None)
        if node is None:
            return None
        body = node.body
    return node


def norm(fn):
    """the function without docstring, unparsed (insensitive to comments and layout)"""
    fn = ast.parse(ast.unparse(fn)).body[0]
    if fn.body and isinstance(fn.body[0], ast.Expr) and isinstance(fn.body[0].value, ast.Constant) and isinstance(fn.body[0].value.value, str):
        fn.body = fn.body[1:]
    return ast.unparse(fn)


class Tr:
    def __init__(self, t, fn):
        self.t, self.fn = t, fn
        self.kinds = dict(t.params)
        self.kinds.update(t.locals)
        self.rename = {}
        self.tmp = 0
        self.nwhile = 0
        self.assigned_params = set()
        for n in ast.walk(fn):
            if isinstance(n, (ast.Assign, ast.AugAssign)):
                for tg in (n.targets if isinstance(n, ast.Assign) else [n.target]):
                    for nm in ast.walk(tg):
                        if isinstance(nm, ast.Name) and nm.id in dict(t.params):
                            self.assigned_params.add(nm.id)

    def name(self, n):
        return self.rename.get(n, n)

    # --------------------------------------------------------------------------------------------- static tests
    def is_cls(self, node):
        """does `node` denote the class of self"""
        return ast.unparse(node) in ('self.__class__', self.t.cls)

    def static(self, test):
        if isinstance(test, ast.UnaryOp) and isinstance(test.op, ast.Not):
            s = self.static(test.operand)
            return None if s is None else (not s)
        if isinstance(test, ast.Call) and isinstance(test.func, ast.Name) and test.func.id == 'isinstance' and len(test.args) == 2:
            x, c = test.args
            if isinstance(x, ast.Name) and self.kinds.get(x.id) in ('poly', 'rat', 'int', 'args'):
                k = self.kinds[x.id]
                if self.is_cls(c):
                    own = 'poly' if self.t.cls == 'Polynomial' else 'rat'
                    return k == own
                txt = ast.unparse(c)
                if txt in ('(list, tuple)',):
                    return k == 'args'
                if txt in ('(int, float)', 'int'):
                    return k == 'int'
            return None
        if isinstance(test, ast.Compare) and len(test.ops) == 1 and isinstance(test.ops[0], (ast.NotEq, ast.Eq)):
            a, b = ast.unparse(test.left), ast.unparse(test.comparators[0])
            if a == 'self.__class__' and b.endswith('.__class__') and isinstance(test.comparators[0].value, ast.Name):
                own = 'poly' if self.t.cls == 'Polynomial' else 'rat'
                same = self.kinds.get(test.comparators[0].value.id) == own
                return (not same) if isinstance(test.ops[0], ast.NotEq) else same
        return None

    # --------------------------------------------------------------------------------------------- expressions
    def fresh(self, base):
        self.tmp += 1
        return f'{base}_{self.tmp}'

    def wrap(self, code, kind, want):
        """coerce to the wanted kind where python needs no conversion"""
        if want is None or kind == want:
            return code, kind
        if want == 'atom' and kind == 'int':
            return f'(Py.Atom.num {code})', 'atom'
        if want == 'omono' and kind == 'mono':
            return f'(some {code})', 'omono'
        if want == 'orat' and kind == 'rat':
            return f'(some {code})', 'orat'
        if {want, kind} == {'poly', 'args'}:
            return code, want
        raise Unsupported(f'kind {kind} where {want} is needed: {code}')

    def E(self, node, want=None):
        c, k = self.E0(node, want)
        return self.wrap(c, k, want) if want else (c, k)

    def truth(self, node):
        c, k = self.E(node)
        if k == 'bool':
            return c
        if k == 'args' or k == 'mono':
            return f'(!({c}).isEmpty)'
        if k == 'int':
            return f'({c} != 0)'
        if k == 'atom':
            return f'(Py.Atom.truthy {c})'
        raise Unsupported(f'truth value of kind {k}')

    def E0(self, node, want):
        if isinstance(node, ast.Constant):
            v = node.value
            if isinstance(v, bool):
                return ('true' if v else 'false'), 'bool'
            if isinstance(v, int):
                return f'({v} : Int)', 'int'
            if v is None:
                if want == 'atom':
                    return 'Py.Atom.none', 'atom'
                if want == 'omono':
                    return 'none', 'omono'
                raise Unsupported('None without an expected kind')
            raise Unsupported(f'constant {v!r}')
        if isinstance(node, ast.Name):
            if node.id in self.kinds:
                return self.name(node.id), self.kinds[node.id]
            raise Unsupported(f'free name {node.id}')
        if isinstance(node, ast.Attribute) and isinstance(node.value, ast.Name):
            base, kb = self.E(node.value)
            if kb == 'poly' and node.attr == 'args':
                return base, 'args'
            if kb == 'ac' and node.attr == 'limit':
                return base, 'int'
            if kb == 'rat' and node.attr in ('numer', 'denom'):
                return f'{base}.{1 if node.attr == "numer" else 2}', 'poly'
            raise Unsupported(f'attribute {node.attr} of kind {kb}')
        if isinstance(node, ast.Tuple):
            # a tuple of ints (an addition chain): `(1,)`, `(*chain, value)`
            parts = []
            for e in node.elts:
                if isinstance(e, ast.Starred):
                    c, k = self.E(e.value)
                    if k != 'ilist':
                        raise Unsupported('starred element of kind ' + str(k))
                    parts.append(c)
                else:
                    c, k = self.E(e)
                    if k != 'int':
                        raise Unsupported('tuple element of kind ' + str(k))
                    parts.append(f'[{c}]')
            return '(' + ' ++ '.join(parts) + ')', 'ilist'
        if isinstance(node, ast.Dict) and len(node.keys) == 1 and want in ('chains', 'pdict'):
            kc, kk = self.E(node.keys[0])
            vc, vk = self.E(node.values[0], 'ilist' if want == 'chains' else 'T')
            if kk != 'int':
                raise Unsupported('dict key kind')
            return f'[({kc}, {vc})]', want
        if isinstance(node, ast.List):
            if any(isinstance(e, ast.Starred) for e in node.elts):
                # [x, *rest] : a monomial
                parts = []
                for e in node.elts:
                    if isinstance(e, ast.Starred):
                        c, k = self.E(e.value)
                        if k != 'mono':
                            raise Unsupported('starred element that is not a monomial')
                        parts.append(c)
                    else:
                        c, _ = self.E(e, 'atom')
                        parts.append(f'[{c}]')
                return '(' + ' ++ '.join(parts) + ')', 'mono'
            if not node.elts:
                if want in ('args', 'poly', 'mono'):
                    return '[]', want
                raise Unsupported('empty list without an expected kind')
            if want in ('args', 'poly'):
                return '[' + ', '.join(self.E(e, 'mono')[0] for e in node.elts) + ']', 'args'
            if want == 'mono':
                return '[' + ', '.join(self.E(e, 'atom')[0] for e in node.elts) + ']', 'mono'
            first, kf = self.E(node.elts[0])
            if kf in ('atom', 'int'):
                return '[' + ', '.join(self.E(e, 'atom')[0] for e in node.elts) + ']', 'mono'
            if kf == 'mono':
                return '[' + ', '.join(self.E(e, 'mono')[0] for e in node.elts) + ']', 'args'
            raise Unsupported(f'list of kind {kf}')
        if isinstance(node, ast.UnaryOp):
            if isinstance(node.op, ast.Not):
                s = self.static(node)
                if s is not None:
                    return ('true' if s else 'false'), 'bool'
                return f'(!{self.truth(node.operand)})', 'bool'
            if isinstance(node.op, ast.USub):
                c, k = self.E(node.operand)
                if k in NEG:
                    return f'(← {NEG[k]} {c})', k
                if k == 'atom':
                    return f'(← Py.Atom.neg {c})', 'atom'
                if k == 'int':
                    return f'(-{c})', 'int'
            raise Unsupported(f'unary {type(node.op).__name__}')
        if isinstance(node, ast.BinOp):
            a, ka = self.E(node.left)
            b, kb = self.E(node.right)
            op = type(node.op).__name__
            if (op, ka, kb) in BINOP:
                f, swap = BINOP[(op, ka, kb)]
                return (f'(← {f} {b} {a})' if swap else f'(← {f} {a} {b})'), ('rat' if f.startswith('rat') else 'poly')
            if op == 'Mult' and ka == 'rat' and kb == 'orat':
                # `self * other.inv()`: inv() returned a RationalPolynomial, or the int 0
                return f'(← (match {b} with | some w__ => rat_mul {a} w__ | none => rat_mul_int {a} 0))', 'rat'
            if ka == 'atom' and kb == 'atom' and op in ('Mult', 'Add'):
                return f'(← Py.Atom.{"mul" if op == "Mult" else "add"} {a} {b})', 'atom'
            if ka == 'int' and kb == 'int' and op in ('Add', 'Sub', 'Mult'):
                return f'({a} { {"Add": "+", "Sub": "-", "Mult": "*"}[op] } {b})', 'int'
            raise Unsupported(f'{ka} {op} {kb}')
        if isinstance(node, ast.BoolOp):
            parts = [self.truth(v) for v in node.values]
            isand = isinstance(node.op, ast.And)
            code = parts[-1]
            for p in reversed(parts[:-1]):
                if '←' in code:
                    code = f'(← Py.{"andM" if isand else "orM"} {p} (do pure {code}))'
                else:
                    code = f'({p} {"&&" if isand else "||"} {code})'
            return code, 'bool'
        if isinstance(node, ast.Compare):
            if len(node.ops) != 1:
                raise Unsupported('chained comparison')
            s = self.static(node)
            if s is not None:
                return ('true' if s else 'false'), 'bool'
            op = type(node.ops[0]).__name__
            L, R = node.left, node.comparators[0]
            if op in ('In', 'NotIn'):
                a, ka = self.E(L)
                b, kb = self.E(R)
                if ka == 'int' and kb in ('chains', 'pdict'):
                    c = f'(Py.dictHas {b} {a})'
                    return (c if op == 'In' else f'(!{c})'), 'bool'
                raise Unsupported(f'`in` between {ka} and {kb}')
            if op in ('Is', 'IsNot') and isinstance(R, ast.Constant) and R.value is None:
                a, ka = self.E(L)
                if ka not in ('atom', 'omono'):
                    raise Unsupported(f'`is None` on kind {ka}')
                return (f'{a}.isNone' if op == 'Is' else f'(!{a}.isNone)'), 'bool'
            a, ka = self.E(L)
            if op in ('Eq', 'NotEq'):
                neg = op == 'NotEq'
                if ka in ('poly', 'rat'):
                    b, kb = self.E(R)
                    if (ka, kb) not in EQ:
                        raise Unsupported(f'== between {ka} and {kb}')
                    if neg:
                        raise Unsupported('!= on objects (python falls back to `not __eq__`)')
                    return f'(← {EQ[(ka, kb)]} {a} {b})', 'bool'
                if ka == 'int' and isinstance(R, ast.Constant) or ka == 'int':
                    b, kb = self.E(R)
                    if kb in ('poly', 'rat'):
                        # `0 == p`: int.__eq__ gives NotImplemented, python tries the reflected p.__eq__(0)
                        return f'(← {EQ[(kb, "int")]} {b} {a})', 'bool'
                    if kb != 'int':
                        raise Unsupported(f'== between int and {kb}')
                    return f'({a} {"!=" if neg else "=="} {b})', 'bool'
                if ka in ('atom', 'mono', 'args'):
                    b, _ = self.E(R, ka)
                    return f'({a} {"!=" if neg else "=="} {b})', 'bool'
                raise Unsupported(f'== on kind {ka}')
            if op in ('Lt', 'Gt', 'LtE', 'GtE'):
                b, kb = self.E(R)
                if ka == 'int' and kb == 'int':
                    sym = {'Lt': '<', 'Gt': '>', 'LtE': '≤', 'GtE': '≥'}[op]
                    return f'(decide ({a} {sym} {b}))', 'bool'
                if ka == 'atom' and kb == 'atom':
                    if op == 'Lt':
                        return f'(← Py.Atom.lt {a} {b})', 'bool'
                    if op == 'Gt':
                        return f'(← Py.Atom.lt {b} {a})', 'bool'     # str/int `a > b` is `b < a`
                raise Unsupported(f'{ka} {op} {kb}')
            raise Unsupported(f'comparison {op}')
        if isinstance(node, ast.IfExp):
            t = self.truth(node.test)
            if isinstance(node.orelse, ast.Constant) and node.orelse.value is None:
                a, ka = self.E(node.body)
                res = {'mono': 'omono', 'atom': 'atom'}.get(ka)
                if res is None:
                    raise Unsupported(f'`x if c else None` with x of kind {ka}')
                a, _ = self.wrap(a, ka, res)
                b = 'none' if res == 'omono' else 'Py.Atom.none'
            else:
                a, ka = self.E(node.body, want)
                b, kb = self.E(node.orelse, want or ka)
                res = ka
            if '←' in a or '←' in b or '←' in t:
                return f'(← (if {t} then (do pure {a}) else (do pure {b})))', res
            return f'(if {t} then {a} else {b})', res
        if isinstance(node, ast.Subscript):
            v, kv = self.E(node.value)
            if isinstance(node.slice, ast.Slice):
                s = node.slice
                if s.upper is None and s.step is None and s.lower is not None and kv == 'mono':
                    return f'(Py.sliceFrom {v} {self.E(s.lower)[0]})', 'mono'
                raise Unsupported('slice form')
            i, ki = self.E(node.slice)
            if ki != 'int':
                raise Unsupported('non-integer index')
            if kv in ('poly', 'args'):        # Polynomial.__getitem__ is self.args[item]
                return f'(← Py.getItem {v} {i})', 'mono'
            if kv == 'mono':
                return f'(← Py.getItem {v} {i})', 'atom'
            if kv == 'omono':
                return f'(← Py.ogetItem {v} {i})', 'atom'
            if kv == 'ilist':
                return f'(← Py.getItem {v} {i})', 'int'
            if kv == 'chains':
                return f'(← Py.dictGet {v} {i})', 'ilist'
            if kv == 'pdict':
                return f'(← Py.dictGet {v} {i})', 'T'
            if kv == 'ac':          # AdditionChains.__getitem__ is self.minimal_chains[n] (a cached property: a pure function of the limit)
                return f'(← Py.dictGet (← minimal_chains {v}) {i})', 'ilist'
            raise Unsupported(f'subscript on kind {kv}')
        if isinstance(node, ast.Call):
            return self.call(node, want)
        if isinstance(node, ast.ListComp) and len(node.generators) == 1 and not node.generators[0].ifs and isinstance(node.generators[0].target, ast.Name):
            g = node.generators[0]
            it, kit = self.E(g.iter)
            if kit not in ('args', 'poly'):
                raise Unsupported('comprehension over kind ' + str(kit))
            v = g.target.id
            saved = self.kinds.get(v)
            self.kinds[v] = 'mono'
            body, kb = self.E(node.elt)
            if saved is None:
                del self.kinds[v]
            else:
                self.kinds[v] = saved
            if kb != 'mono':
                raise Unsupported('comprehension element of kind ' + str(kb))
            if '←' in body:
                return f'(← ({it}).mapM (fun {v} => do pure {body}))', 'args'
            return f'(({it}).map (fun {v} => {body}))', 'args'
        raise Unsupported(f'expression {type(node).__name__}')

    def ctor(self, cls, args, want):
        if cls == 'Polynomial':
            if len(args) != 1:
                raise Unsupported('Polynomial(..) arity')
            try:
                c, k = self.E(args[0], 'args')
            except Unsupported:
                c, k = self.E(args[0])
            if k in ('args', 'poly'):
                return c, 'poly'          # isinstance(coeff, Polynomial) -> coeff.args ; list -> coeff
            if k == 'int':
                return f'[[Py.Atom.num {c}]]', 'poly'
            raise Unsupported(f'Polynomial({k})')
        if cls == 'RationalPolynomial':
            if len(args) == 1:
                try:
                    c, k = self.E(args[0], 'args')
                except Unsupported:
                    c, k = self.E(args[0])
                if k in ('args', 'poly'):
                    return f'({c}, {ONE})', 'rat'
                raise Unsupported(f'RationalPolynomial({k})')
            if len(args) == 2:
                cs = []
                for a in args:
                    try:
                        c, k = self.E(a, 'args')
                    except Unsupported:
                        c, k = self.E(a)
                    if k not in ('args', 'poly'):
                        raise Unsupported(f'RationalPolynomial(.., {k})')
                    cs.append(c)
                return f'({cs[0]}, {cs[1]})', 'rat'
        raise Unsupported(f'constructor {cls}')

    def call(self, node, want):
        f = node.func
        if self.is_cls(f) or (isinstance(f, ast.Name) and f.id in ('Polynomial', 'RationalPolynomial')):
            cls = self.t.cls if ast.unparse(f) == 'self.__class__' else f.id
            return self.ctor(cls, node.args, want)
        if isinstance(f, ast.Name):
            if f.id == 'len' and len(node.args) == 1:
                c, k = self.E(node.args[0])
                if k in ('mono', 'args', 'poly'):     # Polynomial.__len__ is len(self.args)
                    return f'(Int.ofNat ({c}).length)', 'int'
                if k == 'omono':
                    return f'(← Py.olen {c})', 'int'
                raise Unsupported(f'len of kind {k}')
            if f.id == 'min' and len(node.args) == 2:
                return f'(Py.imin {self.E(node.args[0])[0]} {self.E(node.args[1])[0]})', 'int'
            if f.id == 'bool' and len(node.args) == 1:
                return self.truth(node.args[0]), 'bool'
            if f.id == 'isinstance' and len(node.args) == 2:
                s = self.static(node)
                if s is not None:
                    return ('true' if s else 'false'), 'bool'
                c, k = self.E(node.args[0])
                if k == 'atom' and ast.unparse(node.args[1]) == 'str':
                    return f'{c}.isStr', 'bool'
                raise Unsupported('isinstance form')
            if f.id == 'range' and len(node.args) == 2:
                return f'(Py.range {self.E(node.args[0])[0]} {self.E(node.args[1])[0]})', 'ilist'
            if f.id == 'any' and len(node.args) == 1 and isinstance(node.args[0], ast.GeneratorExp) and len(node.args[0].generators) == 1 \
                    and not node.args[0].generators[0].ifs and isinstance(node.args[0].generators[0].target, ast.Name):
                g = node.args[0].generators[0]
                it, kit = self.E(g.iter)
                if kit != 'ilist':
                    raise Unsupported('any() over kind ' + str(kit))
                v = g.target.id
                saved = self.kinds.get(v)
                self.kinds[v] = 'int'
                body = self.truth(node.args[0].elt)
                if saved is None:
                    del self.kinds[v]
                else:
                    self.kinds[v] = saved
                if '←' in body:
                    raise Unsupported('any() whose condition can raise')
                return f'(({it}).any (fun {v} => {body}))', 'bool'
            if f.id == 'AdditionChains' and len(node.args) == 1:
                c, k = self.E(node.args[0])
                if k != 'int':
                    raise Unsupported('AdditionChains(' + str(k) + ')')
                return c, 'ac'
            if f.id == 'power_supply' and len(node.args) == 2:
                x, kx = self.E(node.args[0])
                n, kn = self.E(node.args[1])
                if kx not in ('poly', 'rat') or kn != 'int':
                    raise Unsupported(f'power_supply({kx}, {kn})')
                # operation defaults to operator.mul: the * of the operand's class
                return f'(← power_supply {"poly_mul" if kx == "poly" else "rat_mul"} {x} {n})', ('plist' if kx == 'poly' else 'rlist')
            if self.kinds.get(f.id) == 'opfun' and len(node.args) == 2:
                a, ka = self.E(node.args[0]); b, kb = self.E(node.args[1])
                if ka != 'T' or kb != 'T':
                    raise Unsupported('operation on kinds ' + str((ka, kb)))
                return f'(← {f.id} {a} {b})', 'T'
            if f.id == 'compare' and len(node.args) == 2:
                return f'(← compare {self.E(node.args[0], "omono")[0]} {self.E(node.args[1], "omono")[0]})', 'int'
        if isinstance(f, ast.Attribute):
            if ast.unparse(f) == 'itertools.product' and len(node.args) == 2:
                return f'(Py.product {self.E(node.args[0])[0]} {self.E(node.args[1])[0]})', 'iprod'
            if f.attr == 'values' and not node.args and isinstance(f.value, ast.Call) and isinstance(f.value.func, ast.Attribute) \
                    and f.value.func.attr == 'copy' and not f.value.args:
                d_, kd = self.E(f.value.func.value)
                if kd == 'chains':      # a snapshot of the values: the loop below does not see what it adds
                    return f'(Py.dictValues {d_})', 'ilistlist'
            recv, kr = self.E(f.value)
            if f.attr == 'copy' and not node.args:
                if kr == 'omono':
                    return f'(← Py.ocopy {recv})', 'omono'
                if kr == 'mono':
                    return recv, 'mono'
            if (kr, f.attr) in METHODS and not node.args:
                fn, k = METHODS[(kr, f.attr)]
                return f'(← {fn} {recv})', k
            if f.attr == '__add__' and len(node.args) == 1:
                b, kb = self.E(node.args[0])
                if ('Add', kr, kb) in BINOP:
                    return f'(← {BINOP[("Add", kr, kb)][0]} {recv} {b})', kr
        raise Unsupported(f'call {ast.unparse(f)}')

    # --------------------------------------------------------------------------------------------- statements
    def assign_name(self, name, code, kind, ind, out, fresh=False):
        # aliasing: Lean values are immutable, python lists are not.  An in-place change `x[i] op= v` is translated as a
        # re-binding of x, which is only faithful when x is a list of its own (a literal, a `.copy()`), never an element of an
        # operand's term list
        self.fresh_vars = getattr(self, 'fresh_vars', set())
        (self.fresh_vars.add if fresh else self.fresh_vars.discard)(name)
        declared = self.kinds.get(name)
        if declared is None:
            raise Unsupported(f'local {name} has no declared kind')
        if declared != kind and {declared, kind} != {'poly', 'args'}:
            if name in dict(self.t.params) and kind in KT:
                # a parameter re-bound to a value of another kind (`other = self.__class__(other)`): a new Lean name from here on
                new = self.fresh(name)
                out.append(f'{ind}let {new} : {KT[kind]} := {code}')
                self.rename[name] = new
                self.kinds[name] = kind
                return
            code, kind = self.wrap(code, kind, declared)
        out.append(f'{ind}{self.name(name)} := {code}')

    def S(self, st, ind, out):
        """translates one statement; returns True when control never continues after it"""
        if isinstance(st, ast.Expr) and isinstance(st.value, ast.Constant) and isinstance(st.value.value, str):
            return False
        if isinstance(st, ast.Pass):
            out.append(f'{ind}pure ()')
            return False
        if isinstance(st, ast.Return):
            if st.value is None:
                raise Unsupported('bare return')
            if self.t.ret == 'orat' and isinstance(st.value, ast.Constant) and st.value.value == 0:
                out.append(f'{ind}return none')
                return True
            c, k = self.E(st.value, self.t.ret if self.t.ret != 'bool' else None)
            if self.t.ret == 'bool' and k != 'bool':
                raise Unsupported(f'returns {k} where a truth value is declared')
            out.append(f'{ind}return {c}')
            return True
        if isinstance(st, ast.Expr) and isinstance(st.value, ast.Yield) and self.t.generator:
            c, k = self.E(st.value.value, 'T')
            out.append(f'{ind}out__ := out__ ++ [{c}]')
            return False
        if isinstance(st, ast.Continue):
            out.append(f'{ind}continue')
            return True
        if isinstance(st, ast.Assign):
            # chained `a = b = 0` and tuple targets `x, y = e1, e2`
            if len(st.targets) == 1 and isinstance(st.targets[0], ast.Tuple) and len(st.targets[0].elts) == 2 \
                    and isinstance(st.targets[0].elts[0], ast.Starred) and isinstance(st.targets[0].elts[1], ast.Name):
                # `*_, last = <iterable>`: the last element (ValueError when there is none)
                c, k = self.E(st.value)
                if k not in ('plist', 'rlist'):
                    raise Unsupported('starred unpacking of kind ' + str(k))
                self.assign_name(st.targets[0].elts[1].id, f'(← Py.lastOf {c})', 'poly' if k == 'plist' else 'rat', ind, out)
                return False
            if len(st.targets) == 1 and isinstance(st.targets[0], ast.Tuple):
                tg = st.targets[0]
                if not (isinstance(st.value, ast.Tuple) and len(st.value.elts) == len(tg.elts) and all(isinstance(e, ast.Name) for e in tg.elts)):
                    raise Unsupported('tuple assignment form')
                # python evaluates the whole right-hand side first
                vals = []
                for e, v in zip(tg.elts, st.value.elts):
                    c, k = self.E(v, self.kinds.get(e.id))
                    vals.append((e.id, c, k))
                names = {e.id for e in tg.elts}
                uses = any(isinstance(n, ast.Name) and n.id in names for v in st.value.elts for n in ast.walk(v))
                if uses:
                    tmps = []
                    for nm, c, k in vals:
                        tname = self.fresh('t')
                        out.append(f'{ind}let {tname} : {KT[k]} := {c}')
                        tmps.append((nm, tname, k))
                    for nm, tname, k in tmps:
                        self.assign_name(nm, tname, k, ind, out)
                else:
                    for nm, c, k in vals:
                        self.assign_name(nm, c, k, ind, out)
                return False
            if all(isinstance(tg, ast.Name) for tg in st.targets):
                first = st.targets[0].id
                c, k = self.E(st.value, self.kinds.get(first) if self.kinds.get(first) in ('args', 'poly', 'mono', 'atom', 'omono', 'chains', 'pdict', 'ilist') else None)
                if len(st.targets) > 1:
                    tname = self.fresh('t')
                    out.append(f'{ind}let {tname} : {KT[k]} := {c}')
                    c = tname
                is_fresh = isinstance(st.value, ast.List) or (isinstance(st.value, ast.Call) and isinstance(st.value.func, ast.Attribute) and st.value.func.attr == 'copy')
                for tg in st.targets:
                    self.assign_name(tg.id, c, k, ind, out, fresh=is_fresh and len(st.targets) == 1)
                return False
            if len(st.targets) == 1 and isinstance(st.targets[0], ast.Subscript) and isinstance(st.targets[0].value, ast.Name):
                nm = st.targets[0].value.id
                k = self.kinds.get(nm)
                if k in ('chains', 'pdict'):
                    i, ki = self.E(st.targets[0].slice)
                    v, kv = self.E(st.value, 'ilist' if k == 'chains' else 'T')
                    if ki != 'int':
                        raise Unsupported('dict key kind')
                    out.append(f'{ind}{self.name(nm)} := Py.dictSet {self.name(nm)} {i} {v}')
                    return False
            raise Unsupported('assignment target')
        if isinstance(st, ast.AugAssign):
            op = type(st.op).__name__
            if isinstance(st.target, ast.Name):
                k = self.kinds.get(st.target.id)
                v, kv = self.E(st.value)
                if k == 'int' and kv == 'int' and op in ('Add', 'Sub'):
                    out.append(f'{ind}{self.name(st.target.id)} := {self.name(st.target.id)} {"+" if op == "Add" else "-"} {v}')
                    return False
                raise Unsupported(f'augmented assignment {k} {op} {kv}')
            if isinstance(st.target, ast.Subscript) and isinstance(st.target.value, ast.Name):
                nm = st.target.value.id
                k = self.kinds.get(nm)
                i, ki = self.E(st.target.slice)
                v, kv = self.E(st.value, 'atom')
                f = {'Add': 'add', 'Mult': 'mul'}.get(op)
                if f is None or k not in ('mono', 'omono'):
                    raise Unsupported(f'augmented item assignment on {k}')
                if nm not in getattr(self, 'fresh_vars', set()):
                    raise Unsupported(f'in-place change of the list `{nm}`, which may be shared with an operand (it is neither a literal nor a copy)')
                o = 'o' if k == 'omono' else ''
                n = self.name(nm)
                out.append(f'{ind}{n} := (← Py.{o}setItem {n} {i} (← Py.Atom.{f} (← Py.{o}getItem {n} {i}) {v}))')
                return False
            raise Unsupported('augmented assignment target')
        if isinstance(st, ast.Expr) and isinstance(st.value, ast.Call) and isinstance(st.value.func, ast.Attribute) \
                and st.value.func.attr == 'append' and isinstance(st.value.func.value, ast.Name) and len(st.value.args) == 1:
            nm = st.value.func.value.id
            k = self.kinds.get(nm)
            v, kv = self.E(st.value.args[0])
            n = self.name(nm)
            if k == 'mono' and kv == 'atom':
                out.append(f'{ind}{n} := {n} ++ [{v}]')
            elif k in ('args', 'poly') and kv == 'mono':
                out.append(f'{ind}{n} := {n} ++ [{v}]')
            elif k in ('args', 'poly') and kv == 'omono':
                out.append(f'{ind}{n} := {n} ++ [(← Py.unwrap {v})]')
            else:
                raise Unsupported(f'append of {kv} to {k}')
            return False
        if isinstance(st, ast.If):
            s = self.static(st.test)
            if s is True:
                return self.block(st.body, ind, out)
            if s is False:
                return self.block(st.orelse, ind, out) if st.orelse else False
            t = self.truth(st.test)
            out.append(f'{ind}if {t} then')
            saved = (dict(self.rename), dict(self.kinds))
            r1 = self.block(st.body, ind + '  ', out)
            self.rename, self.kinds = dict(saved[0]), dict(saved[1])
            r2 = False
            if st.orelse:
                out.append(f'{ind}else')
                r2 = self.block(st.orelse, ind + '  ', out)
                self.rename, self.kinds = saved
            return r1 and r2
        if isinstance(st, ast.While):
            if st.orelse:
                raise Unsupported('while-else')
            if self.nwhile >= len(self.t.fuel):
                raise Unsupported('while loop without a fuel expression')
            fuel = self.t.fuel[self.nwhile]
            self.nwhile += 1
            t = self.truth(st.test)
            if '←' in t:
                raise Unsupported('loop condition that can raise')
            out.append(f'{ind}for _ in List.range ({fuel}) do')
            out.append(f'{ind}  if !{t} then break')
            self.block(st.body, ind + '  ', out)
            out.append(f'{ind}if {t} then throw "FUEL"')
            return False
        if isinstance(st, ast.For):
            if st.orelse:
                raise Unsupported('for-else')
            it, kit = self.E(st.iter)
            if kit == 'iprod' and isinstance(st.target, ast.Tuple) and all(isinstance(e, ast.Name) for e in st.target.elts) and len(st.target.elts) == 2:
                a, b = (e.id for e in st.target.elts)
                out.append(f'{ind}for ({a}, {b}) in {it} do')
                self.loopvars = getattr(self, 'loopvars', set()) | {a, b}
            elif kit in ('ilist', 'ilistlist') and isinstance(st.target, ast.Name):
                out.append(f'{ind}for {st.target.id} in {it} do')
                self.loopvars = getattr(self, 'loopvars', set()) | {st.target.id}
                self.kinds[st.target.id] = 'int' if kit == 'ilist' else 'ilist'
            else:
                raise Unsupported('for loop form')
            self.block(st.body, ind + '  ', out)
            return False
        raise Unsupported(f'statement {type(st).__name__}')

    def block(self, stmts, ind, out):
        n0 = len(out)
        for st in stmts:
            if self.S(st, ind, out):
                return True
        if len(out) == n0:
            out.append(f'{ind}pure ()')
        return False

    def function(self):
        t = self.t
        sig = ' '.join(f'({p} : {KT[k]})' for p, k in t.params)
        out = []
        loopvars = set()
        for n in ast.walk(self.fn):
            if isinstance(n, ast.For):
                for e in ast.walk(n.target):
                    if isinstance(e, ast.Name):
                        loopvars.add(e.id)
        for p in sorted(self.assigned_params):
            pass   # re-bound parameters get fresh names at the assignment
        for nm, k in t.locals.items():
            if nm in loopvars:
                continue
            if any(isinstance(n, ast.Name) and n.id == nm for n in ast.walk(self.fn)):
                out.append(f'  let mut {nm} : {KT[k]} := {DEFAULT[k]}')
        body = self.fn.body
        if t.generator:
            out.append('  let mut out__ : List β := []')
        done = self.block(body, '  ', out)
        if not done:
            if not t.generator:
                raise Unsupported('function can fall off its end')
            out.append('  return out__')
        gen = '{β : Type} ' if t.generic else ''
        return f'def {t.lean} {gen}{sig} : Py.M ({KT[t.ret]}) := do\n' + '\n'.join(out)


def generate(stub=None):
    stub = stub or {}
    path = os.path.join(REPO, SRC)
    tree = ast.parse(open(path).read())
    report = {}
    pinned_ok = True
    for q, ref in PINNED_TEXT.items():
        fn = find_func(ast.parse(open(os.path.join(REPO, CG)).read()), q.split(':', 1)[1]) if q.startswith('codegen:') else find_func(tree, q)
        got = norm(fn) if fn is not None else None
        want = norm(ast.parse(ref).body[0])
        if got != want:
            pinned_ok = False
            report[q] = 'PINNED TEXT CHANGED'
    parts = ['/-\n  GENERATED by harness/pytolean_poly.py from kingdon/polynomial.py — do not edit.\n'
             '  One definition per (method, static kinds of its operands); see the docstring of the translator.\n-/\n'
             'import Kingdon.Model.PyPoly\nset_option linter.unusedVariables false\nnamespace Kingdon.SrcPoly\nopen Kingdon\n']
    trees = {SRC: tree}
    for t in TARGETS:
        if t.file not in trees:
            trees[t.file] = ast.parse(open(os.path.join(REPO, t.file)).read())
        fn = find_func(trees[t.file], t.qual)
        hdr = f'/- {t.file}:{fn.lineno if fn else "?"}  {t.qual}  as `{t.lean}` ({", ".join(f"{p}: {k}" for p, k in t.params)})\n'
        if fn is not None:
            hdr += textwrap.dedent(ast.get_source_segment(open(os.path.join(REPO, t.file)).read(), fn)).replace('-/', '- /').replace('/-', '/ -') + '\n-/\n'
        else:
            hdr += 'NOT FOUND\n-/\n'
        sig = ('{β : Type} ' if t.generic else '') + ' '.join(f'({p} : {KT[k]})' for p, k in t.params)
        try:
            if fn is None:
                raise Unsupported('function not found')
            if not pinned_ok:
                raise Unsupported('a method modelled by rule (__init__/__len__/__getitem__) changed: ' + ', '.join(report))
            code = Tr(t, fn).function()
            if t.lean in stub:
                raise Unsupported('the translation does not type-check: ' + stub[t.lean])
            report[t.lean] = 'ok'
        except Unsupported as ex:
            msg = str(ex)[:160].replace('"', "'").replace('\n', ' ').replace('\\', '/')
            code = f'def {t.lean} {sig} : Py.M ({KT[t.ret]}) := throw "NOT TRANSLATED: {msg}"'
            report[t.lean] = f'NOT TRANSLATED: {ex}'
        parts.append(hdr + code + '\n')
    parts.append('end Kingdon.SrcPoly\n')
    return '\n'.join(parts), report


def write_if_changed(dst=None):
    dst = dst or os.path.join(VERIF, 'lean', 'Kingdon', 'Generated', 'SourcePoly.lean')
    text, report = generate()
    old = open(dst).read() if os.path.exists(dst) else None
    if old != text:
        os.makedirs(os.path.dirname(dst), exist_ok=True)
        open(dst, 'w').write(text)
        # the text changed (the source was edited): definitions that do not elaborate become stubs (see leancheck.py)
        try:
            from harness import leancheck
        except ImportError:
            try:
                import leancheck
            except ImportError:
                return report
        if os.path.abspath(dst).startswith(os.path.abspath(leancheck.LEAN)):
            stub = {}
            for _ in range(4):
                ok, bad = leancheck.failing_defs(os.path.relpath(dst, leancheck.LEAN), ['Kingdon.Model.PyPoly'])
                if ok or not bad or set(bad) <= set(stub):
                    break
                stub.update(bad)
                text, report = generate(stub)
                open(dst, 'w').write(text)
    return report


if __name__ == '__main__':
    rep = write_if_changed(sys.argv[1] if len(sys.argv) > 1 else None)
    for k, v in rep.items():
        print(f'{k}: {v}')

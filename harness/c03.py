"""C03 — outer, inner, contraction, scalar and (anti)commutator products match their definitions."""
from harness.common import *
from harness.opcorr import *
from harness.c02 import run_products


def run(ctx):
    ctx.rule = ('as C02 for op, ip, lc, rc, sp, cp, acp: one generated function per (configuration, operator, ordered key-tuple '
                'pair) compared as a polynomial map with the model and with the graded-part / (ab-+ba)/2 definitions '
                'computed by an independent reference over the real sign table; plus the identities ip+sp=lc+rc, cp+acp=gp')
    ops = ['op', 'ip', 'lc', 'rc', 'sp', 'cp', 'acp']
    run_products(ctx, ops, 3 if ctx.quick else 4, [5, 6] if ctx.quick else [5, 6, 7], 8 if ctx.quick else 50, frac=0.4 if ctx.quick else 1.0)
    # identities on the real code
    cache = AlgCache()
    for tag, sig, start, basis in standard_configs(ctx, 3, 4, sample_sig=6):
        alg = cache.get(sig, start, basis)
        for kx, ky in zip(key_tuples(ctx.rng, alg.d, 6), key_tuples(ctx.rng, alg.d, 6)):
            full = list(alg.canon2bin.values())
            kx = full if kx is None else kx; ky = full if ky is None else ky
            x, y = tracer_mv(alg, kx, 0), tracer_mv(alg, ky, 1000)
            l = mv_to_dict((x | y) + x.sp(y)); r = mv_to_dict(x.lc(y) + x.rc(y))
            case = {'sig': sig, 'basis': basis, 'kx': kx, 'ky': ky}
            ctx.case(('ident', case), tag='identities')
            if not dict_equal(l, r):
                ctx.violation('identity', case, 'ip+sp == lc+rc', [canon_dict(l), canon_dict(r)], key='ident:ip+sp')
            l = mv_to_dict(x.cp(y) + x.acp(y)); r = mv_to_dict(x * y)
            if not dict_equal(l, r):
                ctx.violation('identity', case, 'cp+acp == gp', [canon_dict(l), canon_dict(r)], key='ident:cp+acp')

"""C03 — outer, inner, contraction, scalar and (anti)commutator products match their definitions."""
from harness.common import *
from harness.opcorr import *
from harness.c02 import run_products


def run(ctx):
    ctx.rule = ('as C02 for op, ip, lc, rc, sp, cp, acp: one generated function per (configuration, operator, ordered key-tuple '
                'pair) compared as a polynomial map with the model and with the graded-part / (ab-+ba)/2 definitions '
                'computed by an independent reference over the real sign table; plus the identities ip+sp=lc+rc, cp+acp=gp')
    ops = ['op', 'ip', 'lc', 'rc', 'sp', 'cp', 'acp']
    run_products(ctx, ops, 3 if ctx.quick else 4, [5, 6] if ctx.quick else [5, 6, 7], 8 if ctx.quick else 50, frac=0.4 if ctx.quick else 1.0)
    # identities on the real code
    cache = AlgCache()
    for tag, sig, start, basis in standard_configs(ctx, 3, 4, sample_sig=6):
        alg = cache.get(sig, start, basis)
        for kx, ky in zip(key_tuples(ctx.rng, alg.d, 6), key_tuples(ctx.rng, alg.d, 6)):
            full = list(alg.canon2bin.values())
            kx = full if kx is None else kx; ky = full if ky is None else ky
            x, y = tracer_mv(alg, kx, 0), tracer_mv(alg, ky, 1000)
            l = mv_to_dict((x | y) + x.sp(y)); r = mv_to_dict(x.lc(y) + x.rc(y))
            case = {'sig': sig, 'basis': basis, 'kx': kx, 'ky': ky}
            ctx.case(('ident', case), tag='identities')
            if not dict_equal(l, r):
                ctx.violation('identity', case, 'ip+sp == lc+rc', [canon_dict(l), canon_dict(r)], key='ident:ip+sp')
            l = mv_to_dict(x.cp(y) + x.acp(y)); r = mv_to_dict(x * y)
            if not dict_equal(l, r):
                ctx.violation('identity', case, 'cp+acp == gp', [canon_dict(l), canon_dict(r)], key='ident:cp+acp')
    # operands with hundreds of blades (d = 10): a single result coefficient is then a sum of several hundred terms (the scalar
    # product of two operands sharing n blades has n terms, n not a multiple of any round chunk size); compared with the
    # definition over the sign table
    from fractions import Fraction
    from kingdon import MultiVector
    rng = ctx.rng
    alg = make_algebra([1, 1, 1, -1, 1, -1, 1, 1, -1, 1])     # non-degenerate: no term of the sums vanishes
    S = alg.signs
    for n in ((525, 777) if ctx.quick else (513, 525, 640, 777, 1023)):
        keys = tuple(sorted(rng.sample(range(1024), n)))
        vx = [rng.randint(1, 5) for _ in keys]; vy = [rng.randint(1, 5) for _ in keys]
        x = MultiVector.fromkeysvalues(alg, keys, list(vx)); y = MultiVector.fromkeysvalues(alg, keys, list(vy))
        for op in ('sp',) if ctx.quick else ('sp', 'lc'):
            case = {'sig': [int(v) for v in alg.signature], 'op': op, 'shared_blades': n}
            ctx.case(case, tag='long-sums')
            try:
                got = mv_to_dict(BIN[op](x, y))
            except Exception as e:
                ctx.violation('raises', case, 'a multivector', repr(e)[:200], key=f'{op}:long-sum:raises')
                continue
            exp = REFBIN[op](S, dict(zip(keys, vx)), dict(zip(keys, vy)))
            exp = {k: v for k, v in exp.items() if v != 0}
            if got != exp:
                bad = sorted(k for k in set(got) | set(exp) if got.get(k, 0) != exp.get(k, 0))[:4]
                ctx.violation('oracle', {**case, 'differing_blades': bad}, str({k: exp.get(k, 0) for k in bad}), str({k: got.get(k, 0) for k in bad}), key=f'{op}:long-sum')

"""Operator correspondence through the tracer ring, shared by C02-C05, C08, C13, C14.

real side : the public operator applied to multivectors whose coefficients are generators of the harness's free
            polynomial ring (so the result *is* the generated function as a polynomial map);
model side: the Lean driver running the generic generator on its own executable polynomial type;
oracle    : an independent reference (bilinear extension over the real sign table, graded definitions, ...).
"""
import itertools
from fractions import Fraction
from harness.common import *
from harness.tracer import P, Q, equal, iszero

BIN = {
    'gp': lambda a, b: a * b, 'op': lambda a, b: a ^ b, 'ip': lambda a, b: a | b,
    'lc': lambda a, b: a.lc(b), 'rc': lambda a, b: a.rc(b), 'sp': lambda a, b: a.sp(b),
    'cp': lambda a, b: a.cp(b), 'acp': lambda a, b: a.acp(b), 'rp': lambda a, b: a & b,
    'add': lambda a, b: a + b, 'sub': lambda a, b: a - b,
    'sw': lambda a, b: a >> b, 'proj': lambda a, b: a @ b, 'div': lambda a, b: a / b,
}
UN = {
    'neg': lambda a: -a, 'reverse': lambda a: ~a, 'involute': lambda a: a.involute(),
    'conjugate': lambda a: a.conjugate(), 'hodge': lambda a: a.hodge(), 'unhodge': lambda a: a.unhodge(),
    'polarity': lambda a: a.polarity(), 'unpolarity': lambda a: a.unpolarity(),
    'normsq': lambda a: a.normsq(), 'inv': lambda a: a.inv(),
    'outerexp': lambda a: a.outerexp(), 'outersin': lambda a: a.outersin(), 'outercos': lambda a: a.outercos(),
    'outertan': lambda a: a.outertan(), 'sqrt': lambda a: a.sqrt(), 'norm': lambda a: a.norm(), 'normalized': lambda a: a.normalized(),
    'exp': lambda a: a.exp(),
}


class AlgCache:
    """real algebras are created once per configuration *per check run* (fresh per process)"""
    def __init__(self, **opts):
        self.c = {}
        self.opts = opts

    def get(self, sig, start=None, basis=None):
        key = (tuple(sig), start, tuple(basis) if basis else None)
        if key not in self.c:
            self.c[key] = make_algebra(sig, start, basis, **self.opts)
        return self.c[key]


def grade(k):
    return bin(k).count('1')


def key_tuples(rng, d, n, kinds=None):
    """seeded storage patterns: subsets of the 2^d blades in arbitrary order"""
    N = 2 ** d
    out = []
    for _ in range(n):
        kind = rng.choice(kinds or ['subset', 'subset', 'subset', 'perm', 'empty', 'full', 'fullbin', 'grades', 'single', 'small'])
        if kind == 'empty':
            ks = []
        elif kind == 'full':
            ks = None   # canonical, resolved by caller
        elif kind == 'fullbin':
            ks = list(range(N))
        elif kind == 'single':
            ks = [rng.randrange(N)]
        elif kind == 'small':
            ks = rng.sample(range(N), min(N, rng.choice([1, 2, 2, 3])))
        elif kind == 'grades':
            gs = [g for g in range(d + 1) if rng.random() < 0.4] or [rng.randrange(d + 1)]
            ks = [k for k in range(N) if grade(k) in gs]
            if rng.random() < 0.5:
                rng.shuffle(ks)
        elif kind == 'perm':
            ks = list(range(N)); rng.shuffle(ks)
        else:
            ks = [k for k in range(N) if rng.random() < rng.choice([0.2, 0.5, 0.8])]
            rng.shuffle(ks)
        out.append(ks)
    return out


def all_ordered_tuples(d):
    N = 2 ** d
    res = []
    for r in range(N + 1):
        for comb in itertools.permutations(range(N), r):
            res.append(list(comb))
    return res


def all_subsets(d):
    N = 2 ** d
    return [[k for k in range(N) if m >> k & 1] for m in range(2 ** N)]


def mv_to_dict(mv):
    """blade -> coefficient (sum over duplicate keys), zero coefficients dropped"""
    acc = {}
    for k, v in zip(mv.keys(), mv.values()):
        acc[k] = acc[k] + v if k in acc else v
    return {k: v for k, v in acc.items() if not iszero(v)}


def dict_equal(a, b):
    if set(a) != set(b):
        return False
    return all(equal(a[k], b[k]) for k in a)


def canon_dict(dct, scale=1):
    items = [(k, P.lift(p)) for k, p in sorted(dct.items()) if not iszero(p)]
    return ';'.join(f'{k}={p.render(scale)}' for k, p in items) or '0'


# ---- independent reference on the real sign table -------------------------------------------------

def ref_gp(S, x, y):
    r = {}
    for i, a in x.items():
        for j, b in y.items():
            s = S[i, j]
            if s:
                t = a * b * int(s)
                r[i ^ j] = r[i ^ j] + t if (i ^ j) in r else t
    return {k: v for k, v in r.items() if not iszero(v)}


def gproj(x, g):
    return {k: v for k, v in x.items() if grade(k) == g}


def ref_add(x, y):
    r = dict(x)
    for k, v in y.items():
        r[k] = r[k] + v if k in r else v
    return {k: v for k, v in r.items() if not iszero(v)}


def ref_neg(x):
    return {k: -v for k, v in x.items()}


def ref_graded(S, x, y, sel):
    r = {}
    for gx in {grade(k) for k in x}:
        for gy in {grade(k) for k in y}:
            g = sel(gx, gy)
            if g is None or g < 0:
                continue
            r = ref_add(r, gproj(ref_gp(S, gproj(x, gx), gproj(y, gy)), g))
    return r


def ref_invol(x, f):
    return {k: (v if f(grade(k)) > 0 else -v) for k, v in x.items()}


REF_REV = lambda x: ref_invol(x, lambda k: (-1) ** (k * (k - 1) // 2))
REF_INV = lambda x: ref_invol(x, lambda k: (-1) ** k)
REF_CONJ = lambda x: ref_invol(x, lambda k: (-1) ** (k * (k + 1) // 2))


def ref_scale(x, c):
    return {k: v * c for k, v in x.items()}


REFBIN = {
    'gp': lambda S, x, y: ref_gp(S, x, y),
    'op': lambda S, x, y: ref_graded(S, x, y, lambda a, b: a + b),
    'ip': lambda S, x, y: ref_graded(S, x, y, lambda a, b: abs(a - b)),
    'lc': lambda S, x, y: ref_graded(S, x, y, lambda a, b: b - a),
    'rc': lambda S, x, y: ref_graded(S, x, y, lambda a, b: a - b),
    'sp': lambda S, x, y: ref_graded(S, x, y, lambda a, b: 0),
    'cp': lambda S, x, y: ref_scale(ref_add(ref_gp(S, x, y), ref_neg(ref_gp(S, y, x))), Fraction(1, 2)),
    'acp': lambda S, x, y: ref_scale(ref_add(ref_gp(S, x, y), ref_gp(S, y, x)), Fraction(1, 2)),
    'add': lambda S, x, y: ref_add(x, y),
    'sub': lambda S, x, y: ref_add(x, ref_neg(y)),
    'sw': lambda S, x, y: ref_gp(S, ref_gp(S, x, y), REF_REV(x)),
    'proj': lambda S, x, y: ref_gp(S, ref_graded(S, x, y, lambda a, b: abs(a - b)), REF_REV(y)),
}
REFUN = {
    'neg': lambda S, x: ref_neg(x), 'reverse': lambda S, x: REF_REV(x), 'involute': lambda S, x: REF_INV(x),
    'conjugate': lambda S, x: REF_CONJ(x), 'normsq': lambda S, x: ref_gp(S, x, REF_REV(x)),
}


def real_tracer_binary(alg, op, kx, ky):
    x = tracer_mv(alg, kx, 0)
    y = tracer_mv(alg, ky, 1000)
    z = BIN[op](x, y)
    return x, y, z


def tracer_dict(keys, base):
    d = {}
    for i, k in enumerate(keys):
        d[k] = d[k] + P.var(base + i) if k in d else P.var(base + i)
    return d


def ks(keys):
    return ','.join(map(str, keys)) if keys else '-'


SRC_BIN = {'gp', 'op', 'ip', 'lc', 'rc', 'sp', 'cp', 'acp', 'rp', 'add', 'sub'}
SRC_UN = {'neg', 'reverse', 'involute', 'conjugate', 'hodge', 'unhodge'}


class OpRun:
    """collects (protocol line, expected model output, oracle) triples for one check"""
    def __init__(self, ctx):
        self.ctx = ctx
        self.lines, self.plan = [], []

    def binary(self, alg, tok, desc, op, kx, ky, oracle=True, model=True):
        ctx = self.ctx
        case = {**desc, 'op': op, 'kx': list(kx), 'ky': list(ky)}
        try:
            x, y, z = real_tracer_binary(alg, op, kx, ky)
        except Exception as e:
            ctx.violation('raises', case, 'a multivector', repr(e)[:300], key=f'{op}:raises:{type(e).__name__}')
            return None
        zd = mv_to_dict(z)
        nontrivial = len(kx) > 0 and len(ky) > 0
        ctx.case(case, nontrivial=nontrivial, tag=f'op:{op}')
        ctx.count(f'd={alg.d}')
        ctx.count('len_x=%d' % min(len(kx), 9));
        if list(kx) != sorted(kx) or list(ky) != sorted(ky):
            ctx.count('permuted')
        if not zd:
            ctx.count('zero-result')
        if model:
            self.lines.append(f'bin {op} {tok} {ks(kx)} {ks(ky)}')
            self.plan.append((case, canon_dict(zd)))
            if op in SRC_BIN and alg.d <= 5 and all(0 <= k < 2 ** alg.d for k in list(kx) + list(ky)):
                # the translated source of this generator on the same operands (validates translator + prelude)
                self.lines.append(f'srcbin {op} {tok} {ks(kx)} {ks(ky)}')
                self.plan.append(({**case, 'via': 'translated source'}, canon_dict(zd)))
        if oracle and op in REFBIN:
            exp = REFBIN[op](alg.signs, tracer_dict(kx, 0), tracer_dict(ky, 1000))
            if not dict_equal(zd, exp):
                ctx.violation('oracle', case, canon_dict(exp, 2) + ' (x2)', canon_dict(zd, 2) + ' (x2)', key=f'{op}:denotation')
        return zd

    def unary(self, alg, tok, desc, op, kx, oracle=True, model=True, expect_raise=None):
        ctx = self.ctx
        case = {**desc, 'op': op, 'kx': list(kx)}
        x = tracer_mv(alg, kx, 0)
        try:
            z = UN[op](x)
            zd = mv_to_dict(z)
            got = canon_dict(zd)
        except ZeroDivisionError:
            zd, got = None, 'ZeroDivisionError'
        except Exception as e:
            ctx.violation('raises', case, 'a multivector', repr(e)[:300], key=f'{op}:raises:{type(e).__name__}')
            return None
        ctx.case(case, nontrivial=len(kx) > 0, tag=f'op:{op}')
        ctx.count(f'd={alg.d}')
        if model:
            self.lines.append(f'un {op} {tok} {ks(kx)}')
            self.plan.append((case, got))
            if op in SRC_UN and alg.d <= 5 and len(set(kx)) == len(kx) and all(0 <= k < 2 ** alg.d for k in kx):
                self.lines.append(f'srcun {op} {tok} {ks(kx)}')
                self.plan.append(({**case, 'via': 'translated source'}, got))
        if oracle and op in REFUN and zd is not None:
            exp = REFUN[op](alg.signs, tracer_dict(kx, 0))
            if not dict_equal(zd, exp):
                ctx.violation('oracle', case, canon_dict(exp), got, key=f'{op}:denotation')
        return zd

    def flush(self, triage=None):
        ctx = self.ctx
        out = ctx.drive(self.lines)
        if out is None:
            return
        nbad = 0
        for (case, exp), got in zip(self.plan, out):
            if exp != got:
                nbad += 1
                if nbad <= 8:
                    ctx.mismatch('translated-source' if case.get('via') else 'operator', case, got[:300], exp[:300])
                    if triage:
                        triage(case, got, exp)
        ctx.count('driver-lines', len(self.lines))
        ctx.count('driver-mismatches', nbad)
        self.lines, self.plan = [], []


def standard_configs(ctx, dmax_all, n_custom, named=True, sample_sig=None):
    """(tag, sig, start, basis) covering default and custom bases"""
    rng = ctx.rng
    res = []
    for d in range(0, dmax_all + 1):
        sigs = all_signatures(d)
        if sample_sig and len(sigs) > sample_sig:
            sigs = rng.sample(sigs, sample_sig)
        for s in sigs:
            res.append(('sig', s, None, None))
    for _ in range(n_custom):
        d = rng.choice([2, 3, 3, 4])
        sig = [rng.choice((1, -1, 0)) for _ in range(d)]
        res.append(('custom', sig, None, random_custom_basis(rng, d)))
    if named:
        res.append(('named', [0, 1, 1], None, ["e", "e1", "e2", "e0", "e20", "e01", "e12", "e012"]))
        res.append(('named', [0, 1, 1, 1], None, ["e", "e1", "e2", "e3", "e0", "e01", "e02", "e03", "e12", "e31", "e23",
                                               "e032", "e013", "e021", "e123", "e0123"]))
    return res


def named_sig_order(alg):
    return [int(s) for s in alg.signature]


def tok_of(alg, basis):
    return cfg_token([int(s) for s in alg.signature], None if basis else int(alg.start_index),
                     list(alg.canon2bin.keys()) if basis else None)


# ---------------------------------------------------------------------------------------------------------------
# operand forms, derived algebras, code-generation options: the same operators reached another way

INFIX = {'gp': lambda a, b: a * b, 'op': lambda a, b: a ^ b, 'ip': lambda a, b: a | b, 'rp': lambda a, b: a & b,
         'sw': lambda a, b: a >> b, 'proj': lambda a, b: a @ b, 'add': lambda a, b: a + b, 'sub': lambda a, b: a - b,
         'div': lambda a, b: a / b}


def forms_pass(ctx, ops):
    """(1) infix operators with a callable / list / tuple operand on either side (kingdon maps the operator over
    them; the reflected dunders are reached when the left operand is not a multivector), (2) algebras derived with
    dataclasses.replace, (3) algebras with cse=False or another codegen symbol class: all against the method form
    on plain operands / the independent reference over the algebra's own sign table."""
    import dataclasses
    from fractions import Fraction
    from kingdon import MultiVector
    rng = ctx.rng
    R = OpRun(ctx)
    infix_ops = [op for op in ops if op in INFIX]
    for sig in ([1, 1, 1], [0, 1, 1, 1]):
        alg = make_algebra(sig)
        d = alg.d
        for op in infix_ops:
            for _ in range(3 if ctx.quick else 12):
                kx, ky, kz = key_tuples(rng, d, 3, ['small', 'grades', 'subset'])
                kx, ky, kz = (kx or [1])[:5], (ky or [2])[:5], (kz or [3])[:5]
                mk = lambda ks_: MultiVector.fromkeysvalues(alg, tuple(ks_), [Fraction(rng.randint(1, 9)) for _ in ks_])
                a, a2, b = mk(kx), mk(kz), mk(ky)
                try:
                    e1, e2 = mv_to_dict(BIN[op](a, b)), mv_to_dict(BIN[op](a2, b))
                    f1, f2 = mv_to_dict(BIN[op](b, a)), mv_to_dict(BIN[op](b, a2))
                except ZeroDivisionError:
                    continue
                forms = {
                    'callable^mv': (lambda: [mv_to_dict(INFIX[op]((lambda: a), b))], [e1]),
                    'list^mv': (lambda: [mv_to_dict(r) for r in INFIX[op]([a, a2], b)], [e1, e2]),
                    'tuple^mv': (lambda: [mv_to_dict(r) for r in INFIX[op]((a, a2), b)], [e1, e2]),
                    'mv^callable': (lambda: [mv_to_dict(INFIX[op](b, (lambda: a)))], [f1]),
                    'mv^list': (lambda: [mv_to_dict(r) for r in INFIX[op](b, [a, a2])], [f1, f2]),
                }
                for nm, (thunk, exp) in forms.items():
                    case = {'sig': sig, 'op': op, 'form': nm, 'kx': kx, 'kz': kz, 'ky': ky}
                    ctx.case(case, tag='form:' + nm)
                    try:
                        got = thunk()
                    except Exception as e:
                        ctx.violation('operand-form-raises', case, str(exp)[:200], repr(e)[:200], key=f'{op}:form:{nm}:raises')
                        continue
                    if got != exp:
                        ctx.violation('operand-form', case, str(exp)[:300], str(got)[:300], key=f'{op}:form:{nm}')
    # derived algebras
    parent = make_algebra([1, 1, 1])
    BIN['gp'](tracer_mv(parent, [1, 2, 4], 0), tracer_mv(parent, [1, 4], 1000))      # the parent has generated something already
    derived = [('replace:signature', dataclasses.replace(parent, signature=[1, 1, -1])),
               ('replace:signature0', dataclasses.replace(parent, signature=[1, 0, 1])),
               ('replace:graded', dataclasses.replace(parent, graded=False)),
               ('replace:basis', dataclasses.replace(parent, basis=['e', 'e1', 'e2', 'e3', 'e12', 'e31', 'e23', 'e123'])),
               ('cse=False', make_algebra([1, 1, 1], cse=False)), ('cse=False:d4', make_algebra([0, 1, 1, 1], cse=False)),
               ('cse=False:custom', make_algebra([1, 1, 1], basis=['e', 'e1', 'e2', 'e3', 'e12', 'e31', 'e23', 'e123'], cse=False))]
    for nm, alg in derived:
        full = list(alg.canon2bin.values())
        pats = [(full, full), ([1, 2, 4], [0, 1, 2]), ([4, 2], [4, 1]), ([3, 4, 5, 6][: len(full)], [1, 2, 4])]
        if alg.d == 4:
            pats += [([1, 2, 4, 8], [1, 2, 4, 8]), ([9, 6, 1], [8, 6])]
        for kx, ky in pats:
            for op in ops:
                if op in BIN:
                    zd = R.binary(alg, None, {'sig': [int(s) for s in alg.signature], 'route': nm}, op, kx, ky, model=False)
        # results belong to the derived algebra
        z = BIN['gp'](tracer_mv(alg, [1], 0), tracer_mv(alg, [1], 1000))
        ctx.case(('owner', nm), tag='derived-owner')
        if z.algebra is not alg:
            ctx.violation('derived-algebra', {'route': nm}, 'the result belongs to the algebra of its operands', 'it belongs to another algebra object',
                          key=f'derived:owner:{nm}')
    # (4) operands that belong to two equal but distinct Algebra objects (two constructor calls, dataclasses.replace of a
    # field that does not take part in the comparison): the library accepts them as one algebra; the result is the product
    for sig in ([1, 1, 1], [0, 1, 1]):
        alg1 = make_algebra(sig)
        twins = [('second-constructor-call', make_algebra(sig)), ('replace:pretty_blade', dataclasses.replace(alg1, pretty_blade='b'))]
        for nm, alg2 in twins:
            if not (alg1 == alg2):
                ctx.count('twin-algebras-compare-unequal:' + nm)
                continue
            for op in ops:
                if op not in BIN:
                    continue
                for _ in range(2 if ctx.quick else 8):
                    kx, ky = key_tuples(rng, alg1.d, 2, ['small', 'grades'])
                    kx, ky = (kx or [1])[:4], (ky or [2])[:4]
                    vx = [Fraction(rng.randint(1, 9)) for _ in kx]
                    vy = [Fraction(rng.randint(1, 9)) for _ in ky]
                    a = MultiVector.fromkeysvalues(alg1, tuple(kx), list(vx))
                    b2 = MultiVector.fromkeysvalues(alg2, tuple(ky), list(vy))
                    b1 = MultiVector.fromkeysvalues(alg1, tuple(ky), list(vy))
                    case = {'sig': sig, 'op': op, 'kx': kx, 'ky': ky, 'second_operand_from': nm}
                    ctx.case(case, tag='twin-algebra')
                    try:
                        exp = mv_to_dict(BIN[op](a, b1))
                    except ZeroDivisionError:
                        continue
                    try:
                        got = mv_to_dict(BIN[op](a, b2))
                        ok = all(not isinstance(v, MultiVector) for v in got.values()) and got == exp
                    except Exception as e:
                        got, ok = repr(e)[:200], False
                    if not ok:
                        ctx.violation('twin-algebra-operands', case, str(exp)[:300], str(got)[:300], key=f'{op}:twin-algebra')
                        break
    # (6) a parent algebra and the algebras derived from it with dataclasses.replace (they receive the parent's `numspace` dict), used
    # alternately with the SAME ordered key patterns: the parent's numeric products still follow the parent's signature afterwards
    for sig0, sig1 in (([1, 1, 1], [1, 1, -1]), ([1, -1], [-1, 1])):
        parent = make_algebra(sig0)
        sibling = dataclasses.replace(parent, signature=list(sig1))
        pats = [([1, 2], [1, 2]), ([1, 2, 4][: len(sig0)], [2, 1]), ([3, 1], [1, 3])]
        for rnd in range(3):
            for nm, alg in ((('parent', parent), ('replace:signature', sibling)) if rnd != 1 else (('replace:signature', sibling), ('parent', parent))):
                Ssig = alg.signs
                for kx, ky in pats:
                    for op in ops:
                        if op not in BIN or op not in REFBIN:
                            continue
                        vx = [Fraction(rng.randint(1, 9)) for _ in kx]; vy = [Fraction(rng.randint(1, 9)) for _ in ky]
                        case = {'sig': [int(v) for v in alg.signature], 'algebra': nm, 'round': rnd, 'op': op, 'kx': kx, 'ky': ky,
                                'history': 'parent and dataclasses.replace(parent, signature=..) used alternately'}
                        ctx.case(case, tag='sibling-algebras')
                        try:
                            got = mv_to_dict(BIN[op](MultiVector.fromkeysvalues(alg, tuple(kx), list(vx)), MultiVector.fromkeysvalues(alg, tuple(ky), list(vy))))
                        except ZeroDivisionError:
                            continue
                        exp = REFBIN[op](Ssig, dict(zip(kx, vx)), dict(zip(ky, vy)))
                        if got != {k: v for k, v in exp.items() if v != 0}:
                            ctx.violation('sibling-algebra-history', case, str(exp)[:250], str(got)[:250], key=f'{op}:sibling-algebras')
    # (7) signatures given as floats / float arrays (the sign table then holds numpy floats): exact coefficients stay exact -
    # Fractions and ints beyond 2**53 come back as the same exact numbers as with the integer signature
    import numpy as np
    for sig in ([1, 1, -1], [0, 1, 1]):
        for form, given in (('float list', [float(v) for v in sig]), ('float64 array', np.array(sig, dtype=float)), ('int64 array', np.array(sig))):
            alg = make_algebra(given)
            ref = make_algebra(list(sig))
            for op in ops:
                if op not in BIN:
                    continue
                for _ in range(2 if ctx.quick else 6):
                    kx, ky = key_tuples(rng, alg.d, 2, ['small', 'grades'])
                    kx, ky = (kx or [1])[:4], (ky or [1])[:4]
                    vx = [rng.choice((Fraction(rng.randint(1, 9), 7), 2 ** 60 + rng.randint(1, 9))) for _ in kx]
                    vy = [rng.choice((Fraction(rng.randint(1, 9), 3), 2 ** 59 + rng.randint(1, 9))) for _ in ky]
                    case = {'sig': sig, 'signature_given_as': form, 'op': op, 'kx': kx, 'ky': ky, 'vx': [str(v) for v in vx], 'vy': [str(v) for v in vy]}
                    ctx.case(case, tag='float-signature')
                    try:
                        exp = BIN[op](MultiVector.fromkeysvalues(ref, tuple(kx), list(vx)), MultiVector.fromkeysvalues(ref, tuple(ky), list(vy)))
                    except ZeroDivisionError:
                        continue
                    try:
                        got = BIN[op](MultiVector.fromkeysvalues(alg, tuple(kx), list(vx)), MultiVector.fromkeysvalues(alg, tuple(ky), list(vy)))
                    except Exception as e:
                        ctx.violation('float-signature', case, str(mv_to_dict(exp))[:200], 'raises ' + repr(e)[:150], key=f'{op}:float-signature:raises')
                        continue
                    ge, gg = mv_to_dict(exp), mv_to_dict(got)
                    inexact = [k for k, v in gg.items() if isinstance(v, float)]
                    if ge != gg or inexact:
                        ctx.violation('float-signature', {**case, 'inexact_blades': inexact}, str(ge)[:250], str(gg)[:250], key=f'{op}:float-signature')
                        break
    # (8) the SAME key-tuple objects handed to several algebras of one dimension but different signature (a module constant
    # `KEYS = (1, 2)` in user code), in both visiting orders; (9) the pseudoscalar alone as right / left operand in d = 8
    shared = [((1, 2), (1, 2)), ((1, 2, 3), (2, 1)), ((3,), (1, 3)), ((0, 3), (3, 0))]
    for order in (0, 1):
        group = [make_algebra(sg) for sg in ([1, 1], [1, -1], [-1, -1], [0, 1], [-1, 1])]
        if order:
            group.reverse()
        for alg in group:
            Ssig = alg.signs
            for kx, ky in shared:                      # kx, ky are the very same tuple objects for every algebra
                for op in ops:
                    if op not in BIN or op not in REFBIN:
                        continue
                    vx = [Fraction(rng.randint(1, 9)) for _ in kx]; vy = [Fraction(rng.randint(1, 9)) for _ in ky]
                    case = {'sig': [int(v) for v in alg.signature], 'op': op, 'kx': list(kx), 'ky': list(ky), 'history': 'the same key-tuple objects were used with other algebras before'}
                    ctx.case(case, tag='shared-key-objects')
                    try:
                        got = mv_to_dict(BIN[op](MultiVector.fromkeysvalues(alg, kx, list(vx)), MultiVector.fromkeysvalues(alg, ky, list(vy))))
                    except ZeroDivisionError:
                        continue
                    exp = {k: v for k, v in REFBIN[op](Ssig, dict(zip(kx, vx)), dict(zip(ky, vy))).items() if v != 0}
                    if got != exp:
                        ctx.violation('shared-key-objects', case, str(exp)[:250], str(got)[:250], key=f'{op}:shared-key-objects')
    if 'gp' in ops:
        for sig8 in ([1] * 8, [1, 1, 1, 1, 1, 1, -1, -1]):
            alg = make_algebra(list(sig8))
            Ssig = alg.signs
            pss = 2 ** 8 - 1
            for kx in ([1, 2, 4], [1, 6, 7], [3, 13, 1]):
                vx = [Fraction(rng.randint(1, 9)) for _ in kx]
                for side in ('x * I', 'I * x'):
                    case = {'sig': list(sig8), 'op': 'gp', 'form': side, 'kx': kx}
                    ctx.case(case, tag='pseudoscalar-operand-d8')
                    x = MultiVector.fromkeysvalues(alg, tuple(kx), list(vx)); I = MultiVector.fromkeysvalues(alg, (pss,), [Fraction(3)])
                    got = mv_to_dict(x * I if side == 'x * I' else I * x)
                    exp = REFBIN['gp'](Ssig, dict(zip(kx, vx)), {pss: Fraction(3)}) if side == 'x * I' else REFBIN['gp'](Ssig, {pss: Fraction(3)}, dict(zip(kx, vx)))
                    if got != {k: v for k, v in exp.items() if v != 0}:
                        ctx.violation('oracle', case, str(exp)[:200], str(got)[:200], key='gp:pseudoscalar-operand:d8')
    # (5) symbolic operands whose coefficients are not polynomial (roots and logarithms of products): the result coefficients are
    # compared with the reference over the sign table *as functions*: exactly, after substituting negative numbers
    import sympy
    s_, t_, u_ = sympy.symbols('s t u')
    coeffs = [sympy.sqrt(s_ * t_), sympy.sqrt(s_) * sympy.sqrt(t_), sympy.log(s_ * t_), (s_ * t_) ** sympy.Rational(3, 2), u_, s_ + 1]
    points = [{s_: -1, t_: -4, u_: 3}, {s_: -9, t_: -1, u_: -2}, {s_: 4, t_: 9, u_: 5}]
    alg = make_algebra([1, 1, -1])
    S = alg.signs
    for op in ops:
        if op not in BIN or op not in REFBIN:
            continue
        for _ in range(3 if ctx.quick else 12):
            kx, ky = key_tuples(rng, alg.d, 2, ['small', 'grades'])
            kx, ky = (kx or [1])[:3], (ky or [2])[:3]
            vx = [rng.choice(coeffs) for _ in kx]
            vy = [rng.choice(coeffs) for _ in ky]
            case = {'sig': [1, 1, -1], 'op': op, 'kx': kx, 'ky': ky, 'vx': [str(v) for v in vx], 'vy': [str(v) for v in vy]}
            ctx.case(case, tag='symbolic-irrational')
            try:
                got = BIN[op](MultiVector.fromkeysvalues(alg, tuple(kx), list(vx)), MultiVector.fromkeysvalues(alg, tuple(ky), list(vy)))
                got = dict(zip(got.keys(), got.values()))
            except Exception as e:
                ctx.violation('symbolic-irrational-raises', case, 'a multivector', repr(e)[:200], key=f'{op}:symbolic-irrational:raises')
                continue
            ref = REFBIN[op](S, dict(zip(kx, vx)), dict(zip(ky, vy)))
            for pt in points:
                bad = None
                for k in set(ref) | set(got):
                    dv = sympy.simplify(sympy.sympify(got.get(k, 0)).subs(pt) - sympy.sympify(ref.get(k, 0)).subs(pt))
                    if dv != 0:
                        bad = (k, str(got.get(k, 0)), str(ref.get(k, 0)))
                        break
                if bad:
                    ctx.violation('symbolic-irrational', {**case, 'at': {str(a): b for a, b in pt.items()}, 'blade': bad[0]}, bad[2], bad[1],
                                  key=f'{op}:symbolic-irrational')
                    break

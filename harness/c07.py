"""C07 — inverse and division are exact two-sided inverses wherever they return.

Tie:    the real `alg.inv[keys]` function, identified as a rational map by the tracer field, vs. numerator / denominator
        of the Lean model of `codegen_hitzer_inv` (d <= 5), by cross-multiplication.
Oracle: on the real code with exact Fraction coefficients: x*x.inv() == 1 == x.inv()*x (exactly for d <= 5, to 1e-9
        relative for d >= 6 where the iterative scheme divides in floats), a/b == a*b.inv(), n/x == n*x.inv(),
        x**-n == (x.inv())**n; ZeroDivisionError only for operands that have no inverse (decided independently through
        the determinant of the regular representation built from the real sign table).
"""
import re, warnings
from fractions import Fraction
from harness.common import *
from harness.opcorr import *
from harness.tracer import P, Q


def parse_poly(s):
    if s == '0':
        return P.lift(0)
    tot = P.lift(0)
    for term in s.split('+'):
        parts = term.split('*')
        t = P.lift(int(parts[0]))
        for v in parts[1:]:
            t = t * P.var(int(v))
        tot = tot + t
    return tot


def parse_mv(s):
    if s == '0':
        return {}
    out = {}
    for item in s.split(';'):
        k, p = item.split('=')
        out[int(k)] = parse_poly(p)
    return out


def left_mult_matrix(alg, xd):
    """matrix of y -> x*y in the blade basis, from the real sign table (exact Fractions)"""
    N = 2 ** alg.d
    M = [[Fraction(0)] * N for _ in range(N)]
    S = alg.signs
    for i, a in xd.items():
        for j in range(N):
            s = S[i, j]
            if s:
                M[i ^ j][j] += a * int(s)
    return M


def det(M):
    n = len(M)
    M = [row[:] for row in M]
    d = Fraction(1)
    for c in range(n):
        p = next((r for r in range(c, n) if M[r][c] != 0), None)
        if p is None:
            return Fraction(0)
        if p != c:
            M[c], M[p] = M[p], M[c]; d = -d
        d *= M[c][c]
        inv = 1 / M[c][c]
        for r in range(c + 1, n):
            if M[r][c] != 0:
                f = M[r][c] * inv
                for k in range(c, n):
                    M[r][k] -= f * M[c][k]
    return d


def is_one(d, tol=None):
    if tol is None:
        return {k: v for k, v in d.items() if v != 0} == {0: 1}
    return all(abs(complex(v) - (1 if k == 0 else 0)) < tol for k, v in d.items()) and 0 in d


def frac_mv(alg, keys, rng, special=None):
    from kingdon import MultiVector
    vals = [Fraction(rng.randint(-5, 7), rng.choice([1, 1, 2, 3])) for _ in keys]
    if all(v == 0 for v in vals) and vals:
        vals[0] = Fraction(1)
    return MultiVector.fromkeysvalues(alg, tuple(keys), vals)


def run(ctx):
    ctx.rule = ('per configuration (all signatures d<=3, sampled d=4,5, d=6,7 iterative scheme, custom/named bases) operands with '
                'Fraction coefficients on sparse, grade-block, permuted, zero-padded and (d<=3) dense key patterns incl. non-invertible '
                'ones (null vectors, 1 +- e in mixed signature); a case is one operand; plus the generated inverse as a rational map vs. '
                'the model numerator/denominator for d<=5 (sparse patterns in d>=4)')
    ctx.lean_prepare()
    rng = ctx.rng
    warnings.simplefilter('ignore')
    cache = AlgCache()
    cfgs = []
    for d in (0, 1, 2):
        cfgs += [('sig', s, None, None) for s in all_signatures(d)]
    cfgs += [('sig', s, None, None) for s in (rng.sample(all_signatures(3), 8 if ctx.quick else 27))]
    cfgs += [('sig', s, None, None) for s in (rng.sample(all_signatures(4), 3 if ctx.quick else 20))]
    cfgs += [('sig', [rng.choice((1, -1, 0)) for _ in range(5)], None, None) for _ in range(1 if ctx.quick else 6)]
    cfgs += [('sig', [1, 1, 1, 1, -1], None, None)]
    cfgs += [('named', [0, 1, 1], None, ["e", "e1", "e2", "e0", "e20", "e01", "e12", "e012"])]
    cfgs += [('custom', [1, -1, 1], None, random_custom_basis(rng, 3))]
    cfgs += [('sig', [rng.choice((1, -1)) for _ in range(6)], None, None), ('sig', [1, 1, 1, -1, 1, 1, 1], None, None)]
    lines, plan = [], []
    for tag, sig, start, basis in cfgs:
        alg = cache.get(sig, start, basis)
        d = alg.d
        N = 2 ** d
        tok = tok_of(alg, basis)
        desc = {'sig': sig, 'basis': basis}
        full = list(alg.canon2bin.values())
        exact = d <= 5
        npat = {0: 2, 1: 4, 2: 8, 3: 8, 4: 4, 5: 3, 6: 3, 7: 2}[d] if ctx.quick else {0: 2, 1: 6, 2: 20, 3: 30, 4: 15, 5: 8, 6: 6, 7: 4}[d]
        pats = []
        for t in key_tuples(rng, d, npat, ['small', 'grades', 'subset', 'single', 'perm'] if d <= 3 else ['small', 'single', 'small']):
            t = list(dict.fromkeys(t if t is not None else full))
            lim = N if d <= 3 else (4 if d <= 5 else 3)
            pats.append(t[:lim] or [0])
        # special shapes: scalar + blade (Study numbers), vector, versor-like even elements
        pats += [[0], [0, N - 1] if N > 1 else [0]]
        if d >= 2:
            pats += [[1, 2], [0, 3]]
        if d >= 5:
            pats += [[0, 16, 30], [1, 6, 13, 9]]      # elements whose x*conj(x)*rev(...) has a vector part
        if d == 7:
            pats += [[3, 12, 48, 64]]                  # sum of four commuting blades whose product is the pseudoscalar
        for kx in pats:
            x = frac_mv(alg, kx, rng)
            if kx == [3, 12, 48, 64]:
                from kingdon import MultiVector
                x = MultiVector.fromkeysvalues(alg, tuple(kx), [Fraction(1), Fraction(2), Fraction(3), Fraction(5)])
            case = {**desc, 'kx': kx, 'values': [str(v) for v in x.values()]}
            ctx.case(case, nontrivial=True, tag=f'd={d}')
            xd = mv_to_dict(x)
            try:
                xi = x.inv()
                err = None
            except ZeroDivisionError:
                xi, err = None, 'ZeroDivisionError'
            except Exception as e:
                ctx.violation('inv-raises', case, 'inverse or ZeroDivisionError', repr(e)[:200], key=f'inv:raises:{type(e).__name__}')
                continue
            if err:
                ctx.count('zerodiv')
                if d <= 5:
                    dt = det(left_mult_matrix(alg, xd))
                    if dt != 0:
                        ctx.violation('zerodiv-for-invertible', {**case, 'det_of_left_multiplication': str(dt)}, 'an inverse', 'ZeroDivisionError', key='inv:zerodiv-invertible')
                continue
            tol = None if exact else 1e-7
            r, l = mv_to_dict(x * xi), mv_to_dict(xi * x)
            if not is_one(r, tol) or not is_one(l, tol):
                ctx.violation('not-inverse', case, '{0: 1} on both sides', {'x*inv': {k: str(v) for k, v in r.items()}, 'inv*x': {k: str(v) for k, v in l.items()}},
                              key=f'inv:not-inverse:d{"<=5" if exact else ">=6"}')
                continue
            # division, number / x, negative powers
            ky = pats[rng.randrange(len(pats))]
            y = frac_mv(alg, ky, rng)
            try:
                q1 = mv_to_dict(y / x); q2 = mv_to_dict(y * xi)
                if not close_d(q1, q2, tol):
                    ctx.violation('division', {**case, 'ky': ky}, str(q2)[:300], str(q1)[:300], key='div:def')
                n1 = mv_to_dict(3 / x); n2 = mv_to_dict(3 * xi)
                if not close_d(n1, n2, tol):
                    ctx.violation('number-division', case, str(n2)[:300], str(n1)[:300], key='rdiv:def')
                if d <= 4:
                    p1 = mv_to_dict(x ** -2); p2 = mv_to_dict(xi * xi)
                    if not close_d(p1, p2, tol):
                        ctx.violation('negative-power', case, str(p2)[:300], str(p1)[:300], key='pow:neg')
                    p4 = mv_to_dict(x ** -4); p42 = mv_to_dict(xi * xi * xi * xi)
                    if not close_d(p4, p42, tol):
                        ctx.violation('negative-power', {**case, 'n': -4}, str(p42)[:300], str(p4)[:300], key='pow:neg')
            except ZeroDivisionError:
                ctx.violation('division-zerodiv', {**case, 'ky': ky}, 'a quotient (x is invertible)', 'ZeroDivisionError', key='div:zerodiv')
        # an empty numerator: 0 / x = 0 (and x / x = 1)
        from kingdon import MultiVector as _MV
        for kx in pats[:3]:
            x = frac_mv(alg, kx, rng)
            try:
                xi = x.inv()
            except Exception:
                continue
            empties = [('empty', _MV.fromkeysvalues(alg, (), [])), ('wedge-square', None), ('absent-grade', x.grade(d) if (2 ** d - 1) not in kx else _MV.fromkeysvalues(alg, (), []))]
            if d >= 1:
                e1 = alg.blades[alg.bin2canon[1]]
                empties[1] = ('wedge-square', e1 ^ e1)
            else:
                empties.pop(1)
            for nm, z in empties:
                if z is None or len(z.keys()):
                    continue
                case = {**desc, 'kx': kx, 'numerator': nm}
                ctx.case(case, tag='empty-numerator')
                try:
                    q = mv_to_dict(z / x)
                    if q:
                        ctx.violation('division', case, '0 (empty numerator)', str(q)[:200], key='div:empty-numerator')
                except Exception as e:
                    ctx.violation('division', case, '0 (empty numerator)', repr(e)[:200], key='div:empty-numerator:raises')
        # non-invertible operands must raise, never return a non-inverse
        for kx, vals in noninvertible(alg):
            from kingdon import MultiVector
            x = MultiVector.fromkeysvalues(alg, tuple(kx), [Fraction(v) for v in vals])
            case = {**desc, 'kx': kx, 'values': vals, 'noninvertible': True}
            ctx.case(case, tag='noninvertible')
            try:
                xi = x.inv()
                r = mv_to_dict(x * xi)
                if not is_one(r, None if exact else 1e-7):
                    ctx.violation('not-inverse', case, 'ZeroDivisionError', str(r)[:200], key='inv:noninvertible-returns')
            except ZeroDivisionError:
                pass
            except Exception as e:
                ctx.count('noninvertible-other-exception:' + type(e).__name__)
        # model tie: generated inverse as a rational map vs. model numerator / denominator
        if d <= 5:
            tie_pats = pats[: (6 if d <= 3 else 3)] if ctx.quick else pats[: (20 if d <= 3 else 6)]
            for kx in tie_pats:
                if d >= 4 and len(kx) > 3:
                    continue
                x = MultiVector_tracer(alg, kx)
                try:
                    xi = x.inv()
                except ZeroDivisionError:
                    continue
                lines.append(f'hitzer {tok} {ks(kx)}')
                plan.append(({**desc, 'kx': kx}, mv_to_dict(xi)))
    wrapper_pass(ctx)
    coefficient_and_state_pass(ctx)
    out = ctx.drive(lines)
    if out is not None:
        nb = 0
        for (case, real), got in zip(plan, out):
            ok = True
            try:
                m = re.match(r'num=(.*)\|den=(.*)$', got)
                num, den = parse_mv(m.group(1)), parse_poly(m.group(2))
                keys = set(num) | set(real)
                for k in keys:
                    rv = Q.lift(real.get(k, 0))
                    if not (rv.n * den).t == (num.get(k, P.lift(0)) * rv.d).t:
                        ok = False
            except Exception as e:
                ok = False
            if not ok:
                nb += 1
                if nb <= 4:
                    ctx.mismatch('hitzer', case, got[:300], str(real)[:300])
        ctx.count('driver-lines', len(lines))
        ctx.count('driver-mismatches', nb)
    ctx.assumptions = ['for d >= 6 the iterative (Shirokov) scheme divides in floating point: compared to 1e-7 relative, labelled as testing',
                       'ZeroDivisionError soundness is decided through the determinant of left multiplication for d <= 5 only']


def wrapper_pass(ctx):
    """inverse and division through the by-name route (wrapper) and inside registered functions, in a history that revisits
    every key pattern after the others were generated; compared with a plain algebra"""
    from kingdon import MultiVector
    rng = ctx.rng

    def f_inv(x): return x.inv()
    def f_div(x, y): return x / y
    for sig in ([1, 1, 1], [1, 1, -1], [0, 1, 1, 1], [1, 1]):
        plain = make_algebra(sig)
        wrapped = make_algebra(sig, wrapper=(lambda f: f))
        d = len(sig)
        N = 2 ** d
        pats = [[0, 1, 6 % N], [0, 1, N - 1], [0, 3 % N, 5 % N], [0, 3 % N, N - 1], [1, 0, N - 1], [N - 1, 1, 0], [0, 1], [1, 2 % N], [2 % N, 1]]
        pats = [list(dict.fromkeys(p)) for p in pats]
        ops = [(p, [Fraction(rng.randint(1, 7)) for _ in p]) for p in pats]
        seq = ops + list(reversed(ops)) + ops
        regs = {}
        for route in ('wrapper', 'registered', 'registered+wrapper'):
            alg = wrapped if 'wrapper' in route else plain
            if 'registered' in route:
                regs[route] = (alg.register(f_inv), alg.register(f_div))
        for i, (kx, vals) in enumerate(seq):
            xp = MultiVector.fromkeysvalues(plain, tuple(kx), list(vals))
            try:
                exp = mv_to_dict(xp.inv())
            except ZeroDivisionError:
                continue
            yk, yv = seq[(i + 3) % len(seq)]
            for route in ('wrapper', 'registered', 'registered+wrapper'):
                alg = wrapped if 'wrapper' in route else plain
                x = MultiVector.fromkeysvalues(alg, tuple(kx), list(vals))
                y = MultiVector.fromkeysvalues(alg, tuple(yk), list(yv))
                case = {'sig': sig, 'route': route, 'kx': kx, 'call_index': i}
                ctx.case(case, tag='route:' + route)
                try:
                    got = mv_to_dict(regs[route][0](x)) if 'registered' in route else mv_to_dict(x.inv())
                    if got != exp:
                        ctx.violation('inverse-route', case, str(exp)[:200], str(got)[:200], key=f'inv:route:{route}')
                    q = mv_to_dict(regs[route][1](y, x)) if 'registered' in route else mv_to_dict(y / x)
                    yp = MultiVector.fromkeysvalues(plain, tuple(yk), list(yv))
                    qe = mv_to_dict(yp * xp.inv())
                    if q != qe:
                        ctx.violation('division-route', {**case, 'ky': yk}, str(qe)[:200], str(q)[:200], key=f'div:route:{route}')
                except Exception as e:
                    ctx.violation('inverse-route-raises', case, str(exp)[:200], repr(e)[:200], key=f'inv:route:{route}:raises')


def coefficient_and_state_pass(ctx):
    """(a) operands whose coefficients are kingdon's own RationalPolynomial objects, and division inside a function registered
    with symbolic=True (which computes with them) called with plain numbers: x * x.inv() = 1 and u / v = u * v.inv(), for single
    blades, scalars and sparse operands in d = 2..4; (b) the inverse of a multivector that is updated in place between two
    calls (array-valued, `x[i] = y`): the second inverse is the inverse of the current coefficients, and `a / x` keeps
    agreeing with `a * x.inv()`"""
    import numpy as np
    from kingdon import MultiVector
    from kingdon.polynomial import RationalPolynomial
    rng = ctx.rng
    def f_div(u, v): return u / v
    def f_inv(u, v): return u * v.inv()
    for sig in ([1, 1], [1, 1, 1], [1, 1, -1], [0, 1, 1, 1]):
        alg = make_algebra(sig)
        N = 2 ** alg.d
        pats = [[0], [1], [N - 1], [3 % N], [0, N - 1], [1, 2 % N]]
        for kx in pats:
            kx = list(dict.fromkeys(kx))
            # (a1) RationalPolynomial coefficients
            x = MultiVector.fromkeysvalues(alg, tuple(kx), [RationalPolynomial.fromname(f'x{k}') for k in kx])
            case = {'sig': sig, 'kx': kx, 'coefficients': 'RationalPolynomial symbols'}
            ctx.case(case, tag='coefficients:RationalPolynomial')
            try:
                one = x * x.inv()
                bad = {int(k): str(v) for k, v in zip(one.keys(), one.values()) if not ((k == 0 and v == 1) or (k != 0 and v == 0))}
                if bad or 0 not in one.keys():
                    ctx.violation('inverse', case, 'x * x.inv() == 1', str(bad)[:200] or 'no scalar part', key='inv:rational-polynomial-coefficients')
            except ZeroDivisionError:
                pass
            except Exception as ex:
                ctx.count('rational-polynomial-coefficients:raises:' + type(ex).__name__)
            # (a2) division inside a symbolically registered function, called with numbers
            for f in (f_div, f_inv):
                ky = rng.choice(pats)
                u = MultiVector.fromkeysvalues(alg, tuple(dict.fromkeys(ky)), [Fraction(rng.randint(1, 7)) for _ in dict.fromkeys(ky)])
                v = MultiVector.fromkeysvalues(alg, tuple(kx), [Fraction(rng.choice((2, 3, 5, -7))) for _ in kx])
                case = {'sig': sig, 'registered_symbolic': f.__name__, 'ku': list(u.keys()), 'kv': kx, 'vu': [str(c) for c in u.values()], 'vv': [str(c) for c in v.values()]}
                ctx.case(case, tag='registered-symbolic-division')
                try:
                    exp = mv_to_dict(u * v.inv())
                except ZeroDivisionError:
                    continue
                try:
                    got = mv_to_dict(alg.register(symbolic=True)(f)(u, v))
                except ZeroDivisionError:
                    continue
                except Exception as ex:
                    ctx.count('registered-symbolic-division:raises:' + type(ex).__name__)
                    continue
                if got != exp:
                    ctx.violation('division-route', case, str(exp)[:200], str(got)[:200], key='div:route:registered-symbolic')
    # (a3) nested quotients: the divisor's coefficients are themselves quotients (functions registered with symbolic=True called
    # with numbers; multivectors whose RationalPolynomial coefficients have a denominator)
    def f_nested(u, v, w): return u / (v / w)
    def f_invinv(u, v, w): return u.inv().inv() + 0 * (v | w)
    def f_chain(u, v, w): return (u / v) / w
    for sig in ([1, 1], [1, 1, 1], [1, 1, -1]):
        alg = make_algebra(sig)
        N = 2 ** alg.d
        for f, comp in ((f_nested, lambda u, v, w: u * (v * w.inv()).inv()), (f_invinv, lambda u, v, w: u), (f_chain, lambda u, v, w: u * v.inv() * w.inv())):
            for _ in range(2 if ctx.quick else 6):
                ks_ = [rng.choice([[0], [1], [N - 1], [3 % N], [1, 2 % N], [0, N - 1]]) for _ in range(3)]
                ks_ = [list(dict.fromkeys(k)) for k in ks_]
                mvs = [MultiVector.fromkeysvalues(alg, tuple(k), [Fraction(rng.choice((2, 3, 5, -7, 11))) for _ in k]) for k in ks_]
                case = {'sig': sig, 'registered_symbolic': f.__name__, 'keys': ks_, 'values': [[str(c) for c in m.values()] for m in mvs]}
                ctx.case(case, tag='registered-symbolic-nested-division')
                try:
                    exp = mv_to_dict(comp(*mvs))
                    got = mv_to_dict(alg.register(symbolic=True)(f)(*mvs))
                except ZeroDivisionError:
                    continue
                except Exception as ex:
                    ctx.count('registered-symbolic-nested-division:raises:' + type(ex).__name__)
                    continue
                if got != exp:
                    ctx.violation('division-route', case, str(exp)[:200], str(got)[:200], key='div:route:registered-symbolic:nested')
        for kx in ([1, 2 % N], [0, N - 1], [1]):
            kx = list(dict.fromkeys(kx))
            x = MultiVector.fromkeysvalues(alg, tuple(kx), [RationalPolynomial([[1, f'p{k}']], [[1, f'q{k}']]) for k in kx])
            case = {'sig': sig, 'kx': kx, 'coefficients': 'RationalPolynomial quotients p_k / q_k'}
            ctx.case(case, tag='coefficients:RationalPolynomial-quotients')
            try:
                for nm, one in (('x * x.inv()', x * x.inv()), ('x.inv() * x', x.inv() * x)):
                    bad = {int(k): str(v) for k, v in zip(one.keys(), one.values()) if not ((k == 0 and v == 1) or (k != 0 and v == 0))}
                    if bad or 0 not in one.keys():
                        ctx.violation('inverse', {**case, 'product': nm}, '1', str(bad)[:200] or 'no scalar part', key='inv:rational-polynomial-quotient-coefficients')
                        break
            except ZeroDivisionError:
                pass
            except Exception as ex:
                ctx.count('rational-polynomial-quotients:raises:' + type(ex).__name__)
    # (b) in-place updates between two inverses
    for sig in ([1, 1, 1], [1, 1, -1]):
        alg = make_algebra(sig)
        for container in ('list', 'ndarray'):
            keys = (0, 3, 5)
            mk = lambda: [np.array([float(rng.randint(1, 5)) for _ in range(3)]) for _ in keys]
            arrs = mk()
            X = MultiVector.fromkeysvalues(alg, keys, arrs if container == 'list' else np.array(arrs))
            A = MultiVector.fromkeysvalues(alg, (1, 2), [2.0, 3.0])
            case = {'sig': sig, 'container': container, 'keys': list(keys)}
            first = X.inv(); A / X; X ** -1
            new = MultiVector.fromkeysvalues(alg, keys, [float(rng.randint(6, 9)) for _ in keys])
            X[1] = new
            for form, thunk, ref in (('x.inv()', lambda: X * X.inv(), None), ('x**-1', lambda: X * X ** -1, None),
                                     ('a / x vs a * x.inv()', lambda: A / X, lambda: A * X.inv())):
                ctx.case({**case, 'form': form}, tag='inverse-after-inplace-update')
                got = thunk()
                gd = {int(k): np.asarray(v, dtype=float) for k, v in zip(got.keys(), got.values())}
                if ref is None:
                    ok = all(np.allclose(v, 1.0 if k == 0 else 0.0, atol=1e-9) for k, v in gd.items()) and 0 in gd
                    exp_s = 'x * x.inv() == 1 at every index after x[1] = y'
                else:
                    r = ref()
                    rd = {int(k): np.asarray(v, dtype=float) for k, v in zip(r.keys(), r.values())}
                    ok = all(np.allclose(gd.get(k, 0.0), rd.get(k, 0.0), atol=1e-9) for k in set(gd) | set(rd))
                    exp_s = 'a / x == a * x.inv() after x[1] = y'
                if not ok:
                    ctx.violation('inverse', {**case, 'form': form}, exp_s, str({k: v.tolist() for k, v in gd.items()})[:250], key='inv:stale-after-inplace-update')


def MultiVector_tracer(alg, kx):
    return tracer_mv(alg, kx, 0)


def close_d(a, b, tol):
    if tol is None:
        return {k: v for k, v in a.items() if v != 0} == {k: v for k, v in b.items() if v != 0}
    keys = set(a) | set(b)
    return all(abs(complex(a.get(k, 0)) - complex(b.get(k, 0))) <= tol * max(1.0, abs(complex(b.get(k, 0)))) for k in keys)


def noninvertible(alg):
    """operands without inverse: null vectors, 1 +- e with e*e = 1 (idempotent-like), 0"""
    d = alg.d
    out = [([0], [0])]
    S = alg.signs
    for j in range(d):
        if S[2 ** j, 2 ** j] == 0:
            out.append(([2 ** j], [3]))
        if S[2 ** j, 2 ** j] == 1:
            out.append(([0, 2 ** j], [1, 1])); out.append(([0, 2 ** j], [2, -2]))
    for j in range(d):
        for k in range(j):
            if S[2 ** j, 2 ** j] == 1 and S[2 ** k, 2 ** k] == -1:
                out.append(([2 ** j, 2 ** k], [1, 1]))          # null vector e+ + e-
    return out[:6]

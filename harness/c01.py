"""C01 — basis-blade products follow the Clifford relations of the chosen signature.

Tie: sign table, names, cayley and blade spellings of the real Algebra vs. the Lean model (Cfg.computeSign,
     Cfg.default/custom, Cfg.cayley, Cfg.bladeOf), entry by entry.
Oracle (direct, on the real objects): generator squares, anticommutation, associativity of the table over all
     triples, named blade = ordered product of its generators, cayley = table, blade products = table.
"""
import itertools
from harness.common import *


def configs(ctx):
    """yield (tag, sig, start, basis, via_pqr)"""
    rng = ctx.rng
    dmax_all = 4 if ctx.quick else 6
    for d in range(0, dmax_all + 1):
        sigs = all_signatures(d)
        if ctx.quick and d == 4:
            sigs = rng.sample(sigs, 30)
        for sig in sigs:
            yield ('sig', sig, None, None, None)
    # (p, q, r) route, all with p+q+r <= 4 (<= 5 thorough)
    m = 4 if ctx.quick else 5
    for p in range(m + 1):
        for q in range(m + 1 - p):
            for r in range(m + 1 - p - q):
                yield ('pqr', None, None, None, (p, q, r))
    # start indices
    for d in (1, 2, 3):
        for start in (0, 1, 2):
            sig = [rng.choice((1, -1, 0)) for _ in range(d)]
            yield ('start', sig, start, None, None)
    # every other start index a single hex digit allows: the labels then use the letters a..f - among them `e`, the
    # letter of the prefix - and custom bases over such labels
    for d in (1, 2, 3, 4):
        for start in sorted({16 - d, 15 - d, 14 - d, 13 - d, 10, rng.randrange(3, 16 - d)} - {0, 1, 2}):
            if 0 <= start <= 16 - d:
                yield ('start', [rng.choice((1, -1, 0)) for _ in range(d)], start, None, None)
    for d in (2, 3, 4):
        for _ in range(2 if ctx.quick else 8):
            start = rng.choice([s_ for s_ in range(9, 17 - d)])
            yield ('custom-rnd', [rng.choice((1, -1, 0)) for _ in range(d)], None, random_custom_basis(rng, d, start), None)
    # custom bases: exhaustive d <= 2
    for d in (1, 2):
        for start in (0, 1, 2):
            labels0 = [start + i for i in range(d)]
            for labels in itertools.permutations(labels0):
                grade2 = [[]] if d < 2 else [list(p) for p in itertools.permutations(labels)]
                for g2 in grade2:
                    basis = ['e'] + ['e' + hexd(l) for l in labels] + (['e' + ''.join(hexd(x) for x in g2)] if d == 2 else [])
                    for sig in (all_signatures(d) if d == 1 else [[1, 1], [1, -1], [0, 1], [-1, 0], [0, 0], [-1, -1]]):
                        yield ('custom-exh', sig, None, basis, None)
    # sampled custom bases
    n = 40 if ctx.quick else 300
    for _ in range(n):
        d = rng.choice([2, 3, 3, 4, 4] if ctx.quick else [3, 4, 4, 5, 5])
        sig = [rng.choice((1, -1, 0)) for _ in range(d)]
        yield ('custom-rnd', sig, None, random_custom_basis(rng, d), None)
    for name in ('2DPGA', '3DPGA', 'STAP'):
        yield ('named', name, None, None, None)


def dump_real(alg, ctx, spell_budget):
    import itertools as it
    names = list(alg.canon2bin.keys())
    keys = list(alg.canon2bin.values())
    out = {
        'start': int(alg.start_index), 'd': alg.d, 'sig': [int(s) for s in alg.signature],
        'names': names, 'keys': keys,
        'bin2canon': [alg.bin2canon[k] for k in range(2 ** alg.d)],
        'signs': [int(alg.signs[I, J]) for I in keys for J in keys],
        'cayley': [alg.cayley[a, b] for a in names for b in names],
    }
    return out


def spellings(alg, rng, budget):
    res = []
    for name in alg.canon2bin:
        letters = name[1:]
        perms = list(itertools.permutations(letters))
        if len(perms) > 6:
            perms = [tuple(letters)] + rng.sample(perms, 5)
        for p in perms:
            res.append('e' + ''.join(p))
    if len(res) > budget:
        res = rng.sample(res, budget)
    return res


def oracle(alg, ctx, desc, triples=True):
    """the property itself, on the real objects"""
    d = alg.d
    keys = list(alg.canon2bin.values())
    S = alg.signs
    e = alg.blades
    gens = [alg.bin2canon[2 ** j] for j in range(d)]
    sig_of = lambda name: int(alg.signature[int(name[1:], 16) - alg.start_index])
    one = {0: 1}
    def asdict(mv):
        return {k: v for k, v in zip(mv.keys(), mv.values()) if v != 0}
    for g in gens:
        sq = asdict(e[g] * e[g])
        exp = {0: sig_of(g)} if sig_of(g) else {}
        if sq != exp:
            ctx.violation('generator-square', {**desc, 'gen': g}, exp, sq, key='relations')
    for g, h in itertools.combinations(gens, 2):
        a, b = asdict(e[g] * e[h]), asdict(e[h] * e[g])
        if a != {k: -v for k, v in b.items()} or not a:
            ctx.violation('anticommute', {**desc, 'gens': [g, h]}, 'e_g e_h = - e_h e_g != 0', [a, b], key='relations')
    # blade products equal the table
    for I in keys:
        for J in keys:
            s = int(S[I, J])
            prod = asdict(e[alg.bin2canon[I]] * e[alg.bin2canon[J]])
            exp = {I ^ J: s} if s else {}
            if prod != exp:
                ctx.violation('blade-product-vs-table', {**desc, 'I': I, 'J': J}, exp, prod, key='table')
                break
    # associativity of the table
    if triples:
        n = 0
        for I in keys:
            for J in keys:
                sij = S[I, J]
                for L in keys:
                    if sij * S[I ^ J, L] != S[J, L] * S[I, J ^ L]:
                        ctx.violation('associativity', {**desc, 'I': I, 'J': J, 'L': L},
                                      int(S[J, L] * S[I, J ^ L]), int(sij * S[I ^ J, L]), key='assoc')
                        n += 1
                        break
                if n: break
            if n: break
    # a blade named e_ij..k equals the ordered product e_i e_j .. e_k
    for name, K in alg.canon2bin.items():
        acc = None
        for ch in name[1:]:
            f = e['e' + ch]
            acc = f if acc is None else acc * f
        if acc is None:
            continue
        got = asdict(acc)
        if got != {K: 1}:
            ctx.violation('named-blade', {**desc, 'name': name}, {K: 1}, got, key='named-blade')
    # cayley is that same table
    for a, I in alg.canon2bin.items():
        for b, J in alg.canon2bin.items():
            s = int(S[I, J])
            exp = '0' if s == 0 else ('-' if s < 0 else '') + alg.bin2canon[I ^ J]
            if alg.cayley[a, b] != exp:
                ctx.violation('cayley', {**desc, 'a': a, 'b': b}, exp, alg.cayley[a, b], key='cayley')
                return


def aliasing_pass(ctx):
    """the algebra keeps its own signature: later changes of the object the caller passed (a list, an ndarray that is edited in
    place) change neither `alg.signature` nor any sign computed afterwards (d = 3 with a precomputed table, d = 7 with the lazily
    filled one)"""
    import numpy as np
    from kingdon import Algebra
    for d, container in ((3, 'list'), (3, 'ndarray'), (7, 'ndarray'), (7, 'list')):
        sig0 = [1, -1, 1, 1, -1, 0, 1][:d]
        buf = np.array(sig0) if container == 'ndarray' else list(sig0)
        alg = Algebra(signature=buf)
        early = {(1 << j): int(alg.signs[1 << j, 1 << j]) for j in range(0, d, 2)}
        for j in range(d):                      # the caller re-uses its buffer
            buf[j] = -buf[j] if buf[j] else 1
        case = {'d': d, 'signature': sig0, 'passed_as': container}
        ctx.case(case, tag='signature-aliasing')
        if [int(v) for v in alg.signature] != sig0:
            ctx.violation('signature-aliased', case, sig0, [int(v) for v in alg.signature], key=f'relations:signature-aliased:{container}')
            continue
        late = {(1 << j): int(alg.signs[1 << j, 1 << j]) for j in range(d)}
        bad = {j: late[1 << j] for j in range(d) if late[1 << j] != sig0[j]}
        if bad or any(early[k] != late[k] for k in early):
            ctx.violation('generator-square', {**case, 'after': 'the caller modified its signature object'}, sig0, [late[1 << j] for j in range(d)],
                          key='relations:signature-aliased:squares')


def blade_history_pass(ctx):
    """(a) the algebra's blades are not changed by anything a caller does with them: after an augmented assignment whose left
    operand is a blade object taken from the algebra (`R = alg.blades.e1; R *= alg.blades.e2`, and the other in-place operator
    forms) the blade of that name is still the unit coefficient on its own key and the generators still square to the
    signature; (b) a multivector built from several blade keywords at once - canonical and permuted spellings of either
    parity mixed, in either keyword order - is the sum of the single-keyword multivectors (each of which the correspondence
    compares with the model's ordered product)"""
    import itertools as it
    from kingdon import Algebra
    rng = ctx.rng
    algs = [('R3', lambda: Algebra(3)), ('R21s0', lambda: Algebra(2, 1, start_index=0)), ('3DPGA', lambda: Algebra.fromname('3DPGA')),
            ('2DPGA', lambda: Algebra.fromname('2DPGA')), ('R421', lambda: Algebra(4, 2, 1)), ('R52', lambda: Algebra(5, 2))]
    def asdict(mv):
        return {int(k): v for k, v in zip(mv.keys(), mv.values()) if v != 0}
    for tag, mk in algs:
        alg = mk()
        gens = [n for n in alg.canon2bin if len(n) == 2]
        names = list(alg.canon2bin)
        if len(names) > 40:
            names = gens + rng.sample([n for n in names if len(n) > 2], 20)
        # (a) in-place operator forms on the algebra's own blade objects
        for sym in ('*=', '^=', '|=', '+=', '-=', '&=', '@=', '>>=', '/=', '**='):
            n1 = rng.choice(names[1:])
            n2 = rng.choice(gens)
            case = {'algebra': tag, 'statement': f'R = alg.blades[{n1!r}]; R {sym} ' + ('2' if sym == '**=' else f'alg.blades[{n2!r}]')}
            ctx.case(case, tag='blade-inplace')
            env = {'R': alg.blades[n1], 'S': alg.blades[n2]}
            try:
                exec(f'R {sym} ' + ('2' if sym == '**=' else 'S'), env)
            except Exception as ex:
                ctx.count('blade-inplace:raises:' + type(ex).__name__)
            K = alg.canon2bin[n1]
            if asdict(alg.blades[n1]) != {K: 1}:
                ctx.violation('blade-mutated', case, {K: 1}, asdict(alg.blades[n1]), key='blade-mutated')
                alg = mk()
                continue
            for g in gens:
                j = alg.canon2bin[g]
                sq = asdict(alg.blades[g] * alg.blades[g])
                exp = {0: int(alg.signs[j, j])} if alg.signs[j, j] != 0 else {}
                if sq != exp:
                    ctx.violation('generator-square', {**case, 'generator': g}, exp, sq, key='blade-mutated:square')
                    alg = mk()
                    break
        # (b) several blade keywords at once
        sp = spellings(alg, rng, 60)
        single = {}
        for s in sp:
            try:
                mv = alg.multivector(**{s: 1})
                single[s] = (int(mv.keys()[0]), mv.values()[0])
            except Exception:
                pass
        cands = list(single)
        for _ in range(120 if ctx.quick else 1500):
            k = rng.choice((2, 2, 3, 4))
            pick = []
            seen = set()
            for s in rng.sample(cands, min(len(cands), 12)):
                if single[s][0] not in seen:
                    pick.append(s); seen.add(single[s][0])
                if len(pick) == k:
                    break
            if len(pick) < 2:
                continue
            vals = {s: rng.choice((2, 3, 5, 7, -4)) for s in pick}
            case = {'algebra': tag, 'keywords': vals}
            ctx.case(('multi-keyword', tag, tuple(vals.items())), tag='multi-keyword')
            exp = {single[s][0]: single[s][1] * v for s, v in vals.items()}
            try:
                got = asdict(alg.multivector(**vals))
            except Exception as ex:
                got = 'raises ' + type(ex).__name__
            if got != exp:
                ctx.violation('spelling-vs-ordered-product', case, exp, got, key='spelling:multi-keyword')
                break


def interleaved_algebras_pass(ctx):
    """several algebras of one dimension but different signature / basis, used alternately in one process (A, then B, then A
    again), through every route that resolves generated functions by name: with a wrapper, and inside registered functions;
    after each switch the generators of each algebra still square to its own signature, anticommute, and the blade products
    follow that algebra's own table.  Also: a blade name given as a key (`{'e21': 1}`, `keys=('e21',)`) is refused or is the
    blade of that spelling (the keyword form)"""
    from fractions import Fraction
    from kingdon import Algebra
    ident = lambda f: f
    def asdict(mv):
        return {int(k): v for k, v in zip(mv.keys(), mv.values()) if v != 0}
    groups = [
        [('R(1,1) +-', lambda w: Algebra(signature=[1, -1], **w)), ('R(1,1) -+', lambda w: Algebra(signature=[-1, 1], **w)), ('R(2,0)', lambda w: Algebra(2, **w))],
        [('PGA3', lambda w: Algebra(3, 0, 1, **w)), ('STA', lambda w: Algebra(3, 1, **w)), ('3DPGA', lambda w: Algebra.fromname('3DPGA', **w))],
    ]
    for group in groups:
        for route in ('wrapper', 'registered'):
            algs = [(nm, mk({'wrapper': ident} if route == 'wrapper' else {})) for nm, mk in group]
            regs = {}
            if route == 'registered':
                for nm, alg in algs:
                    def square(x): return x * x
                    def prod(x, y): return x * y
                    regs[nm] = (alg.register(square), alg.register(prod))
            for rnd in range(3):
                for nm, alg in (algs if rnd != 1 else list(reversed(algs))):
                    S = alg.signs
                    gens = [(n, k) for n, k in alg.canon2bin.items() if len(n) == 2]
                    for (n1, k1), (n2, k2) in [(g, g) for g in gens] + [(gens[0], gens[-1]), (gens[-1], gens[0])]:
                        a, b = alg.blades[n1], alg.blades[n2]
                        got = asdict(regs[nm][1](a, b) if route == 'registered' else a * b)
                        exp = {k1 ^ k2: int(S[k1, k2])} if S[k1, k2] != 0 else {}
                        case = {'algebra': nm, 'route': route, 'round': rnd, 'other_algebras_used_in_between': [m for m, _ in algs if m != nm], 'product': f'{n1} * {n2}'}
                        ctx.case(case, tag='interleaved-algebras')
                        if got != exp:
                            ctx.violation('generator-square' if n1 == n2 else 'table', case, exp, got, key=f'relations:interleaved-algebras:{route}')
                            break
    for tag, alg in (('R3', Algebra(3)), ('3DPGA', Algebra.fromname('3DPGA')), ('R21s2', Algebra(2, 1, start_index=2))):
        for name in alg.canon2bin:
            if len(name) < 3:
                continue
            for perm in itertools.permutations(name[1:]):
                sp = 'e' + ''.join(perm)
                try:
                    kwform = asdict(alg.multivector(**{sp: Fraction(7)}))
                except Exception:
                    continue
                for fname, thunk in (('keys=(name,)', lambda: alg.multivector(keys=(sp,), values=[Fraction(7)])), ('{name: value}', lambda: alg.multivector({sp: Fraction(7)}))):
                    ctx.case(('name-as-key', tag, sp, fname), tag='name-as-key')
                    try:
                        built = asdict(thunk())
                    except Exception:
                        continue
                    if built != kwform:
                        ctx.violation('spelling-vs-ordered-product', {'algebra': tag, 'spelling': sp, 'form': fname}, kwform, built, key='spelling:name-as-key')


def graded_pass(ctx):
    """graded mode: every basis blade is the unit coefficient on its own key (inside its complete grade), a blade named
    e_ij..k is the ordered product of its generators, blade products follow the table"""
    from kingdon import Algebra
    rng = ctx.rng
    cfgs = [([1, 1], None), ([1, 1, 1], None), ([0, 1, 1], None), ([1, 1, 1, 1], None), ([0, 1, 1, 1], None), ([1, -1, 1, -1], None),
            ([0, 1, 1], ["e", "e1", "e2", "e0", "e20", "e01", "e12", "e012"]),
            ([0, 1, 1, 1], ["e", "e1", "e2", "e3", "e0", "e01", "e02", "e03", "e12", "e31", "e23", "e032", "e013", "e021", "e123", "e0123"]),
            ([1, -1, 1], random_custom_basis(rng, 3)), ([1, 1, 0, -1], random_custom_basis(rng, 4))]
    if not ctx.quick:
        cfgs += [([1, 1, 1, 1, 1], None), ([0, 1, 1, 1, -1], None)]
    for sig, basis in cfgs:
        try:
            alg = make_algebra(sig, None, basis, graded=True)
        except Exception as e:
            ctx.violation('construct-raises', {'sig': sig, 'basis': basis, 'graded': True}, 'an algebra', repr(e)[:200], key='construct')
            continue
        desc = {'sig': sig, 'basis': basis, 'graded': True}
        ctx.count('cfg:graded')
        S = alg.signs
        def asdict(mv):
            return {k: v for k, v in zip(mv.keys(), mv.values()) if v != 0}
        for name, K in alg.canon2bin.items():
            b = alg.blades[name]
            ctx.case(('graded-blade', tuple(sig), name), tag='graded', sample=False)
            if asdict(b) != {K: 1}:
                ctx.violation('graded-blade', {**desc, 'name': name}, {K: 1}, asdict(b), key='graded:blade')
                continue
            g = len(name) - 1
            if tuple(b.keys()) != tuple(alg.indices_for_grade[g]):
                ctx.violation('graded-blade-keys', {**desc, 'name': name}, list(alg.indices_for_grade[g]), list(b.keys()), key='graded:blade-keys')
            acc = None
            for ch in name[1:]:
                f = alg.blades['e' + ch]
                acc = f if acc is None else acc * f
            if acc is not None and asdict(acc) != {K: 1}:
                ctx.violation('named-blade', {**desc, 'name': name}, {K: 1}, asdict(acc), key='graded:named-blade')
        names = list(alg.canon2bin.items())
        pairs_ = [(a, b) for a in names for b in names]
        if len(pairs_) > 120:
            pairs_ = rng.sample(pairs_, 120)
        for (a, I), (b, J) in pairs_:
            sgn = int(S[I, J])
            exp = {I ^ J: sgn} if sgn else {}
            got = asdict(alg.blades[a] * alg.blades[b])
            ctx.case(('graded-product', tuple(sig), a, b), tag='graded', sample=False)
            if got != exp:
                ctx.violation('blade-product-vs-table', {**desc, 'a': a, 'b': b}, exp, got, key='graded:table')
                break


def run(ctx):
    from kingdon import Algebra
    ctx.rule = ('configurations: every signature ordering in {1,-1,0}^d (d<=3 all, d=4 sampled in quick; d<=6 all in thorough), '
                'all (p,q,r), start_index 0..2, custom bases (exhaustive d<=2, seeded random d<=4/5), the named algebras, '
                'lazy tables d=7,8; per configuration every ordered blade pair (sign, cayley) and blade spellings; '
                'a case is one compared table entry/spelling; distinct = distinct (configuration, entry)')
    ctx.lean_prepare()
    lines, plan = [], []
    cfgs = list(configs(ctx))
    for tag, sig, start, basis, pqr in cfgs:
        try:
            if tag == 'named':
                alg = Algebra.fromname(sig)
                desc = {'fromname': sig}
            elif pqr is not None:
                alg = Algebra(*pqr)
                desc = {'pqr': list(pqr)}
            else:
                alg = make_algebra(sig, start, basis)
                desc = {'sig': sig, 'start': start, 'basis': basis}
        except Exception as e:
            ctx.violation('construct-raises', {'tag': tag, 'sig': sig, 'start': start, 'basis': basis, 'pqr': pqr}, 'an algebra', repr(e), key='construct')
            continue
        real = dump_real(alg, ctx, 0)
        sigl, stl = real['sig'], real['start']
        tok = cfg_token(sigl, None if (tag in ('named', 'custom-exh', 'custom-rnd')) else stl,
                        list(alg.canon2bin.keys()) if (basis or tag == 'named') else None)
        ctx.count('cfg:' + tag)
        ctx.count(f'd={alg.d}')
        sp = spellings(alg, ctx.rng, 40 if alg.d <= 3 else 25)
        real['blades'] = []
        for s in sp:
            try:
                b = alg.blades[s]
                ks, vs = list(b.keys()), list(b.values())
                real['blades'].append(f'{ks[0]} {int(vs[0])}' if len(ks) == 1 else f'weird {ks} {vs}')
                # direct oracle on the same (history-carrying) algebra object: a blade spelled e_ij..k is the
                # ordered product e_i e_j .. e_k
                if len(s) > 2 and alg.d <= 5:
                    acc = None
                    for ch in s[1:]:
                        f = alg.blades['e' + ch]
                        acc = f if acc is None else acc * f
                    exp = {k: v for k, v in zip(acc.keys(), acc.values()) if v != 0}
                    got = {k: v for k, v in zip(ks, vs) if v != 0}
                    if exp != got:
                        ctx.violation('spelling-vs-ordered-product', {**desc, 'spelling': s, 'earlier_spellings': sp[:sp.index(s)][-6:]},
                                      exp, got, key='spelling')
            except Exception as ex:
                real['blades'].append('raises ' + type(ex).__name__)
        if pqr is not None:
            lines.append(f'pqr {pqr[0]} {pqr[1]} {pqr[2]}')
            plan.append(('pqr', desc, f'sig={",".join(map(str, sigl))} start={stl}'))
        lines.append(f'cfginfo {tok}')
        plan.append(('cfginfo', desc, f'adm=true start={stl} d={alg.d} keys={",".join(map(str, real["keys"]))} '
                     f'names={",".join(real["names"])} pss={2 ** alg.d - 1}'))
        lines.append(f'signs {tok}')
        plan.append(('signs', desc, ','.join(map(str, real['signs']))))
        # the *translated source* run on the same configuration (validates the translator and its prelude):
        # the sign table through the translated _compute_sign, the names through the translated __post_init__ region
        if alg.d <= 4:
            lines.append(f'srcsigns {tok}')
            plan.append(('translated:signs', desc, ','.join(map(str, real['signs']))))
        if alg.d <= 3:
            lines.append(f'srctables {tok}')
            plan.append(('translated:tables', desc, ','.join(map(str, real['signs'])) + '|' + ','.join(real['cayley']) + '|' +
                         ';'.join(f'{g}:' + ','.join(map(str, ks)) for g, ks in alg.indices_for_grade.items())))
        if alg.d <= 5:
            bs = ','.join(alg.basis) if alg.basis else '-'
            st_in = desc.get('start') if desc.get('start') is not None else (0 if list(alg.signature).count(0) == 1 else 1)
            lines.append(f'srcnames {bs} {alg.d} {st_in}')
            plan.append(('translated:names', desc, f'{int(alg.start_index)}|' + ','.join(f'{n}:{k}' for n, k in alg.canon2bin.items()) + '|' +
                         ','.join(f'{k}:{n}' for k, n in alg.bin2canon.items())))
        lines.append(f'cayley {tok}')
        plan.append(('cayley', desc, ','.join(real['cayley'])))
        for s, r in zip(sp, real['blades']):
            lines.append(f'blade {tok} {s}')
            plan.append(('blade', {**desc, 'spelling': s}, r))
        n_entries = len(real['signs'])
        for i in range(min(n_entries, 64)):
            pass
        ctx.evaluations += 2 * n_entries + len(sp)
        ctx.distinct.update((tok, 's', i) for i in range(n_entries) if real['signs'][i] != 1 or True)
        ctx.distinct.update((tok, 'b', s) for s in sp)
        if len(ctx.samples) < 6 and alg.d >= 2:
            ctx.samples.append({**desc, 'signs_first_row': real['signs'][:2 ** alg.d], 'spellings': sp[:4]})
        # direct oracle on a subset (cheap for d <= 3, sampled above)
        if alg.d <= 3 or (alg.d == 4 and ctx.rng.random() < (0.15 if ctx.quick else 1.0)) or tag == 'named' and alg.d <= 4:
            oracle(alg, ctx, desc)
            ctx.count('oracle-configs')
    # lazy tables, d = 7, 8
    for d in (7, 8):
        sig = [ctx.rng.choice((1, -1, 0)) for _ in range(d)]
        alg = make_algebra(sig)
        tok = cfg_token(sig, int(alg.start_index))
        npairs = 1500 if ctx.quick else 50000
        for _ in range(npairs):
            I, J = ctx.rng.randrange(2 ** d), ctx.rng.randrange(2 ** d)
            lines.append(f'sign {tok} {I} {J}')
            plan.append(('lazy-sign', {'sig': sig, 'I': I, 'J': J}, str(int(alg.signs[I, J]))))
        ctx.evaluations += npairs
        ctx.distinct.update((tok, 'lz', i) for i in range(npairs))
        ctx.count(f'd={d}')
        # associativity + relations on the lazy table (sampled triples)
        S = alg.signs
        for _ in range(3000 if ctx.quick else 100000):
            I, J, L = (ctx.rng.randrange(2 ** d) for _ in range(3))
            if S[I, J] * S[I ^ J, L] != S[J, L] * S[I, J ^ L]:
                ctx.violation('associativity', {'sig': sig, 'I': I, 'J': J, 'L': L}, None, None, key='assoc')
                break
        # the Cayley table reported by a lazily filled algebra is that same (complete) table
        cay = alg.cayley
        ctx.case(('cayley-lazy', tuple(sig)), tag='cayley-lazy')
        if len(cay) != 4 ** d:
            ctx.violation('cayley', {'sig': sig, 'd': d}, f'{4 ** d} entries', f'{len(cay)} entries', key='cayley')
        else:
            for _ in range(2000):
                I, J = ctx.rng.randrange(2 ** d), ctx.rng.randrange(2 ** d)
                sgn = int(S[I, J])
                exp = '0' if sgn == 0 else ('-' if sgn < 0 else '') + alg.bin2canon[I ^ J]
                if cay[alg.bin2canon[I], alg.bin2canon[J]] != exp:
                    ctx.violation('cayley', {'sig': sig, 'I': I, 'J': J}, exp, cay[alg.bin2canon[I], alg.bin2canon[J]], key='cayley')
                    break
        for j in range(d):
            if S[2 ** j, 2 ** j] != sig[j]:
                ctx.violation('generator-square', {'sig': sig, 'gen': j}, sig[j], int(S[2 ** j, 2 ** j]), key='relations')
            for k in range(j):
                if S[2 ** j, 2 ** k] != -S[2 ** k, 2 ** j] or S[2 ** j, 2 ** k] == 0:
                    ctx.violation('anticommute', {'sig': sig, 'gens': [j, k]}, None, None, key='relations')
    graded_pass(ctx)
    aliasing_pass(ctx)
    blade_history_pass(ctx)
    interleaved_algebras_pass(ctx)
    out = ctx.drive(lines)
    if out is not None:
        nbad = 0
        for (kind, desc, exp), got in zip(plan, out):
            if exp != got:
                nbad += 1
                if nbad <= 5:
                    ctx.mismatch(kind, desc, got if len(got) < 400 else got[:400] + '…', exp if len(exp) < 400 else exp[:400] + '…')
                # a table entry that differs from the proved model is a property failure on that input iff the
                # direct oracle confirms it: run it on this configuration
                if kind in ('signs', 'cayley', 'cfginfo', 'blade') and nbad <= 3:
                    try:
                        if 'fromname' in desc:
                            alg = Algebra.fromname(desc['fromname'])
                        elif 'pqr' in desc:
                            alg = Algebra(*desc['pqr'])
                        else:
                            alg = make_algebra(desc['sig'], desc.get('start'), desc.get('basis'))
                        before = len(ctx.violations)
                        if alg.d <= 5:
                            oracle(alg, ctx, {k: v for k, v in desc.items() if k != 'spelling'})
                        if kind == 'blade' and len(ctx.violations) == before:
                            # sign of a non-canonical spelling: (-1)^parity of the permutation
                            sp = desc['spelling']
                            tgt, sw = alg._blade2canon(sp)
                            perm = [tgt[1:].index(ch) for ch in sp[1:]] if tgt in alg.canon2bin and sorted(tgt[1:]) == sorted(sp[1:]) else None
                            if perm is not None:
                                inv = sum(1 for i in range(len(perm)) for j in range(i) if perm[j] > perm[i])
                                b = alg.blades[sp]
                                expv = {alg.canon2bin[tgt]: (-1) ** inv}
                                gotv = dict(zip(b.keys(), b.values()))
                                if gotv != expv:
                                    ctx.violation('spelling-sign', desc, expv, gotv, key='spelling')
                    except Exception as e:
                        ctx.violation('oracle-raises', desc, None, repr(e), key='construct')
        ctx.count('driver-lines', len(lines))
        ctx.count('driver-mismatches', nbad)
    ctx.assumptions = ['hex labels above one digit (d + start_index > 16) are outside the admissible configurations',
                       'the eager table and the lazy DefaultKeyDict path call the same function; the lazy cache is covered by C09']

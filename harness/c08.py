"""C08 — results do not depend on how an operand is stored.

Metamorphic oracle on the real code: every operator applied to (x, y) and to (permute/pad x, permute/pad y) yields the
same element blade by blade.  Operands carry generators of the tracer ring, so equality is equality of polynomial
(rational) maps, i.e. for all coefficient values.  Theorem side: congruence of `den` (corollaries of C02-C05).
"""
from fractions import Fraction
from harness.common import *
from harness.opcorr import *

BINS = ['gp', 'op', 'ip', 'lc', 'rc', 'sp', 'cp', 'acp', 'rp', 'add', 'sub', 'sw', 'proj', 'div']
UNS = ['neg', 'reverse', 'involute', 'conjugate', 'hodge', 'unhodge', 'polarity', 'unpolarity', 'normsq', 'inv',
       'outerexp', 'outersin', 'outercos', 'outertan']
SLOW = {'sw', 'proj', 'div', 'inv', 'outerexp', 'outersin', 'outercos', 'outertan', 'normsq', 'polarity', 'unpolarity'}


def variants(rng, alg, keys, base, full_layouts=True):
    """storage variants of the same element: (description, multivector)"""
    from kingdon import MultiVector
    d = alg.d
    N = 2 ** d
    vals = {k: P.var(base + i) for i, k in enumerate(keys)}
    out = []
    perm = list(keys); rng.shuffle(perm)
    out.append(('permuted', perm))
    extra = [k for k in range(N) if k not in vals]
    pad = list(keys) + rng.sample(extra, min(len(extra), rng.randint(1, 3))) if extra else list(keys)
    rng.shuffle(pad)
    out.append(('zero-padded', pad))
    if extra:
        # pad with a blade of higher grade than the content (and one of lower grade)
        hi = sorted(extra, key=lambda k: -grade(k))[:1]
        out.append(('padded-high-grade', list(keys) + hi))
    if full_layouts:
        out.append(('full-canonical', list(alg.canon2bin.values())))
        out.append(('full-binary', list(range(N))))
    res = []
    for desc, ks_ in out:
        res.append((desc, ks_, MultiVector.fromkeysvalues(alg, tuple(ks_), [vals.get(k, 0) for k in ks_])))
    return res


def run(ctx):
    ctx.rule = ('per (configuration, operator, sparse operand pattern): the operator on the reference storage vs. on permuted, '
                'zero-padded (incl. higher-grade padding), full canonical and full binary layouts, with tracer-ring coefficients; '
                'a case is one (operator, variant pair); non-trivial = the variant differs from the reference storage')
    ctx.lean_prepare()
    rng = ctx.rng
    cfgs = [('sig', s, None, None) for s in ([1, 1], [1, -1], [0, 1], [1, 1, 1], [0, 1, 1], [1, -1, 1], [1, 1, 0])]
    cfgs += [('sig', [1, 1, 1, 1], None, None), ('sig', [0, 1, 1, 1], None, None), ('sig', [1, 1, 1, -1], None, None)]
    cfgs += [('custom', [0, 1, 1], None, ["e", "e1", "e2", "e0", "e20", "e01", "e12", "e012"])]
    cfgs += [('sig', [1, 0, 0], None, None), ('sig', [0, 1, 0, 1], None, None), ('sig', [0, 0], None, None)]     # two or more null directions
    if not ctx.quick:
        cfgs += [('sig', s, None, None) for s in ([1, 1, 1, 1, 1], [0, 1, 1, 1, -1], [1, -1, -1, 1])]
        cfgs += [('custom', [1, -1, 0], None, random_custom_basis(rng, 3)) for _ in range(4)]
    for tag, sig, start, basis in cfgs:
        if ctx.over_budget():
            continue
        alg = make_algebra(sig, start, basis)
        d = alg.d
        desc = {'sig': sig, 'basis': basis}
        npat = (3 if d <= 3 else 2) if ctx.quick else 10
        nullbits = sum(1 << i for i, sv in enumerate(alg.signature) if int(sv) == 0)
        nullblades = [k for k in alg.canon2bin.values() if k & nullbits]
        for ipat in range(npat + (2 if list(alg.signature).count(0) >= 2 else 0)):
            kx = [k for k in key_tuples(rng, d, 1, ['small', 'grades'])[0] or [1]][:4]
            ky = [k for k in key_tuples(rng, d, 1, ['small', 'grades'])[0] or [2]][:4]
            if ipat >= npat:
                # operands that store only blades containing a null basis vector (different ones on the two sides)
                kx = rng.sample(nullblades, min(len(nullblades), 2)); ky = rng.sample(nullblades, min(len(nullblades), 2))
            kx = list(dict.fromkeys(kx)); ky = list(dict.fromkeys(ky))
            x0 = tracer_mv(alg, kx, 0); y0 = tracer_mv(alg, ky, 1000)
            xv = variants(rng, alg, kx, 0, full_layouts=True)
            yv = variants(rng, alg, ky, 1000, full_layouts=True)
            for op in BINS:
                slow = op in SLOW
                if slow and d >= 3 and ctx.quick and rng.random() < 0.5:
                    continue
                try:
                    ref = mv_to_dict(BIN[op](x0, y0))
                    ref_exc = None
                except Exception as e:
                    ref, ref_exc = None, type(e).__name__
                pairs_ = [(xd, yd) for xd in xv for yd in yv]
                pairs_ = rng.sample(pairs_, 3 if (ctx.quick or slow) else 8)
                for (dx, kxv, xm), (dy, kyv, ym) in pairs_:
                    if slow and (len(kxv) > 5 or len(kyv) > 5) and d >= 3:
                        continue                   # dense sympy-path operators: seconds to minutes each, thorough only
                    case = {**desc, 'op': op, 'kx': kx, 'ky': ky, 'x_variant': [dx, kxv], 'y_variant': [dy, kyv]}
                    ctx.case(case, tag=f'op:{op}')
                    ctx.count('variant:' + dx); ctx.count('variant:' + dy)
                    try:
                        got = mv_to_dict(BIN[op](xm, ym))
                        exc = None
                    except Exception as e:
                        got, exc = None, type(e).__name__
                    if exc != ref_exc or (got is not None and not dict_equal(got, ref)):
                        ctx.violation('storage-dependent', case, ref_exc or canon_q(ref), exc or canon_q(got), key=f'{op}:storage')
            for op in UNS:
                slow = op in SLOW
                if op.startswith('outer') and len({grade(k) for k in kx}) != 1:
                    continue
                try:
                    ref = mv_to_dict(UN[op](x0)); ref_exc = None
                except Exception as e:
                    ref, ref_exc = None, type(e).__name__
                for dx, kxv, xm in xv:
                    if slow and len(kxv) > (6 if op in ('normsq', 'polarity', 'unpolarity') else 5) and d >= 3:
                        continue
                    if op == 'outertan' and len(kxv) > 4:
                        continue
                    case = {**desc, 'op': op, 'kx': kx, 'x_variant': [dx, kxv]}
                    ctx.case(case, tag=f'op:{op}')
                    ctx.count('variant:' + dx)
                    try:
                        import warnings
                        with warnings.catch_warnings():
                            warnings.simplefilter('ignore')
                            got = mv_to_dict(UN[op](xm))
                        exc = None
                    except Exception as e:
                        got, exc = None, type(e).__name__
                    if exc != ref_exc or (got is not None and not dict_equal(got, ref)):
                        ctx.violation('storage-dependent', case, ref_exc or canon_q(ref), exc or canon_q(got), key=f'{op}:storage')
    # the same element in the same storage through a history of other storages (cache / by-name routes)
    hist_pass(ctx)
    registered_pass(ctx)
    highdim_inverse_pass(ctx)
    matrix_layout_pass(ctx)
    expr_matrix_layout_pass(ctx)
    # the same element in different key orders through the by-name routes (wrapper, registered), incl. two-digit keys in d = 5, 6
    from harness.c09 import collision_search
    collision_search(ctx)
    ctx.assumptions = ['the iterative inverse (d >= 6) is exercised on sparse operands only (dense operands take minutes per pattern)']


def highdim_inverse_pass(ctx):
    """the iterative inverse of d >= 6 (also behind `/`, reflected `/` and negative powers): sparse operands whose square is not a
    scalar, with and without a stored scalar blade, permuted and zero-padded: the same element gives the same inverse
    whatever its storage, and x * x.inv() = 1 (floating point, well-conditioned operands, compared to 1e-6)"""
    from kingdon import MultiVector
    rng = ctx.rng
    def asd(mv):
        return {int(k): float(v) for k, v in zip(mv.keys(), mv.values()) if abs(float(v)) > 1e-9}
    def near(a, b):
        return set(a) == set(b) and all(abs(a[k] - b[k]) <= 1e-6 * max(1.0, abs(b[k])) for k in a)
    for sig in ([1] * 6, [1, 1, 1, 1, -1, -1]) + (() if ctx.quick else ([1] * 7,)):
        alg = make_algebra(list(sig))
        pats = [(3, 12), (5, 10), (6, 24), (3, 12, 33), (1, 6), (3, 48)]
        for keys in (pats if not ctx.quick else rng.sample(pats, 4)):
            # well-conditioned on purpose: each coefficient exceeds the sum of the smaller ones, so no signed sum of them (the
            # eigenvalues of commuting blades) comes near zero - the iterative scheme works in floating point
            pool = [2.0, 3.5, 7.25, 14.5]; rng.shuffle(pool)
            vals = {k: pool[i] for i, k in enumerate(keys)}
            layouts = {'reference': list(keys), 'reversed': list(reversed(keys)), 'zero-scalar-first': [0] + list(keys), 'zero-scalar-last': list(keys) + [0],
                       'zero-blade-padding': list(keys) + [63, 9]}
            ops = {'inv': lambda x: x.inv(), '1/x': lambda x: 1 / x, 'x**-1': lambda x: x ** -1, 'x**-2': lambda x: x ** -2}
            for oname, fn in ops.items():
                ref = None
                for lname, ks_ in layouts.items():
                    x = MultiVector.fromkeysvalues(alg, tuple(ks_), [vals.get(k, 0.0) for k in ks_])
                    case = {'sig': list(sig), 'op': oname, 'keys': list(keys), 'values': [vals[k] for k in keys], 'layout': lname, 'stored_keys': ks_}
                    ctx.case(case, tag='highdim-inverse')
                    try:
                        got = asd(fn(x))
                    except ZeroDivisionError:
                        got = 'ZeroDivisionError'
                    except Exception as ex:
                        got = 'raises ' + type(ex).__name__
                    if ref is None:
                        ref = got
                        if oname == 'inv' and not isinstance(got, str):
                            one = asd(x * fn(x))
                            if not near(one, {0: 1.0}):
                                ctx.violation('inverse', case, {0: 1.0}, one, key='inv:highdim:not-an-inverse')
                        continue
                    if isinstance(got, str) or isinstance(ref, str):
                        if got != ref:
                            ctx.violation('storage-dependent', case, str(ref)[:200], str(got)[:200], key=f'{oname}:storage:highdim')
                    elif not near(got, ref):
                        ctx.violation('storage-dependent', case, str(ref)[:200], str(got)[:200], key=f'{oname}:storage:highdim')


def matrix_layout_pass(ctx):
    """`asmatrix()` of one element in different storages (sparse, zero-padded, full canonical, full binary, full in a random
    order): the same matrix, and `frommatrix` of it is the element"""
    import numpy as np
    from kingdon import MultiVector
    rng = ctx.rng
    for sig in ([1, 1], [1, 1, 1], [0, 1, 1], [1, -1, 1, 1]):
        alg = make_algebra(sig)
        N = 2 ** alg.d
        canon = list(alg.canon2bin.values())
        for trial in range(2 if ctx.quick else 6):
            dense = trial % 2 == 0
            keys = canon if dense else rng.sample(canon, rng.randint(1, min(N, 5)))
            vals = {k: rng.randint(1, 9) for k in keys}
            perm = list(canon); rng.shuffle(perm)
            layouts = {'reference': list(keys), 'full-canonical': canon, 'full-binary': list(range(N)), 'full-random-order': perm,
                       'reversed': list(reversed(keys)), 'zero-padded': list(keys) + [k for k in canon if k not in vals][:2]}
            ref = None
            for lname, ks_ in layouts.items():
                x = MultiVector.fromkeysvalues(alg, tuple(ks_), [vals.get(k, 0) for k in ks_])
                case = {'sig': sig, 'op': 'asmatrix', 'element': {int(k): v for k, v in vals.items()}, 'layout': lname, 'stored_keys': list(ks_)}
                ctx.case(case, tag='matrix-layout')
                try:
                    M = np.asarray(x.asmatrix())
                except Exception as ex:
                    ctx.violation('storage-dependent', case, 'a matrix', 'raises ' + repr(ex)[:150], key='asmatrix:storage:raises')
                    continue
                if ref is None:
                    ref = M
                    back = mv_to_dict(MultiVector.frommatrix(alg, M))
                    if back != {k: v for k, v in vals.items() if v != 0}:
                        ctx.violation('storage-dependent', {**case, 'check': 'frommatrix(asmatrix(x)) == x'}, str(vals), str(back)[:200], key='asmatrix:roundtrip')
                elif M.shape != ref.shape or not np.array_equal(M, ref):
                    ctx.violation('storage-dependent', case, str(ref.tolist())[:200], str(M.tolist())[:200], key='asmatrix:storage')
                    break


def expr_matrix_layout_pass(ctx):
    """`expr_as_matrix(f, R, x)` with a numerical, array-valued R stored in different orders (canonical, permuted, with an explicit
    zero scalar): the same matrix A at every sample"""
    import numpy as np
    from kingdon import MultiVector
    from kingdon.matrixreps import expr_as_matrix
    rng = ctx.rng
    for sig in ([1, 1, 1], [0, 1, 1]):
        alg = make_algebra(sig)
        x = alg.vector(name='x')
        g2 = [k for k in alg.canon2bin.values() if bin(k).count('1') == 2]
        arrs = {k: np.array([float(rng.randint(1, 5)), float(rng.randint(1, 5))]) for k in g2}
        layouts = {'canonical': list(g2), 'rotated': g2[1:] + g2[:1], 'reversed': list(reversed(g2)), 'zero-scalar-in-the-middle': [g2[0], 0] + g2[1:]}
        for fname, f in (('R.cp(x)', lambda R, x: R.cp(x)), ('R >> x', lambda R, x: R >> x)):
            ref = None
            for lname, ks_ in layouts.items():
                R = MultiVector.fromkeysvalues(alg, tuple(ks_), [arrs.get(k, np.zeros(2)) for k in ks_])
                case = {'sig': sig, 'op': 'expr_as_matrix ' + fname, 'layout': lname, 'stored_keys': ks_}
                ctx.case(case, tag='expr-matrix-layout')
                try:
                    A, y = expr_as_matrix(f, R, x)
                    A = np.array([[np.broadcast_to(np.asarray(e, dtype=float), (2,)) for e in row] for row in A])
                except Exception as ex:
                    ctx.violation('storage-dependent', case, 'a matrix', 'raises ' + repr(ex)[:150], key='expr_as_matrix:storage:raises')
                    continue
                if ref is None:
                    ref = A
                elif A.shape != ref.shape or not np.allclose(A, ref):
                    ctx.violation('storage-dependent', case, str(ref.tolist())[:200], str(A.tolist())[:200], key='expr_as_matrix:storage')
                    break


def registered_pass(ctx):
    """compiled (registered) functions on differently stored operands denoting the same elements"""
    from kingdon import MultiVector
    rng = ctx.rng

    def f1(x, y): return x.grade(1, 2) * y + x.grade(0, 2)
    def f2(x, y): return (x >> y).grade(1) - y.grade(1)
    def f3(x, y): return (x | y) + (x ^ y).grade(2, 3) + x.e12 * y
    def f4(x, y): return ~x * y.grade(2) + x.dual().grade(1)
    for sig in ([1, 1, 1], [0, 1, 1], [1, -1, 1, 1]):
        for symbolic in (False, True):
            alg = make_algebra(sig)
            d = alg.d
            full = list(alg.canon2bin.values())
            regs = [(f, (alg.register(symbolic=True)(f) if symbolic else alg.register(f))) for f in (f1, f2, f3, f4)]
            for _ in range(3 if ctx.quick else 12):
                kx = rng.sample(range(2 ** d), min(2 ** d, 4)); ky = rng.sample(range(2 ** d), min(2 ** d, 3))
                vx = {k: Fraction(rng.randint(-5, 7)) for k in kx}; vy = {k: Fraction(rng.randint(-5, 7)) for k in ky}
                def variants(vals):
                    ks0 = list(vals)
                    out = [('reference', sorted(ks0, key=full.index))]
                    p = list(ks0); rng.shuffle(p); out.append(('permuted', p))
                    extra = [k for k in range(2 ** d) if k not in vals]
                    pad = ks0 + rng.sample(extra, min(len(extra), 2)); rng.shuffle(pad); out.append(('zero-padded', pad))
                    out.append(('full-binary', list(range(2 ** d))))
                    out.append(('full-canonical', list(full)))
                    return [(nm, MultiVector.fromkeysvalues(alg, tuple(ks_), [vals.get(k, Fraction(0)) for k in ks_])) for nm, ks_ in out]
                xs, ys = variants(vx), variants(vy)
                for f, rf in regs:
                    if symbolic and f is f3:
                        continue            # coefficient access in the symbolic route: known finding F17 of C11
                    try:
                        ref = mv_to_dict(rf(xs[0][1], ys[0][1]))
                    except Exception:
                        continue
                    for (nx, xm), (ny, ym) in [(a, b) for a in xs for b in ys][1:]:
                        if symbolic and (len(xm.keys()) > 5 or len(ym.keys()) > 5) and f is f2:
                            continue
                        case = {'sig': sig, 'registered': f.__name__, 'symbolic': symbolic, 'x_variant': nx, 'y_variant': ny,
                                'kx': list(xm.keys()), 'ky': list(ym.keys())}
                        ctx.case(case, tag='registered' + (':symbolic' if symbolic else ''))
                        try:
                            got = mv_to_dict(rf(xm, ym))
                        except Exception as e:
                            ctx.violation('storage-dependent', case, str(ref)[:200], repr(e)[:200], key=f'registered:{f.__name__}:raises')
                            continue
                        if got != ref:
                            ctx.violation('storage-dependent', case, str(ref)[:200], str(got)[:200], key=f'registered:{f.__name__}:storage')


def canon_q(dct):
    if dct is None:
        return None
    try:
        return canon_dict(dct)
    except Exception:
        return {k: repr(v)[:80] for k, v in dct.items()}


def hist_pass(ctx):
    """canonical, permuted, canonical again — on one algebra, with and without wrapper, numeric Fractions"""
    from kingdon import MultiVector
    rng = ctx.rng
    for wrapper in (None, (lambda f: f)):
        alg = make_algebra([1, 1, 1], **({'wrapper': wrapper} if wrapper else {}))
        for op in ['gp', 'op', 'sw', 'div', 'sub'] + ['inv', 'hodge', 'reverse']:
            keys = [1, 2, 4, 7]
            vals = [Fraction(2), Fraction(3), Fraction(5), Fraction(7)]
            perm = [2, 3, 0, 1]
            x = MultiVector.fromkeysvalues(alg, tuple(keys), list(vals))
            xp = MultiVector.fromkeysvalues(alg, tuple(keys[i] for i in perm), [vals[i] for i in perm])
            y = MultiVector.fromkeysvalues(alg, (1, 6), [Fraction(11), Fraction(13)])
            f = (lambda a: BIN[op](a, y)) if op in BIN else UN[op]
            r1 = mv_to_dict(f(x)); r2 = mv_to_dict(f(xp)); r3 = mv_to_dict(f(x)); r4 = mv_to_dict(f(xp))
            ctx.case(('hist', op, bool(wrapper)), tag='history')
            if not (r1 == r2 == r3 == r4):
                ctx.violation('storage-dependent', {'op': op, 'wrapper': bool(wrapper), 'sequence': 'canonical, permuted, canonical, permuted'},
                              str(r1), str([r2, r3, r4]), key=f'{op}:storage-history')

"""C20 — the graph widget payload reflects the multivectors it is given.

Tie: `alg.graph(*subjects).subjects` (real GraphWidget) on generated subject trees vs. the Lean model `Graph.subjects`
     (canonical text); key2idx / signature / cayley vs. the algebra; drag updates vs. `Graph.dragOne`.
Oracle: the payload is decoded by the ACTUAL `toElement` / `decode` lines of /repo/kingdon/graph.js, extracted at run
     time and executed under node (Element := Float64Array subclass), and compared with the true coefficients of every
     reachable multivector; after assigning `widget.draggable_points` exactly the addressed coefficients changed.
"""
import base64, json, os, re, subprocess, tempfile
from harness.common import *


FOREIGN_ORDERS = {}


def gen_tree(rng, alg, depth, np):
    """returns (python object, token list, list of dense canonical coefficient vectors of reachable mvs)"""
    from kingdon import MultiVector
    d = alg.d
    N = 2 ** d
    canon = list(alg.canon2bin.values())
    r = rng.random()
    if depth <= 0 or r < 0.45:
        kind = rng.choice(['colour', 'string', 'mv', 'mv', 'mv', 'mv-dense', 'mv-dense-bin', 'mv-nd', 'mv-arr', 'mv-arr-nd', 'mv-arr-nd2'])
        if kind == 'colour':
            v = rng.choice([0xD0FFE1, 0x224488, 0xFF0000])
            return v, [f'a:{v}'], []
        if kind == 'string':
            v = rng.choice(['A', 'B', 'label'])
            return v, [f'a:{v}'], []
        if kind in ('mv', 'mv-nd'):
            ks = rng.sample(range(N), rng.randint(1, min(N, 4)))
            if rng.random() < 0.3:
                g = rng.randrange(d + 1); ks = [k for k in canon if bin(k).count('1') == g]
                if rng.random() < 0.5: rng.shuffle(ks)
        elif kind == 'mv-dense':
            ks = list(canon)
        elif kind == 'mv-dense-bin':
            ks = list(range(N))
            r2 = rng.random()
            if r2 < 0.3:
                rng.shuffle(ks)
            elif r2 < 0.6 and FOREIGN_ORDERS.get(d):
                ks = list(rng.choice(FOREIGN_ORDERS[d]))      # the canonical key order of ANOTHER algebra of this dimension
        else:
            ks = rng.sample(range(N), rng.randint(1, min(N, 3)))
        if kind == 'mv-arr-nd2':
            # two array axes (a grid of elements): expanded in the order itermv() visits them (C order)
            n1, n2 = rng.randint(1, 3), rng.randint(2, 3)
            elems = [[rng.randint(-9, 9) for _ in ks] for _ in range(n1 * n2)]
            vals = np.array(elems, dtype=float).reshape(n1, n2, len(ks)).transpose(2, 0, 1).copy()
            if rng.random() < 0.5:
                vals = [vals[i] for i in range(len(ks))]
            mv = MultiVector.fromkeysvalues(alg, tuple(ks), vals)
            tok = 'A:' + ','.join(map(str, ks)) + ':' + ';'.join(','.join(map(str, e)) for e in elems)
            return mv, [tok], [dense(canon, ks, e) for e in elems]
        if kind in ('mv-arr', 'mv-arr-nd'):
            n = rng.randint(1, 3)
            elems = [[rng.randint(-9, 9) for _ in ks] for _ in range(n)]
            if kind == 'mv-arr-nd':
                vals = np.array(elems, dtype=float).T.copy()           # shape (len(keys), n)
            else:
                vals = [np.array([e[i] for e in elems], dtype=float) for i in range(len(ks))]
            mv = MultiVector.fromkeysvalues(alg, tuple(ks), vals)
            tok = 'A:' + ','.join(map(str, ks)) + ':' + ';'.join(','.join(map(str, e)) for e in elems)
            return mv, [tok], [dense(canon, ks, e) for e in elems]
        vs = [rng.randint(-9, 9) for _ in ks]
        vals = np.array(vs, dtype=float) if kind == 'mv-nd' else list(vs)
        mv = MultiVector.fromkeysvalues(alg, tuple(ks), vals)
        return mv, ['m:' + ','.join(map(str, ks)) + ':' + ','.join(map(str, vs))], [dense(canon, ks, vs)]
    if r < 0.8:
        n = rng.randint(0, 3)
        is_tuple = rng.random() < 0.4
        objs, toks, leaves = [], [], []
        for _ in range(n):
            o, t, l = gen_tree(rng, alg, depth - 1, np)
            objs.append(o); toks += t; leaves += l
        return (tuple(objs) if is_tuple else objs), [('T' if is_tuple else 'L') + str(n)] + toks, leaves
    o, t, l = gen_tree(rng, alg, depth - 1, np)
    return (lambda o=o: o), ['F'] + t, l


def dense(canon, ks, vs):
    m = {}
    for k, v in zip(ks, vs):
        m.setdefault(k, v)
    return [m.get(k, 0) for k in canon]


def render_payload(x, np):
    if isinstance(x, dict):
        vals = x['mv']
        if isinstance(vals, (bytes, bytearray)):
            vals = list(np.frombuffer(vals, dtype=float))
        vals = [int(v) if float(v) == int(v) else v for v in vals]
        keys = '-' if 'keys' not in x else ','.join(map(str, x['keys']))
        return '{' + ','.join(map(str, vals)) + '|' + keys + '}'
    if isinstance(x, (list, tuple)):
        return '[' + ' '.join(render_payload(y, np) for y in x) + ']'
    return f'a:{x}'


def to_json(x):
    if isinstance(x, dict):
        out = {}
        for k, v in x.items():
            if isinstance(v, (bytes, bytearray)):
                out[k] = {'__bytes__': base64.b64encode(bytes(v)).decode()}
            else:
                out[k] = to_json(v)
        return out
    if isinstance(x, (list, tuple)):
        return [to_json(y) for y in x]
    if hasattr(x, 'item'):
        return x.item()
    return x


NODE_TEMPLATE = r'''
const fs = require('fs');
class Element extends Float64Array {}
function revive(x) {
  if (x && typeof x === 'object' && '__bytes__' in x) { const b = Buffer.from(x.__bytes__, 'base64'); const ab = b.buffer.slice(b.byteOffset, b.byteOffset + b.byteLength); return new DataView(ab); }
  if (Array.isArray(x)) return x.map(revive);
  if (x && typeof x === 'object') { const o = {}; for (const k in x) o[k] = revive(x[k]); return o; }
  return x;
}
const cases = JSON.parse(fs.readFileSync(process.argv[2]));
const out = [];
for (const c of cases) {
  var key2idx = c.key2idx;
  // ---- lines extracted from kingdon/graph.js ----
  %s
  // ------------------------------------------------
  const leaves = [];
  const walk = (x) => { if (x instanceof Element) leaves.push(Array.from(x)); else if (Array.isArray(x)) x.forEach(walk); };
  try { walk(decode(revive(c.subjects))); out.push(leaves); } catch (e) { out.push({error: String(e)}); }
}
console.log(JSON.stringify(out));
'''


def extract_js():
    src = open(os.path.join(REPO, 'kingdon', 'graph.js')).read()
    i = src.index('var toElement')
    j = src.index('var encode')
    return src[i:j]


def node_decode(cases):
    js = NODE_TEMPLATE % extract_js()
    with tempfile.TemporaryDirectory() as td:
        open(os.path.join(td, 'dec.js'), 'w').write(js)
        json.dump(cases, open(os.path.join(td, 'cases.json'), 'w'))
        p = subprocess.run(['node', os.path.join(td, 'dec.js'), os.path.join(td, 'cases.json')], capture_output=True, text=True, timeout=300)
        if p.returncode != 0:
            raise RuntimeError('node failed: ' + p.stderr[-500:])
        return json.loads(p.stdout)


def run(ctx):
    import numpy as np
    ctx.rule = ('subject trees over {colour ints, strings, multivectors (sparse, grade blocks, dense canonical, dense binary/permuted, '
                'list- or ndarray-backed, array-valued), lists, tuples, zero-argument callables} up to depth 3 (quick) / 5 (thorough) on '
                'default-basis algebras d<=3 (<=4 thorough) and 2DPGA/3DPGA; a case is one widget; non-trivial = at least one multivector; '
                'plus drag updates on the draggable points')
    ctx.lean_prepare()
    rng = ctx.rng
    cfgs = [([1, 1], None), ([0, 1, 1], None), ([1, 1, 1], None), ([1, -1, 0], None), ([0, 1, 1, 1], None), ([1, 1, 1, 1], None),
            ([0, 1, 1], ["e", "e1", "e2", "e0", "e20", "e01", "e12", "e012"])]
    if not ctx.quick:
        cfgs += [([1, 1, 1, -1], None), ([0, 0, 1], None), ([1], None)]
    lines, plan, node_cases, node_expect = [], [], [], []
    nper = 60 if ctx.quick else 400
    for sig, basis in cfgs:
        a_ = make_algebra(sig, None, basis)
        FOREIGN_ORDERS.setdefault(a_.d, [])
        if list(a_.canon2bin.values()) not in FOREIGN_ORDERS[a_.d]:
            FOREIGN_ORDERS[a_.d].append(list(a_.canon2bin.values()))
    # every configuration is visited twice (the second time with a quarter of the cases): algebras of one dimension with different
    # bases are then used before AND after each other in this process
    passes = [(c, nper) for c in cfgs] + [(c, max(10, nper // 4)) for c in cfgs]
    for (sig, basis), nper in passes:
        alg = make_algebra(sig, None, basis)
        canon = list(alg.canon2bin.values())
        tok = cfg_token(sig, None if basis else int(alg.start_index), list(alg.canon2bin.keys()) if basis else None)
        # key2idx, signature, cayley describe the algebra
        w0 = alg.graph()
        if dict(w0.key2idx) != {k: i for i, k in enumerate(canon)}:
            ctx.violation('key2idx', {'sig': sig, 'basis': basis}, {k: i for i, k in enumerate(canon)}, dict(w0.key2idx), key='widget:key2idx')
        if list(w0.signature) != [int(s) for s in alg.signature]:
            ctx.violation('signature', {'sig': sig, 'basis': basis}, [int(s) for s in alg.signature], list(w0.signature), key='widget:signature')
        names = list(alg.canon2bin.keys())
        for i, a in enumerate(names):
            for j, b in enumerate(names):
                s = int(alg.signs[alg.canon2bin[a], alg.canon2bin[b]])
                res = alg.bin2canon[alg.canon2bin[a] ^ alg.canon2bin[b]]
                exp = '0' if s == 0 else ('-' if s < 0 else '') + (res if res != 'e' else '1')
                if w0.cayley[i][j] != exp:
                    ctx.violation('cayley', {'sig': sig, 'basis': basis, 'a': a, 'b': b}, exp, w0.cayley[i][j], key='widget:cayley')
                    break
        for _ in range(nper):
            n = rng.randint(1, 4)
            objs, toks, leaves = [], [], []
            for _ in range(n):
                o, t, l = gen_tree(rng, alg, 3 if ctx.quick else 5, np)
                objs.append(o); toks += t; leaves += l
            if rng.random() < 0.15:
                # a single callable returning the whole list
                lst = list(objs)
                objs_call = [lambda lst=lst: lst]
                toks = ['F', f'L{n}'] + toks
            else:
                objs_call = objs
            case = {'sig': sig, 'basis': basis, 'tokens': ' '.join(toks)}
            try:
                w = alg.graph(*objs_call)
                subj = w.subjects
                real = ' '.join(render_payload(x, np) for x in subj)
            except Exception as e:
                ctx.violation('graph-raises', case, 'a payload', repr(e)[:200], key='widget:raises')
                continue
            ctx.case(case, nontrivial=bool(leaves), tag=f'd={alg.d}')
            lines.append(f'graph {tok} ' + ' '.join(toks))
            plan.append((case, real))
            node_cases.append({'key2idx': {str(k): v for k, v in dict(w.key2idx).items()}, 'subjects': to_json(subj)})
            node_expect.append((case, leaves))
            # drag: assign moved points, exactly the addressed coefficients change
            drag_check(ctx, alg, w, case, rng, canon, tok, lines, plan, np)
        # drag scenarios with several draggable subjects sharing blades (same key set in different orders, overlapping
        # key sets, dense + sparse), dragged repeatedly
        from kingdon import MultiVector
        for _ in range(6 if ctx.quick else 40):
            d = alg.d
            if alg.r == 1 and d in (3, 4):
                base = [k for k in canon if bin(k).count('1') == d - 1]
            else:
                base = rng.sample(range(2 ** d), rng.randint(2, min(2 ** d, 4)))
            subs, toks = [], []
            for i in range(rng.randint(2, 4)):
                ks = list(base)
                if i and rng.random() < 0.8:
                    rng.shuffle(ks)
                if not (alg.r == 1 and d in (3, 4)) and rng.random() < 0.3:
                    ks = rng.choice([list(canon), list(range(2 ** d))])
                vs = [rng.randint(-9, 9) for _ in ks]
                vals = np.array(vs, dtype=float) if rng.random() < 0.4 else [float(v) for v in vs]
                subs.append(MultiVector.fromkeysvalues(alg, tuple(ks), vals))
                toks.append('m:' + ','.join(map(str, ks)) + ':' + ','.join(map(str, vs)))
            case = {'sig': sig, 'basis': basis, 'tokens': ' '.join(toks), 'scenario': 'multi-drag'}
            try:
                w = alg.graph(*subs)
                w.subjects
            except Exception as e:
                ctx.violation('graph-raises', case, 'a payload', repr(e)[:200], key='widget:raises')
                continue
            ctx.case(case, tag='multi-drag')
            for rep in range(2):
                drag_check(ctx, alg, w, case, rng, canon, tok, lines, plan, np)
    dependent_pass(ctx, np)
    notification_pass(ctx, np)
    fine_drag_pass(ctx, np)
    growing_subject_pass(ctx, np)
    # decode with the front end's own code
    try:
        dec = node_decode(node_cases)
        for (case, leaves), got in zip(node_expect, dec):
            if isinstance(got, dict):
                ctx.violation('frontend-decode-raises', case, leaves, got['error'], key='decode:raises')
            elif [[float(v) for v in l] for l in leaves] != [[float(v) for v in g] for g in got]:
                ctx.violation('frontend-decode', case, leaves, got, key='decode:coefficients')
        ctx.count('node-decoded', len(dec))
    except Exception as e:
        ctx.broken.append({'what': 'front-end decoding under node could not run', 'detail': repr(e)[:500]})
    out = ctx.drive(lines)
    if out is not None:
        nb = 0
        for (case, exp), got in zip(plan, out):
            if exp != got:
                nb += 1
                if nb <= 5:
                    ctx.mismatch('payload', case, got[:300], exp[:300])
        ctx.count('driver-mismatches', nb)
    ctx.assumptions = ['traitlets observers, binary buffer transport and everything in the browser beyond toElement/decode are trusted',
                       'numpy indexing used by itermv is trusted']


def dependent_pass(ctx, np):
    """callables that compute multivectors from externally held draggable points - at the root (the ganja idiom
    `alg.graph(lambda: [A, B, A & B])`), as individual subjects and nested - must be re-evaluated after every drag:
    the synced subjects equal those of a fresh widget over the current values"""
    from kingdon import MultiVector
    rng = ctx.rng
    for sig, basis in (([0, 1, 1], ["e", "e1", "e2", "e0", "e20", "e01", "e12", "e012"]), ([0, 1, 1, 1], None), ([1, 1, 1], None)):
        alg = make_algebra(sig, None, basis)
        d = alg.d
        canon = list(alg.canon2bin.values())
        pga = alg.r == 1 and d in (3, 4)
        pk = [k for k in canon if bin(k).count('1') == (d - 1 if pga else 1)]
        for scenario in ('root-callable', 'subject-callables', 'nested-callable', 'root-callable-tuple'):
            A = MultiVector.fromkeysvalues(alg, tuple(pk), [float(rng.randint(1, 9)) for _ in pk])
            B = MultiVector.fromkeysvalues(alg, tuple(pk), [float(rng.randint(1, 9)) for _ in pk])
            join = (lambda: A & B) if pga else (lambda: A ^ B)
            fresh = lambda: [A, B, join(), A * B]
            if scenario == 'root-callable':
                args = [lambda: [A, B, join(), A * B]]
            elif scenario == 'root-callable-tuple':
                args = [lambda: (A, B, join(), A * B)]
            elif scenario == 'subject-callables':
                args = [A, B, join, lambda: A * B]
            else:
                args = [A, B, [lambda: join(), (lambda: (lambda: A * B))]]
            case = {'sig': sig, 'basis': basis, 'scenario': 'dependent:' + scenario}
            try:
                w = alg.graph(*args)
                w.subjects
                for step in range(3):
                    idxs = list(w.draggable_points_idxs)
                    pre = w.pre_subjects
                    targets = [pre[j] for j in idxs]
                    if [id(t) for t in targets] != [id(A), id(B)]:
                        # derived elements happen to be draggable as well in non-PGA algebras: drag the points only
                        if len(targets) < 2 or targets[0] is not A or targets[1] is not B:
                            ctx.count('dependent-skipped')
                            break
                    w.draggable_points = [{'mv': [float(rng.randint(-9, 9)) for _ in canon]} for _ in targets]
                    ctx.case({**case, 'drag': step}, tag='dependent-drag')
                    got = ' '.join(render_payload(x, np) for x in flat(w.subjects))
                    exp = ' '.join(render_payload(x, np) for x in flat(alg.graph(*fresh()).subjects))
                    if got != exp:
                        ctx.violation('dependent-not-reevaluated', {**case, 'drag': step}, exp[:400], got[:400], key=f'drag:dependent:{scenario}')
                        break
            except Exception as e:
                ctx.violation('graph-raises', case, 'a payload', repr(e)[:200], key='widget:raises')


def notification_pass(ctx, np):
    """after a drag the synced `subjects` must be *announced* as changed (traitlets notifies observers only when the new value
    differs from the old one, and only then is it sent to the front end): list-backed and ndarray-backed points given directly,
    in lists, and with labels / colours around them"""
    from kingdon import MultiVector
    rng = ctx.rng
    for sig, basis in (([0, 1, 1], ["e", "e1", "e2", "e0", "e20", "e01", "e12", "e012"]), ([1, 1, 1], None)):
        alg = make_algebra(sig, None, basis)
        d = alg.d
        canon = list(alg.canon2bin.values())
        pga = alg.r == 1 and d in (3, 4)
        pk = [k for k in canon if bin(k).count('1') == (d - 1 if pga else 1)]
        for backing in ('list', 'ndarray'):
            mk = lambda: MultiVector.fromkeysvalues(alg, tuple(pk), [float(rng.randint(1, 9)) for _ in pk] if backing == 'list'
                                                    else np.array([float(rng.randint(1, 9)) for _ in pk]))
            A, B, C = mk(), mk(), mk()
            for scene, args in (('direct', [A, B, C]), ('readme-triangle', [0xD0FFE1, [A, B, C], 0x224488, A, 'A', B, 'B', C, 'C'])):
                case = {'sig': sig, 'basis': basis, 'backing': backing, 'scene': scene}
                try:
                    w = alg.graph(*args)
                    w.subjects
                    seen = []
                    w.observe(lambda ch: seen.append(1), names='subjects')
                    for step in range(2):
                        n0 = len(seen)
                        targets = [w.pre_subjects[j] for j in w.draggable_points_idxs]
                        w.draggable_points = [{'mv': [float(rng.randint(-9, 9)) + 0.5 for _ in canon]} for _ in targets]
                        ctx.case({**case, 'drag': step}, tag='drag-notification')
                        if len(seen) == n0:
                            ctx.violation('drag-not-announced', {**case, 'drag': step}, 'observers of `subjects` are notified after a drag that changes coefficients',
                                          'no notification: the front end keeps the old subjects', key=f'drag:notification:{backing}')
                            break
                except Exception as e:
                    ctx.violation('graph-raises', case, 'a payload', repr(e)[:200], key='widget:raises')


def fine_drag_pass(ctx, np):
    """drags that move a point by very little (relative changes of 2^-20 .. 2^-52 of a coefficient, one ulp, and a sequence of
    such drags): after each drag the original multivector holds exactly the coefficients that were sent, however small the
    difference to the previous value, and dependent callables are re-evaluated on them"""
    from kingdon import MultiVector
    import math
    rng = ctx.rng
    for sig, basis in (([0, 1, 1], ["e", "e1", "e2", "e0", "e20", "e01", "e12", "e012"]), ([1, 1, 1], None)):
        alg = make_algebra(sig, None, basis)
        d = alg.d
        canon = list(alg.canon2bin.values())
        pga = alg.r == 1 and d in (3, 4)
        pk = [k for k in canon if bin(k).count('1') == (d - 1 if pga else 1)]
        for backing in ('list', 'ndarray', 'dense-ndarray'):
            keys = canon if backing == 'dense-ndarray' and not pga else pk
            vals0 = [float(rng.randint(1, 9)) for _ in keys]
            P = MultiVector.fromkeysvalues(alg, tuple(keys), list(vals0) if backing == 'list' else np.array(vals0))
            case = {'sig': sig, 'basis': basis, 'backing': backing}
            try:
                w = alg.graph(P, lambda: P + P)
                w.subjects
                if not list(w.draggable_points_idxs):
                    continue
                cur = {k: float(v) for k, v in zip(P.keys(), P.values())}
                for step, rel in enumerate((2.0 ** -20, 2.0 ** -25, 2.0 ** -30, 2.0 ** -40, 'ulp', 2.0 ** -25, 'ulp')):
                    new = dict(cur)
                    k = rng.choice(list(new))
                    new[k] = math.nextafter(new[k], math.inf) if rel == 'ulp' else new[k] * (1.0 + rel)
                    if new[k] == cur[k]:
                        continue
                    sent = [new.get(kk, 0.0) for kk in canon]
                    w.draggable_points = [{'mv': sent}]
                    got = {kk: float(v) for kk, v in zip(P.keys(), P.values())}
                    c2 = {**case, 'drag': step, 'blade': k, 'relative_change': rel, 'previous': cur[k], 'sent': new[k]}
                    ctx.case(c2, tag='fine-drag')
                    if got != new:
                        ctx.violation('drag-coefficients', c2, new[k], got[k], key='drag:coefficients:fine')
                        break
                    cur = new
            except Exception as e:
                ctx.violation('graph-raises', case, 'a payload', repr(e)[:200], key='widget:raises')


def growing_subject_pass(ctx, np):
    """an array-valued multivector (a trail of points) that has been graphed once and then GROWS in place (each coefficient
    array replaced by a longer one): every later encoding - re-evaluation of the same widget, a callable returning it, a new
    widget - contains one element per current array entry with the current coefficients"""
    from kingdon import MultiVector
    rng = ctx.rng
    for sig, basis in (([0, 1, 1], ["e", "e1", "e2", "e0", "e20", "e01", "e12", "e012"]), ([1, 1, 1], None)):
        alg = make_algebra(sig, None, basis)
        d = alg.d
        canon = list(alg.canon2bin.values())
        pga = alg.r == 1 and d in (3, 4)
        pk = [k for k in canon if bin(k).count('1') == (d - 1 if pga else 1)]
        trail = MultiVector.fromkeysvalues(alg, tuple(pk), [np.array([float(rng.randint(1, 9)) for _ in range(2)]) for _ in pk])
        case = {'sig': sig, 'basis': basis, 'scenario': 'list-backed array-valued multivector grows from 2 to 3 to 5 entries between encodings'}
        def count_elements(subjects):
            n = 0
            for e in flat(subjects):
                if isinstance(e, dict) and 'mv' in e:
                    n += 1
            return n
        try:
            w = alg.graph(trail, lambda: trail)
            first = count_elements(w.subjects)
            for new_len in (3, 5):
                vals = trail.values()
                for i in range(len(vals)):
                    vals[i] = np.array([float(rng.randint(1, 9)) for _ in range(new_len)])
                for route, subj in (('same widget, get_subjects()', lambda: w.get_subjects()), ('new widget', lambda: alg.graph(trail).subjects),
                                    ('new widget, callable', lambda: alg.graph(lambda: trail).subjects)):
                    c2 = {**case, 'entries_now': new_len, 'route': route}
                    ctx.case(c2, tag='growing-subject')
                    got = count_elements(subj())
                    exp = new_len * (2 if route.startswith('same widget') else 1)
                    if got != exp:
                        ctx.violation('payload-elements', c2, f'{exp} encoded elements', f'{got} encoded elements (first encoding had {first})', key='payload:stale-shape')
                        break
        except Exception as e:
            ctx.violation('graph-raises', case, 'a payload', repr(e)[:200], key='widget:raises')


def flat(x):
    """the payload leaves (dicts, atoms) of a subject tree, in order"""
    out = []
    for e in x:
        if isinstance(e, (list, tuple)):
            out.extend(flat(e))
        else:
            out.append(e)
    return out


def drag_check(ctx, alg, w, case, rng, canon, tok, lines, plan, np):
    from kingdon import MultiVector
    idxs = list(w.draggable_points_idxs)
    pre = w.pre_subjects
    if not idxs:
        return
    d = alg.d
    pga = alg.r == 1 and d in (3, 4)
    exp_idxs = [j for j, s in enumerate(pre) if isinstance(s, MultiVector) and (not pga or s.grades == (d - 1,))]
    if idxs != exp_idxs:
        ctx.violation('draggable-idxs', case, exp_idxs, idxs, key='drag:idxs')
        return
    targets = [pre[j] for j in idxs]
    if any(len(t.shape) > 1 for t in targets):
        return
    before_all = [(s, list(s.values()) if isinstance(s, MultiVector) and len(s.shape) == 1 else None) for s in pre]
    new_points = []
    for t in targets:
        new_points.append({'mv': [float(rng.randint(-20, 20)) for _ in canon]})
    try:
        w.draggable_points = new_points
    except Exception as e:
        ctx.violation('drag-raises', case, 'in-place update', repr(e)[:200], key='drag:raises')
        return
    ctx.count('drags')
    for t, npnt, j in zip(targets, new_points, idxs):
        ks = list(t.keys())
        got = [float(v) for v in t.values()]
        exp = [npnt['mv'][canon.index(k)] for k in ks]
        if got != exp:
            ctx.violation('drag-coefficients', {**case, 'subject_index': j, 'keys': ks}, exp, got, key='drag:coefficients')
        old = [float(v) for v in before_all[j][1]]
        lines.append(f'drag {tok} {",".join(map(str, ks))} {",".join(str(int(v)) for v in old)} {",".join(str(int(v)) for v in npnt["mv"])}')
        plan.append(({**case, 'drag_subject': j}, ','.join(str(int(v)) for v in got)))
    for j, (s, vals) in enumerate(before_all):
        if j not in idxs and vals is not None and [float(v) for v in s.values()] != [float(v) for v in vals]:
            ctx.violation('drag-touched-other', {**case, 'subject_index': j}, vals, list(s.values()), key='drag:others')

"""Source translator: a restricted-Python -> Lean 4 compiler for the pure core of kingdon.

It reads the *text* of /repo's current kingdon/algebra.py and kingdon/codegen.py, takes the functions listed in
TARGETS, and emits lean/Kingdon/Generated/Source.lean: one Lean definition per Python function, statement by
statement, in `do` notation over the exception monad `Py.M` (Kingdon/Model/Py.lean gives the meaning of every Python
primitive the translator emits).  Kingdon/Lemmas/Source*.lean then prove that each translated definition equals the
hand-written model definition that the property theorems are about, so the theorems are re-checked against what the
code says now: an edit of one of these functions changes Source.lean, and either the equivalence proof still goes
through (the rewrite was harmless *and* the proof robust) or it breaks and the check falls back to searching for a
failing input.

What is trusted here: the translation scheme below (about 400 lines; each rule is local and syntactic), the
prelude Py.lean, and the TARGETS table (types of parameters / locals, which are not in the Python source).
A construct outside the supported subset makes the translation of that function fail; the function is then
omitted from Source.lean (with a comment saying why) and every proof that mentions it stops compiling.
"""
import ast, os, sys, textwrap

VERIF = os.path.dirname(os.path.dirname(os.path.abspath(__file__)))
REPO = os.environ.get('VERIF_REPO', '/repo')
OUT = os.environ.get('PYTOLEAN_OUT') or os.path.join(VERIF, 'lean', 'Kingdon', 'Generated', 'Source.lean')


class Unsupported(Exception):
    pass


# kinds: 'int' 'bool' 'str' 'list' 'dict' 'mv' 'coef' 'fun' 'alg' 'tuple' 'opt:<kind>' 'signs' None(unknown)
class T:
    """a translation target"""
    def __init__(self, file, qual, lean, params, ret, locals=None, tparams='', uses_alg=False, coef=False, self_name=None, uses_ops=False, uses_mops=False, consts=None, state=None, externals=None, drop_assign=(), env=None, state_type=None, region=None, self_locals=(), strkey=(), extra_params=(), skip_if=(), prelude_lets=(), fuel=(), region_body_only=False):
        self.file, self.qual, self.lean = file, qual, lean
        self.region_body_only = region_body_only   # the region's test is a precondition: only its body is translated
        self.fuel = list(fuel)        # fuel expressions (Lean) of the `while` loops, in order of appearance
        self.params = params          # list of (pyname, leantype, kind)
        self.ret = ret
        self.locals = locals or {}    # pyname -> (leantype, kind)
        self.tparams = tparams
        self.uses_alg = uses_alg      # gets an `(alg : Alg)` / `(alg : Alg)` first parameter
        self.coef = coef              # generic in the coefficient type α
        self.self_name = self_name    # python name that denotes the algebra object (`self`, `algebra`, `alg`)
        self.uses_mops = uses_mops    # gets an `(ops : MatOps μ)` parameter: numpy's matrix operations
        self.uses_ops = uses_ops      # gets an `(ops : Ops α)` parameter: the algebra's operators on multivectors
        self.elem_kind = {}
        self.extra_params = list(extra_params)   # what `self` carries besides the algebra (e.g. the keys of a multivector)
        self.skip_if = set(skip_if)   # `if <text>:` statements that only normalise the calling convention (e.g. grade((1, 2)) vs grade(1, 2)): dropped
        self.prelude_lets = list(prelude_lets)   # bindings of cached properties of `self` that the body reads
        self.is_property = False      # a cached_property: read as an attribute
        self.items_kinds = {}         # dict variable -> 'keykind,valuekind' of its items
        self.region = region          # translate only the `if <region>:` statement of the function, as a function of its own
        self.self_locals = set(self_locals)  # `self.<name>` read/written in the region: parameters / locals / results
        self.strkey = set(strkey)     # dicts keyed by strings (a character used as key is a one-character string)
        self.consts = consts or {}    # python parameters fixed to a constant (partial evaluation): not parameters in Lean
        self.state = state or {}      # method mode: python expression (text) -> (field of the state record, kind)
        self.externals = externals or {}   # python expression (text) -> (lean code, kind): calls out of the modelled core
        self.drop_assign = set(drop_assign)  # locals that only feed an external call: their assignments are dropped
        self.env = env                # method mode: Lean type of the `env` parameter (what `self` refers to that is not state)
        self.state_type = state_type  # method mode: Lean type of the state record (the function lives in StateT)


MV = 'Py.Dict Int α'
FILT = 'Int → Int → Int → Bool'
COEF = '{α : Type} [Add α] [Sub α] [Mul α] [Neg α]'
FL = {'filter_func': (FILT, 'fun')}
ODT = '{κ ρ φ ν ω : Type} [BEq κ] [BEq ν]'
ODENV = 'Py.ODEnv κ ρ φ ν ω'
ODSTATE = 'Py.ODState κ ρ φ ν'
OD_STATE = {'self.operator_dict': ('operator_dict', 'dict'), 'self.algebra.numspace': ('numspace', 'dict:funcobj')}
OD_LOCALS = {'keys_out': ('ρ', 'keysout'), 'func': ('φ', 'funcobj')}

TARGETS = [
    T('kingdon/algebra.py', '_swap_blades', 'swap_blades',
      [('blade1', 'List σ', 'str'), ('blade2', 'List σ', 'str'), ('target', 'List σ', 'str')],
      'Int × List σ × List σ', locals={'eliminated': ('List σ', 'list'), 'swaps': ('Int', 'int')}, tparams='{σ : Type} [BEq σ]'),
    T('kingdon/algebra.py', 'Algebra._prepare_signs._compute_sign', 'compute_sign',
      [('bin_pair', 'Int × Int', 'tuple'), ('canon_pair', 'Option (List Char × List Char)', 'opt:tuple')],
      'Int', locals={'sign': ('Int', 'int')}, uses_alg=True, self_name='self'),
    T('kingdon/codegen.py', 'codegen_product', 'codegen_product',
      [('x', MV, 'mv'), ('y', MV, 'mv'), ('filter_func', f'Option ({FILT})', 'opt:fun'),
       ('sign_func', 'Option (Int × Int → Int)', 'opt:fun'), ('keyout_func', 'Int → Int → Int', 'fun')],
      MV, locals={'res': (MV, 'dict')}, tparams=COEF, uses_alg=True, coef=True),
    T('kingdon/codegen.py', 'codegen_gp', 'codegen_gp', [('x', MV, 'mv'), ('y', MV, 'mv')], MV, tparams=COEF, uses_alg=True, coef=True),
    T('kingdon/codegen.py', 'codegen_cp', 'codegen_cp', [('x', MV, 'mv'), ('y', MV, 'mv')], MV, locals=FL, tparams=COEF, uses_alg=True, coef=True),
    T('kingdon/codegen.py', 'codegen_acp', 'codegen_acp', [('x', MV, 'mv'), ('y', MV, 'mv')], MV, locals=FL, tparams=COEF, uses_alg=True, coef=True),
    T('kingdon/codegen.py', 'codegen_ip', 'codegen_ip', [('x', MV, 'mv'), ('y', MV, 'mv'), ('diff_func', 'Int → Int', 'fun')], MV,
      locals=FL, tparams=COEF, uses_alg=True, coef=True),
    T('kingdon/codegen.py', 'codegen_lc', 'codegen_lc', [('x', MV, 'mv'), ('y', MV, 'mv')], MV, tparams=COEF, uses_alg=True, coef=True),
    T('kingdon/codegen.py', 'codegen_rc', 'codegen_rc', [('x', MV, 'mv'), ('y', MV, 'mv')], MV, tparams=COEF, uses_alg=True, coef=True),
    T('kingdon/codegen.py', 'codegen_sp', 'codegen_sp', [('x', MV, 'mv'), ('y', MV, 'mv')], MV, tparams=COEF, uses_alg=True, coef=True),
    T('kingdon/codegen.py', 'codegen_op', 'codegen_op', [('x', MV, 'mv'), ('y', MV, 'mv')], MV, locals=FL, tparams=COEF, uses_alg=True, coef=True),
    T('kingdon/codegen.py', 'codegen_rp', 'codegen_rp', [('x', MV, 'mv'), ('y', MV, 'mv')], MV, locals=FL, tparams=COEF, uses_alg=True, coef=True),
    T('kingdon/codegen.py', 'codegen_add', 'codegen_add', [('x', MV, 'mv'), ('y', MV, 'mv')], MV, locals={'vals': (MV, 'dict')},
      tparams=COEF, uses_alg=True, coef=True),
    T('kingdon/codegen.py', 'codegen_sub', 'codegen_sub', [('x', MV, 'mv'), ('y', MV, 'mv')], MV, locals={'vals': (MV, 'dict')},
      tparams=COEF, uses_alg=True, coef=True),
    T('kingdon/codegen.py', 'codegen_neg', 'codegen_neg', [('x', MV, 'mv')], MV, tparams=COEF, uses_alg=True, coef=True),
    T('kingdon/codegen.py', 'codegen_involutions', 'codegen_involutions', [('x', MV, 'mv'), ('invert_grades', 'List Int', 'list')], MV,
      tparams=COEF, uses_alg=True, coef=True),
    T('kingdon/codegen.py', 'codegen_reverse', 'codegen_reverse', [('x', MV, 'mv')], MV, tparams=COEF, uses_alg=True, coef=True),
    T('kingdon/codegen.py', 'codegen_involute', 'codegen_involute', [('x', MV, 'mv')], MV, tparams=COEF, uses_alg=True, coef=True),
    T('kingdon/codegen.py', 'codegen_conjugate', 'codegen_conjugate', [('x', MV, 'mv')], MV, tparams=COEF, uses_alg=True, coef=True),
    T('kingdon/codegen.py', 'codegen_hodge', 'codegen_hodge', [('x', MV, 'mv'), ('undual', 'Bool', 'bool')], MV,
      tparams=COEF, uses_alg=True, coef=True),
    T('kingdon/codegen.py', 'codegen_unhodge', 'codegen_unhodge', [('x', MV, 'mv')], MV, tparams=COEF, uses_alg=True, coef=True),
    T('kingdon/codegen.py', 'codegen_sw', 'codegen_sw', [('x', MV, 'mv'), ('y', MV, 'mv')], MV, tparams=COEF, uses_alg=True, uses_ops=True),
    T('kingdon/codegen.py', 'codegen_proj', 'codegen_proj', [('x', MV, 'mv'), ('y', MV, 'mv')], MV, tparams=COEF, uses_alg=True, uses_ops=True),
    T('kingdon/codegen.py', 'codegen_normsq', 'codegen_normsq', [('x', MV, 'mv')], MV, tparams=COEF, uses_alg=True, uses_ops=True),
    # the outer series: `asterms` fixed to True (the list of scaled wedge powers) and to False (their sum)
    T('kingdon/codegen.py', 'codegen_outerexp', 'outerexp_terms', [('x', MV, 'mv')], 'List (' + MV + ')', tparams=COEF, uses_alg=True, uses_ops=True,
      locals={'Ws': ('List (' + MV + ')', 'list:mv'), 'Wj': (MV, 'mv'), 'j': ('Int', 'int'), 'k': ('Int', 'int')}, consts={'asterms': True},
      skip_if=['len(x.grades) != 1'], fuel=['alg.d.toNat']),
    T('kingdon/codegen.py', 'codegen_outerexp', 'codegen_outerexp', [('x', MV, 'mv')], MV, tparams=COEF, uses_alg=True, uses_ops=True,
      locals={'Ws': ('List (' + MV + ')', 'list:mv'), 'Wj': (MV, 'mv'), 'j': ('Int', 'int'), 'k': ('Int', 'int')}, consts={'asterms': False},
      skip_if=['len(x.grades) != 1'], fuel=['alg.d.toNat']),
    T('kingdon/codegen.py', 'codegen_outersin', 'codegen_outersin', [('x', MV, 'mv')], MV, tparams=COEF, uses_alg=True, uses_ops=True,
      locals={'odd_Ws': ('List (' + MV + ')', 'list:mv'), 'outersin': (MV, 'mv')}),
    T('kingdon/codegen.py', 'codegen_outercos', 'codegen_outercos', [('x', MV, 'mv')], MV, tparams=COEF, uses_alg=True, uses_ops=True,
      locals={'even_Ws': ('List (' + MV + ')', 'list:mv'), 'outercos': (MV, 'mv')}),
    T('kingdon/codegen.py', 'codegen_polarity', 'codegen_polarity', [('x', MV, 'mv'), ('undual', 'Bool', 'bool')], MV,
      tparams=COEF, uses_alg=True, uses_ops=True),
    T('kingdon/codegen.py', 'codegen_unpolarity', 'codegen_unpolarity', [('x', MV, 'mv')], MV, tparams=COEF, uses_alg=True, uses_ops=True),
    T('kingdon/codegen.py', 'codegen_hitzer_inv', 'codegen_hitzer_inv', [('x', MV, 'mv')], f'{MV} × α',
      locals={'num': (MV, 'mv')}, tparams=COEF, uses_alg=True, uses_ops=True, consts={'symbolic': True}, self_name='alg'),
    T('kingdon/algebra.py', 'Algebra._blade2canon', 'blade2canon', [('basis_blade', 'List Char', 'str')], 'List Char × Int',
      uses_alg=True, self_name='self', locals={'bin': ('Int', 'int')}),
    # ---- the Cayley table (algebra.py) ----
    T('kingdon/algebra.py', 'Algebra.cayley', 'cayley', [], 'Py.Dict (List Char × List Char) (List Char)', uses_alg=True, self_name='self',
      locals={'cayley': ('Py.Dict (List Char × List Char) (List Char)', 'dict')}),
    # ---- indices per grade (algebra.py) ----
    T('kingdon/algebra.py', 'Algebra.indices_for_grade', 'indices_for_grade', [], 'Py.Dict Int (List Int)', uses_alg=True, self_name='self'),
    T('kingdon/algebra.py', 'Algebra.indices_for_grades', 'indices_for_grades_table', [], 'Py.Dict (List Int) (List Int)', uses_alg=True, self_name='self',
      externals={'len(self)': ('alg.len', 'int'), 'self.indices_for_grade': ('ifg__', 'dict:list:int')}, prelude_lets=['let ifg__ ← indices_for_grade alg']),
    # ---- the sign table (algebra.py): the eager branch (d <= 6); for d > 6 `DefaultKeyDict(_compute_sign)` calls _compute_sign(key) on demand ----
    T('kingdon/algebra.py', 'Algebra._prepare_signs', 'prepare_signs', [], 'Py.Dict (Int × Int) Int', uses_alg=True, self_name='self',
      locals={'signs': ('Py.Dict (Int × Int) Int', 'dict')}, skip_if=['self.d > 6']),
    # ---- the zero filter of symbolic results (operator_dict.py) ----
    T('kingdon/operator_dict.py', 'OperatorDict.filter', 'od_filter', [('keys_out', 'List Int', 'list:int'), ('values_out', 'List α', 'list:coef')],
      'List Int × List α', tparams='{α : Type} [Py.Truthy α]', self_name='self', extra_params=[('simp_func', 'α → α')],
      externals={'self.algebra.simp_func': ('simp_func', 'fun')}, locals={}),
    # ---- coefficient accessors of MultiVector (multivector.py); `self` is (algebra, keys, values) ----
    T('kingdon/multivector.py', 'MultiVector.__getattr__', 'mv_getattr', [('basis_blade', 'List Char', 'str')], 'α',
      tparams='{α : Type} [Neg α] [Zero α]', uses_alg=True, self_name='self', extra_params=[('self_keys', 'List Int'), ('self_values', 'List α')],
      externals={'self.keys()': ('self_keys', 'list:int'), 'self._values': ('self_values', 'list:coef'),
                 "re.match('^e[0-9a-fA-F]*$', basis_blade)": ('(Py.isBladeName basis_blade)', 'bool'),
                 'return:0': ('(0 : α)', 'coef')},
      locals={'idx': ('Int', 'int')}),
    T('kingdon/multivector.py', 'MultiVector.asfullmv', 'mv_asfullmv', [('canonical', 'Bool', 'bool')], 'List Int × List α',
      tparams='{α : Type} [Neg α] [Zero α]', uses_alg=True, self_name='self', extra_params=[('self_keys', 'List Int'), ('self_values', 'List α')],
      externals={'self.algebra.indices_for_grades[tuple(range(self.algebra.d + 1))]': ('(← alg.indices_for_grades (Py.range (0 : Int) (alg.d + (1 : Int))))', 'list:int'),
                 'len(self.algebra)': ('alg.len', 'int'),
                 'return:self.fromkeysvalues(self.algebra, keys=keys, values=values)': ('(keys, values)', 'tuple')},
      locals={'keys': ('List Int', 'list:int')}),
    T('kingdon/multivector.py', 'MultiVector.grade', 'mv_grade', [('grades', 'List Int', 'list:int')], 'List Int × List α',
      tparams='{α : Type} [Neg α] [Zero α]', uses_alg=True, self_name='self', extra_params=[('self_keys', 'List Int'), ('self_values', 'List α')],
      externals={'self.keys()': ('self_keys', 'list:int'),
                 'self.algebra.indices_for_grades[grades]': ('(← alg.indices_for_grades grades)', 'list:int'),
                 'return:self.fromkeysvalues(self.algebra, tuple(vals.keys()), list(vals.values()))': ('(Py.dictKeys vals, Py.dictValues vals)', 'tuple')},
      skip_if=['len(grades) == 1 and isinstance(grades[0], tuple)']),
    # ---- names of generated functions (multivector.py): type_number / type_name ----
    T('kingdon/multivector.py', 'MultiVector.type_number', 'type_number', [], 'Int', uses_alg=True, self_name='self',
      externals={'self.keys()': ('self_keys', 'list:int'), 'self.algebra.canon2bin.values()': ('(Py.dictValues alg.canon2bin)', 'list:int')},
      extra_params=[('self_keys', 'List Int')]),
    T('kingdon/multivector.py', 'MultiVector.type_name', 'type_name', [], 'List Char', uses_alg=True, self_name='self',
      externals={'self.keys()': ('self_keys', 'list:int'), 'self.algebra.canon2bin.values()': ('(Py.dictValues alg.canon2bin)', 'list:int')},
      extra_params=[('self_keys', 'List Int')], locals={'keys': ('List Int', 'list:int')}),
    # ---- the naming part of Algebra.__post_init__: one region of the method as a function ----
    T('kingdon/algebra.py', 'Algebra.__post_init__', 'post_init_names',
      [('basis', 'List (List Char)', 'list:str'), ('d', 'Int', 'int'), ('start_index', 'Int', 'int')],
      'Int × Py.Dict (List Char) Int × Py.Dict Int (List Char)',
      region='self.basis', self_locals=['basis', 'd', 'start_index', 'canon2bin', 'bin2canon'],
      locals={'canon2bin': ('Py.Dict (List Char) Int', 'dict:int'), 'bin2canon': ('Py.Dict Int (List Char)', 'dict:str'),
              'vec2bin': ('Py.Dict (List Char) Int', 'dict:int')},
      externals={'len(self)': ('(Py.pow (2 : Int) d)', 'int')}, strkey=['vec2bin']),
    # ---- matrix representations (matrixreps.py), generic in the matrix type ----
    T('kingdon/matrixreps.py', 'ordering_matrix', 'ordering_matrix', [('Rs', 'List μ', 'list')], 'μ', tparams='{μ : Type}', uses_mops=True,
      externals={'Ri[:, 0]': ('(ops.col0 Ri)', 'mat'), 'np.vstack(columns)': ('(ops.vstack columns)', 'mat')}),
    T('kingdon/matrixreps.py', 'matrix_rep', 'matrix_rep',
      [('p', 'Int', 'int'), ('q', 'Int', 'int'), ('r', 'Int', 'int'), ('signature', 'Option (List Int)', 'opt:list:int'),
       ('blades', 'Option (List (List Int))', 'opt:list:list:int')], 'List μ', tparams='{μ : Type}', uses_mops=True,
      locals={'Ss': ('List μ', 'list'), 'Rs': ('List μ', 'list'), 'Es': ('List μ', 'list'), 'mats': ('List μ', 'list')},
      externals={'I2': ('ops.i2', 'mat'), 'P2': ('ops.p2', 'mat'), 'Z2': ('ops.z2', 'mat'), 'N2': ('ops.n2', 'mat'), 'Ip2': ('ops.ip2', 'mat'),
                 'np.kron': ('ops.kron', 'fun2'), 'reduce-init:1': ('ops.one', 'mat'),
                 'reduce-init:np.eye(1, dtype=int)': ('ops.eye1', 'mat')}),
    # ---- method mode: the operator dictionaries (operator_dict.py) ----
    T('kingdon/operator_dict.py', 'OperatorDict.__getitem__', 'operatordict_getitem', [('keys_in', 'κ', 'key')], 'ρ × φ', tparams=ODT,
      env=ODENV, state_type=ODSTATE, state=OD_STATE, drop_assign=['mvs'], locals=OD_LOCALS,
      externals={'do_codegen(self.codegen, *mvs)': ('(← Py.odCodegen env keys_in)', 'tuple'), 'self.algebra.wrapper': ('env.wrapper', 'opt:fun')}),
    T('kingdon/operator_dict.py', 'UnaryOperatorDict.__getitem__', 'unaryoperatordict_getitem', [('keys_in', 'κ', 'key')], 'ρ × φ', tparams=ODT,
      env=ODENV, state_type=ODSTATE, state=OD_STATE, drop_assign=['mv'], locals=OD_LOCALS,
      externals={'do_codegen(self.codegen, mv)': ('(← Py.odCodegen env keys_in)', 'tuple'), 'self.algebra.wrapper': ('env.wrapper', 'opt:fun')}),
    T('kingdon/operator_dict.py', 'Registry.__getitem__', 'registry_getitem', [('keys_in', 'κ', 'key')], 'ρ × φ', tparams=ODT,
      env=ODENV, state_type=ODSTATE, state=OD_STATE, drop_assign=['tapes'], locals=OD_LOCALS,
      externals={'do_compile(self.codegen, *tapes)': ('(← Py.odCodegen env keys_in)', 'tuple'), 'self.algebra.wrapper': ('env.wrapper', 'opt:fun')}),
    T('kingdon/operator_dict.py', 'UnaryOperatorDict.__call__', 'unaryoperatordict_call', [('mv', 'Py.ODArg κ ω', 'arg')], 'ρ × ω', tparams=ODT + ' [Inhabited ω]',
      env=ODENV, state_type=ODSTATE, state=OD_STATE, locals={**OD_LOCALS, 'values_out': ('ω', 'vals')},
      externals={'self[mv.keys()]': ('(← unaryoperatordict_getitem env mv.keys)', 'tuple'), 'mv.issymbolic': ('mv.issymbolic', 'bool'),
                 'mv.values()': ('mv.values', 'vals'), 'mv.algebra.wrapper': ('env.wrapper', 'opt:fun'),
                 'self.algebra.simp_func': ('env.simp_func', 'bool'), 'self.filter(keys_out, values_out)': ('(env.filter keys_out values_out)', 'tuple'),
                 'MultiVector.fromkeysvalues(self.algebra, keys=keys_out, values=values_out)': ('(keys_out, values_out)', 'tuple')}),
    # ---- the keyword-blade branch of MultiVector.__new__ (`alg.multivector(e12=1, e31=2)`): one region of the method; the
    #      region's own test (`items and keys is None and values is None`) is its precondition ----
    T('kingdon/multivector.py', 'MultiVector.__new__', 'mv_new_keywords', [('items', 'Py.Dict (List Char) α', 'dict')],
      'List (List Char) × List α', tparams='{α : Type} [Neg α]', uses_alg=True, self_name='algebra',
      region='items and keys is None and (values is None)', region_body_only=True,
      externals={'list(items.keys())': ('(Py.dictKeys items)', 'list:str'), 'algebra._blade2canon(key)': ('(← blade2canon alg key)', 'tuple:str,int')},
      locals={'target': ('List Char', 'str'), 'swaps': ('Int', 'int'), 'keys': ('List (List Char)', 'list:str'), 'values': ('List α', 'list:coef')}),
]
for _t in TARGETS:
    if _t.lean == 'mv_new_keywords':
        _t.ret_names = ['keys', 'values']
    if _t.lean in ('type_number', 'type_name'):
        _t.is_property = True
    if _t.lean == 'post_init_names':
        _t.ret_names = ['start_index', 'canon2bin', 'bin2canon']
        _t.items_kinds = {'canon2bin': 'str,int', 'bin2canon': 'int,str'}
BY_PY = {t.qual.split('.')[-1]: t for t in TARGETS}
BY_PY['__getattr__'] = next(t for t in TARGETS if t.lean == 'mv_getattr')

HEADER = '''/-
  GENERATED by harness/pytolean.py from the current text of /repo/kingdon/{algebra,codegen}.py — do not edit.
  One definition per Python function, statement by statement; the meaning of every `Py.*` primitive is in
  Kingdon/Model/Py.lean.
-/
import Kingdon.Model.Py
set_option linter.unusedVariables false
namespace Kingdon.Src
open Kingdon

/-- what the translated functions read from the algebra object (`self` / `x.algebra`):
    `signs[i, j]` (total here: a missing pair is outside the modelled call sites), `len(algebra)`,
    `bin2canon`, `signature`, `start_index` -/
structure Alg where
  signs : Int × Int → Int
  len : Int
  bin2canon : Py.Dict Int (List Char)
  canon2bin : Py.Dict (List Char) Int
  signature : List Int
  start_index : Int
  d : Int
  indices_for_grades : List Int → Py.M (List Int)

/-- the algebra's operators on multivectors as the composite generators use them (`x * y`, `~x`, `x | y`,
    `x.conjugate()`, `x.grade(..)`, `2 * x`, `x.e`, `alg.blades.e`, `alg.pss`): parameters of the translation -/
structure Ops (α : Type) where
  gp : Py.Dict Int α → Py.Dict Int α → Py.Dict Int α
  ip : Py.Dict Int α → Py.Dict Int α → Py.Dict Int α
  op : Py.Dict Int α → Py.Dict Int α → Py.Dict Int α
  sp : Py.Dict Int α → Py.Dict Int α → Py.Dict Int α
  add : Py.Dict Int α → Py.Dict Int α → Py.Dict Int α
  sub : Py.Dict Int α → Py.Dict Int α → Py.Dict Int α
  neg : Py.Dict Int α → Py.Dict Int α
  reverse : Py.Dict Int α → Py.Dict Int α
  involute : Py.Dict Int α → Py.Dict Int α
  conjugate : Py.Dict Int α → Py.Dict Int α
  grade : Py.Dict Int α → List Int → Py.Dict Int α
  rmulInt : Int → Py.Dict Int α → Py.Dict Int α
  divInt : Py.Dict Int α → Int → Py.Dict Int α
  e : Py.Dict Int α → α
  one : Py.Dict Int α
  pss : Py.Dict Int α

/-- numpy as `matrix_rep` uses it: the five 2x2 blocks, `np.kron`, `@`, `.T`, `M[:, 0]`, `np.vstack`, the scalar `1` that
    starts `reduce(np.kron, mats, 1)` and `np.eye(1, dtype=int)` -/
structure MatOps (μ : Type) where
  i2 : μ
  ip2 : μ
  p2 : μ
  n2 : μ
  z2 : μ
  kron : μ → μ → μ
  matmul : μ → μ → μ
  transpose : μ → μ
  col0 : μ → μ
  vstack : List μ → μ
  one : μ
  eye1 : μ

'''


def find_func(tree, qual):
    node = tree
    for part in qual.split('.'):
        found = None
        for ch in ast.walk(node) if node is tree else ast.iter_child_nodes(node):
            if isinstance(ch, (ast.FunctionDef, ast.ClassDef)) and ch.name == part:
                found = ch
                break
        if found is None:
            # nested defs may sit deeper than direct children
            for ch in ast.walk(node):
                if isinstance(ch, (ast.FunctionDef, ast.ClassDef)) and ch.name == part and ch is not node:
                    found = ch
                    break
        if found is None:
            raise Unsupported(f'function {qual} not found')
        node = found
    return node


class _SelfToLocal(ast.NodeTransformer):
    def __init__(self, names):
        self.names = names

    def visit_Attribute(self, node):
        self.generic_visit(node)
        if isinstance(node.value, ast.Name) and node.value.id == 'self' and node.attr in self.names:
            return ast.copy_location(ast.Name(id=node.attr, ctx=node.ctx), node)
        return node


def region_function(t, fn):
    """the statement `if <t.region>: ... else: ...` of `fn` as a function of its own: `self.<name>` for the names in
    t.self_locals become parameters / locals, and the function returns the tuple of the names listed in t.ret_names"""
    import copy
    hit = [st for st in ast.walk(fn) if isinstance(st, ast.If) and ast.unparse(st.test) == t.region]
    if len(hit) != 1:
        raise Unsupported(f'region `if {t.region}:` not found exactly once')
    node = _SelfToLocal(t.self_locals).visit(copy.deepcopy(hit[0]))
    ret = ast.Return(value=ast.Tuple(elts=[ast.Name(id=n, ctx=ast.Load()) for n in t.ret_names], ctx=ast.Load()))
    args = ast.arguments(posonlyargs=[], args=[ast.arg(arg=p) for p, _, _ in t.params], kwonlyargs=[], kw_defaults=[], defaults=[])
    f2 = ast.FunctionDef(name=fn.name, args=args, body=(list(node.body) + [ret]) if t.region_body_only else [node, ret], decorator_list=[], lineno=hit[0].lineno, col_offset=0)
    ast.fix_missing_locations(f2)
    f2.lineno = hit[0].lineno
    f2._src_node = hit[0]
    return f2


class Tr:
    def __init__(self, tgt, fn):
        self.t, self.fn = tgt, fn
        self.kinds = {p: k for p, _, k in tgt.params}
        self.types = {p: ty for p, ty, _ in tgt.params}
        for n, (ty, k) in tgt.locals.items():
            self.kinds[n] = k
            self.types[n] = ty
        self.declared = set(p for p, _, _ in tgt.params)
        self.tmp = 0
        self.rename = {}
        self.pre = []               # hoisted statements for the statement being translated
        # names assigned more than once / mutated
        self.mutable = self._mutables(fn)
        if tgt.self_name:
            self.kinds[tgt.self_name] = 'alg'

    # ---------------------------------------------------------------- analysis
    def _mutables(self, fn):
        counts = {}
        def bump(n, k=1):
            counts[n] = counts.get(n, 0) + k
        for p, _, _ in self.t.params:
            bump(p)
        for node in ast.walk(fn):
            if isinstance(node, ast.Assign):
                for tg in node.targets:
                    for nm in self._target_names(tg):
                        bump(nm)
                    if isinstance(tg, ast.Subscript) and isinstance(tg.value, ast.Name):
                        bump(tg.value.id, 2)
                    if isinstance(tg, ast.Attribute) and isinstance(tg.value, ast.Name):
                        bump(tg.value.id, 2)          # `W._values = ..` changes W
            elif isinstance(node, ast.AugAssign):
                if isinstance(node.target, ast.Name):
                    bump(node.target.id, 2)
                elif isinstance(node.target, ast.Subscript) and isinstance(node.target.value, ast.Name):
                    bump(node.target.value.id, 2)
            elif isinstance(node, ast.Call) and isinstance(node.func, ast.Attribute) and isinstance(node.func.value, ast.Name) \
                    and node.func.attr in ('append', 'remove', 'insert', 'pop', 'extend'):
                bump(node.func.value.id, 2)
            elif isinstance(node, (ast.For, ast.While)):
                # anything assigned inside a loop is assigned repeatedly
                for sub in ast.walk(node):
                    if isinstance(sub, ast.Assign):
                        for tg in sub.targets:
                            for nm in self._target_names(tg):
                                bump(nm, 0)
        return {n for n, c in counts.items() if c > 1}

    def _target_names(self, tg):
        if isinstance(tg, ast.Name):
            return [tg.id]
        if isinstance(tg, ast.Starred):
            return []
        if isinstance(tg, (ast.Tuple, ast.List)):
            return [n for e in tg.elts for n in self._target_names(e)]
        return []

    def fresh(self, base='t'):
        self.tmp += 1
        return f'{base}__{self.tmp}'

    # ---------------------------------------------------------------- expressions
    def is_alg(self, node):
        """`self`, `algebra`, `alg`, `x.algebra`"""
        if isinstance(node, ast.Name) and self.kinds.get(node.id) == 'alg':
            return True
        if isinstance(node, ast.Attribute) and node.attr == 'algebra' and isinstance(node.value, ast.Name) and self.kinds.get(node.value.id) in ('mv', 'alg'):
            return True
        return False

    def pat(self, tg):
        if isinstance(tg, ast.Name):
            return tg.id
        if isinstance(tg, ast.Starred):
            return '_'
        if isinstance(tg, (ast.Tuple, ast.List)):
            return '(' + ', '.join(self.pat(e) for e in tg.elts) + ')'
        raise Unsupported(f'assignment target {ast.dump(tg)}')

    def truth(self, node):
        c, k = self.E(node)
        return c if k == 'bool' else f'(Py.truthy {c})'

    def E(self, node):
        """returns (lean code, kind)"""
        if self.t.externals or self.t.state:
            try:
                text = ast.unparse(node)
            except Exception:
                text = None
            if text in self.t.externals:
                return self.t.externals[text]
            if text in self.t.state:
                fld, kind = self.t.state[text]
                return f'(← get).{fld}', kind
        if isinstance(node, ast.Constant):
            v = node.value
            if isinstance(v, bool):
                return ('true' if v else 'false'), 'bool'
            if isinstance(v, int):
                return f'({v} : Int)', 'int'
            if v is None:
                return 'none', 'none'
            if isinstance(v, str):
                if v == '':
                    return '[]', 'str'
                return '[' + ', '.join(f"'{ch}'" for ch in v) + ']', 'str'
            raise Unsupported(f'constant {v!r}')
        if isinstance(node, ast.Name):
            if node.id in self.kinds or node.id in self.declared:
                return self.rename.get(node.id, node.id), self.kinds.get(node.id)
            if node.id == 'abs':
                return 'Py.abs', 'fun'
            raise Unsupported(f'free name {node.id}')
        if isinstance(node, ast.Tuple):
            return '(' + ', '.join(self.E(e)[0] for e in node.elts) + ')', 'tuple'
        if isinstance(node, ast.List):
            if any(isinstance(e, ast.Starred) for e in node.elts):
                parts = [self.E(e.value)[0] if isinstance(e, ast.Starred) else '[' + self.E(e)[0] + ']' for e in node.elts]
                return '(' + ' ++ '.join(parts) + ')', 'list'
            els = [self.E(e) for e in node.elts]
            return '[' + ', '.join(c for c, _ in els) + ']', ('list:mv' if els and all(k == 'mv' for _, k in els) else 'list')
        if isinstance(node, ast.NamedExpr):
            c, k = self.E(node.value)
            nm = node.target.id
            self.pre.append(self.bind(nm, c, k))
            return nm, k
        if isinstance(node, ast.UnaryOp):
            if isinstance(node.op, ast.Not):
                return f'(!{self.truth(node.operand)})', 'bool'
            if isinstance(node.op, ast.USub):
                c, k = self.E(node.operand)
                if k == 'mv':
                    if not self.t.uses_ops:
                        raise Unsupported('multivector arithmetic')
                    return f'(ops.neg {c})', 'mv'
                return f'(-{c})', k
            if isinstance(node.op, ast.Invert):
                c, k = self.E(node.operand)
                if k == 'mv' and self.t.uses_ops:
                    return f'(ops.reverse {c})', 'mv'
                raise Unsupported('unary ~')
            raise Unsupported(f'unary {type(node.op).__name__}')
        if isinstance(node, ast.BinOp):
            a, ka = self.E(node.left)
            b, kb = self.E(node.right)
            op = type(node.op).__name__
            if op in ('BitXor', 'BitOr') and ka == 'mv' and kb == 'mv' and self.t.uses_ops:
                return f'(ops.{ {"BitXor": "op", "BitOr": "ip"}[op] } {a} {b})', 'mv'
            if op in ('BitXor', 'BitOr', 'BitAnd'):
                return f'(Py.{ {"BitXor": "xor", "BitOr": "lor", "BitAnd": "land"}[op] } {a} {b})', 'int'
            if op == 'Add' and 'str' in (ka, kb):
                a2 = f'[{a}]' if ka == 'char' else a
                b2 = f'[{b}]' if kb == 'char' else b
                return f'({a2} ++ {b2})', 'str'
            if op == 'BitAnd' and ka == 'int' and kb == 'int':
                return f'(Py.land {a} {b})', 'int'
            if op == 'MatMult':
                return f'(ops.matmul {a} {b})', 'mat'
            if op == 'Pow' and ka == 'int' and kb == 'int':
                return f'(Py.pow {a} {b})', 'int'
            sym = {'Add': '+', 'Sub': '-', 'Mult': '*', 'Mod': '%'}.get(op)
            if sym is None:
                raise Unsupported(f'binary operator {op}')
            if 'mv' in (ka, kb):
                if not self.t.uses_ops:
                    raise Unsupported('multivector arithmetic')
                if ka == 'mv' and kb == 'mv' and op in ('Mult', 'Sub', 'Add'):
                    return f'(ops.{ {"Mult": "gp", "Sub": "sub", "Add": "add"}[op] } {a} {b})', 'mv'
                if ka == 'int' and kb == 'mv' and op == 'Mult':
                    return f'(ops.rmulInt {a} {b})', 'mv'
                raise Unsupported(f'multivector arithmetic {ka} {op} {kb}')
            return f'({a} {sym} {b})', ('coef' if 'coef' in (ka, kb) else ka or kb)
        if isinstance(node, ast.BoolOp):
            first = node.values[0]
            # `f and <expr using f(...)>` with f an optional function
            if isinstance(node.op, ast.And) and isinstance(first, ast.Name) and (self.kinds.get(first.id) or '').startswith('opt:') and len(node.values) == 2:
                old = self.kinds[first.id]
                self.kinds[first.id] = old[4:]
                rest = self.truth(node.values[1])
                self.kinds[first.id] = old
                return f'(match {first.id} with | some {first.id} => {rest} | none => false)', 'bool'
            # `f or default` with f an optional value
            if isinstance(node.op, ast.Or) and isinstance(first, ast.Name) and (self.kinds.get(first.id) or '').startswith('opt:') and len(node.values) == 2:
                d, _ = self.E(node.values[1])
                return f'({first.id}.getD {d})', self.kinds[first.id][4:]
            parts = [self.truth(v) for v in node.values]
            return '(' + (' && ' if isinstance(node.op, ast.And) else ' || ').join(parts) + ')', 'bool'
        if isinstance(node, ast.Compare):
            if len(node.ops) != 1:
                raise Unsupported('chained comparison')
            a, ka = self.E(node.left)
            b, kb = self.E(node.comparators[0])
            op = type(node.ops[0]).__name__
            if op in ('Eq', 'NotEq'):
                if ka == 'char' and kb == 'str' and isinstance(node.comparators[0], ast.Constant) and len(node.comparators[0].value) == 1:
                    b = f"'{node.comparators[0].value}'"
                return f'({a} {"==" if op == "Eq" else "!="} {b})', 'bool'
            if op in ('Lt', 'Gt', 'LtE', 'GtE'):
                sym = {'Lt': '<', 'Gt': '>', 'LtE': '≤', 'GtE': '≥'}[op]
                return f'(decide ({a} {sym} {b}))', 'bool'
            if op in ('In', 'NotIn'):
                if kb in ('dict', 'mv') or (kb or '').startswith('dict:'):
                    c = f'(Py.dictHas {b} {a})'
                elif kb in ('list', 'str') or (kb or '').startswith('list:'):
                    c = f'({b}.contains {a})'
                else:
                    raise Unsupported(f'`in` on kind {kb}')
                return (c if op == 'In' else f'(!{c})'), 'bool'
            raise Unsupported(f'comparison {op}')
        if isinstance(node, ast.IfExp) and self.t.externals and ast.unparse(node.test) in self.t.externals \
                and (self.t.externals[ast.unparse(node.test)][1] or '').startswith('opt:'):
            # `X(args) if X else default` with X an optional function: a match on X
            key = ast.unparse(node.test)
            code, kind = self.t.externals[key]
            self.t.externals[key] = ('w__', kind[4:])
            try:
                a, ka = self.sub_do(node.body)
            finally:
                self.t.externals[key] = (code, kind)
            b, kb = self.sub_do(node.orelse)
            return f'(match {code} with | some w__ => {a} | none => {b})', ka or kb
        if isinstance(node, ast.IfExp) and isinstance(node.test, ast.Name) and isinstance(node.body, ast.Call) and isinstance(node.body.func, ast.Name) \
                and node.body.func.id == 'zip' and len(node.body.args) == 1 and isinstance(node.body.args[0], ast.Starred) \
                and isinstance(node.body.args[0].value, ast.Name) and node.body.args[0].value.id == node.test.id \
                and ast.unparse(node.orelse) in ('(tuple(), list())', '((), [])', '(tuple(), tuple())'):
            # `zip(*pairs) if pairs else ((), [])`: the two columns of a list of pairs
            return f'(Py.unzip {node.test.id})', 'tuple'
        if isinstance(node, ast.IfExp):
            t = self.truth(node.test)
            a, ka = self.sub_do(node.body)
            b, kb = self.sub_do(node.orelse)
            if a.startswith('(← ') or b.startswith('(← '):
                return f'(← (if {t} then (do pure {a}) else (do pure {b})))', ka or kb
            return f'(if {t} then {a} else {b})', ka or kb
        if isinstance(node, ast.Lambda):
            return self.lam(node, False)
        if False:
            args = [a.arg for a in node.args.args]
            saved = dict(self.kinds)
            for a in args:
                self.kinds[a] = 'int' if a != 'pair' else 'tuple'
            npre = len(self.pre)
            body, _ = self.E(node.body)
            if len(self.pre) != npre or '←' in body:
                raise Unsupported('lambda whose body can raise or binds names')
            self.kinds = saved
            return f'(fun {" ".join(args)} => {body})', 'fun'
        if isinstance(node, ast.Attribute):
            if isinstance(node.value, ast.Name) and node.value.id == 'self' and node.attr in BY_PY and BY_PY[node.attr].is_property:
                return self.call_target(BY_PY[node.attr], [], {})
            if self.is_alg(node):
                return 'alg', 'alg'
            if self.is_alg(node.value):
                attr = node.attr
                if attr == 'algebra':
                    return 'alg', 'alg'
                if attr in ('signs',):
                    return 'alg.signs', 'signs'
                if attr == 'bin2canon':
                    return 'alg.bin2canon', 'dict:str'
                if attr == 'canon2bin':
                    return 'alg.canon2bin', 'dict:int'
                if attr == 'signature':
                    return 'alg.signature', 'list'
                if attr == 'start_index':
                    return 'alg.start_index', 'int'
                if attr == 'd':
                    return 'alg.d', 'int'
                if attr == 'pss' and self.t.uses_ops:
                    return 'ops.pss', 'mv'
                raise Unsupported(f'algebra attribute {attr}')
            if isinstance(node.value, ast.Name) and node.value.id == 'self' and node.attr in BY_PY and BY_PY[node.attr].is_property:
                return self.call_target(BY_PY[node.attr], [], {})
            if node.attr == 'T':
                v, kv = self.E(node.value)
                return f'(ops.transpose {v})', 'mat'
            if node.attr == '__name__' and self.t.env:
                v, kv = self.E(node.value)
                if kv == 'funcobj':
                    return f'(env.name {v})', 'name'
            if node.attr == 'e' and isinstance(node.value, ast.Attribute) and node.value.attr == 'blades' and self.is_alg(node.value.value) and self.t.uses_ops:
                return 'ops.one', 'mv'
            if node.attr == 'e' and self.t.uses_ops:
                v, kv = self.E(node.value)
                if kv == 'mv':
                    return f'(ops.e {v})', 'coef'
            raise Unsupported(f'attribute {node.attr}')
        if isinstance(node, ast.Subscript) and isinstance(node.value, ast.Call) and isinstance(node.value.func, ast.Name) \
                and node.value.func.id == 'hex' and ast.unparse(node.slice) == '2:':
            return f'(Py.hexStr {self.E(node.value.args[0])[0]})', 'str'
        if isinstance(node, ast.Subscript):
            v, kv = self.E(node.value)
            if isinstance(node.slice, ast.Slice):
                s = node.slice
                if s.upper is None and s.step is None and s.lower is not None:
                    lo, _ = self.E(s.lower)
                    return f'(Py.sliceFrom {v} {lo})', kv
                if s.upper is None and isinstance(s.step, ast.Constant) and isinstance(s.step.value, int) and s.step.value > 0 \
                        and isinstance(s.lower, ast.Constant) and isinstance(s.lower.value, int) and s.lower.value >= 0:
                    return f'(Py.sliceStep {v} {s.lower.value} {s.step.value})', kv
                raise Unsupported('slice form')
            if (kv or '').startswith('tuple:') and isinstance(node.slice, ast.Constant) and node.slice.value in (0, 1):
                return f'{v}.{node.slice.value + 1}', (kv[6:].split(',')[node.slice.value] or None)
            if kv == 'tuple' and isinstance(node.slice, ast.Constant) and node.slice.value in (0, 1):
                return f'{v}.{node.slice.value + 1}', 'int'
            i, ki = self.E(node.slice)
            if kv == 'signs':
                return f'(alg.signs {i})', 'int'
            if (kv or '').startswith('dictkv:'):
                if ki == 'char' and (v in self.t.strkey or kv[7:].split(',')[0] == 'str'):
                    i = f'[{i}]'
                return f'(← Py.dictGet {v} {i})', (kv[7:].split(',')[1] or None)
            if kv in ('dict', 'mv') or (kv or '').startswith('dict:'):
                if ki == 'char' and v in self.t.strkey:
                    i = f'[{i}]'
                return f'(← Py.dictGet {v} {i})', ('coef' if kv == 'mv' else kv[5:] if kv.startswith('dict:') else None)
            if kv in ('list', 'str') or (kv or '').startswith('list:'):
                return f'(← Py.getItem {v} {i})', ('int' if v == 'alg.signature' else 'char' if kv == 'str' else kv[5:] if (kv or '').startswith('list:') else self.t.elem_kind.get(v))
            raise Unsupported(f'subscript on kind {kv}')
        if isinstance(node, ast.Call):
            return self.call(node)
        if isinstance(node, ast.Dict) and not node.keys:
            return '[]', 'dict'
        if isinstance(node, ast.JoinedStr):
            parts = []
            for v in node.values:
                if isinstance(v, ast.Constant) and isinstance(v.value, str):
                    parts.append('[' + ', '.join(f"'{ch}'" for ch in v.value) + ']')
                elif isinstance(v, ast.FormattedValue) and v.conversion == -1 and v.format_spec is None:
                    c, k = self.E(v.value)
                    if k == 'char':
                        parts.append(f'[{c}]')
                    elif k == 'int':
                        parts.append(f'(Py.strOfInt {c})')
                    elif k == 'str':
                        parts.append(c)
                    else:
                        raise Unsupported(f'f-string field of kind {k}')
                else:
                    raise Unsupported('f-string form')
            return '(' + ' ++ '.join(parts) + ')', 'str'
        if isinstance(node, (ast.GeneratorExp, ast.ListComp)):
            if len(node.generators) != 1 or len(node.generators[0].ifs) > 1:
                raise Unsupported('comprehension form')
            g = node.generators[0]
            it, kit = self.E(g.iter)
            if (kit or '').startswith('dict:') and isinstance(g.target, ast.Name):
                it = f'(Py.dictKeys {it})'          # iterating a dict yields its keys
            saved = dict(self.kinds)
            self.comp_target_kinds(g.target, g.iter, kit)
            npre = len(self.pre)
            cond = None
            lets = ''
            if g.ifs:
                self.pre, outer = [], self.pre
                cond = self.truth(g.ifs[0])
                lets = ''.join(f'{st}; ' for st in self.pre)        # a walrus in the filter binds a name for the element
                self.pre = outer
            body, kb = self.E(node.elt)
            self.kinds = saved
            if len(self.pre) != npre:
                raise Unsupported('comprehension whose element binds names')
            pat = self.pat(g.target)
            ek = 'list:' + kb if kb in ('str', 'int', 'mat') else 'list'
            if '←' in body or '←' in (cond or '') or '←' in lets:
                if cond is None:
                    return f'(← ({it}).mapM (fun {pat} => do pure {body}))', ek
                if '←' in body:
                    # the element is only evaluated for the items that pass the filter (it may raise for the others)
                    return f'((← ({it}).mapM (fun {pat} => do {lets}if {cond} then (do pure (some {body})) else pure none)).filterMap id)', ek
                return f'((← ({it}).mapM (fun {pat} => do {lets}pure (if {cond} then some {body} else none))).filterMap id)', ek
            if cond is None:
                return f'(({it}).map (fun {pat} => {body}))', ek
            return f'(({it}).filterMap (fun {pat} => ({lets}if {cond} then some {body} else none)))', ek
        if isinstance(node, ast.DictComp):
            return self.dictcomp(node)
        raise Unsupported(f'expression {type(node).__name__}')

    def lam(self, node, as_bool):
        args = [a.arg for a in node.args.args]
        saved = dict(self.kinds)
        for a in args:
            self.kinds[a] = 'int' if a != 'pair' else 'tuple'
        npre = len(self.pre)
        body = self.truth(node.body) if as_bool else self.E(node.body)[0]
        if len(self.pre) != npre or '←' in body:
            raise Unsupported('lambda whose body can raise or binds names')
        self.kinds = saved
        return f'(fun {" ".join(args)} => {body})', 'fun'

    def comp_target_kinds(self, target, it_node, kit):
        is_range = isinstance(it_node, ast.Call) and isinstance(it_node.func, ast.Name) and it_node.func.id == 'range'
        def setk(t, k):
            if isinstance(t, ast.Name):
                self.kinds[t.id] = k
        if isinstance(target, ast.Name):
            setk(target, 'char' if kit == 'str' else 'int' if (is_range or kit == 'list:int') else 'str' if kit == 'list:str'
                 else 'list:int' if kit == 'list:list:int' else 'tuple' if kit == 'list:tuple' else None)
        elif isinstance(target, (ast.Tuple, ast.List)):
            ks = None
            if isinstance(it_node, ast.Call) and isinstance(it_node.func, ast.Name) and it_node.func.id == 'enumerate':
                inner = self.E(it_node.args[0])[1]
                ks = ['int', 'str' if inner == 'list:str' else None]
            elif (kit or '').startswith('items:'):
                ks = kit[6:].split(',')
            elif (kit or '').startswith('list:tuple:'):
                ks = kit[11:].split(',')
            for t, k in zip(target.elts, ks or [None] * len(target.elts)):
                setk(t, k if k != '' else None)

    def keylam(self, node, kit):
        """a sort key `lambda x: ...` over the elements of an iterable of kind kit"""
        if not isinstance(node, ast.Lambda) or len(node.args.args) != 1:
            raise Unsupported('sort key form')
        a = node.args.args[0].arg
        saved = dict(self.kinds)
        self.kinds[a] = 'tuple:' + kit[6:] if (kit or '').startswith('items:') else None
        body = self.E(node.body)[0]
        self.kinds = saved
        if '←' in body:
            raise Unsupported('sort key that can raise')
        return f'(fun {a} => {body})'

    def lam2(self, node):
        args = [a.arg for a in node.args.args]
        saved = dict(self.kinds)
        for a in args:
            self.kinds[a] = 'mat'
        body = self.E(node.body)[0]
        self.kinds = saved
        if '←' in body:
            raise Unsupported('lambda whose body can raise')
        return f'(fun {" ".join(args)} => {body})'

    def sub_do(self, node):
        """an expression in a position that is evaluated conditionally"""
        npre = len(self.pre)
        c, k = self.E(node)
        if len(self.pre) != npre:
            raise Unsupported('name binding inside a conditional expression')
        return c, k

    def dictcomp(self, node):
        if len(node.generators) != 1 or len(node.generators[0].ifs) > 1 or node.generators[0].is_async:
            raise Unsupported('dict comprehension form')
        g = node.generators[0]
        it, kit = self.E(g.iter)
        pat = self.pat(g.target)
        saved = dict(self.kinds)
        self.bind_pat_kinds(g.target, g.iter)
        self.comp_target_kinds(g.target, g.iter, kit) if (kit or '').startswith(('items:', 'list:')) or (
            isinstance(g.iter, ast.Call) and isinstance(g.iter.func, ast.Name) and g.iter.func.id in ('enumerate', 'range')) else None
        cond = None
        if g.ifs:
            npre = len(self.pre)
            cond = self.truth(g.ifs[0])
            if len(self.pre) != npre or '←' in cond:
                raise Unsupported('dict comprehension filter that binds or raises')
            it = f'(({it}).filter (fun {pat} => {cond}))'
        outer_pre, self.pre = self.pre, []
        k, kk = self.E(node.key)
        v, kvv = self.E(node.value)
        inner, self.pre = self.pre, outer_pre
        self.kinds = saved
        body = ''.join(f'{s}; ' for s in inner)
        kind = f'dictkv:{kk or ""},{kvv or ""}'
        if '←' in k + v + body:
            return f'(Py.dictOf (← ({it}).mapM (fun {pat} => do {body}pure ({k}, {v}))))', kind
        if inner:
            return f'(Py.dictOf (({it}).map (fun {pat} => ({body}({k}, {v})))))', kind
        return f'(Py.dictOf (({it}).map (fun {pat} => ({k}, {v}))))', kind

    def bind_pat_kinds(self, tg, it):
        """kinds of loop variables from the shape of the iterable"""
        def items_of(n):
            return isinstance(n, ast.Call) and isinstance(n.func, ast.Attribute) and n.func.attr == 'items'
        def assign(t, kinds):
            if isinstance(t, ast.Name):
                self.kinds[t.id] = kinds if isinstance(kinds, str) or kinds is None else 'tuple'
            elif isinstance(t, (ast.Tuple, ast.List)):
                for e, k in zip(t.elts, kinds if isinstance(kinds, (list, tuple)) else [None] * len(t.elts)):
                    assign(e, k)
        if items_of(it):
            assign(tg, ['int', 'coef'])
        elif isinstance(it, ast.Call) and isinstance(it.func, ast.Name) and it.func.id == 'product' and all(items_of(a) for a in it.args):
            assign(tg, [['int', 'coef'], ['int', 'coef']])
        elif isinstance(it, ast.Call) and isinstance(it.func, ast.Name) and it.func.id == 'enumerate':
            assign(tg, ['int', None])
        elif isinstance(it, ast.Call) and isinstance(it.func, ast.Name) and it.func.id == 'range':
            assign(tg, 'int')
        elif isinstance(it, ast.Name) and self.kinds.get(it.id) == 'list:int':
            assign(tg, 'int')
        elif self.t.externals and ast.unparse(it) in self.t.externals and self.t.externals[ast.unparse(it)][1] == 'list:str':
            assign(tg, 'str')
        else:
            assign(tg, None)

    def call(self, node):
        f = node.func
        args = node.args
        kw = {k.arg: k.value for k in node.keywords}
        if self.t.uses_ops and ast.unparse(node) in ('alg.scalar([1])', 'alg.scalar((1,))'):
            return 'ops.one', 'mv'          # the scalar 1 of the algebra
        if self.t.externals:
            ft = ast.unparse(f)
            if ft in self.t.externals and self.t.externals[ft][1] == 'fun' and not kw:
                return '(' + self.t.externals[ft][0] + ' ' + ' '.join(self.E(a)[0] for a in args) + ')', 'funcobj'
        if isinstance(f, ast.Name):
            n = f.id
            if n == 'list' and len(args) == 1:
                return self.E(args[0])
            if n == 'len' and len(args) == 1:
                if self.is_alg(args[0]):
                    return 'alg.len', 'int'
                return f'(Py.len {self.E(args[0])[0]})', 'int'
            if n == 'abs' and len(args) == 1:
                return f'(Py.abs {self.E(args[0])[0]})', 'int'
            if n == 'int' and len(args) == 2 and isinstance(args[1], ast.Constant) and args[1].value == 2 and not kw:
                return f'(← Py.intOfBin {self.E(args[0])[0]})', 'int'
            if n == 'reversed' and len(args) == 1 and not kw:
                c0, k0 = self.E(args[0])
                return f'(List.reverse {c0})', k0
            if n == 'str' and len(args) == 1 and not kw:
                c0, k0 = self.E(args[0])
                if k0 == 'int':
                    return f'(Py.strOfInt {c0})', 'str'
                raise Unsupported('str() of this kind')
            if n == 'tuple' and len(args) == 1 and not kw:
                return self.E(args[0])
            if n == 'int' and len(args) == 1 and isinstance(kw.get('base'), ast.Constant) and kw['base'].value == 16:
                c0, k0 = self.E(args[0])
                if k0 == 'str':
                    return f'(← Py.intOfHex {c0})', 'int'
                return f'(← Py.hexDigit {c0})', 'int'
            if n == 'product' and len(args) == 1 and set(kw) == {'repeat'} and isinstance(kw['repeat'], ast.Constant) and kw['repeat'].value == 2:
                c0 = self.E(args[0])[0]
                return f'(Py.product {c0} {c0})', 'list'
            if n == 'product' and len(args) == 2 and not kw:
                return f'(Py.product {self.E(args[0])[0]} {self.E(args[1])[0]})', 'list'
            if n == 'zip' and len(args) == 2:
                return f'(Py.zip {self.E(args[0])[0]} {self.E(args[1])[0]})', 'list'
            if n == 'enumerate' and len(args) == 1:
                return f'(Py.enumerate {self.E(args[0])[0]})', 'list'
            if n == 'dict' and len(args) == 1:
                c0, k0 = self.E(args[0])
                return f'(Py.dictOf {c0})', ('dictkv:' + k0[6:] if (k0 or '').startswith('items:') else 'dict')
            if n == 'Fraction' and len(args) == 2 and not kw:
                return f'({self.E(args[0])[0]}, {self.E(args[1])[0]})', 'tuple'
            if n == 'getattr' and len(args) == 2 and isinstance(args[0], ast.Name) and args[0].id == 'self' and '__getattr__' in BY_PY:
                return self.call_target(BY_PY['__getattr__'], [args[1]], {})
            if n == 'groupby' and len(args) == 1 and set(kw) == {'key'} and ast.unparse(kw['key']) == 'len':
                c0, k0 = self.E(args[0])
                if (k0 or '').startswith('dict'):
                    c0 = f'(Py.dictKeys {c0})'              # iterating a dict yields its keys
                return f'(Py.groupbyLen {c0})', 'list:tuple:int,list:str'
            if n == 'sum' and len(args) == 2 and ast.unparse(args[1]) == '()':
                return f'(List.flatten {self.E(args[0])[0]})', 'list:int'
            if n == 'chain' and len(args) == 1 and isinstance(args[0], ast.Starred):
                return f'(List.flatten {self.E(args[0].value)[0]})', 'list:list:int'
            if n == 'all' and len(args) == 1 and not kw:
                return f'(({self.E(args[0])[0]}).all id)', 'bool'
            if n == 'min' and len(args) == 1 and not kw:
                c0, k0 = self.E(args[0])
                if k0 == 'list:str':
                    return f'(← Py.minStr {c0})', 'str'
                raise Unsupported('min of this kind')
            if n == 'int' and len(args) == 1 and not kw:
                c0, k0 = self.E(args[0])
                if k0 == 'str':
                    return f'(← Py.intOfStr {c0})', 'int'
                raise Unsupported('int() of this kind')
            if n == 'sorted' and len(args) == 1 and set(kw) <= {'key'}:
                c0, k0 = self.E(args[0])
                if 'key' not in kw:
                    raise Unsupported('sorted without key')
                keyf = 'Py.len' if ast.unparse(kw['key']) == 'len' else self.keylam(kw['key'], k0)
                return f'(Py.sorted {keyf} {c0})', k0
            if n == 'reduce' and len(args) == 3 and ast.unparse(args[0]) == 'operator.xor' and not kw:
                return f'(({self.E(args[1])[0]}).foldl Py.xor {self.E(args[2])[0]})', 'int'
            if n == 'reduce' and len(args) == 2 and ast.unparse(args[0]) == 'operator.or_':
                return f'(← Py.reduce Py.lor {self.E(args[1])[0]})', 'int'
            if n == 'reduce' and len(args) == 2 and not kw and ast.unparse(args[0]) == 'operator.add' and self.t.uses_ops:
                xs, kxs = self.E(args[1])
                if kxs != 'list:mv':
                    raise Unsupported('reduce(operator.add, ..) over kind ' + str(kxs))
                return f'(← Py.reduce ops.add {xs})', 'mv'
            if n == 'reduce' and len(args) in (2, 3) and not kw:
                fcode = self.lam2(args[0]) if isinstance(args[0], ast.Lambda) else self.E(args[0])[0]
                xs = self.E(args[1])[0]
                if len(args) == 3:
                    init = self.t.externals.get('reduce-init:' + ast.unparse(args[2]), None)
                    init = init[0] if init else self.E(args[2])[0]
                    return f'(({xs}).foldl {fcode} {init})', 'mat'
                return f'(← Py.reduce {fcode} {xs})', 'mat'
            if n == 'range' and len(args) in (1, 2) and not kw:
                if len(args) == 1:
                    return f'(Py.range (0 : Int) {self.E(args[0])[0]})', 'list'
                return f'(Py.range {self.E(args[0])[0]} {self.E(args[1])[0]})', 'list'
            if n == 'combinations' and len(args) == 1 and set(kw) == {'r'}:
                return f'(Py.combinations {self.E(args[0])[0]} {self.E(kw["r"])[0]})', 'list'
            if n in BY_PY:
                cands = [t_ for t_ in TARGETS if t_.qual.split('.')[-1] == n]
                if len(cands) > 1:
                    # several instantiations of one python function (a parameter fixed to different constants): the one
                    # whose constants are what this call passes (or leaves at its default)
                    def matches(t_):
                        fn_ = FUNCS[t_.qual]
                        names_ = [a.arg for a in fn_.args.args]
                        dflt_ = dict(zip(names_[len(names_) - len(fn_.args.defaults):], fn_.args.defaults))
                        given_ = dict(zip(names_, args)); given_.update(kw)
                        for cn, cv in t_.consts.items():
                            node_ = given_.get(cn, dflt_.get(cn))
                            if not (isinstance(node_, ast.Constant) and node_.value == cv):
                                return False
                        return True
                    cands = [t_ for t_ in cands if matches(t_)]
                    if len(cands) != 1:
                        raise Unsupported(f'no unique instantiation of {n} for this call')
                    return self.call_target(cands[0], args, kw)
                return self.call_target(BY_PY[n], args, kw)
            if self.kinds.get(n) == 'fun':
                return '(' + n + ' ' + ' '.join(self.E(a)[0] for a in args) + ')', 'int'
            if self.kinds.get(n) == 'funcobj' and self.t.env and not kw:
                return f'(← env.apply {n} ' + ' '.join(self.E(a)[0] for a in args) + ')', None
            raise Unsupported(f'call of {n}')
        if isinstance(f, ast.Attribute) and self.is_alg(f.value) and f.attr in BY_PY and not BY_PY[f.attr].is_property:
            return self.call_target(BY_PY[f.attr], args, kw)
        if isinstance(f, ast.Attribute):
            # bin(k).count('1')
            if f.attr == 'count' and isinstance(f.value, ast.Call) and isinstance(f.value.func, ast.Name) and f.value.func.id == 'bin' \
                    and len(args) == 1 and isinstance(args[0], ast.Constant) and args[0].value == '1':
                return f'(Py.popcount {self.E(f.value.args[0])[0]})', 'int'
            if f.attr == 'join' and isinstance(f.value, ast.Constant) and f.value.value != '' and len(args) == 1:
                c0, k0 = self.E(args[0])
                sep = '[' + ', '.join(f"'{ch}'" for ch in f.value.value) + ']'
                if k0 == 'list:str':
                    return f'(Py.joinStr {sep} {c0})', 'str'
                raise Unsupported('join of this kind')
            if f.attr == 'join' and isinstance(f.value, ast.Constant) and f.value.value == '' and len(args) == 1:
                c0, k0 = self.E(args[0])
                if k0 == 'list:str':
                    return f'(List.flatten {c0})', 'str'
                return c0, 'str'
            if f.attr == 'bit_length' and not args:
                return f'(Py.bitLength {self.E(f.value)[0]})', 'int'
            v, kv = self.E(f.value)
            if kv == 'mv' and self.t.uses_ops and f.attr in ('conjugate', 'involute', 'reverse') and not args:
                return f'(ops.{f.attr} {v})', 'mv'
            if kv == 'mv' and self.t.uses_ops and f.attr in ('sp', 'ip', 'op', 'gp') and len(args) == 1:
                return f'(ops.{f.attr} {v} {self.E(args[0])[0]})', 'mv'
            if kv == 'mv' and self.t.uses_ops and f.attr == 'grade' and args:
                return f'(ops.grade {v} [' + ', '.join(self.E(a)[0] for a in args) + '])', 'mv'
            if f.attr == 'get' and (kv or '').startswith('dict') and len(args) == 2:
                if isinstance(args[1], ast.Constant) and args[1].value is False:
                    # `d.get(k, False)`: absent or the value; python then tests its truthiness
                    return f'(Py.dictGet? {v} {self.E(args[0])[0]})', 'opt:' + (kv[5:] if kv.startswith('dict:') else 'val')
                return f'(Py.dictGetD {v} {self.E(args[0])[0]} {self.E(args[1])[0]})', (kv[5:] if kv.startswith('dict:') else None)
            if f.attr == 'copy' and (kv == 'list' or (kv or '').startswith('list:')) and not args:
                return v, 'list'
            if f.attr == 'items' and (kv or '').startswith('dictkv:') and not args:
                return v, 'items:' + kv[7:]
            if f.attr == 'items' and v in self.t.items_kinds and not args:
                return v, 'items:' + self.t.items_kinds[v]
            if f.attr == 'items' and (kv in ('mv', 'dict') or (kv or '').startswith('dict')) and not args:
                return v, 'list'
            if f.attr == 'values' and kv in ('mv', 'dict') and not args:
                return f'(Py.dictValues {v})', 'list'
            if f.attr == 'keys' and kv in ('mv', 'dict') and not args:
                return f'(Py.dictKeys {v})', 'list'
            if f.attr == 'index' and (kv in ('list', 'str') or (kv or '').startswith('list:')) and len(args) == 1:
                return f'(← Py.index {v} {self.E(args[0])[0]})', 'int'
            if f.attr == 'pop' and (kv in ('list', 'str') or (kv or '').startswith('list:')) and len(args) == 1 and isinstance(f.value, ast.Name):
                t = self.fresh('popped')
                self.pre.append(f'let {t} ← Py.pop {v} {self.E(args[0])[0]}')
                self.pre.append(f'{v} := {t}.2')
                return f'{t}.1', None
            raise Unsupported(f'method {f.attr} on kind {kv}')
        if self.t.env:
            fv, kf = self.E(f)
            if kf == 'funcobj' and not kw:
                return f'(← env.apply {fv} ' + ' '.join(self.E(a)[0] for a in args) + ')', None
        raise Unsupported('call form')

    def call_target(self, tgt, args, kw):
        """call of another translated function: fill defaults from *its* current signature"""
        fn = FUNCS[tgt.qual]
        names = [a.arg for a in fn.args.args]
        defaults = dict(zip(names[len(names) - len(fn.args.defaults):], fn.args.defaults))
        if (tgt.env or tgt.self_name == 'self') and names[:1] == ['self']:
            names = names[1:]
        given = dict(zip(names, args))
        for k, v in kw.items():
            if k not in names:
                raise Unsupported(f'unknown keyword {k} for {tgt.lean}')
            given[k] = v
        out = []
        pk = {p: k for p, _, k in tgt.params}
        if (tgt.env or tgt.self_name == 'self') and names[:1] == ['self']:
            names = names[1:]
        if [n_ for n_ in names if n_ not in tgt.consts] != [p for p, _, _ in tgt.params]:
            raise Unsupported(f'signature of {tgt.qual} changed: {names}')
        for nme in names:
            if nme in tgt.consts:
                continue
            if nme in given:
                if pk[nme] == 'list' and isinstance(given[nme], ast.Tuple):
                    c, k = self.default_expr(given[nme])
                else:
                    c, k = self.E(given[nme])
                src_default = False
            elif nme in defaults:
                c, k = self.default_expr(defaults[nme])
                src_default = True
            else:
                raise Unsupported(f'missing argument {nme} for {tgt.lean}')
            if pk[nme].startswith('opt:') and k != 'none' and not (k or '').startswith('opt:'):
                c = f'(some {c})'
            out.append(c)
        a = 'alg ' if tgt.uses_alg else ''
        if tgt.uses_ops or tgt.uses_mops:
            a += 'ops '
        for p_, _ in tgt.extra_params:
            a += p_ + ' '
        return f'(← {tgt.lean} {a}' + ' '.join(out) + ')', ('mv' if tgt.ret == MV else 'int' if tgt.ret == 'Int' else 'str' if tgt.ret == 'List Char' else None)

    def default_expr(self, node):
        if isinstance(node, ast.Attribute) and isinstance(node.value, ast.Name) and node.value.id == 'operator' and node.attr == 'xor':
            return 'Py.xor', 'fun'
        if isinstance(node, ast.Name) and node.id == 'abs':
            return 'Py.abs', 'fun'
        if isinstance(node, ast.Tuple):
            return '[' + ', '.join(self.E(e)[0] for e in node.elts) + ']', 'list'
        return self.E(node)

    # ---------------------------------------------------------------- statements
    def bind(self, name, code, kind):
        """`name = code` as a do-statement"""
        old_kind = self.kinds.get(name)
        if name in self.declared and kind is not None and old_kind is not None and {kind, old_kind} == {'int', 'str'}:
            # python re-binds the name to a value of another type: a fresh Lean name from here on
            self.tmp += 1
            new = f'{name}__{self.tmp}'
            self.rename[name] = new
            self.kinds[name] = kind
            return f'let {new} := {code}'
        if kind is not None:
            self.kinds[name] = kind
        ty = f' : {self.types[name]}' if name in self.types else ''
        if name in self.declared:
            return f'{name} := {code}'
        self.declared.add(name)
        mut = 'mut ' if name in self.mutable else ''
        return f'let {mut}{name}{ty} := {code}'

    def flush(self, ind):
        out = [ind + s for s in self.pre]
        self.pre = []
        return out

    def S(self, st, ind):
        """list of lines"""
        out = []
        if isinstance(st, ast.Expr):
            if isinstance(st.value, ast.Constant) and isinstance(st.value.value, str):
                return []                                      # docstring
            if isinstance(st.value, ast.Call):
                c = st.value
                if isinstance(c.func, ast.Attribute) and isinstance(c.func.value, ast.Name):
                    obj = c.func.value.id
                    if obj in ('warnings', 'logging', 'logger', 'log'):
                        return []                              # diagnostics: no effect on the result
                    m = c.func.attr
                    if m == 'append' and len(c.args) == 1:
                        a, _ = self.E(c.args[0])
                        return self.flush(ind) + [f'{ind}{obj} := Py.append {obj} {a}']
                    if m == 'remove' and len(c.args) == 1:
                        a, _ = self.E(c.args[0])
                        return self.flush(ind) + [f'{ind}{obj} := (← Py.remove {obj} {a})']
                    if m == 'extend' and len(c.args) == 1:
                        a, _ = self.E(c.args[0])
                        return self.flush(ind) + [f'{ind}{obj} := {obj} ++ {a}']
                    if m == 'insert' and len(c.args) == 2:
                        i, _ = self.E(c.args[0])
                        a, _ = self.E(c.args[1])
                        return self.flush(ind) + [f'{ind}{obj} := Py.insert {obj} {i} {a}']
                if isinstance(c.func, ast.Name) and c.func.id == 'print':
                    return []                                  # diagnostics: no effect on the result
            raise Unsupported('expression statement')
        if isinstance(st, ast.Assign) and len(st.targets) == 1 and isinstance(st.targets[0], ast.Name) and isinstance(st.value, ast.Call) \
                and isinstance(st.value.func, ast.Attribute) and st.value.func.attr == 'pop' and isinstance(st.value.func.value, ast.Name) \
                and self.kinds.get(st.value.func.value.id) == 'dict' and len(st.value.args) == 1:
            # `v = d.pop(k)` on a dict: the value (KeyError when absent), and the entry is gone
            dn = st.value.func.value.id
            kc, _ = self.E(st.value.args[0])
            line = self.bind(st.targets[0].id, f'(← Py.dictGet {dn} {kc})', 'coef')
            return self.flush(ind) + [ind + line, f'{ind}{dn} := Py.dictDel {dn} {kc}']
        if isinstance(st, ast.Assign) and len(st.targets) == 1 and isinstance(st.targets[0], ast.Tuple) and len(st.targets[0].elts) == 2 \
                and all(isinstance(e, ast.Name) for e in st.targets[0].elts) and isinstance(st.value, ast.Call) and isinstance(st.value.func, ast.Name) \
                and st.value.func.id == 'zip' and len(st.value.args) == 1 and isinstance(st.value.args[0], ast.Starred) \
                and isinstance(st.value.args[0].value, ast.GeneratorExp):
            # `ks, vs = zip(*((k, v) for ..))`: the two columns of the pairs; python raises ValueError (not enough values to
            # unpack) when there is no pair
            pairs, _ = self.E(st.value.args[0].value)
            tmp = self.fresh('pairs')
            a, b = (e.id for e in st.targets[0].elts)
            out = self.flush(ind) + [f'{ind}let {tmp} := {pairs}', f'{ind}if {tmp}.isEmpty then throw "ValueError"']
            out.append(ind + self.bind(a, f'({tmp}.map (·.1))', self.kinds.get(a)))
            out.append(ind + self.bind(b, f'({tmp}.map (·.2))', self.kinds.get(b)))
            return out
        if isinstance(st, ast.Assign) and len(st.targets) == 1 and isinstance(st.targets[0], ast.Attribute) and st.targets[0].attr == '_values' \
                and isinstance(st.targets[0].value, ast.Name) and self.kinds.get(st.targets[0].value.id) == 'mv' and self.t.uses_ops:
            # `W._values = tuple(v / j for v in W._values)`: every coefficient divided by the integer j
            nm = st.targets[0].value.id
            v = st.value
            ok = isinstance(v, ast.Call) and isinstance(v.func, ast.Name) and v.func.id == 'tuple' and len(v.args) == 1 and isinstance(v.args[0], ast.GeneratorExp) \
                and len(v.args[0].generators) == 1 and not v.args[0].generators[0].ifs and ast.unparse(v.args[0].generators[0].iter) == f'{nm}._values' \
                and isinstance(v.args[0].elt, ast.BinOp) and isinstance(v.args[0].elt.op, ast.Div) \
                and ast.unparse(v.args[0].elt.left) == ast.unparse(v.args[0].generators[0].target)
            if not ok:
                raise Unsupported('assignment to _values of this form')
            dv, dk = self.E(v.args[0].elt.right)
            if dk != 'int':
                raise Unsupported('division of coefficients by kind ' + str(dk))
            return self.flush(ind) + [f'{ind}{self.rename.get(nm, nm)} := ops.divInt {self.rename.get(nm, nm)} {dv}']
        if isinstance(st, ast.Assign):
            if len(st.targets) != 1:
                raise Unsupported('multiple assignment targets')
            tg = st.targets[0]
            if isinstance(tg, ast.Name) and tg.id in self.t.drop_assign:
                return []
            if isinstance(tg, ast.Subscript) and self.t.state and ast.unparse(tg.value) in self.t.state:
                fld, _ = self.t.state[ast.unparse(tg.value)]
                k_, _ = self.E(tg.slice)
                v_, _ = self.E(st.value)
                return self.flush(ind) + [f'{ind}modify fun s => {{ s with {fld} := Py.dictSet s.{fld} {k_} {v_} }}']
            if isinstance(tg, ast.Name):
                # `p = p or <default>` for an optional parameter p: from here on p is the plain value
                if (self.kinds.get(tg.id) or '').startswith('opt:') and isinstance(st.value, ast.BoolOp) and isinstance(st.value.op, ast.Or) \
                        and isinstance(st.value.values[0], ast.Name) and st.value.values[0].id == tg.id:
                    c, k = self.E(st.value)
                    self.kinds[tg.id] = k
                    return self.flush(ind) + [f'{ind}let {tg.id} := {c}']
                if isinstance(st.value, ast.Lambda):
                    c, k = self.lam(st.value, self.types.get(tg.id) == FILT)
                else:
                    c, k = self.E(st.value)
                # empty literals need the declared type
                if isinstance(st.value, ast.Dict) and not st.value.keys:
                    c, k = '[]', 'dict'
                line = self.bind(tg.id, c, k if k is not None else self.kinds.get(tg.id))
                return self.flush(ind) + [ind + line]
            if isinstance(tg, (ast.Tuple, ast.List)):
                c, k = self.E(st.value)
                names = self._target_names(tg)
                if names and all(n in self.declared for n in names):
                    if all(n in self.mutable for n in names):
                        return self.flush(ind) + [f'{ind}{self.pat(tg)} := {c}']
                    raise Unsupported('tuple re-assignment of an immutable name')
                if any(n in self.declared for n in names):
                    # some of the targets exist already (e.g. a parameter that is re-bound): go through a temporary
                    if not all(isinstance(e, ast.Name) for e in tg.elts):
                        raise Unsupported('nested tuple re-assignment')
                    tmp = self.fresh('tup')
                    out = self.flush(ind) + [f'{ind}let {tmp} := {c}']
                    n_el = len(tg.elts)
                    for i, e in enumerate(tg.elts):
                        proj = tmp + ''.join('.2' for _ in range(i)) + ('.1' if i < n_el - 1 else '')
                        out.append(ind + self.bind(e.id, proj, None))
                    return out
                for n in names:
                    self.declared.add(n)
                mut = 'mut ' if any(n in self.mutable for n in names) else ''
                if self.t.env and isinstance(st.value, ast.Call) and ast.unparse(st.value) in self.t.externals:
                    # result of an external call: kinds from the TARGETS table
                    for n in names:
                        if n in self.t.locals:
                            self.kinds[n] = self.t.locals[n][1]
                return self.flush(ind) + [f'{ind}let {mut}{self.pat(tg)} := {c}']
            if isinstance(tg, ast.Subscript) and isinstance(tg.value, ast.Name) and self.kinds.get(tg.value.id) in ('dict', 'mv'):
                d = tg.value.id
                k_, _ = self.E(tg.slice)
                v_, _ = self.E(st.value)
                return self.flush(ind) + [f'{ind}{d} := Py.dictSet {d} {k_} {v_}']
            raise Unsupported('assignment form')
        if isinstance(st, ast.AnnAssign) and st.value is not None and isinstance(st.target, ast.Name):
            return self.S(ast.Assign(targets=[st.target], value=st.value), ind)     # the annotation is not semantics
        if isinstance(st, ast.Assert):
            t = self.truth(st.test)
            return self.flush(ind) + [f'{ind}if (!{t}) then', f'{ind}  throw "AssertionError"']
        if isinstance(st, ast.AugAssign):
            op = {'Add': '+', 'Sub': '-', 'Mult': '*'}.get(type(st.op).__name__)
            if op is None:
                raise Unsupported('augmented operator')
            v_, _ = self.E(st.value)
            if isinstance(st.target, ast.Name):
                n = st.target.id
                return self.flush(ind) + [f'{ind}{n} := {n} {op} {v_}']
            tg = st.target
            if isinstance(tg, ast.Subscript) and isinstance(tg.value, ast.Name) and self.kinds.get(tg.value.id) in ('dict', 'mv'):
                d = tg.value.id
                k_, _ = self.E(tg.slice)
                return self.flush(ind) + [f'{ind}{d} := Py.dictSet {d} {k_} ((← Py.dictGet {d} {k_}) {op} {v_})']
            raise Unsupported('augmented assignment form')
        if isinstance(st, ast.Return):
            if st.value is None:
                raise Unsupported('bare return')
            key = 'return:' + ast.unparse(st.value)
            c = self.t.externals[key][0] if key in self.t.externals else self.E(st.value)[0]
            return self.flush(ind) + [f'{ind}return {c}']
        if isinstance(st, ast.While):
            if st.orelse:
                raise Unsupported('while-else')
            self.nwhile = getattr(self, 'nwhile', 0)
            if self.nwhile >= len(self.t.fuel):
                raise Unsupported('while loop without a fuel expression')
            fuel = self.t.fuel[self.nwhile]
            self.nwhile += 1
            t = self.truth(st.test)
            if self.pre or '←' in t:
                raise Unsupported('loop condition that binds or can raise')
            # python's `while c: body` as a bounded loop; running out of fuel with c still true is an error ("FUEL"): a
            # translation that returns went through at most `fuel` iterations
            has_break = any(isinstance(n_, ast.Break) for n_ in ast.walk(st))
            flag = f'broke__{self.nwhile}'
            self.loops = getattr(self, 'loops', []) + [flag if has_break else 'while']
            body = self.block(st.body, ind + '  ')
            self.loops = self.loops[:-1]
            if has_break:
                # a python `break` leaves the loop with the condition possibly still true: remembered in a flag
                return [f'{ind}let mut {flag} := false', f'{ind}for _ in List.range ({fuel}) do', f'{ind}  if !{t} then break'] + body + \
                       [f'{ind}if !{flag} && {t} then throw "FUEL"']
            return [f'{ind}for _ in List.range ({fuel}) do', f'{ind}  if !{t} then break'] + body + [f'{ind}if {t} then throw "FUEL"']
        if isinstance(st, ast.Continue):
            return [ind + 'continue']
        if isinstance(st, ast.Break):
            top = (getattr(self, 'loops', None) or ['for'])[-1]
            if top.startswith('broke__'):
                return [f'{ind}{top} := true', ind + 'break']
            return [ind + 'break']
        if isinstance(st, ast.Raise):
            exc = st.exc
            name = exc.id if isinstance(exc, ast.Name) else (exc.func.id if isinstance(exc, ast.Call) and isinstance(exc.func, ast.Name) else None)
            if name is None:
                raise Unsupported('raise form')
            return [f'{ind}throw "{name}"']
        if isinstance(st, ast.For):
            if st.orelse:
                raise Unsupported('for-else')
            it, _ = self.E(st.iter)
            saved = dict(self.kinds)
            self.bind_pat_kinds(st.target, st.iter)
            pat = self.pat(st.target)
            dsaved = set(self.declared)
            for n in self._target_names(st.target):
                self.declared.add(n)
            out = self.flush(ind) + [f'{ind}for {pat} in {it} do']
            body = self.block(st.body, ind + '  ')
            self.kinds = {**saved, **{k: v for k, v in self.kinds.items() if k in saved or k in self.mutable}}
            self.declared = dsaved | {n for n in self.declared if n in self.mutable and n in dsaved}
            return out + body
        if isinstance(st, ast.If) and ast.unparse(st.test) in self.t.skip_if:
            return []
        if isinstance(st, ast.If):
            # the default-filling idiom:  if not p: p = <expr>     (p an optional parameter)
            if isinstance(st.test, ast.UnaryOp) and isinstance(st.test.op, ast.Not) and isinstance(st.test.operand, ast.Name) \
                    and (self.kinds.get(st.test.operand.id) or '').startswith('opt:') and len(st.body) == 1 and not st.orelse \
                    and isinstance(st.body[0], ast.Assign) and isinstance(st.body[0].targets[0], ast.Name) \
                    and st.body[0].targets[0].id == st.test.operand.id:
                p = st.test.operand.id
                c, _ = self.E(st.body[0].value)
                self.kinds[p] = self.kinds[p][4:]
                pre = self.flush(ind)
                if pre:
                    raise Unsupported('binding inside default-filling idiom')
                return [f'{ind}let {p} ← (match {p} with | some v => pure v | none => do pure {c})']
            if isinstance(st.test, ast.Name) and st.test.id in self.t.consts:
                # partial evaluation on a parameter fixed by the TARGETS table
                return self.block(st.body if self.t.consts[st.test.id] else st.orelse, ind) if (st.body if self.t.consts[st.test.id] else st.orelse) else []
            if isinstance(st.test, ast.Compare) and len(st.test.ops) == 1 and isinstance(st.test.ops[0], (ast.IsNot, ast.Is)) \
                    and isinstance(st.test.left, ast.Name) and (self.kinds.get(st.test.left.id) or '').startswith('opt:') \
                    and isinstance(st.test.comparators[0], ast.Constant) and st.test.comparators[0].value is None:
                n = st.test.left.id
                old = self.kinds[n]
                some_body, none_body = (st.body, st.orelse) if isinstance(st.test.ops[0], ast.IsNot) else (st.orelse, st.body)
                out = self.flush(ind) + [f'{ind}if let some {n} := {n} then']
                self.kinds[n] = old[4:]
                dsaved = set(self.declared)
                out += self.block(some_body, ind + '  ')
                self.declared = dsaved | {m for m in self.declared if m in dsaved}
                self.kinds[n] = old
                if none_body:
                    out.append(f'{ind}else')
                    out += self.block(none_body, ind + '  ')
                    self.declared = dsaved | {m for m in self.declared if m in dsaved}
                return out
            if isinstance(st.test, ast.Name) and (self.kinds.get(st.test.id) or '').startswith('opt:') and not st.orelse:
                # `x = d.get(k, False)` ... `if x:`  — present and truthy
                n = st.test.id
                old = self.kinds[n]
                self.kinds[n] = old[4:]
                out = self.flush(ind) + [f'{ind}if let some {n} := {n} then', f'{ind}  if (Py.truthy {n}) then']
                dsaved = set(self.declared)
                out += self.block(st.body, ind + '    ')
                self.declared = dsaved | {m for m in self.declared if m in dsaved}
                self.kinds[n] = old
                return out
            t = self.truth(st.test)
            out = self.flush(ind) + [f'{ind}if {t} then']
            dsaved = set(self.declared)
            rsaved, ksaved = dict(self.rename), dict(self.kinds)
            out += self.block(st.body, ind + '  ')
            self.declared = dsaved | {n for n in self.declared if n in dsaved}
            self.rename = dict(rsaved)
            self.kinds = {**self.kinds, **{k: v for k, v in ksaved.items()}}
            if st.orelse:
                out.append(f'{ind}else')
                out += self.block(st.orelse, ind + '  ')
                self.declared = set(dsaved)
            return out
        if isinstance(st, ast.Try):
            if st.orelse or st.finalbody or len(st.handlers) != 1 or len(st.body) != 1 or not isinstance(st.body[0], ast.Assign) \
                    or len(st.body[0].targets) != 1 or not isinstance(st.body[0].targets[0], ast.Name):
                raise Unsupported('try form')
            h = st.handlers[0]
            if h.name is not None or h.type is None:
                raise Unsupported('except form')
            excs = [h.type.id] if isinstance(h.type, ast.Name) else [e.id for e in h.type.elts] if isinstance(h.type, ast.Tuple) else None
            if not excs or not isinstance(h.body[-1], (ast.Return, ast.Raise)):
                raise Unsupported('except form')
            nm = st.body[0].targets[0].id
            c, k = self.E(st.body[0].value)
            pre = self.flush(ind)
            r = self.fresh('tried')
            cond = ' || '.join(f'e == "{x}"' for x in excs)
            out = pre + [f'{ind}let {r} ← tryCatch (do pure (some {c})) (fun e => if {cond} then pure none else throw e)']
            out.append(f'{ind}let some {nm} := {r}')
            dsaved = set(self.declared)
            hb = self.block(h.body, ind + '    ')
            self.declared = dsaved
            out.append(f'{ind}  | do')
            out += hb
            self.declared.add(nm)
            if k is not None:
                self.kinds[nm] = k
            return out
        if isinstance(st, ast.FunctionDef) and st.name in BY_PY:
            return []                  # a nested function that is a translation target of its own
        if isinstance(st, ast.Pass):
            return [ind + 'pure ()']
        raise Unsupported(f'statement {type(st).__name__}')

    def block(self, stmts, ind):
        out = []
        for s in stmts:
            out += self.S(s, ind)
            if isinstance(s, ast.If) and isinstance(s.test, ast.Name) and s.test.id in self.t.consts:
                taken = s.body if self.t.consts[s.test.id] else s.orelse
                if taken and isinstance(taken[-1], (ast.Return, ast.Raise)):
                    break                  # what follows is dead under the partial evaluation
        if not out:
            out = [ind + 'pure ()']
        return out

    def function(self):
        t = self.t
        ps = []
        if t.uses_alg:
            ps.append('(alg : Alg)')
        if t.uses_ops:
            ps.append('(ops : Ops α)')
        if t.uses_mops:
            ps.append('(ops : MatOps μ)')
        ps += [f'({p} : {ty})' for p, ty in t.extra_params]
        ps += [f'({p} : {ty})' for p, ty, _ in t.params]
        names = [a.arg for a in self.fn.args.args] + ([self.fn.args.vararg.arg] if self.fn.args.vararg else [])
        if (t.env or t.self_name == 'self') and names[:1] == ['self']:
            names = names[1:]
        sig_changed = [n_ for n_ in names if n_ not in t.consts] != [p for p, _, _ in t.params]
        if t.env:
            ps.insert(0, f'(env : {t.env})')
        monad = f'ExceptT String (StateM ({t.state_type}))' if t.state_type else 'Py.M'
        head = f'def {t.lean} {t.tparams} {" ".join(ps)} : {monad} ({t.ret}) := do'
        self.head = head
        if sig_changed:
            raise Unsupported(f'signature changed: {names}')
        lines = [head] + ['  ' + l for l in t.prelude_lets]
        for p, _, _ in t.params:
            if p in self.mutable and not (self.kinds.get(p) or '').startswith('opt:'):
                lines.append(f'  let mut {p} := {p}')
        # names of the TARGETS table that are first assigned inside a branch and read after it: declared up front
        # (python would raise UnboundLocalError if no branch assigned them; the initial value is never read)
        top_assigned = set()
        for st in self.fn.body:
            if isinstance(st, ast.Assign):
                for tg in st.targets:
                    top_assigned.update(self._target_names(tg))
            elif isinstance(st, ast.If):
                inner = {n for sub in ast.walk(st) if isinstance(sub, ast.Assign) for tg in sub.targets for n in self._target_names(tg)}
                later = self.fn.body[self.fn.body.index(st) + 1:]
                read_later = {nd.id for l in later for nd in ast.walk(l) if isinstance(nd, ast.Name) and isinstance(nd.ctx, ast.Load)}
                for n in sorted(inner):
                    if n in t.locals and n in read_later and n not in top_assigned and n not in self.declared:
                        lines.append(f'  let mut {n} : {t.locals[n][0]} := default')
                        self.declared.add(n)
                        self.mutable.add(n)
                        top_assigned.add(n)
        body = self.block(self.fn.body, '  ')
        # statements after a partially evaluated `if <const>: return` are dead
        for i, l in enumerate(body):
            if l.startswith('  return '):
                body = body[: i + 1]
                break
        # a Python function that falls off its end returns None: not modelled
        last = self.fn.body[-1]
        if body and body[-1].startswith('  return '):
            pass
        elif not isinstance(last, (ast.Return, ast.Raise)):
            if isinstance(last, ast.If):
                body.append('  throw "fell-off-the-end"')
            else:
                raise Unsupported('function does not end in return')
        return '\n'.join(lines + body)


FUNCS = {}


def generate(stub=None):
    stub = stub or {}
    trees = {}
    for t in TARGETS:
        if t.file not in trees:
            with open(os.path.join(REPO, t.file)) as f:
                trees[t.file] = ast.parse(f.read())
    chunks = [HEADER]
    report = {}
    for t in TARGETS:
        try:
            FUNCS[t.qual] = find_func(trees[t.file], t.qual)
        except Unsupported as e:
            report[t.lean] = str(e)
    for t in TARGETS:
        if t.lean in report:
            chunks.append(f'-- {t.qual}: NOT TRANSLATED: {report[t.lean]}\n')
            continue
        fn = FUNCS[t.qual]
        tr = None
        try:
            if t.region:
                fn = region_function(t, fn)
            tr = Tr(t, fn)
            code = tr.function()
            if t.lean in stub:
                raise Unsupported('the translation does not type-check: ' + stub[t.lean])
            src = ast.get_source_segment(open(os.path.join(REPO, t.file)).read(), getattr(fn, '_src_node', fn)) or ''
            src = '\n'.join(l for l in src.split('\n'))
            chunks.append(f'/- {t.file}:{fn.lineno}\n{src.replace("/-", "/ -").replace("-/", "- /")}\n-/\n{code}\n')
            report[t.lean] = 'ok'
        except Unsupported as e:
            report[t.lean] = str(e)
            msg = str(e).replace('"', "'").replace('\\', '/')[:150]
            if tr is not None and getattr(tr, 'head', None):
                # a stub with the same Lean signature, so that everything that merely *mentions* the function (the driver,
                # other translated functions) still compiles; every proof about it fails, and running it raises
                chunks.append(f'-- {t.qual}: NOT TRANSLATED: {e}\n{tr.head}\n  throw "NOT TRANSLATED: {msg}"\n')
            else:
                chunks.append(f'-- {t.qual}: NOT TRANSLATED: {e}\n')
    chunks.append('end Kingdon.Src\n')
    return '\n'.join(chunks), report


def write_if_changed():
    text, report = generate()
    old = open(OUT).read() if os.path.exists(OUT) else None
    if old != text:
        os.makedirs(os.path.dirname(OUT), exist_ok=True)
        with open(OUT, 'w') as f:
            f.write(text)
        # the text changed (the source was edited): definitions that do not elaborate become stubs, so that the driver and
        # the other translated functions keep compiling
        try:
            from harness import leancheck
        except ImportError:
            try:
                import leancheck
            except ImportError:
                return report
        stub = {}
        for _ in range(4):
            ok, bad = leancheck.failing_defs(os.path.relpath(OUT, leancheck.LEAN), ['Kingdon.Model.Py'])
            if ok or not bad or set(bad) <= set(stub):
                break
            stub.update(bad)
            text, report = generate(stub)
            with open(OUT, 'w') as f:
                f.write(text)
    return report


if __name__ == '__main__':
    rep = write_if_changed()
    for k, v in rep.items():
        print(f'{k}: {v}')

"""Free commutative polynomial ring over Q (exact) and its field of fractions.

Independent of kingdon's own Polynomial classes.  The real generated functions are executed on
generators of this ring; the result identifies the function as a polynomial (rational) map, so one
comparison per key pattern covers all coefficient values of every commutative ring.
"""
from fractions import Fraction
import numbers


class P:
    """polynomial: dict  monomial (sorted tuple of int variable ids) -> Fraction"""
    __slots__ = ('t',)
    __array_priority__ = 1000

    def __init__(self, t=None):
        self.t = {k: v for k, v in (t or {}).items() if v != 0}

    @staticmethod
    def var(n):
        return P({(n,): Fraction(1)})

    @staticmethod
    def lift(x):
        if isinstance(x, P):
            return x
        if isinstance(x, Q):
            raise TypeError('Q in P')
        if isinstance(x, float):
            if x != int(x):
                return P({(): Fraction(x)})
            return P({(): Fraction(int(x))})
        if isinstance(x, numbers.Rational):
            return P({(): Fraction(x)})
        if hasattr(x, 'is_Rational') and x.is_Rational:   # sympy numbers
            return P({(): Fraction(int(x.p), int(x.q))})
        if hasattr(x, 'item'):
            return P.lift(x.item())
        raise TypeError(f'cannot lift {type(x)} into the tracer ring')

    def __add__(s, o):
        if isinstance(o, Q):
            return Q(s) + o
        o = P.lift(o)
        t = dict(s.t)
        for k, v in o.t.items():
            t[k] = t.get(k, 0) + v
        return P(t)
    __radd__ = __add__

    def __neg__(s):
        return P({k: -v for k, v in s.t.items()})

    def __pos__(s):
        return s

    def __sub__(s, o):
        if isinstance(o, Q):
            return Q(s) - o
        return s + (-P.lift(o))

    def __rsub__(s, o):
        return P.lift(o) - s

    def __mul__(s, o):
        if isinstance(o, Q):
            return Q(s) * o
        o = P.lift(o)
        t = {}
        for k1, v1 in s.t.items():
            for k2, v2 in o.t.items():
                k = tuple(sorted(k1 + k2))
                t[k] = t.get(k, 0) + v1 * v2
        return P(t)
    __rmul__ = __mul__

    def __pow__(s, n):
        if isinstance(n, float) and n == int(n):
            n = int(n)
        if not isinstance(n, int):
            raise TypeError('non-integer power in tracer ring')
        if n < 0:
            return Q(P.lift(1), s ** (-n))
        r = P.lift(1)
        for _ in range(n):
            r = r * s
        return r

    def __truediv__(s, o):
        if isinstance(o, (P, Q)):
            return Q(s) / o
        return s * P({(): 1 / Fraction(P.lift(o).t.get((), 0))})

    def __rtruediv__(s, o):
        return Q(P.lift(o)) / Q(s)

    def __eq__(s, o):
        if isinstance(o, Q):
            return Q(s) == o
        try:
            return s.t == P.lift(o).t
        except TypeError:
            return NotImplemented

    def __ne__(s, o):
        r = s.__eq__(o)
        return r if r is NotImplemented else not r

    def __hash__(s):
        return hash(tuple(sorted(s.t.items())))

    def __bool__(s):
        return bool(s.t)

    def iszero(s):
        return not s.t

    def render(s, scale=1):
        """canonical text identical to the Lean driver's Poly.render (integer coefficients)"""
        if not s.t:
            return '0'
        out = []
        for m in sorted(s.t):
            c = s.t[m] * scale
            assert c.denominator == 1, f'non-integer coefficient {c}'
            out.append('*'.join([str(c.numerator)] + [str(v) for v in m]))
        return '+'.join(out)

    def subs(s, env):
        """evaluate at a dict var-id -> number"""
        tot = 0
        for m, c in s.t.items():
            v = c
            for x in m:
                v = v * env[x]
            tot = tot + v
        return tot

    def __repr__(s):
        return s.render() if all(c.denominator == 1 for c in s.t.values()) else \
            ' + '.join(f'{v}*{"*".join(map(str, k))}' for k, v in sorted(s.t.items())) or '0'


class Q:
    """formal fraction num/den of polynomials (no reduction); equality by cross-multiplication"""
    __slots__ = ('n', 'd')
    __array_priority__ = 1000

    def __init__(self, n, d=None):
        if isinstance(n, Q):
            assert d is None
            self.n, self.d = n.n, n.d
            return
        self.n = P.lift(n)
        self.d = P.lift(1) if d is None else P.lift(d)
        if self.d.iszero():
            raise ZeroDivisionError('tracer: division by the zero polynomial')

    @staticmethod
    def lift(x):
        return x if isinstance(x, Q) else Q(P.lift(x))

    def __add__(s, o):
        o = Q.lift(o)
        if s.d.t == o.d.t:
            return Q(s.n + o.n, s.d)
        return Q(s.n * o.d + o.n * s.d, s.d * o.d)
    __radd__ = __add__

    def __neg__(s):
        return Q(-s.n, s.d)

    def __sub__(s, o):
        return s + (-Q.lift(o))

    def __rsub__(s, o):
        return Q.lift(o) - s

    def __mul__(s, o):
        o = Q.lift(o)
        return Q(s.n * o.n, s.d * o.d)
    __rmul__ = __mul__

    def __truediv__(s, o):
        o = Q.lift(o)
        if o.n.iszero():
            raise ZeroDivisionError('tracer: division by zero')
        return Q(s.n * o.d, s.d * o.n)

    def __rtruediv__(s, o):
        return Q.lift(o) / s

    def __pow__(s, n):
        if isinstance(n, float) and n == int(n):
            n = int(n)
        if not isinstance(n, int):
            raise TypeError('non-integer power in tracer ring')
        if n < 0:
            return (Q(P.lift(1)) / s) ** (-n)
        r = Q(P.lift(1))
        for _ in range(n):
            r = r * s
        return r

    def __eq__(s, o):
        try:
            o = Q.lift(o)
        except TypeError:
            return NotImplemented
        return (s.n * o.d).t == (o.n * s.d).t

    def __ne__(s, o):
        r = s.__eq__(o)
        return r if r is NotImplemented else not r

    def __hash__(s):
        return 0

    def __bool__(s):
        return bool(s.n.t)

    def iszero(s):
        return not s.n.t

    def subs(s, env):
        return Fraction(s.n.subs(env)) / Fraction(s.d.subs(env))

    def __repr__(s):
        return f'({s.n!r})/({s.d!r})'


def iszero(x):
    if isinstance(x, (P, Q)):
        return x.iszero()
    return x == 0


def equal(a, b):
    """exact equality of ring elements (P, Q or numbers)"""
    if isinstance(a, Q) or isinstance(b, Q):
        return Q.lift(a) == Q.lift(b)
    return P.lift(a) == P.lift(b)

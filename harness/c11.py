"""C11 — registered (compiled) expressions equal direct evaluation.

Tie:    dispatch tables of MultiVector and TapeRecorder re-extracted from source (harness/extract_tables.py) and compared
        by `decide` in Lean (Properties/C11.lean); the induction over expression trees is proved for arbitrary tables.
Oracle: generated python functions over the documented operator surface are evaluated three ways on the real code —
        f(args), alg.register(f)(args), alg.register(symbolic=True)(f)(args) — and compared blade by blade.
        For supported constructs the registered routes must return the same multivector; for anything else they may
        raise but must never return something different.
"""
from fractions import Fraction
from harness.common import *
from harness.opcorr import key_tuples, mv_to_dict

INFIX = ['*', '^', '|', '&', '>>', '@', '+', '-', '/']
METHODS2 = ['gp', 'op', 'ip', 'rp', 'sw', 'proj', 'cp', 'acp', 'lc', 'rc', 'sp', 'add', 'sub', 'div']
UNARY_PRE = ['~', '-']
METHODS1 = ['reverse', 'involute', 'conjugate', 'normsq', 'inv', 'neg', 'hodge', 'unhodge', 'dual', 'undual', 'polarity', 'unpolarity']
FLOATY = ['norm', 'normalized', 'sqrt']


MIXED = ['a + b.inv()', 'b.inv() + a', 'a - b.inv()', 'b.inv() - a', 'a + a / b', 'a / b + a', 'a - b * a * b.inv()',
         'a + b ** -1', '1 + a ** -1', 'a ** -1 + 1', '(a | b) + (b * a) / b.normsq() + 2', 'a * b.inv() + b', '(a + b.inv()) * a']


# reciprocals of single coefficients (of either sign) multiplied with something: on the symbolic route these are quotients of
# single monomials in kingdon's RationalPolynomial (the common-factor branch of its product)
RECIP = ['a * (a | a).e ** -1', 'b * (a * a).e ** -1', '(a * b).e ** -1 * a', 'a * (b | b).e ** -3', '(a | a).e ** -1 * (a + b)',
         'a * ((-a) | b).e ** -1', '(2 * a) * (a * (-3 * b)).e ** -1']
# plain numbers as operands, several in one function: pairs whose python hashes coincide (-1/-2, 0/2**61-1), equal values of
# different types, and ordinary pairs
CONST_PAIRS = [(-1, -2), (-2, -1), (0, 2305843009213693951), (1, 1.0), (2, 3), (-1, 1), (-1.0, -2), (0.5, 2)]
CONST_FORMS = ['({c1} * a) + ({c2} * b)', '({c1} * a) * (b + {c2})', '(a * {c1}) - (b - {c2})', '({c1} - a) ^ ({c2} + b)', '({c1} * a) | ({c2} * a)']


class Gen:
    def __init__(self, rng, nargs, alg, exact=True):
        self.rng, self.nargs, self.alg, self.exact = rng, nargs, alg, exact
        self.unsupported = False

    def arg(self):
        return 'abc'[self.rng.randrange(self.nargs)]

    def expr(self, depth):
        r = self.rng.random()
        if depth <= 0 or r < 0.18:
            return self.arg()
        if r < 0.45:
            op = self.rng.choice(INFIX)
            if op == '/' and self.rng.random() < 0.6:
                return f'({self.expr(depth - 1)} / {self.rng.choice([2, 4, -3])})'
            return f'({self.expr(depth - 1)} {op} {self.expr(depth - 1)})'
        if r < 0.6:
            return f'{self.expr(depth - 1)}.{self.rng.choice(METHODS2)}({self.expr(depth - 1)})'
        if r < 0.68:
            return f'({self.rng.choice(UNARY_PRE)}{self.expr(depth - 1)})'
        if r < 0.8:
            m = self.rng.choice(METHODS1)
            return f'{self.expr(depth - 1)}.{m}()'
        if r < 0.86:
            gs = sorted(self.rng.sample(range(self.alg.d + 1), self.rng.randint(1, 2)))
            form = self.rng.choice(['args', 'tuple'])
            return f'{self.expr(depth - 1)}.grade({", ".join(map(str, gs))})' if form == 'args' else f'{self.expr(depth - 1)}.grade(({", ".join(map(str, gs))},))'
        if r < 0.93:
            n = self.rng.choice([2, 3, -2, 5, -1, 0])
            form = self.rng.choice(['n*x', 'x*n', 'n+x', 'x+n', 'x-n', 'n-x', 'n^x', 'x^n'])
            x = self.expr(depth - 1)
            return {'n*x': f'({n} * {x})', 'x*n': f'({x} * {n})', 'n+x': f'({n} + {x})', 'x+n': f'({x} + {n})', 'x-n': f'({x} - {n})',
                    'n-x': f'({n} - {x})', 'n^x': f'({n} ^ {x})', 'x^n': f'({x} ^ {n})'}[form]
        if r < 0.97:
            p = self.rng.choice([2, 3, -1, -2, 0, 1])
            return f'({self.expr(depth - 1)} ** {p})'
        nm = self.rng.choice(list(self.alg.canon2bin.keys()))
        letters = list(nm[1:]); self.rng.shuffle(letters)
        return f'({self.expr(depth - 1)}.e{"".join(letters)} * {self.arg()})'


def exhaustive_depth1(nargs=2):
    out = []
    for op in INFIX:
        out.append(f'a {op} b'); out.append(f'b {op} a')
    for m in METHODS2:
        out.append(f'a.{m}(b)')
    for u in UNARY_PRE:
        out.append(f'{u}a')
    for m in METHODS1 + FLOATY:
        out.append(f'a.{m}()')
    for n in (2, -3):
        out += [f'{n} * a', f'a * {n}', f'{n} + a', f'a + {n}', f'a - {n}', f'{n} - a', f'a / {n}', f'{n} ^ a', f'a ^ {n}', f'{n} | a', f'a | {n}',
                f'{n} / a', f'{n} >> a', f'{n} @ a', f'{n} & a']
    for p in (0, 1, 2, 3, -1, -2):
        out.append(f'a ** {p}')
    out += ['a.grade(1)', 'a.grade(0, 2)', 'a.grade((1, 2))', 'a.e1 * b', 'a.e12 * b', 'a.e21 * b', 'a.e * b']
    # spellings of every parity of the pseudoscalar-like blades (odd and even permutations; the latter need grade >= 3)
    out += ['a.e123 * b', 'a.e231 * b', 'a.e312 * b', 'a.e213 * b', 'a.e321 * b', 'a.e132 * b', 'a.e012 * b', 'a.e120 * b', 'a.e201 * b',
            'a.e102 * b', 'a.e23 * b + a.e32 * a']
    out += ['a.normalized()', 'a.normalized() * b', 'a.norm() * b', '(a * b).normalized()']
    return out


def make_func(src, name, nargs, extra=None):
    ns = dict(extra or {})
    exec(f'def {name}({", ".join("abc"[:nargs])}):\n    return {src}\n', ns)
    return ns[name]


def values_for(alg, rng, keys, exact):
    from kingdon import MultiVector
    vals = [Fraction(rng.randint(-4, 7), rng.choice([1, 1, 2])) if exact else float(rng.randint(-4, 7)) + 0.5 for _ in keys]
    return MultiVector.fromkeysvalues(alg, tuple(keys), vals)


def result_of(f, args):
    try:
        r = f(*args)
    except Exception as e:
        return ('raise', type(e).__name__)
    from kingdon import MultiVector
    if isinstance(r, MultiVector):
        return ('ok', mv_to_dict(r))
    return ('ok-other', repr(r)[:60])


def close(a, b):
    if set(a) != set(b):
        za = {k: v for k, v in a.items() if abs(complex(v)) > 1e-9}
        zb = {k: v for k, v in b.items() if abs(complex(v)) > 1e-9}
        if set(za) != set(zb):
            return False
        a, b = za, zb
    for k in a:
        x, y = a[k], b[k]
        if isinstance(x, Fraction) and isinstance(y, Fraction):
            if x != y:
                return False
        else:
            try:
                if abs(complex(x) - complex(y)) > 1e-8 * max(1.0, abs(complex(x))):
                    return False
            except Exception:
                if x != y:
                    return False
    return True


SUPPORTED_EXCEPT = ['/ a', '>> a', '@ a', '& a', '| a']     # number on the left of these is not in the supported fragment


def is_supported(src):
    import re
    # `n / x`, `n >> x`, `n @ x`, `n & x`, `n | x` with a plain number on the left are outside the supported fragment
    return re.search(r'(?<![\w.)])-?\d+ (/|>>|@|&|\|) ', src) is None


def same_name_pass(ctx):
    """different functions that share a __name__ (closures of one factory), registered on one algebra, called alternately and
    from inside other registered functions"""
    def make(k):
        def scale(x):
            return k * x
        return scale
    for wrapper in (None, (lambda f: f)):
        alg = make_algebra([1, 1, 1], **({'wrapper': wrapper} if wrapper else {}))
        s2, s3 = make(2), make(3)
        r2, r3 = alg.register(s2), alg.register(s3)
        x = alg.multivector(e1=Fraction(1), e2=Fraction(2))

        def outer2(x):
            return r2(x) + x

        def outer3(x):
            return r3(x) + x
        seq = [('scale2', r2, s2), ('scale3', r3, s3), ('scale2', r2, s2), ('outer2', alg.register(outer2), outer2),
               ('outer3', alg.register(outer3), outer3), ('outer2', alg.register(outer2), outer2)]
        for i, (nm, reg, plain) in enumerate(seq):
            case = {'scenario': 'two registered closures with the same __name__', 'wrapper': bool(wrapper), 'call': nm, 'call_index': i}
            ctx.case(case, tag='same-name')
            got, exp = result_of(reg, [x]), result_of(plain, [x])
            if got != exp:
                ctx.violation('registered-differs', case, str(exp), str(got),
                              key=f'registered:same-name:{"wrapper" if wrapper else "nowrapper"}:{nm}#{i}')
                break


def constants_history_pass(ctx):
    """registered functions that differ only in a plain-number operand, traced one after the other on one algebra, then called
    again in the other order: each keeps computing with its own number (pairs of numbers with equal python hash included)"""
    for c1, c2 in CONST_PAIRS:
        alg = make_algebra([1, 1, 1])
        f1 = make_func(f'{c1} * a + (a ^ ({c2 if False else c1} + a))', 'with_first', 1)
        f2 = make_func(f'{c2} * a + (a ^ ({c2} + a))', 'with_second', 1)
        r1, r2 = alg.register(f1), alg.register(f2)
        x = alg.multivector(e1=Fraction(3), e12=Fraction(5))
        for i, (nm, reg, plain) in enumerate([('with_first', r1, f1), ('with_second', r2, f2), ('with_first', r1, f1), ('with_second', r2, f2)]):
            case = {'scenario': 'registered functions differing in a number', 'numbers': [c1, c2], 'call': nm, 'call_index': i}
            ctx.case(case, tag='constants-history')
            got, exp = result_of(reg, [x]), result_of(plain, [x])
            if got[0] == 'ok' and exp[0] == 'ok' and not close(got[1], exp[1]) or got[0] != exp[0]:
                ctx.violation('registered-differs', case, str(exp)[:200], str(got)[:200], key='registered:differs:constants-history')
                break


def parameter_names_pass(ctx):
    """(a) the registered function's own parameter names: names of which one is another followed by hex digits ((x, x1), (R, R1),
    (p, p0, q), (a, ab)), with operands whose blades make `<name><blade digits>` coincide (x.e12 / x1.e2); (b) float constants
    far below 1 in sums of like terms (5e-13*a + 5e-13*a) evaluated on large coefficients: both routes return what the plain
    function returns"""
    from kingdon import MultiVector
    rng = ctx.rng
    namesets = [('x', 'x1'), ('R', 'R1'), ('p', 'p0', 'q'), ('a', 'ab'), ('v', 'v12', 'v1'), ('a', 'b')]
    bodies2 = ['{0} * {1}', '{0} >> {1}', '({0} | {1}) + {0} * {1}', '{1} * {0} - ({0} ^ {1})']
    bodies3 = ['{0} * {1} * {2}', '({0} >> {1}) + {2}', '{0} * {2} - {1} * {2}']
    for sig in ([1, 1, 1], [0, 1, 1, 1]):
        alg = make_algebra(sig)
        names = list(alg.canon2bin)
        for ns in namesets:
            for body in (bodies2 if len(ns) == 2 else bodies3):
                src = body.format(*ns)
                glob = {}
                exec(f'def named({", ".join(ns)}):\n    return {src}\n', glob)
                f = glob['named']
                # operands: the first has blades with two-digit names, the later ones blades whose names are one digit shorter
                k0 = [alg.canon2bin[n] for n in names if len(n) == 3][:3]
                k1 = [alg.canon2bin[n] for n in names if len(n) == 2][:3]
                pats = [k0, k1, k1[::-1]][:len(ns)]
                args = [MultiVector.fromkeysvalues(alg, tuple(p_), [Fraction(rng.randint(2, 9)) for _ in p_]) for p_ in pats]
                direct = result_of(f, args)
                if direct[0] != 'ok':
                    continue
                for rname, mk in (('registered', lambda: alg.register(f)), ('registered-symbolic', lambda: alg.register(symbolic=True)(f))):
                    case = {'sig': sig, 'parameters': list(ns), 'src': src, 'keys': [list(p_) for p_ in pats], 'route': rname}
                    ctx.case(case, tag='parameter-names')
                    try:
                        got = result_of(mk(), args)
                    except Exception as e:
                        got = ('raise', type(e).__name__)
                    if got[0] != 'ok' or not close(got[1], direct[1]):
                        ctx.violation('registered-differs', case, str(direct[1])[:250], str(got[1])[:250], key=f'{rname}:differs:parameter-names')
        # (b)
        tiny = ['5e-13 * a + 5e-13 * a', '4e-13 * a - 1e-13 * a', '2e-13 * (b * a) - 2e-13 * (a * b)', '1e-15 * a + 1e-15 * a + b', '3e-14 * (a | b) + 3e-14 * (b | a)']
        for src in tiny:
            f = make_func(src, 'tiny_fn', 2)
            ka, kb = [1, 2, 4][: alg.d], [3, 5]
            args = [MultiVector.fromkeysvalues(alg, tuple(ka), [float(rng.randint(1, 9)) * 1e12 for _ in ka]),
                    MultiVector.fromkeysvalues(alg, tuple(kb), [float(rng.randint(1, 9)) * 1e3 for _ in kb])]
            direct = result_of(f, args)
            if direct[0] != 'ok':
                continue
            for rname, mk in (('registered', lambda: alg.register(f)), ('registered-symbolic', lambda: alg.register(symbolic=True)(f))):
                case = {'sig': sig, 'src': src, 'route': rname, 'coefficients': 'about 1e12 and 1e3'}
                ctx.case(case, tag='tiny-constants')
                try:
                    got = result_of(mk(), args)
                except Exception as e:
                    got = ('raise', type(e).__name__)
                ok = got[0] == 'ok' and set(k for k, v in got[1].items() if abs(v) > 1e-9) == set(k for k, v in direct[1].items() if abs(v) > 1e-9) and \
                    all(abs(got[1].get(k, 0) - v) <= 1e-9 * max(1.0, abs(v)) for k, v in direct[1].items())
                if not ok:
                    ctx.violation('registered-differs', case, str(direct[1])[:250], str(got[1])[:250], key=f'{rname}:differs:tiny-constants')


def construct_class(src):
    """which construct of the surface is involved (for telling findings apart)"""
    import re
    if re.search(r'\.e[0-9a-f]*\b(?!\()', src):
        # a coefficient (possibly raised to an integer power) as the LEFT operand of an operator whose right operand is not a
        # plain number: the construct of F17 (RationalPolynomial's operator receives the multivector); a coefficient used
        # anywhere else is a different construct
        if re.search(r'\.e[0-9a-f]*\b(?!\()( \*\* -?\d+)?\)* (\*|\+|-|/|\^|\||&|>>|@) (?!-?\d)', src):
            return 'coefficient-access'
        return 'coefficient-value'
    if any(m in src for m in ('.norm()', '.normalized()', '.sqrt()', '** 0.5')):
        return 'sqrt'
    return 'other'


def run(ctx):
    ctx.rule = ('python functions over the documented operator surface (infix and method forms, duals, norm/normalized, grade, numbers on '
                'either side, integer powers of either sign, coefficient access with canonical and permuted spellings, calls of other '
                'registered functions): all depth-1 forms exhaustively, seeded trees to depth 3 (quick) / 5 (thorough), 1-3 arguments, '
                'sparse / permuted key patterns; each compared f(args) vs register(f)(args) vs register(symbolic=True)(f)(args); '
                'a case is one (function, arguments, route)')
    ctx.lean_prepare()
    rng = ctx.rng
    fid = [0]
    cfgs = [[1, 1, 1], [0, 1, 1], [1, -1], [0, 1, 1, 1]] + ([] if ctx.quick else [[1, 1, 1, 1], [1, 0, 0], [-1, -1, 1]])
    for sig in cfgs:
        alg = make_algebra(sig)
        d = alg.d
        sources = [(s, 2) for s in exhaustive_depth1()]
        # sums of a polynomial-valued and a fraction-valued operand in both orders (the symbolic route computes in
        # kingdon's RationalPolynomial); the arguments of these share their key pattern so the summands meet on blades
        sources += [(s, 2, 'same') for s in MIXED]
        # coefficient access by spellings of every parity and norms that are not scalars need operands that actually contain
        # those blades: structured first operands (dense, even part, bivector block, scalar + pseudoscalar)
        sources += [(s, 2, 'structured') for s in exhaustive_depth1() if ('.e' in s and len(s.split('.e')[1].split()[0]) >= 3) or 'norm' in s] * 3
        for k in alg.canon2bin.values():
            sources += [(s_, 2, ('single', k)) for s_ in (RECIP if not ctx.quick else rng.sample(RECIP, 3))]
        sources += [(form.format(c1=c1, c2=c2), 2, 'same') for c1, c2 in CONST_PAIRS for form in (CONST_FORMS if not ctx.quick else rng.sample(CONST_FORMS, 2))]
        ntree = 150 if ctx.quick else 1000
        for _ in range(ntree):
            nargs = rng.choice([1, 2, 2, 3])
            g = Gen(rng, nargs, alg)
            sources.append((g.expr(rng.choice([2, 3]) if ctx.quick else rng.choice([2, 3, 4, 5])), nargs))
        # a function calling other registered functions
        inner_src = 'a * b + (a | b)'
        inner = make_func(inner_src, 'inner_fn', 2)
        inner_reg = alg.register(inner)
        inner_sq = make_func('a * a', 'inner_sq', 1)
        inner_sq_reg = alg.register(inner_sq)
        sources.append(('inner_fn(a, b) >> a', 2))
        sources.append(('inner_fn(~a, b).grade(1) + inner_fn(b, a)', 2))
        # the result of an inner (numerically registered) function returned as it is, or only through grade(): components that
        # cancel structurally (u*u of a vector) reach the code printer as zeros
        sources += [('inner_sq(a)', 2, 'vectors'), ('inner_sq(a - b)', 2, 'vectors'), ('inner_sq(a).grade(0, 2)', 2, 'vectors'), ('inner_sq(a) + 0', 2, 'vectors')]
        # a coefficient that is itself a fraction (of an inverse, of a quotient, coefficient / coefficient) divided by a number
        sources += [('b * (a.inv().e1 / 2)', 2, 'vectors'), ('b * ((a / b).e / 4)', 2, 'vectors'), ('a * ((a.e1 / a.e2) / 3)', 2, 'vectors'), ('b * (a.inv().e1 / 2 + 1)', 2, 'vectors')]
        for item in sources:
            src, nargs = item[0], item[1]
            same = len(item) > 2 and item[2] == 'same'
            structured = len(item) > 2 and item[2] == 'structured'
            single = item[2][1] if len(item) > 2 and isinstance(item[2], tuple) else None
            fid[0] += 1
            name = f'f{fid[0]}'
            extra_direct = {'inner_fn': inner, 'inner_sq': inner_sq}
            extra_reg = {'inner_fn': inner_reg, 'inner_sq': inner_sq_reg}
            vectors = len(item) > 2 and item[2] == 'vectors'
            try:
                f = make_func(src, name, nargs, extra_direct)
                f_for_reg = make_func(src, name, nargs, extra_reg)
                f_for_sym = make_func(src, name + 's', nargs, extra_reg if ('inner_sq' in src) else extra_direct)
            except SyntaxError:
                continue
            pats = key_tuples(rng, d, nargs, ['small', 'grades', 'single', 'subset'])
            full = list(alg.canon2bin.values())
            pats = [list(dict.fromkeys((p if p is not None else full)))[:4] or [1] for p in pats]
            if same:
                base = rng.choice([[1, 2], [0, 3], [1, 2, 4][:d], [0, 1]])
                pats = [list(base) for _ in pats]
            if single is not None:
                pats = [[single] for _ in pats]
            if vectors:
                pats = [[k for k in full if bin(k).count('1') == 1][:3] for _ in pats]
            if structured:
                g2 = [k for k in full if bin(k).count('1') == 2]
                pats[0] = rng.choice([full, [k for k in full if bin(k).count('1') % 2 == 0], g2, [0, 2 ** d - 1], [2 ** d - 1, 1, 2]])
                if any(m in src for m in FLOATY) and len(pats[0]) > 8:
                    pats[0] = g2 or pats[0][:4]
            floaty = any(m in src for m in FLOATY) or '** 0.5' in src
            args = [values_for(alg, rng, p, exact=not floaty) for p in pats]
            direct = result_of(f, args)
            case = {'sig': sig, 'src': src, 'keys': pats}
            if direct[0] != 'ok':
                ctx.count('direct:' + direct[0])
                continue
            supported = is_supported(src)
            routes = [('registered', lambda: alg.register(f_for_reg))]
            heavy = src.count('>>') + src.count('@') + src.count('.inv()') + src.count('/') + src.count('**') + src.count('.sw(') + src.count('.proj(') + src.count('.div(')
            if ((heavy <= 1 and len(src) < 60) or same or single is not None or vectors) and not (structured and len(pats[0]) > 8):
                routes.append(('registered-symbolic', lambda: alg.register(symbolic=True)(f_for_sym)))
            for rname, mk in routes:
                ctx.case({**case, 'route': rname}, tag=rname + (':supported' if supported else ':other'))
                try:
                    rf = mk()
                except Exception as e:
                    got = ('raise', type(e).__name__)
                else:
                    got = result_of(rf, args)
                ctx.count(f'{rname}:{got[0]}')
                if got[0] == 'ok':
                    if not close(got[1], direct[1]):
                        ctx.violation('registered-differs', {**case, 'route': rname}, str(direct[1])[:300], str(got[1])[:300],
                                      key=f'{rname}:differs:' + ('supported' if supported else 'other') +
                                      (':coefficient-access' if rname == 'registered-symbolic' and construct_class(src) == 'coefficient-access' else ''))
                elif got[0] == 'raise' and supported:
                    # supported constructs must not raise when the plain function succeeds
                    if rname == 'registered-symbolic' and got[1] in ('ZeroDivisionError',):
                        continue
                    ctx.violation('registered-raises', {**case, 'route': rname}, str(direct[1])[:200], 'raises ' + got[1],
                                  key=f'{rname}:raises:{construct_class(src)}:{got[1]}')
                elif got[0] == 'ok-other':
                    ctx.violation('registered-type', {**case, 'route': rname}, 'a multivector', got[1], key=f'{rname}:type')
    same_name_pass(ctx)
    constants_history_pass(ctx)
    parameter_names_pass(ctx)
    ctx.assumptions = ['lambdas cannot be registered (their __name__ is not an identifier): generated functions are named',
                       'the symbolic route goes through sympy simplification and is exercised on small expressions only']

"""C09 — results depend only on the operands, never on earlier operations.

Oracle (direct): every call of a seeded history on ONE long-lived algebra returns exactly what the same call returns
on a freshly created algebra; operands and previously returned multivectors keep their coefficients.
Tie: generated function names of the real code vs. the Lean model's `OD.name` (whose injectivity is the proved
reason why the wrapper / by-name routes cannot mix functions up), and the served-function trace of OD.run.
Routes: direct operator, wrapper (numspace by name), registered functions (callees resolved by name at call time),
symbolic multivector calls, raising calls, injected faults during generation, threads sharing one algebra.
"""
import threading
from fractions import Fraction
import time
from harness.common import *
from harness.opcorr import key_tuples, BIN, UN, ks, mv_to_dict

BIN_OPS = ['gp', 'op', 'ip', 'lc', 'rc', 'sp', 'cp', 'acp', 'rp', 'add', 'sub', 'sw', 'proj', 'div']
UN_OPS = ['neg', 'reverse', 'involute', 'conjugate', 'hodge', 'unhodge', 'normsq', 'inv', 'polarity', 'unpolarity']


def ident(f):
    return f


def reg_funcs():
    def f_gp(x, y): return x * y
    def f_mix(x, y): return (x * y) + (x | y)
    def f_sw(x, y): return x >> y
    def f_wedge3(x, y): return (x ^ y) - (y ^ x)
    def f_rev(x, y): return ~(x * y) + x.lc(y)
    return [f_gp, f_mix, f_sw, f_wedge3, f_rev]


def mk(alg, keys, vals):
    from kingdon import MultiVector
    return MultiVector.fromkeysvalues(alg, tuple(keys), list(vals))


def result_dict(r):
    if r is None:
        return None
    d = {}
    for k, v in zip(r.keys(), r.values()):
        d[k] = d.get(k, 0) + v
    return {k: v for k, v in d.items() if v != 0}


def do_call(alg, regs, call):
    """execute one call description on algebra `alg`; returns ('ok', dict) or ('raise', exception class name)"""
    kind = call['kind']
    try:
        if kind == 'bin':
            r = BIN[call['op']](mk(alg, call['kx'], call['vx']), mk(alg, call['ky'], call['vy']))
        elif kind == 'un':
            r = UN[call['op']](mk(alg, call['kx'], call['vx']))
        elif kind == 'reg':
            r = regs[call['f']](mk(alg, call['kx'], call['vx']), mk(alg, call['ky'], call['vy']))
        elif kind == 'symcall':
            x = alg.multivector(name='s', keys=tuple(call['kx']))
            y = mk(alg, call['ky'], call['vy'])
            r = BIN[call['op']](x, y)(*call['vx']) if call['kx'] else BIN[call['op']](x, y)
        else:
            raise ValueError(kind)
        return ('ok', result_dict(r))
    except Exception as e:
        return ('raise', type(e).__name__)


def make_regs(alg):
    return [alg.register(f) for f in reg_funcs()]


def gen_history(rng, d, n, degenerate):
    N = 2 ** d
    cheap = d >= 6
    pats = [p[:5] for p in key_tuples(rng, d, 8, ['small', 'single', 'grades', 'subset']) if p is not None] + [[1, 2], [2, 1], [0], [N - 1]]
    pats = [p for p in pats if len(set(p)) == len(p)]
    hist = []
    for _ in range(n):
        r = rng.random()
        kx = list(rng.choice(pats)); ky = list(rng.choice(pats))
        if rng.random() < 0.4:
            rng.shuffle(kx)
        vx = [Fraction(rng.randint(-5, 9), rng.choice([1, 1, 2, 3])) for _ in kx]
        vy = [Fraction(rng.randint(-5, 9), rng.choice([1, 1, 2])) for _ in ky]
        if r < 0.55:
            op = rng.choice(BIN_OPS)
            if op in ('sw', 'proj', 'div') and (cheap or rng.random() < 0.5):
                op = rng.choice(BIN_OPS[:11])
            hist.append({'kind': 'bin', 'op': op, 'kx': kx, 'ky': ky, 'vx': vx, 'vy': vy})
        elif r < 0.75:
            hist.append({'kind': 'un', 'op': rng.choice(UN_OPS[:6] if cheap else UN_OPS), 'kx': kx, 'vx': vx})
        elif r < 0.93:
            hist.append({'kind': 'reg', 'f': rng.choice([0, 1, 3, 4] if cheap else [0, 1, 2, 3, 4]), 'kx': kx, 'ky': ky, 'vx': vx, 'vy': vy})
        else:
            hist.append({'kind': 'symcall', 'op': rng.choice(['gp', 'op', 'add', 'ip']), 'kx': sorted(set(kx)), 'ky': ky,
                         'vx': [Fraction(rng.randint(1, 7)) for _ in sorted(set(kx))], 'vy': vy})
    # make sure the classic pattern occurs: a call, the same with permuted keys, the first again
    if hist:
        base = next((c for c in hist if c['kind'] in ('bin', 'reg') and len(c['kx']) >= 2), None)
        if base:
            perm = dict(base); idx = list(range(len(base['kx']))); idx.reverse()
            perm['kx'] = [base['kx'][i] for i in idx]; perm['vx'] = [base['vx'][i] for i in idx]
            hist += [base, perm, base, perm]
    return hist


def jsonable(call):
    return {k: ([str(x) for x in v] if k in ('vx', 'vy') else v) for k, v in call.items()}


def run(ctx):
    from kingdon import Algebra
    ctx.rule = ('seeded call histories (operators x small ordered key patterns and their permutations x {direct, registered function, '
                'symbolic call} with exact Fraction values, raising calls included) on one long-lived algebra, with wrapper None and '
                'identity, plus injected generation faults and an 8-thread shared-algebra run; every result is compared with the same '
                'call on a fresh algebra; a case is one call; all are non-trivial')
    ctx.lean_prepare()
    rng = ctx.rng
    configs = [([1, 1, 1], None), ([1, 1, 1], ident), ([0, 1, 1], ident), ([1, -1], None), ([1, 1, 0, -1], ident),
               ([1, 1, 1, -1, 1, 1, 1], None), ([1, -1, 1, 1, 0, 1, 1, -1], ident)]     # d = 7, 8: lazily filled sign table
    if not ctx.quick:
        configs += [([1, 1, 1, 1], None), ([0, 1, 1, 1], ident), ([-1, -1, 1], None), ([1, 0, 0], ident)]
    nhist = 6 if ctx.quick else 20
    ncalls = 36 if ctx.quick else 60
    lines, plan = [], []
    for sig, wrapper in configs:
        for h in range(nhist):
            alg = make_algebra(sig, **({'wrapper': wrapper} if wrapper else {}))
            regs = make_regs(alg)
            hist = gen_history(rng, len(sig), ncalls, 0 in sig)
            kept = []       # (operands snapshot) to check immutability
            for i, call in enumerate(hist):
                got = do_call(alg, regs, call)
                fresh = make_algebra(sig, **({'wrapper': wrapper} if wrapper else {}))
                exp = do_call(fresh, make_regs(fresh) if call['kind'] == 'reg' else None, call)
                case = {'sig': sig, 'wrapper': bool(wrapper), 'call_index': i, 'call': jsonable(call)}
                ctx.case(case, tag=call['kind'] + (':wrapper' if wrapper else ''))
                ctx.count('outcome:' + got[0] + ('' if got[0] == 'ok' else ':' + got[1]))
                if got != exp:
                    ctx.violation('history-dependent', {**case, 'history': [jsonable(c) for c in hist[:i]][-12:]},
                                  str(exp), str(got), key=f'history:{call["kind"]}:{"wrapper" if wrapper else "direct"}')
                    break
            # function names: real vs model (ties OD.name to the code)
            for opname, odict in alg.registry.items():
                if not hasattr(odict, 'operator_dict'):
                    continue
                for keys_in, (keys_out, func) in list(odict.operator_dict.items())[:40]:
                    kin = keys_in if (keys_in and isinstance(keys_in[0], tuple)) else (keys_in,)
                    cg = odict.codegen.__name__
                    pre = {'codegen_div': 'div', 'codegen_sqrt': 'sqrt'}.get(cg, cg)
                    lines.append(f'fname {cfg_token(sig, int(alg.start_index))} {pre} ' + ' '.join(ks(k) for k in kin))
                    plan.append(({'sig': sig, 'op': opname, 'keys': [list(k) for k in kin]}, func.__name__))
                    # ... and through the translated MultiVector.type_name (validates the translator)
                    lines.append(f'srcfname {cfg_token(sig, int(alg.start_index))} {pre} ' + ' '.join(ks(k) for k in kin))
                    plan.append(({'sig': sig, 'op': opname, 'keys': [list(k) for k in kin], 'via': 'translated source'}, func.__name__))
            ctx.count('histories')
    # operands and earlier results are never modified
    alg = make_algebra([1, 1, 1])
    keep = []
    for call in gen_history(rng, 3, 40, False):
        if call['kind'] not in ('bin', 'un'):
            continue
        x = mk(alg, call['kx'], call['vx'])
        snap = [(x, list(x.values()), tuple(x.keys()))]
        try:
            if call['kind'] == 'bin':
                y = mk(alg, call['ky'], call['vy'])
                snap.append((y, list(y.values()), tuple(y.keys())))
                r = BIN[call['op']](x, y)
            else:
                r = UN[call['op']](x)
            snap.append((r, list(r.values()), tuple(r.keys())))
        except Exception:
            pass
        keep.extend(snap)
        ctx.case(('immutability', jsonable(call)), tag='immutability')
    for mv, vals, keys in keep:
        if list(mv.values()) != vals or tuple(mv.keys()) != keys:
            ctx.violation('operand-modified', {'keys': list(keys)}, str(vals), str(list(mv.values())), key='mutation')
            break
    # generated functions read their argument lists and allocate fresh outputs: static check of the emitted source
    ast_pass(ctx)
    # injected faults while code is generated: the wrapper raises on chosen applications
    fault_pass(ctx)
    thread_pass(ctx)
    registration_pass(ctx)
    foreign_options_pass(ctx)
    pressure_pass(ctx)
    called_mv_pass(ctx)
    derived_operand_pass(ctx)
    out = ctx.drive(lines)
    if out is not None:
        nb = 0
        for (desc, exp), got in zip(plan, out):
            if exp != got:
                nb += 1
                if nb <= 5:
                    ctx.mismatch('function-name', desc, got, exp)
        ctx.count('names-compared', len(lines))
    # whether or not the names agree with the model: histories that would exploit a name collision
    collision_search(ctx)
    ctx.assumptions = ['single dict operations are atomic under the GIL; functools.cached_property races are not modelled',
                       'the thread run supports, but does not replace, the interleaving theorem']


def ast_pass(ctx):
    """every generated function (all operators, a spread of key patterns, with and without cse) only binds fresh local names:
    no subscript / attribute stores, no augmented assignment, no `global`/`nonlocal`, no `del` of arguments' items"""
    import ast, inspect
    rng = ctx.rng
    for sig, opts in (([1, 1, 1], {}), ([0, 1, 1], {'cse': False}), ([1, -1], {})):
        alg = make_algebra(sig, **opts)
        regs = make_regs(alg)
        for call in gen_history(rng, len(sig), 30, 0 in sig):
            do_call(alg, regs, call)
        n = 0
        for opname, odict in alg.registry.items():
            if not hasattr(odict, 'operator_dict'):
                continue
            for keys_in, (keys_out, func) in list(odict.operator_dict.items()):
                try:
                    src = inspect.getsource(func)
                except Exception:
                    ctx.count('ast:no-source')
                    continue
                tree = ast.parse(src)
                fn = tree.body[0]
                argnames = {a.arg for a in fn.args.args}
                bad = None
                for node in ast.walk(fn):
                    if isinstance(node, (ast.AugAssign, ast.Global, ast.Nonlocal, ast.Delete)):
                        bad = type(node).__name__
                    elif isinstance(node, (ast.Subscript, ast.Attribute)) and isinstance(getattr(node, 'ctx', None), ast.Store):
                        bad = 'store into ' + type(node).__name__
                    elif isinstance(node, ast.Name) and isinstance(node.ctx, ast.Store) and node.id in argnames:
                        bad = f'rebinding of argument {node.id}'
                    elif isinstance(node, ast.Call):
                        f = node.func
                        nm = f.id if isinstance(f, ast.Name) else (f.attr if isinstance(f, ast.Attribute) else None)
                        if nm is not None and nm in ('append', 'extend', 'insert', 'pop', 'remove', 'clear', 'sort', 'reverse', 'setattr', '__setitem__', 'update'):
                            bad = f'call of mutating method {nm}'
                n += 1
                ctx.case(('ast', tuple(sig), opname, keys_in), tag='ast-purity', sample=False)
                if bad:
                    ctx.violation('generated-function-mutates', {'sig': sig, 'op': opname, 'keys': [list(k) if isinstance(k, tuple) else k for k in keys_in],
                                                                 'source': src[:400]}, 'a function that only binds fresh local names', bad, key='mutation:generated-source')
        ctx.count('ast-functions', n)


def fault_pass(ctx):
    rng = ctx.rng
    for trial in range(6 if ctx.quick else 30):
        sig = rng.choice([[1, 1, 1], [0, 1, 1], [1, -1]])
        state = {'n': 0, 'fail_at': rng.randint(1, 6)}

        class Boom(Exception):
            pass

        def wrapper(f):
            state['n'] += 1
            if state['n'] == state['fail_at']:
                raise Boom('injected fault')
            return f
        alg = make_algebra(sig, wrapper=wrapper)
        regs = make_regs(alg)
        hist = gen_history(rng, len(sig), 14, 0 in sig)
        for i, call in enumerate(hist):
            got = do_call(alg, regs, call)
            if got == ('raise', 'Boom'):
                ctx.count('injected-fault-hit')
                got = do_call(alg, regs, call)     # retry after the fault
            fresh = make_algebra(sig, wrapper=ident)
            exp = do_call(fresh, make_regs(fresh) if call['kind'] == 'reg' else None, call)
            ctx.case(('fault', sig, i, jsonable(call)), tag='fault')
            if got != exp:
                ctx.violation('history-dependent-after-fault', {'sig': sig, 'fail_at': state['fail_at'], 'call_index': i, 'call': jsonable(call),
                                                                 'history': [jsonable(c) for c in hist[:i]][-8:]}, str(exp), str(got), key='history:fault')
                break


def thread_pass(ctx):
    rng = ctx.rng
    for sig, wrapper in (([1, 1, 1], ident), ([0, 1, 1], None)):
        alg = make_algebra(sig, **({'wrapper': wrapper} if wrapper else {}))
        regs = make_regs(alg)
        hist = gen_history(rng, 3, 40 if ctx.quick else 200, 0 in sig)
        expected = []
        for call in hist:
            fresh = make_algebra(sig, **({'wrapper': wrapper} if wrapper else {}))
            expected.append(do_call(fresh, make_regs(fresh) if call['kind'] == 'reg' else None, call))
        results = [None] * len(hist)
        nthreads = 8

        def worker(t):
            for i in range(t, len(hist), nthreads):
                results[i] = do_call(alg, regs, hist[i])
        ths = [threading.Thread(target=worker, args=(t,)) for t in range(nthreads)]
        for t in ths: t.start()
        for t in ths: t.join()
        for i, (g, e) in enumerate(zip(results, expected)):
            ctx.case(('thread', sig, i), tag='threads')
            if g != e:
                ctx.violation('thread-result', {'sig': sig, 'wrapper': bool(wrapper), 'call': jsonable(hist[i])}, str(e), str(g), key='history:threads')
                break


def registration_pass(ctx):
    """(a) first calls of one registered function for one key pattern made from several threads at once (the function body holds
    the first thread inside the compilation until the others have called): every thread gets the value; (b) the same function
    object registered again - after a global it reads has changed, or with the other `symbolic=` flag - behaves like the same
    registration on a fresh algebra, not like the earlier registration"""
    import sympy
    from kingdon import MultiVector
    rng = ctx.rng
    for sig, wrapper in (([1, 1, 1], None), ([0, 1, 1], ident)):
        # (a)
        for symbolic in (False, True):
            alg = make_algebra(sig, **({'wrapper': wrapper} if wrapper else {}))
            gate = threading.Event(); inside = threading.Event()
            def body(x, y):
                inside.set()
                gate.wait(timeout=2.0)            # compilation in progress: the other threads make their first call now
                return x * y + (x | y)
            rf = alg.register(body, symbolic=symbolic)
            kx, ky = (1, 2, 4), (1, 6)
            mkxy = lambda: (MultiVector.fromkeysvalues(alg, kx, [Fraction(2), Fraction(3), Fraction(5)]), MultiVector.fromkeysvalues(alg, ky, [Fraction(7), Fraction(11)]))
            x0, y0 = mkxy()
            exp = result_dict(x0 * y0 + (x0 | y0))
            results = {}
            def worker(i):
                try:
                    results[i] = ('ok', result_dict(rf(*mkxy())))
                except Exception as ex:
                    results[i] = ('raise', type(ex).__name__)
            ths = [threading.Thread(target=worker, args=(i,)) for i in range(4)]
            ths[0].start(); inside.wait(timeout=5.0)
            for t in ths[1:]: t.start()
            time.sleep(0.05); gate.set()
            for t in ths: t.join()
            for i in range(4):
                case = {'sig': sig, 'wrapper': bool(wrapper), 'symbolic_route': symbolic, 'thread': i, 'scenario': 'overlapping first calls of one registered function'}
                ctx.case(case, tag='registered-threads')
                if results.get(i) != ('ok', exp):
                    ctx.violation('thread-result', case, str(exp)[:200], str(results.get(i))[:200], key='history:threads:registered-first-call')
                    break
        # (b)
        glob = {'GAIN': 2}
        src = 'def amplify(x):\n    return GAIN * x\n'
        exec(src, glob)
        f = glob['amplify']
        def run_on(alg, steps):
            out = []
            for st in steps:
                if st[0] == 'set':
                    glob['GAIN'] = st[1]
                elif st[0] == 'register':
                    r = alg.register(f, symbolic=st[1])
                elif st[0] == 'call':
                    xs = alg.vector(name='u') if st[1] == 'symbolic' else MultiVector.fromkeysvalues(alg, (1, 2), [Fraction(3), Fraction(4)])
                    try:
                        res = r(xs)
                        out.append((tuple(int(k) for k in res.keys()), [str(sympy.sympify(v)) for v in res.values()]))
                    except Exception as ex:
                        out.append('raises ' + type(ex).__name__)
            return out
        scenarios = {
            'constant changed between two registrations': [('set', 2), ('register', False), ('call', 'numeric'), ('set', 3), ('register', False), ('call', 'numeric')],
            'registered again with symbolic=True': [('set', 2), ('register', False), ('call', 'numeric'), ('register', True), ('call', 'symbolic'), ('call', 'numeric')],
            'registered again with symbolic=False': [('set', 2), ('register', True), ('call', 'symbolic'), ('register', False), ('call', 'numeric')],
        }
        for nm, steps in scenarios.items():
            alg = make_algebra(sig, **({'wrapper': wrapper} if wrapper else {}))
            got = run_on(alg, steps)
            # reference: only the LAST registration, on a fresh algebra, with the globals as they are at that moment
            last = max(i for i, st in enumerate(steps) if st[0] == 'register')
            ref_steps = [st for i, st in enumerate(steps) if st[0] == 'set' or i >= last]
            fresh = make_algebra(sig, **({'wrapper': wrapper} if wrapper else {}))
            exp = run_on(fresh, ref_steps)
            ncalls_after = len([st for st in steps[last:] if st[0] == 'call'])
            case = {'sig': sig, 'wrapper': bool(wrapper), 'scenario': nm}
            ctx.case(case, tag='re-registration')
            if got[-ncalls_after:] != exp[-ncalls_after:]:
                ctx.violation('history-dependent', case, str(exp[-ncalls_after:])[:250], str(got[-ncalls_after:])[:250], key='history:re-registration')


def pressure_pass(ctx):
    """long histories: a registered function and a few direct calls, then well over a thousand other key patterns of the
    same operators on the same algebra, then the first calls again (results must not depend on what was generated since)"""
    import itertools
    rng = ctx.rng
    n = 1300 if ctx.quick else 5000
    for wrapper in (None, ident):
        alg = make_algebra([1, 1, 1, 1], **({'wrapper': wrapper} if wrapper else {}))
        regs = make_regs(alg)
        probes = []
        for f in (0, 1, 3):
            kx, ky = [1, 2, 4], [3, 5]
            probes.append({'kind': 'reg', 'f': f, 'kx': kx, 'ky': ky, 'vx': [Fraction(2), Fraction(3), Fraction(5)], 'vy': [Fraction(7), Fraction(11)]})
        for op in ('sub', 'gp', 'add', 'op'):
            probes.append({'kind': 'bin', 'op': op, 'kx': [1, 6, 8], 'ky': [2, 9], 'vx': [Fraction(1), Fraction(2), Fraction(3)], 'vy': [Fraction(4), Fraction(5)]})
        first = [do_call(alg, regs, c) for c in probes]
        pats = []
        for r in (1, 2, 3):
            pats += [list(c) for c in itertools.combinations(range(16), r)]
        rng.shuffle(pats)
        count = 0
        for kx in pats:
            for ky in ([0], [15], [3, 12]):
                for op in ('sub', 'gp', 'add', 'op'):
                    do_call(alg, regs, {'kind': 'bin', 'op': op, 'kx': kx, 'ky': ky, 'vx': [Fraction(1)] * len(kx), 'vy': [Fraction(1)] * len(ky)})
                count += 1
                if count >= n:
                    break
            if count >= n:
                break
        again = [do_call(alg, regs, c) for c in probes]
        for c, a, b in zip(probes, first, again):
            ctx.case(('pressure', bool(wrapper), jsonable(c)), tag='cache-pressure')
            if a != b:
                ctx.violation('history-dependent', {'wrapper': bool(wrapper), 'call': jsonable(c), 'distinct_patterns_in_between': count},
                              str(a), str(b), key=f'history:pressure:{c["kind"]}')
        ctx.count('pressure-patterns', count)


def called_mv_pass(ctx):
    """symbolic multivectors evaluated by calling them, several with the same key tuple but different expressions, in an
    interleaved order, on algebras with and without a wrapper: every call returns the value of its own expressions"""
    import sympy
    rng = ctx.rng
    for wrapper in (None, ident):
        alg = make_algebra([1, 1], **({'wrapper': wrapper} if wrapper else {}))
        u = alg.vector(name='u'); v = alg.vector(name='v')
        mvs = {'u*v': u * v, 'v*u': v * u, '3*(u|v)+(u^v)': 3 * (u | v) + (u ^ v), 'u+v': u + v, 'u-2v': u - 2 * v}
        order = list(mvs) * 3
        rng.shuffle(order)
        for step, nm in enumerate(order):
            m = mvs[nm]
            fs = sorted(m.free_symbols, key=lambda sy: sy.name)
            vals = {sy: Fraction(rng.randint(1, 9)) for sy in fs}
            exp = {k: sympy.nsimplify(sympy.sympify(c).subs({sy: sympy.Rational(val.numerator, val.denominator) for sy, val in vals.items()}))
                   for k, c in zip(m.keys(), m.values())}
            exp = {k: float(c) for k, c in exp.items() if c != 0}
            case = {'wrapper': bool(wrapper), 'multivector': nm, 'step': step, 'earlier': order[max(0, step - 4):step]}
            ctx.case(case, tag='called-mv')
            try:
                r = m(*[float(vals[sy]) for sy in fs])
                got = {k: float(c) for k, c in zip(r.keys(), r.values()) if float(c) != 0}
            except Exception as e:
                ctx.violation('called-mv-raises', case, exp, repr(e)[:200], key='history:called-mv:raises')
                continue
            if set(got) != set(exp) or any(abs(got[k] - exp[k]) > 1e-9 for k in exp):
                ctx.violation('history-dependent', case, exp, got, key='history:called-mv')


def derived_operand_pass(ctx):
    """operands derived from a multivector that already has a history (`x.map(f)`, `x[i]`, `x.filter(f)`, `x.grade(..)` after x
    was called / multiplied / added): the operator, registered function or call evaluated on the derived multivector returns
    what it returns on a freshly created algebra where the source had no history; the source itself keeps its coefficients"""
    import sympy
    import numpy as np
    from kingdon import Algebra
    t = sympy.Symbol('t')

    def sc_map_called(alg, h):
        x = alg.vector(name='a')
        if h: x(1, 2, 3)
        return x.map(lambda v: 2 * v)(1, 2, 3)
    def sc_map_num_to_sym(alg, h):
        x = alg.vector([1, 2, 3])
        if h: x * x
        y = x.map(lambda v: t * v)
        return y ^ y
    def sc_map_num_to_sym_gp(alg, h):
        x = alg.vector([1, 2, 3])
        if h: x + x
        y = x.map(lambda v: t * v)
        return y * y
    def sc_map_sym_to_num(alg, h):
        x = alg.vector(name='a')
        if h: x + x
        y = x.map(lambda v: 3)
        return y * y
    def sc_map_sym_to_sym(alg, h):
        x = alg.vector(name='a')
        if h: x(1, 2, 3); x * x
        y = x.map(lambda v: v + t)
        return y(1, 2, 3, 5) if len(y.free_symbols) == 4 else y
    def sc_index(alg, h):
        x = alg.vector(np.arange(6.0).reshape(3, 2) + 1)
        if h: x * x
        y = x[1]
        return y * y
    def sc_index_sym(alg, h):
        x = alg.vector([[t, 2], [3, 4], [5, 6]])
        if h: x * x
        y = x[1]
        return y | y
    def sc_filter(alg, h):
        x = alg.multivector(name='a')
        if h: x(*range(1, 9)); x * x
        y = x.filter(lambda v: str(v) in ('a1', 'a12'))
        return y * y
    def sc_grade(alg, h):
        x = alg.multivector(name='a')
        if h: x(*range(1, 9)); ~x
        y = x.grade(1)
        return y(1, 2, 3)
    def sc_reg(alg, h):
        x = alg.vector([1, 2, 3])
        def f_body(a, b): return a * b + (a | b)
        f = alg.register(f_body)
        if h: f(x, x)
        y = x.map(lambda v: v * t)
        return f(y, y)
    def sc_spell_accessor(alg, h):
        x = alg.multivector(e1=1, e2=2, e123=5)
        if h: x.e231; x.e21
        return alg.multivector(e=x.e132, e1=x.e12)
    def sc_spell_keyword(alg, h):
        if h: alg.multivector(e231=1, e21=1)
        return alg.multivector(e132=7, e12=3)
    def sc_spell_blades(alg, h):
        if h: alg.blades.e312; alg.blades['e13']
        return alg.blades.e213 + alg.blades['e31']
    def sc_spell_registered(alg, h):
        def even_spelling(a): return a.e231 * a
        def odd_spelling(a): return a.e132 * a
        f_even = alg.register(even_spelling)
        f_odd = alg.register(odd_spelling)
        x = alg.multivector(e1=1, e2=2, e123=5)
        if h: f_even(x)
        return f_odd(x)
    def sc_dual_then_undual_registered(alg, h):
        def f_dual(x): return x.dual()
        rf = alg.register(f_dual)
        x = alg.multivector(e1=2, e2=3, e12=5)
        if h: rf(x); x.undual(); alg.multivector(e1=1, e2=1, e12=1).undual()
        return rf(x)
    def sc_dual_undual_dual(alg, h):
        x = alg.multivector(e1=2, e2=3, e12=5)
        if h: x.dual(); x.undual()
        return x.dual()
    def sc_hodge_unhodge(alg, h):
        x = alg.multivector(e1=2, e2=3, e123=5)
        if h: x.unhodge(); x.hodge(); x.unhodge()
        return x.hodge()
    scenarios = [sc_dual_then_undual_registered, sc_dual_undual_dual, sc_hodge_unhodge, sc_spell_accessor, sc_spell_keyword, sc_spell_blades, sc_spell_registered, sc_map_called, sc_map_num_to_sym, sc_map_num_to_sym_gp, sc_map_sym_to_num, sc_map_sym_to_sym, sc_index, sc_index_sym,
                 sc_filter, sc_grade, sc_reg]
    def outcome(f, alg, h):
        try:
            r = f(alg, h)
            return (tuple(int(k) for k in r.keys()), [str(sympy.simplify(sympy.sympify(v))) if not isinstance(v, np.ndarray) else v.tolist() for v in r.values()])
        except Exception as ex:
            return 'raises ' + type(ex).__name__
    for wrapper in (None, ident):
        for f in scenarios:
            kw = {'wrapper': wrapper} if wrapper else {}
            case = {'scenario': f.__name__, 'wrapper': bool(wrapper)}
            ctx.case(case, tag='derived-operand')
            fresh = outcome(f, Algebra(3, **kw), False)
            hist = outcome(f, Algebra(3, **kw), True)
            if fresh != hist:
                ctx.violation('history-dependent', case, str(fresh)[:250], str(hist)[:250], key=f'history:derived-operand:{f.__name__}')


def foreign_options_pass(ctx):
    """an algebra B is used, then ANOTHER algebra A with unusual options (a codegen_symbolcls of its own: kingdon's Polynomial, a
    wrapper, cse=False) is created and used, then B again - also a B created only afterwards: B's results (stored keys
    included) are what they were before A existed"""
    import sympy
    from kingdon import Algebra
    from kingdon.polynomial import Polynomial, RationalPolynomial
    def run_B(alg):
        out = []
        for mk in (lambda n: Polynomial.fromname(n), lambda n: RationalPolynomial.fromname(n), lambda n: sympy.Symbol(n), lambda n: 3):
            x = alg.multivector(keys=(1, 2), values=[mk('p'), mk('q')])
            y = alg.multivector(keys=(1, 2), values=[mk('r'), mk('s')])
            for nm, r in (('x-x', x - x), ('x^x', x ^ x), ('x*y', x * y), ('x+y', x + y)):
                out.append((nm, tuple(int(k) for k in r.keys()), [str(v) for v in r.values()]))
        return out
    for wrapper in (None, ident):
        kw = {'wrapper': wrapper} if wrapper else {}
        B = Algebra(2, **kw)
        before = run_B(B)
        for aname, akw in (('codegen_symbolcls=Polynomial.fromname', {'codegen_symbolcls': Polynomial.fromname}), ('cse=False, wrapper', {'cse': False, 'wrapper': ident})):
            A = Algebra(3, **akw)
            a = A.multivector(keys=(1, 2, 4), values=[Polynomial.fromname('u'), Polynomial.fromname('v'), Polynomial.fromname('w')] if 'Polynomial' in aname else [1, 2, 3])
            try:
                a * a; a - a; a ^ a
            except Exception as ex:
                ctx.count('foreign-options:A-raises:' + type(ex).__name__)
            for which, alg in (('the same B', B), ('a B created afterwards', Algebra(2, **kw))):
                after = run_B(alg)
                case = {'B': 'Algebra(2)' + (' with wrapper' if wrapper else ''), 'other_algebra_used_in_between': f'Algebra(3, {aname})', 'B_object': which}
                ctx.case(case, tag='foreign-options')
                if after != before:
                    diff = [(b, a_) for b, a_ in zip(before, after) if b != a_][:2]
                    ctx.violation('history-dependent', case, str([d[0] for d in diff])[:250], str([d[1] for d in diff])[:250], key='history:foreign-options')
                    break


def collision_search(ctx, ops=('gp',)):
    """key orders of one key set through every by-name route: three orders in d = 3, and in d = 5 / 6 orders of key sets with
    one- and two-digit keys whose digit strings coincide when concatenated - in decimal ((1,17,2) / (17,1,2), ...) and in
    hexadecimal ((2,1,18,33) / (33,18,2,1): 2·1·12·21 = 21·12·2·1)"""
    cases3 = [([1, 2, 4], [4, 1, 2]), ([1, 2, 4], [2, 4, 1])]
    cases5 = [([1, 17, 2], [17, 1, 2]), ([1, 2, 16], [16, 1, 2]), ([1, 11, 2], [11, 1, 2]), ([3, 31, 1], [31, 3, 1])]
    cases6 = cases5 + [([2, 1, 18, 33], [33, 18, 2, 1]), ([1, 17, 16], [17, 1, 16][::-1][::-1]), ([1, 16, 17], [17, 16, 1])]
    for sig, cases in (([1, 1, 1], cases3), ([0, 1, 1], cases3), ([1, 1, 1, 1, 1], cases5), ([0, 1, 1, 1, 1, -1], cases6)):
        for ka, kb in cases:
            for wrapper in (ident, None):
                alg = make_algebra(sig, **({'wrapper': wrapper} if wrapper else {}))
                regs = make_regs(alg)
                va = [Fraction(2), Fraction(3), Fraction(5), Fraction(13)][:len(ka)]
                a = {'kind': 'reg', 'f': 0, 'kx': list(ka), 'ky': [1, 6], 'vx': va, 'vy': [Fraction(7), Fraction(11)]}
                b = dict(a); b['kx'] = list(kb); b['vx'] = [va[ka.index(k)] for k in kb]
                bad = False
                for seq in ([a, b, a], [b, a, b]):
                    for c in seq:
                        for kind, opn in [('reg', ops[0])] + [('bin', o_) for o_ in ops] + [('un', 'neg'), ('un', 'reverse')]:
                            call = dict(c); call['kind'] = kind; call['op'] = opn
                            ctx.case(('collision', tuple(sig), bool(wrapper), kind, tuple(call['kx'])), tag='name-collision-search')
                            got = do_call(alg, regs, call)
                            fresh = make_algebra(sig, **({'wrapper': wrapper} if wrapper else {}))
                            exp = do_call(fresh, make_regs(fresh), call)
                            if got != exp and not bad:
                                bad = True
                                ctx.violation('history-dependent', {'sig': sig, 'wrapper': bool(wrapper), 'call': jsonable(call)}, str(exp), str(got),
                                              key='history:name-collision')

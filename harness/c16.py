"""C16 — array coefficients, sequences, callables and plain numbers broadcast right.

Tie:    `_call_binary` of the real code on operand trees (multivectors, numbers, lists, tuples, nested zero-argument
        callables) vs. the Lean model `Api.callBinary`: the model names the operator applications `f(left,right)`,
        the harness evaluates each of them with plain multivector operands and compares with the container route.
        Reflected-method table regenerated from source and checked by `decide` in Lean.
Oracle: indexing commutes with every operator (op(X,Y)[idx] == op(X[idx],Y[idx])) for several trailing shapes and both
        container kinds; __setitem__ touches exactly the addressed entries; `number op mv` equals `scalar(number) op mv`.
"""
import re
from fractions import Fraction
from harness.common import *
from harness.opcorr import BIN, UN, mv_to_dict

INFIX = {'gp': '*', 'op': '^', 'ip': '|', 'rp': '&', 'sw': '>>', 'proj': '@', 'add': '+', 'sub': '-', 'div': '/'}


def apply_infix(op, a, b):
    return eval(f'a {INFIX[op]} b', {'a': a, 'b': b})


def gen_operand(rng, leaves, depth):
    """returns (python object, tokens); leaves: dict name -> object (multivectors) ; numbers are ints"""
    r = rng.random()
    if depth <= 0 or r < 0.5:
        if rng.random() < 0.25:
            n = rng.choice([2, 3, 5, -1])
            return n, [f'n:{n}']
        nm = rng.choice(list(leaves))
        return leaves[nm], [f'v:{nm}']
    if r < 0.8:
        n = rng.randint(1, 3)
        is_tuple = rng.random() < 0.5
        objs, toks = [], []
        for _ in range(n):
            o, t = gen_operand(rng, leaves, depth - 1)
            objs.append(o); toks += t
        return (tuple(objs) if is_tuple else objs), [('T' if is_tuple else 'L') + str(n)] + toks
    o, t = gen_operand(rng, leaves, depth - 1)
    return (lambda o=o: o), ['F'] + t


def has_mv(tokens):
    return any(t.startswith('v:') for t in tokens)


def eval_model(s, leaves, alg, op):
    """evaluate the model's rendering, e.g. `([f(a,c) f(b,s3)])`, with plain operands"""
    pos = 0

    def atom(name):
        if name.startswith('s'):
            return alg.scalar([int(name[1:])])
        return leaves[name]

    def parse():
        nonlocal pos
        if s[pos] in '([':
            close = ')' if s[pos] == '(' else ']'
            is_tuple = s[pos] == '('
            pos += 1
            items = []
            while s[pos] != close:
                if s[pos] == ' ':
                    pos += 1
                    continue
                items.append(parse())
            pos += 1
            return tuple(items) if is_tuple else items
        m = re.match(r'f\(([^,]+),([^)]+)\)', s[pos:])
        pos += m.end()
        return BIN[op](atom(m.group(1)), atom(m.group(2)))
    return parse()


def same_tree(a, b):
    from kingdon import MultiVector
    if isinstance(a, MultiVector) and isinstance(b, MultiVector):
        return mv_to_dict(a) == mv_to_dict(b)
    if type(a) != type(b) or not isinstance(a, (list, tuple)) or len(a) != len(b):
        return False
    return all(same_tree(x, y) for x, y in zip(a, b))


def show(x):
    from kingdon import MultiVector
    if isinstance(x, MultiVector):
        return str(mv_to_dict(x))
    if isinstance(x, (list, tuple)):
        return ('(' if isinstance(x, tuple) else '[') + ' '.join(show(y) for y in x) + (')' if isinstance(x, tuple) else ']')
    return repr(x)


def run(ctx):
    import numpy as np
    ctx.rule = ('(1) operand trees (multivector leaves that do not commute, plain numbers, lists, tuples, nested zero-argument callables, '
                'depth <= 3) on either side of every infix operator, compared with the model callBinary; (2) array-valued operands of '
                'trailing shapes (n,), (n,m), (n,m,k) in ndarray and list-of-arrays containers x operators x index expressions '
                '(ints, slices, tuples, lists); (3) __setitem__ targets; a case is one comparison')
    ctx.lean_prepare()
    rng = ctx.rng
    from kingdon import MultiVector
    lines, plan = [], []
    for sig in ([1, 1, 1], [0, 1, 1], [1, -1, 1]):
        alg = make_algebra(sig)
        F = Fraction
        leaves = {
            'a': alg.multivector(keys=(1, 2), values=[F(2), F(3)]), 'b': alg.multivector(keys=(3, 4), values=[F(5), F(7)]),
            'c': alg.multivector(keys=(0, 6, 1), values=[F(1), F(2), F(4)]), 'd': alg.multivector(keys=(2, 5), values=[F(3), F(-2)]),
            'e': alg.multivector(keys=(7, 1), values=[F(2), F(1)]),
            # the scalar blade stored, but not first / last in a non-canonical order
            'g': alg.multivector(keys=(6, 0), values=[F(3), F(5)]), 'h': alg.multivector(keys=(5, 0, 3), values=[F(2), F(7), F(1)]),
        }
        ncase = 60 if ctx.quick else 500
        for _ in range(ncase):
            op = rng.choice(['gp', 'op', 'ip', 'rp', 'add', 'sub', 'sw', 'proj'] + (['div'] if 0 not in sig else []))
            a, ta = gen_operand(rng, leaves, 3)
            b, tb = gen_operand(rng, leaves, 3)
            if not has_mv(ta) and not has_mv(tb):
                continue
            # an infix operator needs a multivector as one of the two *top-level* python operands
            top_a, top_b = isinstance(a, MultiVector), isinstance(b, MultiVector)
            case = {'sig': sig, 'op': op, 'left': ' '.join(ta), 'right': ' '.join(tb)}
            try:
                if top_a or top_b:
                    got = apply_infix(op, a, b)
                    route = 'infix'
                else:
                    got = getattr(alg, op)(a, b)
                    route = 'operator-dict'
            except ZeroDivisionError:
                continue
            except Exception as e:
                ctx.violation('raises', case, 'a result', repr(e)[:200], key=f'callbinary:raises:{type(e).__name__}')
                continue
            ctx.case(case, tag=route + ':' + ('reflected' if (not top_a and top_b) else 'direct'))
            lines.append('callbin ' + ' '.join(ta) + ' ' + ' '.join(tb))
            plan.append((case, alg, leaves, op, got))
            # direct oracle: number on either side behaves as the scalar multivector, order kept
            if isinstance(a, int) and top_b:
                exp = BIN[op](alg.scalar([a]), b)
                if mv_to_dict(got) != mv_to_dict(exp):
                    ctx.violation('number-left', case, show(exp), show(got), key=f'reflected:{op}')
            if isinstance(b, int) and top_a:
                exp = BIN[op](a, alg.scalar([b]))
                if mv_to_dict(got) != mv_to_dict(exp):
                    ctx.violation('number-right', case, show(exp), show(got), key=f'number-right:{op}')
        # reflected forms with list / tuple / callable / numpy scalar on the left, non-commuting operands
        for op in INFIX:
            if op == 'div' and 0 in sig:
                continue
            x, y = leaves['a'], leaves['c']
            exp = BIN[op](x, y)
            for desc, left in (('list', [x]), ('tuple', (x,)), ('callable', lambda: x), ('nested-callable', lambda: (lambda: x)),
                               ('numpy-int', np.int64(3)), ('numpy-float', np.float64(2.0)), ('list2', [x, leaves['b']])):
                case = {'sig': sig, 'op': op, 'left_kind': desc}
                ctx.case(case, tag='reflected-kinds')
                try:
                    got = apply_infix(op, left, y)
                except Exception as e:
                    ctx.violation('raises', case, 'a result', repr(e)[:200], key=f'reflected:raises:{op}:{desc}')
                    continue
                if desc in ('list', 'tuple'):
                    ok = isinstance(got, type(left)) and len(got) == 1 and mv_to_dict(got[0]) == mv_to_dict(exp)
                elif desc == 'list2':
                    ok = isinstance(got, list) and len(got) == 2 and mv_to_dict(got[0]) == mv_to_dict(exp) and \
                        mv_to_dict(got[1]) == mv_to_dict(BIN[op](leaves['b'], y))
                elif desc.startswith('numpy'):
                    e2 = BIN[op](alg.scalar([left.item()]), y)
                    ok = isinstance(got, MultiVector) and {k: float(v) for k, v in mv_to_dict(got).items()} == {k: float(v) for k, v in mv_to_dict(e2).items()}
                else:
                    ok = isinstance(got, MultiVector) and mv_to_dict(got) == mv_to_dict(exp)
                if not ok:
                    ctx.violation('reflected-order', case, show(exp), show(got), key=f'reflected:{op}')
    out = ctx.drive(lines)
    if out is not None:
        nb = 0
        for (case, alg, leaves, op, got), model in zip(plan, out):
            try:
                exp = eval_model(model, leaves, alg, op)
                ok = same_tree(got, exp)
            except Exception as e:
                ok, exp = False, 'model output not evaluable: ' + repr(e)[:100]
            if not ok:
                nb += 1
                if nb <= 5:
                    ctx.mismatch('callBinary', case, model[:300], show(got)[:300])
                    ctx.violation('call-binary', case, show(exp)[:400], show(got)[:400], key=f'callbinary:{op}')
        ctx.count('driver-mismatches', nb)
    array_pass(ctx, np)
    ctx.assumptions = ['numpy element-wise arithmetic and indexing are trusted; only their composition with kingdon is checked']


def array_pass(ctx, np):
    from kingdon import MultiVector
    rng = ctx.rng
    ops_b = ['gp', 'op', 'ip', 'lc', 'rc', 'sp', 'cp', 'acp', 'rp', 'add', 'sub', 'sw', 'proj']
    ops_u = ['neg', 'reverse', 'involute', 'conjugate', 'hodge', 'normsq']
    shapes = [(3,), (2, 3), (2, 2, 2)] if ctx.quick else [(3,), (4,), (2, 3), (3, 2), (2, 2, 2), (1, 3)]
    for sig in ([1, 1, 1], [0, 1, 1]):
        alg = make_algebra(sig)
        for shape in shapes:
            for container in ('ndarray', 'list', 'tuple'):
                kx = rng.sample(range(8), 3); ky = rng.sample(range(8), 3)
                def mk(keys):
                    arrs = [rng_array(rng, shape, np) for _ in keys]
                    vals = np.array(arrs) if container == 'ndarray' else tuple(arrs) if container == 'tuple' else arrs
                    return MultiVector.fromkeysvalues(alg, tuple(keys), vals)
                X, Y = mk(kx), mk(ky)
                idxs = index_exprs(rng, shape)
                for op in (ops_b if ctx.quick else ops_b + ['div']):
                    try:
                        Z = BIN[op](X, Y)
                    except ZeroDivisionError:
                        ctx.count('array-div-by-non-invertible')       # the denominator vanishes identically for this key pattern
                        continue
                    except Exception as e:
                        ctx.violation('raises', {'sig': sig, 'op': op, 'shape': shape, 'container': container}, 'a result', repr(e)[:200], key=f'array:raises:{op}')
                        continue
                    for idx in idxs:
                        case = {'sig': sig, 'op': op, 'shape': list(shape), 'container': container, 'index': repr(idx), 'kx': kx, 'ky': ky}
                        ctx.case(case, tag=f'array:{container}')
                        try:
                            l = Z[idx]; r = BIN[op](X[idx], Y[idx])
                        except ZeroDivisionError:
                            ctx.count('array-div-by-non-invertible')
                            continue
                        except Exception as e:
                            ctx.violation('index-raises', case, 'a result', repr(e)[:200], key=f'array:index-raises:{container}')
                            continue
                        if not arr_mv_equal(l, r, np):
                            ctx.violation('index-commute', case, arr_show(r), arr_show(l), key=f'array:index:{op}')
                for op in ops_u:
                    Z = UN[op](X)
                    for idx in idxs[:3]:
                        case = {'sig': sig, 'op': op, 'shape': list(shape), 'container': container, 'index': repr(idx), 'kx': kx}
                        ctx.case(case, tag=f'array:{container}')
                        if not arr_mv_equal(Z[idx], UN[op](X[idx]), np):
                            ctx.violation('index-commute', case, None, None, key=f'array:index:{op}')
                # __setitem__: exactly the addressed entries of every coefficient change
                for idx in idxs:
                    Xc = mk(kx)
                    before = [np.array(v, dtype=float).copy() for v in Xc.values()]
                    newv = 1000.0
                    try:
                        Xc[idx] = [newv] * len(kx) if container in ('list', 'tuple') else newv
                    except Exception as e:
                        ctx.count('setitem-raises:' + type(e).__name__)
                        # does plain numpy accept the same assignment on each coefficient array?
                        try:
                            for b in before:
                                bb = b.copy(); bb[idx] = newv
                            ctx.violation('setitem-raises', {'sig': sig, 'shape': list(shape), 'container': container, 'index': repr(idx)},
                                          'assignment to the addressed entries', repr(e)[:200], key=f'array:setitem-raises:{container}')
                        except Exception:
                            pass
                        continue
                    case = {'sig': sig, 'shape': list(shape), 'container': container, 'index': repr(idx)}
                    ctx.case(('setitem', case), tag='setitem')
                    for b, a in zip(before, Xc.values()):
                        exp = b.copy(); exp[idx] = newv
                        if not np.array_equal(np.array(a, dtype=float), exp):
                            ctx.violation('setitem', case, exp.tolist(), np.array(a).tolist(), key='array:setitem')
                            break
                # __setitem__ with a multivector value: same keys in the same order -> the addressed entries of each blade
                # take the value's coefficient of THAT blade; same blades in another order -> either refused (the unchanged
                # library raises ValueError) or assigned blade by blade, never paired by position
                if len(shape) == 1:
                    for perm_case in ('same-order', 'permuted'):
                        Xc = mk(kx)
                        before = {k: np.array(v, dtype=float).copy() for k, v in zip(Xc.keys(), Xc.values())}
                        vk = list(kx) if perm_case == 'same-order' else list(reversed(kx))
                        vals = {k: float(100 + 7 * i) for i, k in enumerate(sorted(kx))}
                        Y = MultiVector.fromkeysvalues(alg, tuple(vk), [vals[k] for k in vk])
                        case = {'sig': sig, 'shape': list(shape), 'container': container, 'value': 'multivector, ' + perm_case, 'keys': kx, 'value_keys': vk}
                        ctx.case(('setitem-mv', case), tag='setitem-mv')
                        try:
                            Xc[1] = Y
                        except Exception:
                            ctx.count('setitem-mv-refused:' + perm_case)
                            after = {k: np.array(v, dtype=float) for k, v in zip(Xc.keys(), Xc.values())}
                            if any(not np.array_equal(after[k], before[k]) for k in before):
                                ctx.violation('setitem', case, 'a refused assignment leaves the target untouched', 'modified', key='array:setitem-mv:refused-but-modified')
                            continue
                        after = {k: np.array(v, dtype=float) for k, v in zip(Xc.keys(), Xc.values())}
                        for k in before:
                            exp = before[k].copy(); exp[1] = vals[k]
                            if not np.array_equal(after[k], exp):
                                ctx.violation('setitem', {**case, 'blade': k}, exp.tolist(), after[k].tolist(), key=f'array:setitem-mv:{perm_case}')
                                break
                # shape / itermv
                n = int(np.prod(shape))
                its = list(X.itermv())
                if len(its) != n:
                    ctx.violation('itermv', {'sig': sig, 'shape': list(shape), 'container': container}, n, len(its), key='array:itermv')
                else:
                    flat = [np.array(v, dtype=float).reshape(-1) for v in X.values()]
                    for j, e in enumerate(its):
                        if [float(v) for v in e.values()] != [float(f[j]) for f in flat]:
                            ctx.violation('itermv-order', {'sig': sig, 'shape': list(shape), 'container': container, 'j': j}, None, None, key='array:itermv')
                            break


def rng_array(rng, shape, np):
    n = int(np.prod(shape))
    return np.array([float(rng.randint(-6, 9)) for _ in range(n)]).reshape(shape)


def index_exprs(rng, shape):
    idxs = [0, shape[0] - 1, slice(None), slice(0, 1), slice(None, None, 2), [0, shape[0] - 1]]
    if len(shape) >= 2:
        idxs += [(0, 1 % shape[1]), (slice(None), 0), (0, slice(None)), (slice(0, 2), slice(None, None, -1)), ([0, shape[0] - 1], 0)]
    if len(shape) >= 3:
        idxs += [(1, 0, 1), (slice(None), 1, slice(None)), (Ellipsis, 0)]
    return idxs


def arr_mv_equal(a, b, np):
    if tuple(a.keys()) != tuple(b.keys()):
        da = {k: np.array(v, dtype=float) for k, v in zip(a.keys(), a.values())}
        db = {k: np.array(v, dtype=float) for k, v in zip(b.keys(), b.values())}
        keys = set(da) | set(db)
        return all(np.array_equal(np.broadcast_arrays(da.get(k, 0.0), db.get(k, 0.0))[0], np.broadcast_arrays(da.get(k, 0.0), db.get(k, 0.0))[1], equal_nan=True) for k in keys)
    for va, vb in zip(a.values(), b.values()):
        va, vb = np.array(va, dtype=float), np.array(vb, dtype=float)
        if va.shape != vb.shape or not np.allclose(va, vb, rtol=1e-12, atol=1e-12, equal_nan=True):     # a non-invertible entry is nan/inf on both sides
            return False
    return True


def arr_show(mv):
    try:
        return {k: [float(x) for x in __import__('numpy').array(v, dtype=float).reshape(-1)][:8] for k, v in zip(mv.keys(), mv.values())}
    except Exception:
        return repr(mv)[:200]

"""Translator: regenerates the declarative tables of the model from /repo's current source."""
def write_if_changed():
    return False

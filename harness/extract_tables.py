"""Translator: regenerates the declarative tables of the Lean model from /repo's *current* source.

Everything here is obtained by introspection and behavioural probing of the real classes (not by parsing source
text), so a harmless rewrite of the source leaves the tables unchanged while a change of behaviour changes them:

  operatorTable   Algebra field -> (codegen function __name__, unary?, uses mathstr?)
  mvDispatch      MultiVector method/dunder -> (operator, operands swapped?)      [recording stubs]
  tapeDispatch    TapeRecorder method/dunder -> (operator, operands swapped?)     [recording stubs]
  compareFields   dataclass fields of Algebra with compare=True
  namedBases      Algebra.fromname bases with (p, q, r)
  invertGrades    grade sets (mod 4) negated by reverse / involute / conjugate

The output is lean/Kingdon/Generated/Tables.lean; it is rewritten only when its content changes, so Lake rebuilds
(and re-proves every `decide` over the tables) exactly when the tables changed.
"""
import os, sys, dataclasses

VERIF = os.path.dirname(os.path.dirname(os.path.abspath(__file__)))
REPO = os.environ.get('VERIF_REPO', '/repo')
OUT = os.path.join(VERIF, 'lean', 'Kingdon', 'Generated', 'Tables.lean')

BINARY_PROBES = ['__mul__', '__rmul__', 'gp', '__xor__', '__rxor__', 'op', '__or__', '__ror__', 'ip', '__and__', '__rand__', 'rp',
                 '__rshift__', '__rrshift__', 'sw', '__matmul__', '__rmatmul__', 'proj', '__add__', '__radd__', 'add',
                 '__sub__', '__rsub__', 'sub', '__truediv__', '__rtruediv__', 'div', 'cp', 'acp', 'lc', 'rc', 'sp']
UNARY_PROBES = ['__neg__', 'neg', '__invert__', 'reverse', 'involute', 'conjugate', 'inv', 'sqrt', 'normsq', 'polarity', 'unpolarity',
                'hodge', 'unhodge', 'outerexp', 'outersin', 'outercos', 'outertan']


def lstr(s):
    return '"' + s.replace('\\', '\\\\').replace('"', '\\"') + '"'


def probe_mv():
    """call every method of the real MultiVector on an algebra whose operator dicts are recording stubs"""
    if REPO not in sys.path:
        sys.path.insert(0, REPO)
    from kingdon import Algebra, MultiVector
    alg = Algebra(2)
    rec = []

    class Stub:
        def __init__(self, name):
            self.name = name
        def __call__(self, *args):
            rec.append((self.name, args))
            return 'RESULT'
    for name in list(alg.registry):
        setattr(alg, name, Stub(name))
    a = MultiVector.fromkeysvalues(alg, (1,), [2])
    b = MultiVector.fromkeysvalues(alg, (2,), [3])
    table = []
    for m in BINARY_PROBES:
        rec.clear()
        try:
            getattr(a, m)(b)
        except Exception as e:
            table.append((m, 'raises:' + type(e).__name__, False, 0))
            continue
        if len(rec) == 1 and len(rec[0][1]) == 2:
            opn, args = rec[0]
            swapped = args[0] is b and args[1] is a
            straight = args[0] is a and args[1] is b
            table.append((m, opn if (swapped or straight) else 'other', swapped, 1))
        else:
            table.append((m, 'composite', False, len(rec)))
    for m in UNARY_PROBES:
        rec.clear()
        try:
            getattr(a, m)()
        except Exception as e:
            table.append((m, 'raises:' + type(e).__name__, False, 0))
            continue
        if len(rec) == 1 and len(rec[0][1]) == 1 and rec[0][1][0] is a:
            table.append((m, rec[0][0], False, 1))
        else:
            table.append((m, 'composite', False, len(rec)))
    return table


def probe_tape():
    """the same surface on TapeRecorder: which operator dictionary is consulted, in which operand order"""
    from kingdon import Algebra
    from kingdon.taperecorder import TapeRecorder
    alg = Algebra(2)
    rec = []

    class F:
        def __init__(self, n): self.__name__ = n

    class StubDict:
        def __init__(self, name): self.name = name
        def __getitem__(self, keys):
            rec.append((self.name, keys))
            return ((7,), F(f'{self.name}!'))
    for name in list(alg.registry):
        setattr(alg, name, StubDict(name))
    table = []
    for m in BINARY_PROBES:
        rec.clear()
        a = TapeRecorder(alg, 'A', (1,))
        b = TapeRecorder(alg, 'B', (2,))
        try:
            r = getattr(a, m)(b)
        except Exception as e:
            table.append((m, 'raises:' + type(e).__name__, False, 0))
            continue
        if len(rec) == 1:
            opn, keys = rec[0]
            swapped = keys == ((2,), (1,)) and r.expr == f'{opn}!(B, A)'
            straight = keys == ((1,), (2,)) and r.expr == f'{opn}!(A, B)'
            table.append((m, opn if (swapped or straight) else 'other', swapped, 1))
        else:
            table.append((m, 'composite', False, len(rec)))
    for m in UNARY_PROBES:
        rec.clear()
        a = TapeRecorder(alg, 'A', (1,))
        try:
            r = getattr(a, m)()
        except Exception as e:
            table.append((m, 'raises:' + type(e).__name__, False, 0))
            continue
        if len(rec) == 1 and rec[0][1] == (1,) and r.expr == f'{rec[0][0]}!(A)':
            table.append((m, rec[0][0], False, 1))
        else:
            table.append((m, 'composite', False, len(rec)))
    return table


def probe_duals():
    """dual()/undual() kind selection of MultiVector and TapeRecorder for r = 0, 1, 2: (class, method, r) -> operator"""
    from kingdon import Algebra, MultiVector
    from kingdon.taperecorder import TapeRecorder
    rows = []
    for r, sig in ((0, [1, 1]), (1, [0, 1]), (2, [0, 0])):
        for cls in ('mv', 'tape'):
            for meth in ('dual', 'undual'):
                alg = Algebra(signature=sig)
                rec = []

                class F:
                    def __init__(self, n): self.__name__ = n

                class Stub:
                    def __init__(self, name): self.name = name
                    def __call__(self, *args):
                        rec.append(self.name); return 'R'
                    def __getitem__(self, keys):
                        rec.append(self.name); return ((0,), F(self.name))
                for name in list(alg.registry):
                    setattr(alg, name, Stub(name))
                obj = MultiVector.fromkeysvalues(alg, (1,), [2]) if cls == 'mv' else TapeRecorder(alg, 'A', (1,))
                try:
                    getattr(obj, meth)()
                    res = rec[0] if len(rec) == 1 else 'composite'
                except Exception as e:
                    res = 'raises:' + type(e).__name__
                rows.append((cls, meth, r, res))
    return rows


def probe_number_operands():
    """a plain number on the other side: which operator, and is the number the left (True) or right operand"""
    from kingdon import Algebra, MultiVector
    from kingdon.taperecorder import TapeRecorder
    rows = []
    for cls in ('mv', 'tape'):
        for m in ['__mul__', '__rmul__', '__xor__', '__rxor__', '__or__', '__ror__', '__and__', '__rand__', '__add__', '__radd__',
                  '__sub__', '__rsub__', '__truediv__', '__rtruediv__', '__rshift__', '__rrshift__', '__matmul__', '__rmatmul__']:
            alg = Algebra(2)
            rec = []

            class F:
                def __init__(self, n): self.__name__ = n

            class Stub:
                def __init__(self, name): self.name = name
                def __call__(self, *args):
                    rec.append((self.name, tuple('num' if isinstance(a, int) else 'obj' for a in args))); return 'R'
                def __getitem__(self, keys):
                    rec.append((self.name, keys)); return ((7,), F(self.name + '!'))
            for name in list(alg.registry):
                setattr(alg, name, Stub(name))
            try:
                if cls == 'mv':
                    getattr(MultiVector.fromkeysvalues(alg, (1,), [2]), m)(5)
                    if len(rec) == 1:
                        rows.append((cls, m, rec[0][0], rec[0][1][0] == 'num', 1))
                    else:
                        rows.append((cls, m, 'composite', False, len(rec)))
                else:
                    r = getattr(TapeRecorder(alg, 'A', (1,)), m)(5)
                    if len(rec) == 1:
                        opn = rec[0][0]
                        left = r.expr == f'{opn}!((5,), A)'
                        right = r.expr == f'{opn}!(A, (5,))'
                        rows.append((cls, m, opn if (left or right) else 'other', left, 1))
                    else:
                        rows.append((cls, m, 'composite', False, len(rec)))
            except Exception as e:
                rows.append((cls, m, 'raises:' + type(e).__name__, False, 0))
    return rows


def probe_invert_grades():
    import kingdon.codegen as cg
    res = []
    for nm in ('codegen_reverse', 'codegen_involute', 'codegen_conjugate'):
        class X:
            def items(self):
                return [(k, ('v', k)) for k in (0, 1, 3, 7, 15, 31, 63, 127)]   # grades 0..7

        class V(tuple):
            pass
        # values that record negation
        class Val:
            def __init__(self, neg=False): self.neg = neg
            def __neg__(self): return Val(not self.neg)

        class XX:
            def items(self):
                return [(k, Val()) for k in (0, 1, 3, 7, 15, 31, 63, 127)]
        out = getattr(cg, nm)(XX())
        flipped = sorted({bin(k).count('1') % 4 for k, v in out.items() if v.neg})
        res.append((nm.replace('codegen_', ''), flipped))
    return res


def generate():
    if REPO not in sys.path:
        sys.path.insert(0, REPO)
    from kingdon import Algebra
    from kingdon.codegen import mathstr
    from kingdon.operator_dict import UnaryOperatorDict
    lines = ['/- GENERATED by harness/extract_tables.py from the current source of /repo — do not edit. -/',
             'namespace Kingdon.Gen', '']
    ops = []
    for f in dataclasses.fields(Algebra):
        if 'codegen' in f.metadata:
            ops.append((f.name, f.metadata['codegen'].__name__, issubclass(f.type, UnaryOperatorDict) if isinstance(f.type, type) else 'Unary' in str(f.type),
                        f.metadata.get('codegen_symbolcls') is mathstr))
    lines.append('/-- Algebra operator fields: (field, codegen __name__, unary, generated over mathstr) -/')
    lines.append('def operatorTable : List (String × String × Bool × Bool) := [')
    lines.append(',\n'.join(f'  ({lstr(a)}, {lstr(b)}, {str(bool(c)).lower()}, {str(bool(d)).lower()})' for a, b, c, d in ops))
    lines.append(']\n')
    for nm, tab in (('mvDispatch', probe_mv()), ('tapeDispatch', probe_tape())):
        lines.append(f'/-- method -> (operator consulted, operands swapped, number of operator calls) -/')
        lines.append(f'def {nm} : List (String × String × Bool × Nat) := [')
        lines.append(',\n'.join(f'  ({lstr(m)}, {lstr(o)}, {str(bool(s)).lower()}, {n})' for m, o, s, n in tab))
        lines.append(']\n')
    cmpf = [f.name for f in dataclasses.fields(Algebra) if f.compare]
    lines.append('/-- dataclass fields of Algebra that take part in `==` -/')
    lines.append('def compareFields : List String := [' + ', '.join(lstr(x) for x in cmpf) + ']\n')
    named = []
    for nm in ('2DPGA', '3DPGA', 'STAP'):
        try:
            a = Algebra.fromname(nm)
            names = [[int(ch, 16) for ch in b[1:]] for b in a.canon2bin]
            named.append((nm, a.p, a.q, a.r, [int(s) for s in a.signature], names))
        except Exception:
            pass
    lines.append('/-- Algebra.fromname: (name, p, q, r, signature, basis names) -/')
    lines.append('def namedBases : List (String × Nat × Nat × Nat × List Int × List (List Nat)) := [')
    lines.append(',\n'.join(f'  ({lstr(n)}, {p}, {q}, {r}, [{", ".join(map(str, sg))}], [{", ".join("[" + ", ".join(map(str, b)) + "]" for b in names)}])'
                           for n, p, q, r, sg, names in named))
    lines.append(']\n')
    inv = probe_invert_grades()
    lines.append('/-- grades mod 4 whose coefficients are negated -/')
    lines.append('def invertGrades : List (String × List Nat) := [' + ', '.join(f'({lstr(n)}, [{", ".join(map(str, g))}])' for n, g in inv) + ']\n')
    # behavioural probe of Algebra equality: does changing this aspect make two algebras unequal?
    def eqprobe():
        A = Algebra
        rows = []
        rows.append(('signature-order', A(signature=[1, -1]) != A(signature=[-1, 1])))
        rows.append(('signature-null-position', A(signature=[0, 1, 1]) != A(signature=[1, 1, 0])))
        rows.append(('pqr', A(2, 0, 0) != A(1, 1, 0)))
        rows.append(('basis-spelling', A(2, basis=['e', 'e1', 'e2', 'e12']) != A(2, basis=['e', 'e1', 'e2', 'e21'])))
        rows.append(('basis-generator-order', A(2, basis=['e', 'e1', 'e2', 'e12']) != A(2, basis=['e', 'e2', 'e1', 'e12'])))
        rows.append(('custom-vs-default-basis', A(2, 0, 1) != A.fromname('2DPGA')))
        rows.append(('start_index', A(2, start_index=0) != A(2, start_index=1)))
        rows.append(('cse', A(2, cse=True) != A(2, cse=False)))
        rows.append(('graded', A(2, graded=True) != A(2, graded=False)))
        rows.append(('same', A(signature=[1, -1, 0]) != A(signature=[1, -1, 0])))
        return rows
    lines.append('/-- Algebra.__eq__ probed: (aspect changed, algebras compare unequal) -/')
    lines.append('def equalityProbe : List (String × Bool) := [' + ', '.join(f'({lstr(a)}, {str(bool(b)).lower()})' for a, b in eqprobe()) + ']\n')
    lines.append('/-- dual()/undual() kind selection: (class, method, r, operator) -/')
    lines.append('def dualDispatch : List (String × String × Nat × String) := [')
    lines.append(',\n'.join(f'  ({lstr(c)}, {lstr(m)}, {r}, {lstr(o)})' for c, m, r, o in probe_duals()))
    lines.append(']\n')
    lines.append('/-- a plain number as the other operand: (class, method, operator, number is the LEFT operand, operator calls) -/')
    lines.append('def numberDispatch : List (String × String × String × Bool × Nat) := [')
    lines.append(',\n'.join(f'  ({lstr(c)}, {lstr(m)}, {lstr(o)}, {str(bool(l)).lower()}, {n})' for c, m, o, l, n in probe_number_operands()))
    lines.append(']\n')
    lines.append('end Kingdon.Gen')
    return '\n'.join(lines) + '\n'


def write_if_changed():
    txt = generate()
    os.makedirs(os.path.dirname(OUT), exist_ok=True)
    old = open(OUT).read() if os.path.exists(OUT) else None
    if old != txt:
        with open(OUT, 'w') as f:
            f.write(txt)
        return True
    return False


if __name__ == '__main__':
    print('changed' if write_if_changed() else 'unchanged')

"""C17 — the built-in polynomial arithmetic is exact rational-function arithmetic.

Tie: seeded and enumerated stack programs over the public constructors and operators of Polynomial /
     RationalPolynomial, executed on the real classes and on the Lean model (KP.runProgram); the resulting
     `args` structure is compared literally (the model is a model of that very list).
Oracle: the same program evaluated in the harness's free polynomial ring / fraction field; the real object's
     denotation must equal it; `== 0`, `bool` must be exact zero tests; `==` must not equate different functions.
"""
import itertools
from harness.common import *
from harness.tracer import P, Q, equal, iszero

VARS = ['a', 'b', 'c', 'a1', 'a12', 'b2', 'ab']     # 'ab': a name that is the concatenation of two others
VID = {v: i for i, v in enumerate(VARS)}


def render_poly(args):
    return '[' + ','.join('[' + ','.join([str(m[0])] + [str(v) for v in m[1:]]) + ']' for m in args) + ']'


def render(v):
    from kingdon.polynomial import Polynomial, RationalPolynomial
    if isinstance(v, bool):
        return 'True' if v else 'False'
    if isinstance(v, Polynomial):
        return 'P' + render_poly(v.args)
    if isinstance(v, RationalPolynomial):
        return 'R' + render_poly(v.numer.args) + '/' + render_poly(v.denom.args)
    return 'other:' + repr(v)


def den_poly(args):
    tot = P.lift(0)
    for m in args:
        t = P.lift(m[0])
        for v in m[1:]:
            t = t * P.var(VID[v])
        tot = tot + t
    return tot


def denote(v):
    from kingdon.polynomial import Polynomial, RationalPolynomial
    if isinstance(v, Polynomial):
        return den_poly(v.args)
    if isinstance(v, RationalPolynomial):
        d = den_poly(v.denom.args)
        if d.iszero():
            return 'pole'
        return Q(den_poly(v.numer.args), d)
    return v


def S(f, *args):
    """semantic operation; anything computed from a value with a zero denominator is undefined ('pole')"""
    if any(isinstance(a, str) for a in args):
        return 'pole'
    return f(*args)


def run_real(prog):
    """returns (rendered top of stack, semantic value of top by the tracer, list of semantic failures)"""
    from kingdon.polynomial import Polynomial, RationalPolynomial
    st, sem, fails = [], [], []
    def push(v, s):
        st.append(v); sem.append(s)
    try:
        for tok in prog:
            parts = tok.split(':')
            op = parts[0]
            if op == 'n': push(Polynomial(int(parts[1])), P.lift(int(parts[1])))
            elif op == 'v': push(Polynomial.fromname(parts[1]), P.var(VID[parts[1]]))
            elif op == 'rn': push(RationalPolynomial([[int(parts[1])]]), Q(P.lift(int(parts[1]))))
            elif op == 'rv': push(RationalPolynomial.fromname(parts[1]), Q(P.var(VID[parts[1]])))
            elif op == 'rz': push(RationalPolynomial([]), Q(P.lift(0)))
            elif op == 'pz': push(Polynomial([]), P.lift(0))
            elif op == 'dup': push(st[-1], sem[-1])
            elif op == 'swap':
                st[-1], st[-2] = st[-2], st[-1]; sem[-1], sem[-2] = sem[-2], sem[-1]
            elif op in ('add', 'mul', 'sub', 'div', 'mkr', 'eq'):
                b, a = st.pop(), st.pop(); sb, sa = sem.pop(), sem.pop()
                before_ab = (render(a), render(b))
                if op == 'add': push(a + b, S(lambda x, y: x + y, sa, sb))
                elif op == 'mul': push(a * b, S(lambda x, y: x * y, sa, sb))
                elif op == 'sub': push(a - b, S(lambda x, y: x - y, sa, sb))
                elif op in ('div', 'mkr'):
                    if isinstance(sb, str) or iszero(sb):
                        push(a / b, 'pole')
                    else:
                        push(a / b, S(lambda x, y: Q.lift(x) / Q.lift(y), sa, sb))
                elif op == 'eq':
                    r = (a == b)
                    if r and not (isinstance(sa, str) or isinstance(sb, str)) and not equal(sa, sb):
                        fails.append(('eq-equates-different-functions', render(a), render(b)))
                    push(bool(r), None)
                # an operator must not change its operands (they may be shared: `dup`, or terms of other polynomials)
                if (render(a), render(b)) != before_ab:
                    fails.append(('operand-changed', f'{before_ab[0]} {op} {before_ab[1]}', f'afterwards: {render(a)} , {render(b)}'))
            elif op == 'neg':
                a = st.pop(); sa = sem.pop(); push(-a, S(lambda x: -x, sa))
            elif op == 'rdiv':
                a = st.pop(); sa = sem.pop()
                push(int(parts[1]) / a, 'pole' if (isinstance(sa, str) or iszero(sa)) else Q.lift(int(parts[1])) / Q.lift(sa))
            elif op == 'pow':
                a = st.pop(); sa = sem.pop()
                n = int(parts[1])
                if n >= 0:
                    push(a ** n, S(lambda x: x ** n, sa))
                else:
                    push(a ** n, 'pole' if (isinstance(sa, str) or iszero(sa)) else Q.lift(1) / (Q.lift(sa) ** (-n)))
            elif op in ('eq0', 'eq1', 'bool'):
                a = st.pop(); sa = sem.pop()
                if op == 'eq0':
                    r = bool(a == 0)
                    if not isinstance(sa, str) and r != iszero(sa): fails.append(('zero-test-inexact', render(a), f'== 0 is {r}'))
                elif op == 'eq1':
                    r = bool(a == 1)
                    if not isinstance(sa, str) and r and not equal(sa, 1): fails.append(('eq-equates-different-functions', render(a), '== 1'))
                else:
                    r = bool(a)
                    if not isinstance(sa, str) and r != (not iszero(sa)): fails.append(('truthiness-inexact', render(a), f'bool is {r}'))
                push(r, None)
            else:
                raise ValueError(tok)
            # denotation of every intermediate result
            if st and sem[-1] is not None and not isinstance(sem[-1], str) and not isinstance(st[-1], bool):
                dv = denote(st[-1])
                if dv == 'pole':
                    fails.append(('zero-denominator', render(st[-1]), tok))
                elif not equal(dv, sem[-1]):
                    fails.append(('denotation', render(st[-1]), tok))
        # conversion to sympy preserves the function: the final value against sympy arithmetic on the stored terms
        if st and hasattr(st[-1], 'tosympy') and len(render(st[-1])) < 160:
            import sympy
            def sym(args):
                return sympy.Add(*[sympy.Mul(m[0], *[sympy.Symbol(v) for v in m[1:]]) for m in args])
            v = st[-1]
            if isinstance(v, Polynomial):
                if sympy.expand(v.tosympy() - sym(v.args)) != 0:
                    fails.append(('tosympy', render(v), str(v.tosympy())))
            elif isinstance(v, RationalPolynomial) and sym(v.denom.args) != 0:
                if sympy.expand(sympy.numer(sympy.together(v.tosympy() - sym(v.numer.args) / sym(v.denom.args)))) != 0:
                    fails.append(('tosympy', render(v), str(v.tosympy())))
    except Exception as e:
        return 'raise:' + type(e).__name__, None, fails
    return render(st[-1]) if st else 'empty', sem[-1] if sem else None, fails


def gen_program(rng, rational, length):
    """well-typed postfix program; stack depth tracked"""
    prog, depth = [], 0
    for _ in range(length):
        r = rng.random()
        if depth < 2 or r < 0.35:
            if rational:
                prog.append(rng.choice(['rv:' + rng.choice(VARS), 'rv:' + rng.choice(VARS[:3]), 'rn:' + str(rng.choice([0, 1, 2, -1, 3])), 'rz']))
            else:
                prog.append(rng.choice(['v:' + rng.choice(VARS), 'v:' + rng.choice(VARS[:3]), 'n:' + str(rng.choice([0, 1, 2, -1, 3])), 'pz']))
            depth += 1
        elif r < 0.85:
            ops = ['add', 'mul', 'sub', 'add', 'mul'] + (['div'] if rational else [])
            prog.append(rng.choice(ops)); depth -= 1
        elif r < 0.92:
            prog.append(rng.choice(['neg', 'dup', 'swap', 'pow:2', 'pow:3'] + (['rdiv:1', 'rdiv:2', 'pow:-1', 'pow:-2', 'pow:-3'] if rational else [])))
            if prog[-1] == 'dup': depth += 1
        else:
            prog.append(rng.choice(['neg', 'pow:1', 'pow:4' if not rational else 'pow:2']))
    while depth > 1:
        prog.append(rng.choice(['add', 'mul', 'sub'])); depth -= 1
    prog.append(rng.choice(['eq0', 'bool', 'eq1', 'dup eq', None, None, None]))
    if prog[-1] is None:
        prog.pop()
    elif prog[-1] == 'dup eq':
        prog[-1:] = ['dup', 'eq']
    return prog


def identities(rng, n, rational):
    """programs whose value is identically zero (or one) by ring laws: the zero tests must say so"""
    pre = 'r' if rational else ''
    def atom():
        return rng.choice([pre + 'v:' + rng.choice(VARS[:4]), pre + 'n:' + str(rng.choice([0, 1, 2, -1])),
                           pre + 'v:a ' + pre + 'v:b add', pre + 'n:0 ' + pre + 'v:' + rng.choice(VARS[:3]) + ' add',
                           pre + 'v:a ' + pre + 'v:b mul', ('rz' if rational else 'pz')])
    for _ in range(n):
        p, q, r = atom(), atom(), atom()
        k = rng.randrange(5)
        if k == 0:      # (p+q)*r - p*r - q*r
            prog = f'{p} {q} add {r} mul {p} {r} mul sub {q} {r} mul sub'
        elif k == 1:    # p*q - q*p
            prog = f'{p} {q} mul {q} {p} mul sub'
        elif k == 2:    # (p - q) + (q - p)
            prog = f'{p} {q} sub {q} {p} sub add'
        elif k == 3:    # (p+q)^2 - p^2 - q^2 - p*q - p*q
            prog = f'{p} {q} add dup mul {p} dup mul sub {q} dup mul sub {p} {q} mul sub {p} {q} mul sub'
        else:           # p*(q*r) - (p*q)*r
            prog = f'{p} {q} {r} mul mul {p} {q} mul {r} mul sub'
        for tail in ('eq0', 'bool', pre + 'v:c mul eq0'):
            yield (prog + ' ' + tail).split()


def enumerated():
    """small exhaustive family: all binary combinations of a few atoms under each operator, then zero tests"""
    atomsP = ['n:0', 'n:1', 'n:2', 'pz', 'v:a', 'v:b', 'v:a v:b add', 'v:a v:b mul', 'v:a n:1 add', 'n:0 v:a add', 'v:a v:a sub', 'v:a1 v:a12 mul']
    atomsR = ['rn:0', 'rn:1', 'rz', 'rv:a', 'rv:b', 'rv:a rv:b div', 'rv:a rv:b add', 'rv:a rv:b mul rv:a div', 'rn:1 rv:a div', 'rv:a rv:a sub']
    for atoms, ops in ((atomsP, ['add', 'mul', 'sub', 'eq']), (atomsR, ['add', 'mul', 'sub', 'div', 'eq'])):
        for x, y in itertools.product(atoms, repeat=2):
            for op in ops:
                base = x.split() + y.split() + [op]
                yield base
                if op != 'eq':
                    yield base + ['eq0']
                    yield base + ['bool']
                    yield base + ['v:c' if atoms is atomsP else 'rv:c', 'mul', 'eq0']


def monomial_family(rng, quick):
    """(1) products and quotients of monomial fractions over three or more variables in every relative order of the
    names (the common-factor cancellation of RationalPolynomial.__mul__), (2) integer powers of single-term
    polynomials against the same function obtained by repeated multiplication, followed by the zero tests"""
    vs = VARS[:5]
    monos = []
    for r in (1, 2, 3):
        for c in itertools.combinations_with_replacement(vs, r):
            monos.append(list(c))
    def mono(m, pre, coeff=None):
        toks = [f'{pre}v:{m[0]}'] + [t for v in m[1:] for t in (f'{pre}v:{v}', 'mul')]
        if coeff is not None:
            toks = [f'{pre}n:{coeff}'] + toks + ['mul']
        return toks
    pairs = [(a, b) for a in monos for b in monos]
    if quick:
        pairs = rng.sample(pairs, 350)
    for a, b in pairs:
        yield mono(a, 'r') + ['rn:1'] + mono(b, 'r') + ['div', 'mul']                     # a * (1/b)
        if rng.random() < 0.5:
            yield mono(a, 'r') + mono(b, 'r') + ['div'] + mono(rng.choice(monos), 'r') + ['mul']   # (a/b) * c
        if rng.random() < 0.3:
            yield mono(a, 'r') + ['rn:1'] + mono(b, 'r') + ['div', 'mul'] + mono(a, 'r') + mono(b, 'r') + ['div', 'eq']
    # negative integer powers of fractions against the inverse of the positive power
    for a, b in (pairs if not quick else pairs[:60]):
        for n in (1, 2, 3, 4):
            frac = mono(a, 'r') + mono(b, 'r') + ['div']
            yield frac + [f'pow:-{n}']
            yield frac + [f'pow:-{n}'] + frac + [f'pow:{n}', 'mul', 'eq1']
            yield frac + ['rn:1', 'add', f'pow:-{n}'] + ['rn:1'] + frac + ['rn:1', 'add', f'pow:{n}', 'div', 'sub', 'eq0']
    multi = [m for m in monos if len(set(m)) >= 2]
    for m in multi:
        for pre in ('', 'r'):
            for coeff in (None, 3, -2):
                for n in (2, 3):
                    power = mono(m, pre, coeff) + [f'pow:{n}']
                    prod = mono(m, pre, coeff)
                    for _ in range(n - 1):
                        prod = prod + mono(m, pre, coeff) + ['mul']
                    for tail in (['eq0'], ['bool'], [f'{pre}v:c', 'mul', 'eq0']):
                        yield power + prod + ['sub'] + tail
                    yield power + prod + ['eq']
                    yield power + prod + ['add'] + prod + ['sub'] + prod + ['sub', 'eq0']


def run(ctx):
    ctx.rule = ('postfix programs over the public constructors and operators of Polynomial / RationalPolynomial: an enumerated family '
                '(all pairs of 12 resp. 10 atoms under each operator, followed by zero tests) and seeded random programs of length '
                '<= 14 (quick) / 24 (thorough); a case is one program; non-trivial = at least one binary operator; '
                'compared: literal args structure with the Lean model; denotation of every intermediate value in the free ring')
    ctx.lean_prepare()
    rng = ctx.rng
    progs = [p for p in enumerated()]
    for rational in (False, True):
        progs.extend(identities(rng, 150 if ctx.quick else 1500, rational))
    progs.extend(monomial_family(rng, ctx.quick))
    n = 1500 if ctx.quick else 12000
    for i in range(n):
        progs.append(gen_program(rng, rational=(i % 2 == 1), length=rng.randint(3, 14 if ctx.quick else 24)))
    lines, plan = [], []
    for prog in progs:
        out, sem, fails = run_real(prog)
        nontrivial = any(t in ('add', 'mul', 'sub', 'div') for t in prog)
        ctx.case(' '.join(prog), nontrivial=nontrivial, tag='rational' if any(t.startswith('r') for t in prog) else 'polynomial')
        if out.startswith('raise:'):
            ctx.count('outcome:' + out)
        for f in fails:
            ctx.violation(f[0], {'program': ' '.join(prog)}, 'exact rational-function semantics', list(f[1:]), key='poly:' + f[0] + ':' + classify(prog, f))
        lines.append('kpoly ' + ' '.join(prog))
        plan.append((' '.join(prog), out))
        # the same program through the methods as *translated from the source* (validates the translator and its prelude)
        lines.append('srckpoly ' + ' '.join(prog))
        plan.append(('translated: ' + ' '.join(prog), out))
    out = ctx.drive(lines)
    if out is not None:
        nb = 0
        for (prog, exp), got in zip(plan, out):
            if exp != got:
                nb += 1
                if nb <= 5:
                    ctx.mismatch('translated-source' if prog.startswith('translated: ') else 'kpoly', {'program': prog}, got[:300], exp[:300])
        ctx.count('driver-mismatches', nb)
    ctx.assumptions = ['coefficients are integers; python floats in coefficients are outside the model',
                       'programs are well typed (no mixing of Polynomial and RationalPolynomial operands, which python promotes implicitly)']


def classify(prog, f):
    """finding key detail: does the program use the public zero constant `Polynomial(0)` / explicit [[0]]?"""
    s = ' '.join(prog)
    if 'n:0' in prog or 'rn:0' in prog:
        return 'explicit-zero-constant'
    if any(t.startswith('pow:') for t in prog):
        return 'pow'
    return 'other'

"""C14 — custom bases and start indices are a pure relabelling.

Tie:    orientation signs eps_K and the bit-ordered signature of every custom basis as the Lean model computes them
        (the quantities of the relabelling theorems) vs. values obtained on the real code by multiplying generators
        of the *default-basis* algebra in the order of the custom names; named constructors re-extracted and proved
        admissible in Lean; equality probe table.
Oracle: Phi(op_custom(x, y)) == op_default(Phi x, Phi y) for every operator with tracer-ring coefficients (Hodge,
        regressive product and polarity relative to the image of the pseudoscalar), accessors with any spelling,
        start indices, fromname instances, matrix representation, rejection of operands of different algebras.
"""
import itertools
from fractions import Fraction
from harness.common import *
from harness.opcorr import *

OPS_BIN = ['gp', 'op', 'ip', 'lc', 'rc', 'sp', 'cp', 'acp', 'add', 'sub', 'sw', 'proj', 'div']
OPS_UN = ['neg', 'reverse', 'involute', 'conjugate', 'normsq', 'inv']
PSS_REL_UN = ['hodge', 'unhodge', 'polarity', 'unpolarity']


def default_partner(alg):
    """default-basis algebra with the bit-ordered signature of `alg`, and eps_K for every key"""
    vecs = [alg.bin2canon[2 ** j][1:] for j in range(alg.d)]
    start = min(int(v, 16) for v in vecs) if vecs else 0        # a custom basis starts at its lowest generator label
    sigbits = [int(alg.signature[int(v, 16) - start]) for v in vecs]
    dflt = make_algebra(sigbits)
    gens = [dflt.blades[dflt.bin2canon[2 ** j]] for j in range(alg.d)]
    eps = {}
    for name, K in alg.canon2bin.items():
        acc = dflt.scalar([1])
        for ch in name[1:]:
            acc = acc * gens[vecs.index(ch)]
        d = mv_to_dict(acc)
        if set(d) != {K} or d[K] not in (1, -1):
            return dflt, sigbits, None, vecs
        eps[K] = int(d[K])
    return dflt, sigbits, eps, vecs


def phi(dflt, eps, mv):
    from kingdon import MultiVector
    return MultiVector.fromkeysvalues(dflt, tuple(mv.keys()), [v * eps[k] for k, v in zip(mv.keys(), mv.values())])


def phi_dict(eps, d):
    return {k: v * eps[k] for k, v in d.items()}


def registered_spelling_pass(ctx):
    """coefficient access by every spelling (all permutations of the letters) of the grade >= 2 blades, inside registered
    functions, on custom / named bases: the accessor commutes with registration (same value as the direct access)"""
    from fractions import Fraction
    from kingdon import Algebra, MultiVector
    rng = ctx.rng
    algs = [('3DPGA', Algebra.fromname('3DPGA')), ('2DPGA', Algebra.fromname('2DPGA')),
            ('custom-e312', make_algebra([1, 1, 1], None, ['e', 'e1', 'e2', 'e3', 'e12', 'e31', 'e23', 'e312'])),
            ('default-3d', make_algebra([1, -1, 1]))]
    for nm, alg in algs:
        full = list(alg.canon2bin.values())
        x = MultiVector.fromkeysvalues(alg, tuple(full), [Fraction(rng.randint(1, 9)) for _ in full])
        names = [n for n in alg.canon2bin if 3 <= len(n) <= 4]
        for name in names:
            perms = list(itertools.permutations(name[1:]))
            rng.shuffle(perms)
            for perm in perms[:6]:
                sp = 'e' + ''.join(perm)
                ns = {}
                exec(f'def acc_{sp}(x):\n    return x.{sp} * x\n', ns)
                f = ns[f'acc_{sp}']
                case = {'algebra': nm, 'blade': name, 'spelling': sp}
                ctx.case(case, tag='registered-spelling')
                exp = mv_to_dict(f(x))
                try:
                    got = mv_to_dict(alg.register(f)(x))
                except Exception as e:
                    ctx.violation('registered-accessor-raises', case, str(exp)[:200], repr(e)[:200], key='accessor:registered:raises')
                    continue
                if got != exp:
                    ctx.violation('registered-accessor', case, str(exp)[:200], str(got)[:200], key='accessor:registered')
                    break


def fromname_history_pass(ctx):
    """`Algebra.fromname(name)` after earlier `fromname(name, **options)` calls for the same name in the same process (graded=True,
    cse=False, another signature, a wrapper): a plain `fromname(name)` is still the named algebra with default options - it
    equals the first plain one, has the documented signature, and multiplies like it"""
    from kingdon import Algebra
    spec = {'2DPGA': (2, 0, 1), '3DPGA': (3, 0, 1), 'STAP': (3, 1, 1)}
    for name, (p_, q_, r_) in spec.items():
        first = Algebra.fromname(name)
        ref = (first.p, first.q, first.r, [int(v) for v in first.signature], first.graded, first.cse, list(first.canon2bin), first.wrapper)
        d = first.d
        sig2 = [int(v) for v in first.signature]; sig2[-1] = -sig2[-1] if sig2[-1] else 1
        for optname, kw in (('graded=True', {'graded': True}), ('cse=False', {'cse': False}), ('signature=..', {'signature': sig2}), ('wrapper=f', {'wrapper': (lambda f: f)})):
            try:
                Algebra.fromname(name, **kw)
            except Exception as ex:
                ctx.count('fromname-option-raises:' + type(ex).__name__)
            plain = Algebra.fromname(name)
            got = (plain.p, plain.q, plain.r, [int(v) for v in plain.signature], plain.graded, plain.cse, list(plain.canon2bin), plain.wrapper)
            case = {'fromname': name, 'earlier_call': f'Algebra.fromname({name!r}, {optname})'}
            ctx.case(case, tag='fromname-history')
            if got != ref or (p_, q_, r_) != (plain.p, plain.q, plain.r) or not (plain == first):
                ctx.violation('fromname-instance', case, str(ref[:6])[:250], str(got[:6])[:250], key='fromname:history')
                break
            gens = [n for n in plain.canon2bin if len(n) == 2]
            sq = [mv_to_dict(plain.blades[g] * plain.blades[g]) for g in gens]
            sq0 = [mv_to_dict(first.blades[g] * first.blades[g]) for g in gens]
            if sq != sq0:
                ctx.violation('fromname-instance', {**case, 'check': 'generator squares'}, str(sq0), str(sq), key='fromname:history:squares')
                break


def run(ctx):
    from kingdon import Algebra, MultiVector
    from kingdon.operator_dict import AlgebraError
    ctx.rule = ('custom bases (generator order x blade spellings x within-grade order; exhaustive d<=2, seeded d<=4, the three named '
                'algebras) and start indices; per basis every operator on seeded sparse key patterns with tracer coefficients, compared '
                'through the relabelling map with the default-basis algebra; accessor spellings; pairs of distinct algebras; '
                'a case is one comparison')
    ctx.lean_prepare()
    rng = ctx.rng
    bases = []
    # exhaustive d = 2
    for start in (0, 1):
        labels0 = [start, start + 1]
        for labels in itertools.permutations(labels0):
            for g2 in itertools.permutations(labels):
                for sig in ([1, 1], [1, -1], [0, 1], [-1, 0]):
                    bases.append((sig, ['e'] + ['e' + hexd(l) for l in labels] + ['e' + ''.join(hexd(x) for x in g2)]))
    # the smallest cases: no basis vector at all, one basis vector
    bases.append(([], ['e']))
    for sig1 in ([1], [-1], [0]):
        for lab in (0, 1, 3):
            bases.append((sig1, ['e', 'e' + hexd(lab)]))
    n = 8 if ctx.quick else 60
    for _ in range(n):
        d = rng.choice([3, 3, 4] if ctx.quick else [3, 4, 4, 5])
        bases.append(([rng.choice((1, -1, 0)) for _ in range(d)], random_custom_basis(rng, d)))
    # labels spelled with hex letters (a..f; `e` is also the prefix of every blade name)
    for d, st in ((3, 13), (3, 12), (4, 12), (2, 14)):
        bases.append(([rng.choice((1, -1, 0)) for _ in range(d)], random_custom_basis(rng, d, st)))
    # above six dimensions (sign table filled on demand): custom bases with 128 / 256 blade names
    for d in ([7] if ctx.quick else [7, 7, 8]):
        sig = [rng.choice((1, -1, 0)) for _ in range(d)]
        if len(set(sig)) == 1:
            sig[0] = -sig[0] if sig[0] else 1
        bases.append((sig, random_custom_basis(rng, d)))
    named = []
    for nm in ('2DPGA', '3DPGA', 'STAP'):
        named.append(nm)
    lines, plan = [], []
    algs = []
    for sig, basis in bases:
        try:
            algs.append((make_algebra(sig, None, basis), {'sig': sig, 'basis': basis}))
        except Exception as e:
            ctx.violation('construct-raises', {'sig': sig, 'basis': basis}, 'an algebra', repr(e)[:200], key='construct')
    for nm in named:
        algs.append((Algebra.fromname(nm), {'fromname': nm}))
    for alg, desc in algs:
        d = alg.d
        dflt, sigbits, eps, vecs = default_partner(alg)
        if eps is None:
            ctx.violation('names', desc, 'every name is a product of distinct generators', 'not so', key='relabel:names')
            continue
        tok = cfg_token([int(s) for s in alg.signature], None, list(alg.canon2bin.keys()))
        lines.append(f'eps {tok}')
        plan.append((desc, 'sigbits=' + ','.join(map(str, sigbits)) + ' eps=' + ','.join(str(eps[K]) for K in range(2 ** d))))
        full = 2 ** d - 1
        ef = eps[full]
        heavy = d >= 5
        npat = (2 if d >= 4 else 3) if ctx.quick else 8
        if 'fromname' in desc:
            # the named constructors are instances of the custom-basis construction
            a2 = Algebra(alg.p, alg.q, alg.r, basis=list(alg.canon2bin.keys()))
            if dict(a2.signs) != dict(alg.signs) if d <= 6 else False:
                ctx.violation('fromname-instance', desc, None, None, key='fromname')
        for _ in range(npat):
            kx = list(dict.fromkeys(key_tuples(rng, d, 1, ['small', 'grades', 'subset'])[0] or [min(1, 2 ** d - 1)]))[:5]
            ky = list(dict.fromkeys(key_tuples(rng, d, 1, ['small', 'grades', 'subset'])[0] or [min(2, 2 ** d - 1)]))[:5]
            x, y = tracer_mv(alg, kx, 0), tracer_mv(alg, ky, 1000)
            px, py = phi(dflt, eps, x), phi(dflt, eps, y)
            for op in OPS_BIN:
                if heavy and op in ('sw', 'proj', 'div'):
                    continue
                if op in ('sw', 'proj', 'div') and (len(kx) > 3 or len(ky) > 3) and d >= 4:
                    continue
                case = {**desc, 'op': op, 'kx': kx, 'ky': ky}
                try:
                    l = phi_dict(eps, mv_to_dict(BIN[op](x, y)))
                    lerr = None
                except Exception as e:
                    l, lerr = None, type(e).__name__
                try:
                    r = mv_to_dict(BIN[op](px, py)); rerr = None
                except Exception as e:
                    r, rerr = None, type(e).__name__
                ctx.case(case, tag=f'op:{op}')
                if lerr != rerr or (l is not None and not dict_equal(l, r)):
                    ctx.violation('relabel', case, rerr or show_d(r), lerr or show_d(l), key=f'relabel:{op}')
            for op in OPS_UN + PSS_REL_UN:
                if heavy and op in ('inv', 'normsq', 'polarity', 'unpolarity'):
                    continue
                case = {**desc, 'op': op, 'kx': kx}
                try:
                    l = phi_dict(eps, mv_to_dict(UN[op](x))); lerr = None
                except Exception as e:
                    l, lerr = None, type(e).__name__
                try:
                    r = mv_to_dict(UN[op](px)); rerr = None
                except Exception as e:
                    r, rerr = None, type(e).__name__
                if r is not None and op in PSS_REL_UN:
                    r = {k: v * ef for k, v in r.items()}       # relative to the image of the pseudoscalar
                ctx.case(case, tag=f'op:{op}')
                if lerr != rerr or (l is not None and not dict_equal(l, r)):
                    ctx.violation('relabel', case, rerr or show_d(r), lerr or show_d(l), key=f'relabel:{op}')
            # regressive product, relative to the pseudoscalar orientation
            case = {**desc, 'op': 'rp', 'kx': kx, 'ky': ky}
            l = phi_dict(eps, mv_to_dict(x & y)); r = {k: v * ef for k, v in mv_to_dict(px & py).items()}
            ctx.case(case, tag='op:rp')
            if not dict_equal(l, r):
                ctx.violation('relabel', case, show_d(r), show_d(l), key='relabel:rp')
            # accessors with any spelling
            xs = MultiVector.fromkeysvalues(alg, tuple(kx), [Fraction(i + 2) for i in range(len(kx))])
            pxs = phi(dflt, eps, xs)
            for name, K in list(alg.canon2bin.items()):
                letters = list(name[1:])
                perms = list(itertools.permutations(letters))
                for p in (perms if len(perms) <= 6 else rng.sample(perms, 4)):
                    sp = 'e' + ''.join(p)
                    sp_d = 'e' + ''.join(hexd(vecs.index(ch) + dflt.start_index) for ch in p)
                    got, exp = getattr(xs, sp), getattr(pxs, sp_d)
                    ctx.case((desc.get('fromname') or tuple(desc['basis']), tuple(kx), sp), tag='accessor', sample=False)
                    if got != exp:
                        ctx.violation('accessor', {**desc, 'keys': kx, 'spelling': sp}, exp, got, key='relabel:accessor')
                    # a blade name given as a *key* (keys=(name,), {name: value}): either refused or the blade of that spelling,
                    # i.e. what the keyword form alg.multivector(name=value) builds
                    if d <= 4:
                        try:
                            kwform = mv_to_dict(alg.multivector(**{sp: Fraction(7)}))
                        except Exception:
                            kwform = None
                        for fname, thunk in (('keys=(name,)', lambda: alg.multivector(keys=(sp,), values=[Fraction(7)])),
                                             ('{name: value}', lambda: alg.multivector({sp: Fraction(7)}))):
                            try:
                                built = mv_to_dict(thunk())
                            except Exception:
                                continue
                            if kwform is not None and built != kwform:
                                ctx.violation('name-as-key', {**desc, 'spelling': sp, 'form': fname}, show_d(kwform), show_d(built), key='relabel:name-as-key')
        # matrix representation commutes with the map (homomorphism in the custom basis)
        if d <= 3:
            bad = 0
            for a, b in itertools.product(alg.canon2bin, repeat=2):
                A, B = alg.blades[a], alg.blades[b]
                import numpy as np
                if not np.array_equal((A * B).asmatrix() if len((A * B).keys()) else np.zeros_like(A.asmatrix()), A.asmatrix() @ B.asmatrix()):
                    bad += 1
            ctx.case(('asmatrix', desc.get('fromname') or tuple(desc['basis'])), tag='asmatrix')
            if bad:
                ctx.violation('asmatrix', {**desc, 'failing_blade_pairs': bad}, 'asmatrix(x*y) == asmatrix(x) @ asmatrix(y)', f'{bad} blade pairs differ',
                              key='asmatrix:custom-basis')
    # start indices: pure renaming
    for sig in ([1, 1, 1], [0, 1, 1], [1, -1]):
        a0 = make_algebra(sig)
        for start in (0, 1, 2, 3):
            a1 = make_algebra(sig, start)
            ctx.case(('start', tuple(sig), start), tag='start-index')
            if {k: int(v) for k, v in a0.signs.items()} != {k: int(v) for k, v in a1.signs.items()} or \
                    list(a0.canon2bin.values()) != list(a1.canon2bin.values()):
                ctx.violation('start-index', {'sig': sig, 'start': start}, 'same tables', 'tables differ', key='start-index')
            names1 = list(a1.canon2bin.keys())
            exp_names = ['e' + ''.join(hexd(int(ch, 16) - a0.start_index + start) for ch in n[1:]) for n in a0.canon2bin.keys()]
            if names1 != exp_names:
                ctx.violation('start-index-names', {'sig': sig, 'start': start}, exp_names, names1, key='start-index')
    registered_spelling_pass(ctx)
    fromname_history_pass(ctx)
    # rejection of operands from algebras whose metric or basis differ
    pool = [('sig+-', make_algebra([1, -1])), ('sig-+', make_algebra([-1, 1])), ('sig++', make_algebra([1, 1])),
            ('pga-default', make_algebra([0, 1, 1])), ('pga-named', Algebra.fromname('2DPGA')), ('sig110', make_algebra([1, 1, 0])),
            ('basis-e21', make_algebra([1, 1], None, ['e', 'e1', 'e2', 'e21'])), ('basis-swapped', make_algebra([1, 1], None, ['e', 'e2', 'e1', 'e12']))]
    # every pair in both orders, cold (the operator has never seen these key tuples) and warm (each algebra has already
    # used the operator on the same ordered pair of key tuples, so a function for them is cached)
    for phase in ('cold', 'warm'):
      for (na, A), (nb, B) in itertools.permutations(pool, 2):
        xa = A.multivector(keys=(1,), values=[2]); xb = B.multivector(keys=(1,), values=[3])
        for op in ('gp', 'add', 'op', 'ip', 'sw', 'sub', 'rp', 'cp', 'div'):
            if phase == 'warm':
                try:
                    BIN[op](xa, A.multivector(keys=(1,), values=[5]))
                    BIN[op](B.multivector(keys=(1,), values=[5]), xb)
                except ZeroDivisionError:
                    pass
            ctx.case(('reject', phase, na, nb, op), tag='rejection:' + phase)
            try:
                r = BIN[op](xa, xb)
                ctx.violation('not-rejected', {'a': na, 'b': nb, 'op': op, 'cache': phase}, 'AlgebraError', str(mv_to_dict(r)), key='rejection:' + phase)
            except AlgebraError:
                pass
            except Exception as e:
                ctx.violation('not-rejected', {'a': na, 'b': nb, 'op': op, 'cache': phase}, 'AlgebraError', repr(e)[:100], key='rejection:other-error')
    for sig in ([1, -1], [0, 1, 1]):
        A, B = make_algebra(sig), make_algebra(sig)
        try:
            A.multivector(keys=(1,), values=[2]) * B.multivector(keys=(1,), values=[3])
        except Exception as e:
            ctx.violation('equal-algebras-rejected', {'sig': sig}, 'a product', repr(e)[:100], key='rejection:equal')
    out = ctx.drive(lines)
    if out is not None:
        nb = 0
        for (desc, exp), got in zip(plan, out):
            if exp != got:
                nb += 1
                if nb <= 5:
                    ctx.mismatch('orientation', desc, got[:200], exp[:200])
        ctx.count('driver-mismatches', nb)
    ctx.assumptions = ['Hodge dual, regressive product and polarity commute with the relabelling up to the orientation sign of the custom '
                       'pseudoscalar (the property allows the pseudoscalar to be oriented differently)',
                       'a different start index alone is a renaming and is not rejected (test_start_index of the repository requires this)']


def show_d(d):
    try:
        return canon_dict(d)
    except Exception:
        return {k: repr(v)[:60] for k, v in d.items()}

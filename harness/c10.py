"""C10 — code is generated at most once per operator and key pattern.

Generation events are observed from outside by rebinding module globals (operator_dict.do_codegen/do_compile,
codegen.compile, and a counting wrapper).  Tie: per-call generation flags of the real history vs. the Lean model
of the get-or-generate protocol (OD.run).  Oracle: over the whole history every (operator, ordered key pattern)
is generated, compiled and wrapped at most once, and a repeated pattern triggers no event at all.
"""
from fractions import Fraction
from harness.common import *
from harness.opcorr import key_tuples, BIN, UN, ks

BIN_OPS = ['gp', 'op', 'ip', 'lc', 'rc', 'sp', 'cp', 'acp', 'rp', 'add', 'sub', 'sw', 'proj', 'div']
UN_OPS = ['neg', 'reverse', 'involute', 'conjugate', 'hodge', 'unhodge', 'normsq', 'inv', 'polarity', 'unpolarity',
          'outerexp', 'outersin', 'outercos']


class Recorder:
    def __init__(self):
        self.events = []

    def install(self):
        import kingdon.operator_dict as od
        import kingdon.codegen as cg
        import builtins
        self.od, self.cg = od, cg
        self.orig = (od.do_codegen, od.do_compile, cg.__dict__.get('compile', None))
        rec = self

        def do_codegen(codegen, *mvs):
            r = rec.orig[0](codegen, *mvs)
            rec.events.append(('codegen', codegen.__name__, tuple(tuple(mv.keys()) for mv in mvs)))
            return r

        def do_compile(codegen, *tapes):
            r = rec.orig[1](codegen, *tapes)
            rec.events.append(('codegen', codegen.__name__, tuple(tuple(t.keys()) for t in tapes)))
            return r

        def compile_(src, filename, mode, *a, **k):
            rec.events.append(('compile', filename))
            return builtins.compile(src, filename, mode, *a, **k)
        od.do_codegen, od.do_compile, cg.compile = do_codegen, do_compile, compile_

    def uninstall(self):
        self.od.do_codegen, self.od.do_compile = self.orig[0], self.orig[1]
        if self.orig[2] is None:
            del self.cg.compile
        else:
            self.cg.compile = self.orig[2]

    def wrapper(self, f):
        self.events.append(('wrap', f.__name__))
        return f


def values_of(kind, n, rng, name):
    import numpy as np, sympy
    if kind == 'int':
        return [rng.randint(1, 9) for _ in range(n)]
    if kind == 'float':
        return [rng.randint(1, 9) + 0.5 for _ in range(n)]
    if kind == 'Fraction':
        return [Fraction(rng.randint(1, 9), rng.randint(1, 5)) for _ in range(n)]
    if kind == 'ndarray':
        return [np.array([rng.randint(1, 9) + 0.25, rng.randint(1, 9)]) for _ in range(n)]
    if kind == 'sympy':
        return [sympy.Symbol(f'{name}{i}') for i in range(n)]
    if kind == 'mixed':
        return [sympy.Symbol(f'{name}{i}') if i % 2 else rng.randint(1, 9) for i in range(n)]
    raise ValueError(kind)


KINDS = ['int', 'float', 'Fraction', 'ndarray', 'sympy', 'mixed']


def registered_pass(ctx, rec):
    """registered functions (both compilation routes, 1-3 arguments, two different functions with the same __name__,
    with and without a wrapper): the first call per key pattern generates, every later call with that pattern - other
    coefficient values and types, other registered functions called in between - is event-free"""
    from kingdon import MultiVector
    rng = ctx.rng

    def make_pair(k):
        def comb(x, y):
            return x * y + k * (x | y)
        return comb
    for sig, use_wrapper in (([1, 1, 1], False), ([0, 1, 1], True)):
        for symbolic in (False, True):
            alg = make_algebra(sig, **({'wrapper': rec.wrapper} if use_wrapper else {}))
            kw = {'symbolic': True} if symbolic else {}
            @alg.register(**kw)
            def unary_f(x):
                return x * x + x
            @alg.register(**kw)
            def binary_f(x, y):
                return (x * y) - (y ^ x)
            @alg.register(**kw)
            def ternary_f(x, y, z):
                return x * y * z + z
            same_a = alg.register(make_pair(1), **kw)
            same_b = alg.register(make_pair(2), **kw)
            funcs = [('unary_f', unary_f, 1), ('binary_f', binary_f, 2), ('ternary_f', ternary_f, 3), ('comb#1', same_a, 2), ('comb#2', same_b, 2)]
            pats = [[1, 2], [0, 3], [1, 2, 4], [4, 2]]
            hist = []
            for nm, f, ar in funcs:
                for _ in range(2):
                    kss = tuple(tuple(rng.choice(pats)) for _ in range(ar))
                    for kind in rng.sample(['int', 'float', 'Fraction', 'ndarray'] + ([] if symbolic else []), 3):
                        hist.append((nm, f, kss, kind))
            # same-named functions in strict alternation on one pattern
            kss = ((1, 2), (2, 4))
            for i in range(6):
                hist.append(('comb#1', same_a, kss, 'int') if i % 2 == 0 else ('comb#2', same_b, kss, 'float'))
            head, tail = hist[:-6], hist[-6:]
            rng.shuffle(head)
            seen = set()
            ev0 = len(rec.events)
            for nm, f, kss, kind in head + tail:
                mvs = [MultiVector.fromkeysvalues(alg, k, values_of(kind, len(k), rng, 'abc'[i])) for i, k in enumerate(kss)]
                before = len(rec.events)
                raised = None
                try:
                    f(*mvs)
                except Exception as e:
                    raised = type(e).__name__
                new = rec.events[before:]
                case = {'sig': sig, 'wrapper': use_wrapper, 'symbolic_route': symbolic, 'function': nm, 'keys': [list(k) for k in kss], 'values': kind, 'raised': raised}
                first = (nm, kss) not in seen
                seen.add((nm, kss))
                ctx.case(case, tag=('registered-first' if first else 'registered-repeat') + (':symbolic' if symbolic else ':tape'))
                if not first and new:
                    ctx.violation('regenerated', case, 'no generation/compile/wrap event for a cached pattern of a registered function',
                                  [list(map(str, e))[:3] for e in new[:6]], key=f'regenerated:registered:{"symbolic" if symbolic else "tape"}:{new[0][0]}')
            # over the whole history of this algebra no function is handed to the wrapper (the compile step) twice - also not the
            # built-in operator functions that registered expressions refer to while they are recorded
            from collections import Counter
            wraps = Counter(ev for ev in rec.events[ev0:] if ev[0] == 'wrap')
            names_twice = {ev[1]: n for ev, n in wraps.items() if n > 1}
            # two different registered functions may share a __name__ (comb#1 / comb#2): those names are expected twice
            names_twice = {k: v for k, v in names_twice.items() if not k.startswith('comb')}
            ctx.case({'sig': sig, 'wrapper': use_wrapper, 'symbolic_route': symbolic, 'check': 'each function wrapped at most once'}, tag='registered-wrap-once')
            if names_twice:
                ctx.violation('generated-twice', {'sig': sig, 'wrapper': use_wrapper, 'symbolic_route': symbolic, 'functions_wrapped_more_than_once': dict(list(names_twice.items())[:5])},
                              'at most once', max(names_twice.values()), key='twice:wrap:registered-history')
            # a numerically registered function called later with SYMBOLIC operands of the same key patterns: served by the compiled
            # function - the python body is not run again and nothing is generated
            if not symbolic:
                runs = {'n': 0}
                def counted(x, y):
                    runs['n'] += 1
                    return x * y + (x | y)
                rc_ = alg.register(counted)
                kx, ky = (1, 2, 4), (1, 2)
                rc_(MultiVector.fromkeysvalues(alg, kx, [1.0, 2.0, 3.0]), MultiVector.fromkeysvalues(alg, ky, [2.0, 5.0]))
                n0 = runs['n']
                for rep in range(3):
                    before = len(rec.events)
                    try:
                        rc_(alg.multivector(name='s', keys=kx), MultiVector.fromkeysvalues(alg, ky, [2.0, 5.0]) if rep % 2 else alg.multivector(name='t', keys=ky))
                    except Exception:
                        pass
                    new = rec.events[before:]
                    case = {'sig': sig, 'wrapper': use_wrapper, 'function': 'counted', 'later_call': 'symbolic operands, same key patterns', 'repetition': rep,
                            'body_runs_since_first_call': runs['n'] - n0}
                    ctx.case(case, nontrivial=True, tag='registered-repeat:symbolic-operands')
                    if new or runs['n'] != n0:
                        ctx.violation('regenerated', case, 'no event and no re-run of the python body', [list(map(str, e))[:3] for e in new[:4]] or f'body ran {runs["n"] - n0} more time(s)',
                                      key='regenerated:registered:symbolic-operands')
                        break


def odd_keys_pass(ctx, rec):
    """key patterns given in other hashable forms (a range object as keys of an operand, a direct lookup by blade names): cached like any
    other; and registering one more function does not make the already compiled ones regenerate"""
    from kingdon import MultiVector
    for use_wrapper in (False, True):
        alg = make_algebra([1, 1, 1], **({'wrapper': rec.wrapper} if use_wrapper else {}))
        x = alg.multivector([float(i + 1) for i in range(8)], keys=range(8))
        y = alg.multivector([float(2 * i + 1) for i in range(8)], keys=range(8))
        reg = alg.register(symbolic=True)(lambda_free_square())
        for label, thunk in (('gp:range-keys', lambda: x * y), ('add:range-keys', lambda: x + y), ('op:range-keys', lambda: x ^ y),
                             ('sw:range-keys', lambda: alg.vector([1., 2., 3.]) >> alg.multivector([1., 2.], keys=range(1, 3))),
                             ('registered-symbolic:range-keys', lambda: reg(x)),
                             ('lookup-by-name', lambda: alg.gp[('e1', 'e2'), ('e12',)])):
            for rep in range(3):
                before = len(rec.events)
                try:
                    thunk()
                except Exception as e:
                    ctx.count('odd-keys-raises:' + type(e).__name__)
                    break
                new = rec.events[before:]
                case = {'wrapper': use_wrapper, 'call': label, 'repetition': rep}
                ctx.case(case, tag='odd-keys')
                if rep > 0 and new:
                    ctx.violation('regenerated', case, 'no generation/compile/wrap event for a repeated call', [list(map(str, e))[:3] for e in new[:6]],
                                  key=f'regenerated:odd-keys:{label.split(":")[0]}')
                    break
        # registering afterwards
        def f1(a, b):
            return a * b - (a | b)
        def f2(a):
            return a * a
        r1 = alg.register(f1)
        a = MultiVector.fromkeysvalues(alg, (1, 2), [1.0, 2.0]); b = MultiVector.fromkeysvalues(alg, (2, 4), [3.0, 4.0])
        r1(a, b)
        r2 = alg.register(f2)                 # an unrelated registration after f1 was compiled
        r3 = alg.register(symbolic=True)(f2)
        before = len(rec.events)
        r1(a, b)
        new = rec.events[before:]
        case = {'wrapper': use_wrapper, 'call': 'registered f1 again after two more registrations'}
        ctx.case(case, tag='register-after-compile')
        if new:
            ctx.violation('regenerated', case, 'no generation/compile/wrap event', [list(map(str, e))[:3] for e in new[:6]], key='regenerated:after-register')


def sequential_threads_pass(ctx, rec):
    """strictly sequential calls issued from different threads (a worker is started and joined before the next call): a
    pattern generated by a call on one thread is reused by a later call on any other thread - operators, composite
    operators and registered functions, with and without a wrapper"""
    import threading
    from kingdon import MultiVector
    rng = ctx.rng
    def on_worker(thunk):
        box = {}
        def body():
            try:
                box['r'] = thunk()
            except Exception as ex:
                box['e'] = ex
        th = threading.Thread(target=body); th.start(); th.join()
        return box
    for sig, use_wrapper in (([1, 1, 1], False), ([0, 1, 1], True)):
        alg = make_algebra(sig, **({'wrapper': rec.wrapper} if use_wrapper else {}))
        def f_reg_body(a, b): return a * b + (a | b)
        def f_sym_body(a, b): return (a ^ b) - a
        f_reg = alg.register(f_reg_body)
        f_sym = alg.register(f_sym_body, symbolic=True)
        calls = [('gp', lambda x, y: x * y), ('sw', lambda x, y: x >> y), ('add', lambda x, y: x + y), ('inv', lambda x, y: x.inv()),
                 ('normsq', lambda x, y: y.normsq()), ('registered', lambda x, y: f_reg(x, y)), ('registered-symbolic', lambda x, y: f_sym(x, y))]
        for first_on in ('main', 'worker'):
            for name, fn in calls:
                kx = tuple(rng.sample(range(1, 8), 3)); ky = tuple(rng.sample(range(0, 8), 2))
                mk_ = lambda: (MultiVector.fromkeysvalues(alg, kx, [Fraction(rng.randint(1, 9)) for _ in kx]),
                               MultiVector.fromkeysvalues(alg, ky, [Fraction(rng.randint(1, 9)) for _ in ky]))
                x, y = mk_()
                if first_on == 'main':
                    try:
                        fn(x, y)
                        box = {}
                    except Exception as ex:
                        box = {'e': ex}
                else:
                    box = on_worker(lambda: fn(x, y))
                if 'e' in box:
                    ctx.count('other-thread:first-call-raises:' + type(box['e']).__name__)
                    continue        # a generation that raised is retried by the next call: nothing is cached yet
                for later_on in ('worker', 'main', 'worker'):
                    x2, y2 = mk_()
                    before = len(rec.events)
                    try:
                        if later_on == 'main':
                            fn(x2, y2)
                        else:
                            on_worker(lambda: fn(x2, y2))
                    except Exception:
                        pass
                    new = rec.events[before:]
                    case = {'sig': sig, 'wrapper': use_wrapper, 'call': name, 'kx': list(kx), 'ky': list(ky), 'first_call_on': first_on,
                            'later_call_on': later_on + ' thread (sequential: started and joined)'}
                    ctx.case(case, nontrivial=True, tag='repeat:other-thread')
                    if new:
                        ctx.violation('regenerated', case, 'no generation/compile/wrap event for a cached pattern',
                                      [list(map(str, e)) for e in new[:6]], key=f'regenerated:other-thread:{new[0][0]}')
                        break


def many_patterns_pass(ctx, rec):
    """a pattern is still served from the cache after the same operator has seen many other patterns in between (no bound on
    the number of cached patterns): d = 3 with every pattern it has, d = 7 (lazy tables) with more than a hundred"""
    from kingdon import MultiVector
    rng = ctx.rng
    for sig, n_between in (([1, 1, 1], 120), ([1, 1, 1, -1, 0, 1, 1], 150 if ctx.quick else 700)):
        alg = make_algebra(sig)
        d = alg.d
        probes = {'neg': ((6,), None), 'add': ((6,), (12 % 2 ** d,)), 'gp': ((6,), (12 % 2 ** d,)), 'reverse': ((3, 5), None)}
        def call(op, kx, ky):
            x = MultiVector.fromkeysvalues(alg, tuple(kx), [Fraction(rng.randint(1, 9)) for _ in kx])
            if ky is None:
                return UN[op](x)
            return BIN[op](x, MultiVector.fromkeysvalues(alg, tuple(ky), [Fraction(rng.randint(1, 9)) for _ in ky]))
        for op, (kx, ky) in probes.items():
            call(op, kx, ky)
        seen = set()
        for i in range(n_between):
            a = tuple(sorted(rng.sample(range(2 ** d), rng.choice((1, 1, 2)))))
            b = (rng.randrange(2 ** d),)
            for op, (kx, ky) in probes.items():
                if (a, b) != (kx, ky) and a != kx:
                    call(op, a, None if ky is None else b)
                    seen.add((op, a, b if ky is not None else None))
        for op, (kx, ky) in probes.items():
            before = len(rec.events)
            call(op, kx, ky)
            new = rec.events[before:]
            case = {'sig': sig, 'op': op, 'kx': list(kx), 'ky': list(ky) if ky else None,
                    'other_patterns_of_this_operator_in_between': len([1 for o, _, _ in seen if o == op])}
            ctx.case(case, nontrivial=True, tag='repeat:after-many-patterns')
            if new:
                ctx.violation('regenerated', case, 'no generation/compile/wrap event for a cached pattern',
                              [list(map(str, e)) for e in new[:6]], key=f'regenerated:after-many-patterns:{new[0][0]}')


def rejecting_wrapper_pass(ctx, rec):
    """(a) a wrapper whose compiled functions reject some coefficient types by raising (numba-like: floats only), called with
    Fractions / big ints for patterns that are already cached: the call may raise what the wrapped function raises, but nothing
    is generated, compiled or wrapped again, however often it is repeated; (b) re-assigning to an existing algebra the options
    it already has (`alg.wrapper = backend.jit` - a bound method is a new object on every access -, `alg.cse = alg.cse`,
    `alg.codegen_symbolcls = ..`) between two calls with the same patterns leaves every cache alone"""
    from kingdon import MultiVector
    from kingdon.polynomial import RationalPolynomial
    rng = ctx.rng

    class Backend:
        def __init__(self): self.n = 0
        def jit(self, f):
            rec.events.append(('wrap', f.__name__))
            def only_floats(*args):
                for a in args:
                    for v in a:
                        if not isinstance(v, float):
                            raise TypeError('cannot determine the type of ' + type(v).__name__)
                return f(*args)
            only_floats.__name__ = f.__name__
            return only_floats
        def __eq__(self, other): return isinstance(other, Backend)
        def __hash__(self): return 1
    # (a)
    backend = Backend()
    alg = make_algebra([1, 1, 1], wrapper=backend.jit)
    kx, ky = (1, 2, 4), (1, 2, 4)
    for op in ('gp', 'add', 'ip', 'op', 'sw'):
        BIN[op](MultiVector.fromkeysvalues(alg, kx, [1.0, 2.0, 3.0]), MultiVector.fromkeysvalues(alg, ky, [2.0, 1.0, 0.5]))
        for rep in range(3):
            before = len(rec.events)
            try:
                BIN[op](MultiVector.fromkeysvalues(alg, kx, [Fraction(1, 2), Fraction(2), Fraction(3)]), MultiVector.fromkeysvalues(alg, ky, [2 ** 70, 1, 5]))
                outcome = 'returned'
            except Exception as ex:
                outcome = 'raised ' + type(ex).__name__
            new = rec.events[before:]
            case = {'sig': [1, 1, 1], 'wrapper': 'accepts floats only', 'op': op, 'coefficients': 'Fraction / big int', 'repetition': rep, 'call': outcome}
            ctx.case(case, nontrivial=True, tag='repeat:rejected-coefficients')
            if new:
                ctx.violation('regenerated', case, 'no generation/compile/wrap event for a cached pattern', [list(map(str, e)) for e in new[:6]],
                              key=f'regenerated:rejecting-wrapper:{new[0][0]}')
                break
    # (b)
    backend = Backend()
    alg = make_algebra([0, 1, 1], wrapper=backend.jit)
    def reg_body(a, b): return a * b - (a ^ b)
    rf = alg.register(reg_body)
    calls = [('gp', lambda x, y: x * y), ('sw', lambda x, y: x >> y), ('neg', lambda x, y: -x), ('registered', lambda x, y: rf(x, y))]
    mkxy = lambda: (MultiVector.fromkeysvalues(alg, (1, 2, 4), [float(rng.randint(1, 9)) for _ in range(3)]), MultiVector.fromkeysvalues(alg, (3, 5), [float(rng.randint(1, 9)) for _ in range(2)]))
    for nm, fn in calls:
        fn(*mkxy())
    reassign = [('alg.wrapper = backend.jit', lambda: setattr(alg, 'wrapper', backend.jit)), ('alg.cse = alg.cse', lambda: setattr(alg, 'cse', alg.cse)),
                ('alg.graded = alg.graded', lambda: setattr(alg, 'graded', alg.graded)),
                ('alg.codegen_symbolcls = RationalPolynomial.fromname', lambda: setattr(alg, 'codegen_symbolcls', RationalPolynomial.fromname) if alg.codegen_symbolcls is not None else None),
                ('alg.simp_func = alg.simp_func', lambda: setattr(alg, 'simp_func', alg.simp_func))]
    for rname, doit in reassign:
        try:
            doit()
        except Exception as ex:
            ctx.count('reassign-raises:' + type(ex).__name__)
            continue
        for nm, fn in calls:
            before = len(rec.events)
            try:
                fn(*mkxy())
            except Exception:
                pass
            new = rec.events[before:]
            case = {'sig': [0, 1, 1], 'call': nm, 'between_the_calls': rname + ' (the option it already has)'}
            ctx.case(case, nontrivial=True, tag='repeat:after-reassigning-options')
            if new:
                ctx.violation('regenerated', case, 'no generation/compile/wrap event for a cached pattern', [list(map(str, e)) for e in new[:6]],
                              key=f'regenerated:reassigned-option:{new[0][0]}')
                break


def lambda_free_square():
    def square_fn(x):
        return x * x
    return square_fn


def run(ctx):
    ctx.rule = ('sequential call histories on one long-lived algebra (with and without a counting wrapper): operators (string-path, '
                'sympy-path composite, unary) x small ordered key patterns incl. permutations and identically-zero results, every '
                'pattern repeated with int, float, Fraction, ndarray, sympy and mixed coefficients; a case is one call; '
                'non-trivial = a call whose pattern occurred before (must be event-free) or first occurrence (exactly one generation)')
    ctx.lean_prepare()
    rng = ctx.rng
    from kingdon import Algebra, MultiVector
    rec = Recorder()
    rec.install()
    lines, plan = [], []
    try:
        configs = [([1, 1], True), ([1, 1, 1], False), ([0, 1, 1], True), ([1, -1, 1], True)]
        if not ctx.quick:
            configs += [([1, 1, 1, 1], False), ([0, 1, 1, 1], True), ([1, -1, 0], False), ([-1, -1, 1, 1], True)]
        for sig, use_wrapper in configs:
            alg = make_algebra(sig, **({'wrapper': rec.wrapper} if use_wrapper else {}))
            d = alg.d
            tok = cfg_token(sig, int(alg.start_index))
            opnames = list(alg.registry.keys())
            # patterns
            npat = 10 if ctx.quick else 40
            pats = key_tuples(rng, d, npat, ['small', 'single', 'grades', 'subset'])
            full = list(alg.canon2bin.values())
            pats = [(p if p is not None else full)[:4] for p in pats] + [[1], [2], [1, 2], [2, 1], [3], [0]]
            calls = []
            for _ in range(40 if ctx.quick else 200):
                if rng.random() < 0.65:
                    op = rng.choice(BIN_OPS)
                    if op in ('sw', 'proj', 'div') and rng.random() < 0.5:
                        op = rng.choice(BIN_OPS[:11])
                    calls.append((op, (tuple(rng.choice(pats)), tuple(rng.choice(pats)))))
                else:
                    op = rng.choice(UN_OPS)
                    calls.append((op, (tuple(rng.choice(pats)),)))
            # identically-zero results repeated: e1 ^ e1, e1 | e2, e1.cp(e1)
            calls += [('op', ((1,), (1,))), ('ip', ((1,), (2,))), ('cp', ((1,), (1,))), ('sp', ((1,), (2,)))]
            hist = []
            for c in calls:
                reps = rng.sample(KINDS, rng.randint(2, 4))
                for kind in reps:
                    hist.append((c, kind))
            rng.shuffle(hist)
            seen, all_events = set(), []
            toks, expect = [], []
            for (op, kss), kind in hist:
                if any(len(set(k)) != len(k) for k in kss):
                    continue
                mvs = [MultiVector.fromkeysvalues(alg, tuple(k), values_of(kind, len(k), rng, 'abc'[i])) for i, k in enumerate(kss)]
                before = len(rec.events)
                raised = None
                try:
                    if len(mvs) == 2:
                        BIN[op](*mvs)
                    else:
                        UN[op](mvs[0])
                except Exception as e:
                    raised = type(e).__name__
                new = rec.events[before:]
                all_events.extend(new)
                cgname = alg.registry[op].codegen.__name__
                own_gen = sum(1 for ev in new if ev[0] == 'codegen' and ev[1] == cgname and ev[2] == tuple(kss))
                key = (cgname, tuple(kss))
                case = {'sig': sig, 'wrapper': use_wrapper, 'op': op, 'keys': [list(k) for k in kss], 'values': kind, 'raised': raised}
                first = key not in seen
                ctx.case(case, nontrivial=True, tag=('first' if first else 'repeat') + ':' + kind)
                generated_ok = own_gen > 0
                if not first and new:
                    ctx.violation('regenerated', case, 'no generation/compile/wrap event for a cached pattern',
                                  [list(map(str, e)) for e in new[:6]], key=f'regenerated:{new[0][0]}')
                if first and own_gen != 1 and raised is None:
                    ctx.violation('first-call-generation', case, 'exactly one generation', own_gen, key='first-call')
                # patterns generated as a side effect (composite operators call other operators while their code is
                # generated) count as generated: the shared dictionaries must serve them from then on
                seen.update((ev[1], ev[2]) for ev in new if ev[0] == 'codegen')
                # generation that raised is retried on the next call; model it as a failing generation
                fails = first and not generated_ok
                # nested generations (composite operators calling other operators while being generated) complete
                # before the outer store: they enter the model history as calls preceding the outer one
                cg2op = {od_.codegen.__name__: i for i, (nm, od_) in enumerate(alg.registry.items())}
                for ev in new:
                    if ev[0] == 'codegen' and not (ev[1] == cgname and ev[2] == tuple(kss)) and ev[1] in cg2op:
                        toks.append(f'{cg2op[ev[1]]}/' + '/'.join(ks(k) for k in ev[2]))
                        expect.append('G:own')
                toks.append(f'{opnames.index(op)}/' + '/'.join(ks(k) for k in kss) + ('!' if fails else ''))
                expect.append(('G' if generated_ok and first else '-') + ':' + ('raise' if fails else 'own'))
            # global at-most-once
            from collections import Counter
            cnt = Counter(all_events)
            for ev, n in cnt.items():
                if n > 1:
                    ctx.violation('generated-twice', {'sig': sig, 'wrapper': use_wrapper, 'event': list(map(str, ev))},
                                  'at most once', n, key=f'twice:{ev[0]}')
            # len(alg.<op>) = number of distinct generated patterns of that operator
            gen_by_op = Counter(ev[1] for ev in set(all_events) if ev[0] == 'codegen')
            for op, odict in alg.registry.items():
                if len(odict) != gen_by_op.get(odict.codegen.__name__, 0):
                    ctx.violation('cache-size', {'sig': sig, 'op': op}, gen_by_op.get(odict.codegen.__name__, 0), len(odict), key='cache-size')
            lines.append(f'odrun {tok} {1 if use_wrapper else 0} ' + ' '.join(toks))
            plan.append(({'sig': sig, 'wrapper': use_wrapper, 'calls': len(toks)}, ' '.join(expect)))
            ctx.count('events', len(all_events))
            ctx.count('histories')
        registered_pass(ctx, rec)
        odd_keys_pass(ctx, rec)
        sequential_threads_pass(ctx, rec)
        many_patterns_pass(ctx, rec)
        rejecting_wrapper_pass(ctx, rec)
    finally:
        rec.uninstall()
    out = ctx.drive(lines)
    if out is not None:
        for (desc, exp), got in zip(plan, out):
            if exp != got:
                e, g = exp.split(' '), got.split(' ')
                idx = next((i for i, (a, b) in enumerate(zip(e, g)) if a != b), None)
                ctx.mismatch('generation-trace', {**desc, 'first_divergence_at_call': idx}, g[idx] if idx is not None else got[:100],
                             e[idx] if idx is not None else exp[:100])
    ctx.assumptions = ['sequential histories only (the property is about sequential calls)',
                       'a generation attempt that raises is not a generation (nothing is stored); it is retried by the next call']

"""Type-check a freshly generated Lean file and name the definitions that do not elaborate, so that the translators can replace
exactly those by stubs (same signature, body `throw "NOT TRANSLATED: .."`): the driver and every other translated function keep
compiling, only the proofs about the affected functions break."""
import os, re, subprocess, fcntl

LEAN = os.path.join(os.path.dirname(os.path.dirname(os.path.abspath(__file__))), 'lean')


def failing_defs(relpath, prebuild):
    """returns (ok, {def name: first error message}) for lean/<relpath>; `prebuild` = module(s) the file imports"""
    os.makedirs(os.path.join(LEAN, '.lake'), exist_ok=True)
    with open(os.path.join(LEAN, '.lake', 'verif.lock'), 'w') as lk:
        fcntl.flock(lk, fcntl.LOCK_EX)
        pb = subprocess.run(['lake', 'build'] + list(prebuild), cwd=LEAN, capture_output=True, text=True, timeout=1800)
        if pb.returncode != 0:
            return True, {}          # the prelude itself does not build: nothing can be attributed to a definition here
        p = subprocess.run(['lake', 'env', 'lean', relpath], cwd=LEAN, capture_output=True, text=True, timeout=900)
    if p.returncode == 0:
        return True, {}
    src = open(os.path.join(LEAN, relpath)).read().split('\n')
    bad = {}
    for m in re.finditer(r'^[^\n:]*:(\d+):\d+: error[^:]*: ([^\n]*)', p.stdout + p.stderr, re.M):
        ln = int(m.group(1))
        for i in range(min(ln, len(src)) - 1, -1, -1):
            d = re.match(r'\s*(?:partial\s+)?def\s+([\w\.\']+)', src[i])
            if d:
                bad.setdefault(d.group(1), m.group(2)[:160])
                break
    return False, bad

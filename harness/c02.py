"""C02 — geometric product of sparse multivectors equals the bilinear extension (tracer correspondence)."""
from harness.common import *
from harness.opcorr import *


def patterns(ctx, d):
    rng = ctx.rng
    if d <= 1:
        ts = all_ordered_tuples(d)
        return [(a, b) for a in ts for b in ts]
    if d == 2:
        subs = all_subsets(2)
        pairs = [(a, b) for a in subs for b in subs] if not ctx.quick else \
            [(rng.choice(subs), rng.choice(subs)) for _ in range(120)]
        perm = key_tuples(rng, 2, 160 if ctx.quick else 3000, ['perm', 'subset', 'small', 'fullbin'])
        pairs += [(perm[i], perm[i + 1]) for i in range(0, len(perm) - 1, 2)]
        return pairs
    n = {3: 60, 4: 30, 5: 8}.get(d, 4) if ctx.quick else {3: 400, 4: 150, 5: 60}.get(d, 24)
    ts = key_tuples(rng, d, 2 * n)
    return [(ts[2 * i], ts[2 * i + 1]) for i in range(n)]


def run_products(ctx, ops, dmax_all, extra_dims, n_custom, wrapper_pass=True, frac=1.0):
    ctx.lean_prepare()
    cache = AlgCache()
    R = OpRun(ctx)
    cfgs = standard_configs(ctx, dmax_all, n_custom, sample_sig=(12 if ctx.quick else None))
    for d in extra_dims:
        for _ in range(2 if ctx.quick else 6):
            cfgs.append(('sig', [ctx.rng.choice((1, -1, 0)) for _ in range(d)], None, None))
    if not ctx.quick:
        ctx.rng.shuffle(cfgs)        # so that a run cut short by the time budget is not biased towards small dimensions
    for tag, sig, start, basis in cfgs:
        if ctx.over_budget():
            continue
        alg = cache.get(sig, start, basis)
        tok = tok_of(alg, basis)
        desc = {'sig': sig, 'basis': basis}
        full = list(alg.canon2bin.values())
        ctx.count('cfg:' + tag)
        pats = patterns(ctx, alg.d)
        if len(cfgs) > 60 and alg.d >= 2 and ctx.quick:
            pats = ctx.rng.sample(pats, max(6, len(pats) // 3))
        if frac < 1.0 and len(pats) > 8:
            pats = ctx.rng.sample(pats, max(8, int(len(pats) * frac)))
        for kx, ky in pats:
            kx = full if kx is None else kx
            ky = full if ky is None else ky
            for op in ops:
                R.binary(alg, tok, desc, op, kx, ky)
    R.flush()
    forms_pass(ctx, ops)
    if wrapper_pass:
        wrapper_history_pass(ctx, ops)


def wrapper_history_pass(ctx, ops):
    """the same operators through every call route (direct, wrapper/numspace, lazily filled tables) in an
    interleaved order on ONE algebra; every result is compared with the independent reference"""
    rng = ctx.rng
    ident = lambda f: f
    for sig, opts in (([1, 1, 1], {'wrapper': ident}), ([0, 1, 1], {'wrapper': ident}), ([1, -1, 1, 0], {}),
                      ([rng.choice((1, -1)) for _ in range(7)], {}), ([1, -1, 0, 1, 1, -1, 1], {'wrapper': ident})):
        alg = make_algebra(sig, **opts)
        R = OpRun(ctx)
        d = alg.d
        calls = []
        for _ in range(12 if ctx.quick else 60):
            kx, ky = key_tuples(rng, d, 2, ['small', 'single', 'grades'] if d > 4 else ['small', 'subset', 'grades', 'single'])
            if d > 4:
                kx, ky = kx[:6], ky[:6]
            for op in ops:
                calls.append((op, kx, ky))
                kx2 = list(kx); rng.shuffle(kx2)
                calls.append((op, kx2, ky))
        rng.shuffle(calls)
        calls = calls + calls[: len(calls) // 2]
        for op, kx, ky in calls:
            R.binary(alg, None, {'sig': sig, 'route': 'history' + ('+wrapper' if opts else '')}, op, kx, ky, model=False)
        ctx.count('history-calls', len(calls))


def run(ctx):
    ctx.rule = ('per configuration (all signatures d<=2, sampled d=3,4, custom and named bases, d=5..7 sampled) ordered pairs of key '
                'tuples: all ordered tuples d<=1, all subset pairs + permuted d=2, seeded subsets/permutations/padded/empty '
                'above; each case = one generated function compared as a polynomial map (tracer ring) with the model and '
                'with the bilinear extension over the real sign table; non-trivial = both operands non-empty')
    run_products(ctx, ['gp'], 3 if ctx.quick else 4, [5, 6, 7] if ctx.quick else [5, 6, 7, 8], 10 if ctx.quick else 60)
    ctx.assumptions = ['compile/exec of the generated text and CPython dict order are trusted',
                       'coefficients are elements of a commutative ring (the tracer ring is the free one)']

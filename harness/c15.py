"""C15 — multivector construction and coefficient access round-trip.

Tie: constructor calls (every form x key subsets/orders x blade spellings x grades x graded mode x convenience
     constructors) on the real MultiVector vs. the Lean model of `__new__` (Con.construct): (keys, values) or error
     class; attribute access for every permuted spelling vs. Con.getattr.
Oracle: reading back through getattr (all spellings, sign = permutation parity), items(), `in`, grade(), asfullmv(),
     map(), filter() reflects exactly the coefficients supplied; inconsistent input raises.
"""
import itertools
from harness.common import *

CTORS = ['evenmv', 'oddmv', 'scalar', 'vector', 'bivector', 'trivector', 'quadvector', 'pseudoscalar', 'pseudovector',
         'pseudobivector', 'pseudotrivector', 'pseudoquadvector']


def perm_parity(perm):
    inv = sum(1 for i in range(len(perm)) for j in range(i) if perm[j] > perm[i])
    return -1 if inv % 2 else 1


def spellings_of(name, rng, limit=6):
    letters = name[1:]
    perms = list(itertools.permutations(range(len(letters))))
    if len(perms) > limit:
        perms = [perms[0]] + rng.sample(perms[1:], limit - 1)
    return [('e' + ''.join(letters[i] for i in p), perm_parity(p)) for p in perms]


def tok_list(prefix, xs):
    return prefix + ','.join(str(x) for x in xs)


def call_real(alg, form):
    kw = {}
    if form.get('values') is not None:
        kw['values'] = form['values']
    if form.get('keys') is not None:
        kw['keys'] = tuple(form['keys'])
    if form.get('name'):
        kw['name'] = form['name']
    if form.get('grades') is not None:
        kw['grades'] = tuple(form['grades'])
    kw.update(form.get('items') or {})
    ctor = form.get('ctor')
    try:
        if ctor:
            mv = getattr(alg, ctor)(**kw)
        elif form.get('mapping') is not None:
            kw.pop('values', None)
            m = dict(form['mapping'])
            mt = form.get('mapping_type', 'dict')
            if mt == 'MappingProxyType':
                import types
                m = types.MappingProxyType(m)
            elif mt == 'UserDict':
                import collections
                m = collections.UserDict(m)
            elif mt == 'OrderedDict':
                import collections
                m = collections.OrderedDict(m)
            mv = alg.multivector(m, **kw)
        else:
            mv = alg.multivector(**kw)
        return mv, None
    except Exception as e:
        return None, type(e).__name__


def line_of(tok, graded, form):
    if form.get('mapping') is not None:
        v = 'M:' + ','.join(f'{k}={val}' for k, val in form['mapping'])
    elif form.get('values') is None:
        v = '-'
    else:
        v = tok_list('L:', form['values'])
    k = '-' if form.get('keys') is None else tok_list('K:', form['keys'])
    n = form.get('name') or '-'
    if form.get('ctor'):
        g = 'C:' + form['ctor']
    else:
        g = '-' if form.get('grades') is None else tok_list('G:', form['grades'])
    it = '-' if not form.get('items') else 'I:' + ','.join(f'{a}={b}' for a, b in form['items'].items())
    return f'construct {tok} {1 if graded else 0} {v} {k} {n} {g} {it}'


def render_real(mv, err):
    if err:
        return 'raise:' + err
    return 'ok keys=' + ','.join(str(k) for k in mv.keys()) + ' values=' + ','.join(str(v) for v in mv.values())


def supplied_of(alg, form):
    """blade key -> coefficient the caller supplied, or None if the form is not a plain 'these coefficients' form"""
    c2b = alg.canon2bin
    sup = {}
    if form.get('items'):
        for sp, v in form['items'].items():
            letters = sp[1:]
            cands = [n for n in c2b if sorted(n[1:]) == sorted(letters) and len(set(letters)) == len(letters)]
            if not cands:
                return None
            n = cands[0]
            perm = [n[1:].index(ch) for ch in letters]
            k = c2b[n]
            if k in sup:
                return None
            sup[k] = v * perm_parity(perm)
        return sup
    keys = form.get('keys')
    if form.get('mapping') is not None:
        keys = [k for k, _ in form['mapping']]
        vals = [v for _, v in form['mapping']]
    elif keys is not None and form.get('values') is not None:
        vals = form['values']
    else:
        return None
    if len(keys) != len(vals):
        return None
    for k, v in zip(keys, vals):
        kk = k if isinstance(k, int) else c2b.get(k)
        if kk is None or kk in sup:
            return None
        sup[kk] = v
    return sup


def oracle_roundtrip(ctx, alg, desc, form, mv, sup, rng):
    d = alg.d
    got_items = {}
    for k, v in mv.items():
        got_items[k] = v
    if {k: v for k, v in got_items.items() if v != 0} != {k: v for k, v in sup.items() if v != 0}:
        ctx.violation('items', {**desc, 'form': form}, sup, got_items, key='roundtrip:items')
        return
    for name, K in alg.canon2bin.items():
        for sp, sign in spellings_of(name, rng, 4 if d >= 4 else 6):
            exp = sign * sup.get(K, 0)
            try:
                got = getattr(mv, sp)
            except Exception as e:
                got = 'raise:' + type(e).__name__
            if got != exp:
                ctx.violation('getattr', {**desc, 'form': form, 'spelling': sp}, exp, got, key='roundtrip:getattr')
                return
        if (K in mv) != (K in sup) or (name in mv) != (K in sup):
            ctx.violation('contains', {**desc, 'form': form, 'blade': name}, K in sup, [K in mv, name in mv], key='roundtrip:contains')
            return
    # blades that are not in the algebra (a letter that is no generator label) read as 0, whatever the start index
    labels = {ch for nme in alg.canon2bin for ch in nme[1:]}
    foreign = [ch for ch in '0123456789abcdef' if ch not in labels]
    for ch in foreign[:4]:
        for sp in ('e' + ch, 'e' + ch + (sorted(labels)[0] if labels else ''), 'e' + (sorted(labels)[-1] if labels else '') + ch):
            try:
                got = getattr(mv, sp)
            except Exception as e:
                got = 'raise:' + type(e).__name__
            if got != 0:
                ctx.violation('getattr-foreign', {**desc, 'form': form, 'spelling': sp}, 0, got, key='roundtrip:getattr:foreign')
                return
    for g in range(d + 1):
        gr = dict(mv.grade(g).items())
        exp = {k: v for k, v in sup.items() if bin(k).count('1') == g}
        if gr != exp:
            ctx.violation('grade', {**desc, 'form': form, 'grade': g}, exp, gr, key='roundtrip:grade')
            return
    for canonical in (True, False):
        f = mv.asfullmv(canonical=canonical)
        exp_keys = tuple(alg.canon2bin.values()) if canonical else tuple(range(2 ** d))
        if tuple(f.keys()) != exp_keys or list(f.values()) != [sup.get(k, 0) for k in exp_keys]:
            ctx.violation('asfullmv', {**desc, 'form': form, 'canonical': canonical}, [sup.get(k, 0) for k in exp_keys], list(f.values()), key='roundtrip:asfullmv')
            return
    m = mv.map(lambda v: v * 3)
    if dict(m.items()) != {k: v * 3 for k, v in got_items.items()} or tuple(m.keys()) != tuple(mv.keys()):
        ctx.violation('map', {**desc, 'form': form}, None, dict(m.items()), key='roundtrip:map')
    m2 = mv.map(lambda k, v: v + k)
    if dict(m2.items()) != {k: v + k for k, v in got_items.items()}:
        ctx.violation('map2', {**desc, 'form': form}, None, dict(m2.items()), key='roundtrip:map')
    f0 = mv.filter()
    if dict(f0.items()) != {k: v for k, v in got_items.items() if v} or any(type(a) is not type(b) for a, b in zip(f0.values(), [v for v in mv.values() if v])):
        ctx.violation('filter', {**desc, 'form': form, 'filter': 'no argument'}, {k: v for k, v in got_items.items() if v}, dict(f0.items()), key='roundtrip:filter:default')
    fl = mv.filter(lambda v: v > 2)
    if dict(fl.items()) != {k: v for k, v in got_items.items() if v > 2}:
        ctx.violation('filter', {**desc, 'form': form}, None, dict(fl.items()), key='roundtrip:filter')


def gen_forms(rng, alg, graded, n):
    d = alg.d
    N = 2 ** d
    names = list(alg.canon2bin.keys())
    keys_all = list(alg.canon2bin.values())
    forms = []
    val = lambda: rng.randint(1, 9)
    for _ in range(n):
        kind = rng.choice(['kv', 'kv', 'kv-names', 'mapping', 'kw', 'kw', 'grades-list', 'grades-list', 'name', 'name-keys',
                           'mismatch', 'outside-grades', 'bad-grades', 'full-list', 'ctor', 'ctor', 'kw-bad', 'oob-key'])
        if kind in ('kv', 'kv-names', 'mapping', 'mismatch'):
            if graded and rng.random() < 0.6:
                gs = sorted(rng.sample(range(d + 1), rng.randint(1, min(2, d + 1))))
                ks = [k for k in keys_all if bin(k).count('1') in gs]
                if rng.random() < 0.3 and len(ks) > 1:
                    ks = ks[:-1]                    # incomplete grades
                if rng.random() < 0.2:
                    rng.shuffle(ks)
            else:
                ks = rng.sample(range(N), rng.randint(0, min(N, 5)))
            if kind == 'kv-names':
                ks = [alg.bin2canon[k] if rng.random() < 0.6 else k for k in ks]
            vs = [val() for _ in ks]
            if kind == 'mismatch' and ks:
                vs = vs[:-1] if rng.random() < 0.5 else vs + [val()]
            if kind == 'mapping':
                ks2 = [alg.bin2canon[k] if rng.random() < 0.3 else k for k in ks]
                # any Mapping is a mapping: dict, and mapping types that are not dict subclasses
                forms.append({'mapping': list(zip(ks2, vs)), 'mapping_type': rng.choice(['dict', 'dict', 'MappingProxyType', 'UserDict', 'OrderedDict'])})
            else:
                f = {'keys': ks, 'values': vs}
                if rng.random() < 0.25:
                    gs = sorted({bin(k if isinstance(k, int) else alg.canon2bin[k]).count('1') for k in ks})
                    if rng.random() < 0.3 and gs:
                        gs = gs[:-1] + ([gs[-1] + 1] if gs[-1] < d else [])
                    f['grades'] = gs
                forms.append(f)
        elif kind == 'kw':
            chosen = rng.sample(names, rng.randint(1, min(4, len(names))))
            items = {}
            for nme in chosen:
                sp, _ = rng.choice(spellings_of(nme, rng, 24))
                items[sp] = val()
            forms.append({'items': items})
        elif kind == 'kw-bad':
            nme = rng.choice(names)
            items = {nme: val()}
            r = rng.random()
            if r < 0.4:
                items['e' + hexd(min(15, alg.start_index + d))] = val()                 # generator outside the algebra
            elif r < 0.8 and len(nme) >= 3:
                alt = [s for s, _ in spellings_of(nme, rng, 24) if s != nme]
                if len(alt) >= 2 and rng.random() < 0.5:
                    a1, a2 = rng.sample(alt, 2)
                    items = {a1: val(), a2: val()}                                      # same blade twice, neither spelled canonically
                    if rng.random() < 0.4:
                        items[rng.choice(names)] = val()
                else:
                    items[rng.choice(alt)] = val()                                      # same blade twice
            else:
                items = {'e' + hexd(min(15, alg.start_index + d)) + nme[1:2]: val()}
            forms.append({'items': items})
        elif kind == 'grades-list':
            gs = sorted(rng.sample(range(d + 1), rng.randint(1, min(3, d + 1))))
            nvals = len([k for k in keys_all if bin(k).count('1') in gs])
            if rng.random() < 0.2:
                nvals += rng.choice([-1, 1])
            forms.append({'values': [val() for _ in range(max(0, nvals))], 'grades': gs})
        elif kind == 'full-list':
            forms.append({'values': [val() for _ in range(N + rng.choice([0, 0, 0, 1, -1]))]})
        elif kind == 'name':
            f = {'name': rng.choice(['x', 'y', 'ab'])}
            if rng.random() < 0.6:
                f['grades'] = sorted(rng.sample(range(d + 1), rng.randint(1, min(3, d + 1))))
            forms.append(f)
        elif kind == 'name-keys':
            ks = rng.sample(range(N), rng.randint(1, min(N, 4)))
            if graded and rng.random() < 0.5:
                g = rng.randrange(d + 1)
                ks = [k for k in keys_all if bin(k).count('1') == g]
            forms.append({'name': 'x', 'keys': ks})
        elif kind == 'outside-grades':
            ks = rng.sample(range(N), rng.randint(1, min(N, 4)))
            gs = sorted({bin(k).count('1') for k in ks})
            if len(gs) > 1:
                gs = gs[1:]
            else:
                gs = [(gs[0] + 1) % (d + 1)]
            forms.append({'keys': ks, 'values': [val() for _ in ks], 'grades': gs})
        elif kind == 'oob-key':
            # an integer key that is no blade of the algebra (>= 2^d), alone or next to valid keys, with or without a
            # grades declaration that matches its bit count
            ks = rng.sample(range(N), rng.randint(0, min(N, 3)))
            oob = rng.choice([N, N + 1, N + 2, 2 * N, 3 * N, 2 * N + 1])
            ks.insert(rng.randrange(len(ks) + 1), oob)
            f = {'keys': ks, 'values': [val() for _ in ks]}
            r = rng.random()
            if r < 0.4:
                f['grades'] = sorted({bin(k).count('1') for k in ks if bin(k).count('1') <= d})
                if not f['grades']:
                    del f['grades']
            if r > 0.8:
                f = {'mapping': list(zip(ks, f['values']))}
            forms.append(f)
        elif kind == 'bad-grades':
            gs = rng.choice([[d + 1], [-1], [0, d + 2], [1, 0], [1, 1]])
            forms.append({'values': [val()], 'grades': gs})
        elif kind == 'ctor':
            ctor = rng.choice(CTORS)
            f = {'ctor': ctor}
            r = rng.random()
            if r < 0.35:
                f['name'] = 'x'
            elif r < 0.8:
                # value list of the right (or nearly right) length
                gr = expected_ctor_grades(ctor, d)
                nvals = len([k for k in keys_all if bin(k).count('1') in gr]) if gr is not None else 1
                if rng.random() < 0.15:
                    nvals += 1
                f['values'] = [val() for _ in range(max(nvals, 0))]
            else:
                gr = expected_ctor_grades(ctor, d)
                cands = [n for n in names if gr is not None and (len(n) - 1) in gr]
                if cands:
                    f['items'] = {rng.choice(cands): val()}
                else:
                    f['name'] = 'x'
            forms.append(f)
    return forms


def expected_ctor_grades(ctor, d):
    """what the documentation of the convenience constructors says (independent of the code)"""
    table = {'evenmv': [g for g in range(d + 1) if g % 2 == 0], 'oddmv': [g for g in range(d + 1) if g % 2 == 1],
             'scalar': [0], 'vector': [1], 'bivector': [2], 'trivector': [3], 'quadvector': [4],
             'pseudoscalar': [d], 'pseudovector': [d - 1], 'pseudobivector': [d - 2], 'pseudotrivector': [d - 3],
             'pseudoquadvector': [d - 4]}
    gs = table[ctor]
    if any(g < 0 or g > d for g in gs):
        return None
    return gs


def duplicate_spelling_pass(ctx):
    """several keyword spellings of one blade in a single call (canonical + permuted, or two permuted spellings of either
    parity, in either order, alone or next to other blades): the call is refused, or else every supplied coefficient reads
    back under the spelling it was supplied with - a supplied coefficient is never silently dropped"""
    from kingdon import Algebra
    rng = ctx.rng
    algs = [('R3', Algebra(3)), ('3DPGA', Algebra.fromname('3DPGA')), ('R4', Algebra(4)), ('R3g', Algebra(3, graded=True))]
    for tag, alg in algs:
        for name in [n for n in alg.canon2bin if len(n) >= 4]:
            sps = [s for s, _ in spellings_of(name, rng, 24)]
            pairs = [(a, b) for a in sps for b in sps if a != b]
            for a, b in (pairs if len(pairs) <= 30 else rng.sample(pairs, 30 if ctx.quick else 120)):
                items = {a: rng.randint(2, 9), b: rng.randint(2, 9)}
                if rng.random() < 0.3:
                    other = rng.choice([n for n in alg.canon2bin if n != name])
                    items = {**{other: 1}, **items} if rng.random() < 0.5 else {**items, other: 1}
                case = {'algebra': tag, 'keywords': items}
                ctx.case(('dup-spelling', tag, tuple(items.items())), tag='duplicate-spelling')
                try:
                    x = alg.multivector(**items)
                except Exception:
                    ctx.count('duplicate-spelling:refused')
                    continue
                back = {k: getattr(x, k) for k in items}
                if back != items:
                    ctx.violation('supplied-coefficient-dropped', case, items, back, key='roundtrip:duplicate-spelling')
                    break


def containers_and_dimensions_pass(ctx):
    """(a) coefficients held in ONE numpy array of a dtype that float64 cannot hold (complex, int64 beyond 2**53, object with
    Fractions): asfullmv (both orders), grade, items, attribute access return exactly the supplied numbers; (b) positional value
    lists in d = 7, 8 (every table is built lazily there): the k-th value of `bivector(list)`, `purevector(list, grade)`,
    `evenmv(list)`, `multivector(list, grades=..)` and a full list lands on the k-th blade of those grades in canonical order
    (grade by grade, ascending combinations of the basis vectors)"""
    import numpy as np
    from fractions import Fraction
    from kingdon import Algebra
    rng = ctx.rng
    alg = Algebra(3)
    arrays = {'complex128': np.array([1 + 2j, 3 - 1j, 0.5j]), 'int64>2**53': np.array([2 ** 60 + 1, 2 ** 61 + 3, -(2 ** 59) - 7], dtype=np.int64),
              'object(Fraction)': np.array([Fraction(1, 3), Fraction(2, 7), Fraction(5)], dtype=object), 'float64': np.array([0.5, 1.25, -2.0])}
    for dname, arr in arrays.items():
        for ctor, keys in (('vector', (1, 2, 4)), ('bivector', (3, 5, 6))):
            x = getattr(alg, ctor)(arr)
            supplied = {k: arr[i] for i, k in enumerate(keys)}
            for form, thunk in (('asfullmv()', lambda: x.asfullmv()), ('asfullmv(canonical=False)', lambda: x.asfullmv(canonical=False)),
                                ('grade(g)', lambda: x.grade(1 if ctor == 'vector' else 2)), ('map(identity)', lambda: x.map(lambda v: v))):
                case = {'dtype': dname, 'constructor': ctor, 'read_back_through': form}
                ctx.case(case, tag='array-dtypes')
                try:
                    y = thunk()
                    got = {int(k): v for k, v in zip(y.keys(), y.values())}
                except Exception as ex:
                    ctx.violation('roundtrip', case, str(supplied)[:200], 'raises ' + repr(ex)[:150], key=f'roundtrip:array-dtype:raises:{dname}')
                    continue
                bad = [k for k in supplied if not (k in got and got[k] == supplied[k] and type(got[k]) == type(supplied[k]))]
                extra = [k for k, v in got.items() if k not in supplied and v != 0]
                if bad or extra:
                    ctx.violation('roundtrip', {**case, 'blades': bad + extra}, str(supplied)[:200], str({k: got.get(k) for k in bad + extra})[:200], key=f'roundtrip:array-dtype:{dname}')
    # (c) map() with callables that are not plain functions (classes, builtins, partials, bound methods, callable objects): the
    # one-argument form applies them to each coefficient
    import functools
    class Twice:
        def __call__(self, v, scale=2): return v * scale
    callables = [('Fraction', Fraction, lambda v: Fraction(v)), ('complex', complex, lambda v: complex(v)), ('float', float, lambda v: float(v)),
                 ('round', round, lambda v: round(v)), ('functools.partial(round, ndigits=1)', functools.partial(round, ndigits=1), lambda v: round(v, 1)),
                 ('abs', abs, lambda v: abs(v)), ('callable object with an optional second parameter', Twice(), lambda v: v * 2),
                 ('bound method', (3).__mul__, lambda v: 3 * v), ('lambda v: v + 1', (lambda v: v + 1), lambda v: v + 1),
                 ('lambda k, v: v * k', None, None)]
    x = alg.multivector(keys=(1, 6, 3), values=[4, -6, 9])
    for cname, fn, ref in callables:
        case = {'map': cname, 'keys': [1, 6, 3], 'values': [4, -6, 9]}
        ctx.case(case, tag='map-callables')
        if fn is None:
            got = dict(zip(x.map(lambda k, v: v * k).keys(), x.map(lambda k, v: v * k).values())); exp = {1: 4, 6: -36, 3: 27}
        else:
            try:
                y = x.map(fn)
                got = {int(k): v for k, v in zip(y.keys(), y.values())}
            except Exception as ex:
                got = 'raises ' + repr(ex)[:100]
            exp = {1: ref(4), 6: ref(-6), 3: ref(9)}
        if got != exp:
            ctx.violation('roundtrip', case, str(exp), str(got)[:200], key='roundtrip:map-callable')
    import itertools as it
    for d in (7, 8) if not ctx.quick else (7,):
        alg = Algebra(d)
        canon = lambda g: [sum(1 << i for i in c) for c in it.combinations(range(d), g)]
        forms = [('bivector(list)', lambda vs: alg.bivector(vs), [2]), ('purevector(list, grade=3)', lambda vs: alg.purevector(vs, grade=3), [3]),
                 ('evenmv(list)', lambda vs: alg.evenmv(vs), list(range(0, d + 1, 2))), ('multivector(list, grades=(1, 2))', lambda vs: alg.multivector(vs, grades=(1, 2)), [1, 2]),
                 ('vector(list)', lambda vs: alg.vector(vs), [1]), ('multivector(full list)', lambda vs: alg.multivector(vs), list(range(d + 1)))]
        for fname, ctor, gs in forms:
            keys = [k for g in gs for k in canon(g)]
            vals = list(range(1, len(keys) + 1))
            case = {'d': d, 'form': fname}
            ctx.case(case, tag='positional-highdim')
            try:
                x = ctor(vals)
                got = {int(k): v for k, v in zip(x.keys(), x.values())}
            except Exception as ex:
                ctx.violation('roundtrip', case, 'a multivector', 'raises ' + repr(ex)[:150], key='roundtrip:positional-highdim:raises')
                continue
            exp = dict(zip(keys, vals))
            if got != exp:
                bad = [k for k in exp if got.get(k) != exp[k]][:4]
                ctx.violation('roundtrip', {**case, 'blades': bad}, str({k: exp[k] for k in bad}), str({k: got.get(k) for k in bad}), key='roundtrip:positional-highdim')
                continue
            probe = rng.sample(keys, min(6, len(keys)))
            names = {k: alg.bin2canon[k] for k in probe}
            if any(getattr(x, names[k]) != exp[k] for k in probe):
                ctx.violation('roundtrip', {**case, 'check': 'attribute access'}, str({names[k]: exp[k] for k in probe}), str({names[k]: getattr(x, names[k]) for k in probe}), key='roundtrip:positional-highdim:getattr')


def simp_func_pass(ctx):
    """filter() without an argument on algebras with a custom simp_func (predicate style and value style): it selects by
    simp_func and reflects exactly the supplied coefficients"""
    from kingdon import MultiVector
    rng = ctx.rng
    for nm, sf in (('predicate', lambda v: abs(v) > 1e-12), ('rounding', lambda v: round(v, 3)), ('identity', lambda v: v)):
        alg = make_algebra([1, 1, 1], simp_func=sf)
        for _ in range(6):
            ks = rng.sample(range(8), rng.randint(1, 5))
            vs = [rng.choice([2.5, -4.0, 0.0, 1e-15, 7.25, -0.0004, 3.0]) for _ in ks]
            mv = alg.multivector(keys=tuple(ks), values=list(vs))
            exp = {k: v for k, v in zip(ks, vs) if sf(v)}
            case = {'simp_func': nm, 'keys': ks, 'values': vs}
            ctx.case(case, tag='filter:simp_func')
            try:
                got = dict(mv.filter().items())
            except Exception as e:
                ctx.violation('filter', case, exp, repr(e)[:200], key=f'roundtrip:filter:simp_func:{nm}:raises')
                continue
            if got != exp or any(type(got[k]) is not float for k in got):
                ctx.violation('filter', case, exp, got, key=f'roundtrip:filter:simp_func:{nm}')


def run(ctx):
    ctx.rule = ('constructor calls: forms {keys+values (ints / names / mixed), mapping, keyword blades in every spelling, grade-restricted '
                'value lists, full lists, by name, convenience constructors, malformed variants (length mismatch, keys outside grades, '
                'invalid/unsorted grades, unknown or repeated keyword blades, incomplete grades in graded mode)} x algebras '
                '(default d<=4, custom and named bases, graded or not); a case is one constructor call; non-trivial = not the empty form')
    ctx.lean_prepare()
    rng = ctx.rng
    cfgs = []
    for sig in ([1], [1, 1], [1, -1, 0], [1, 1, 1], [0, 1, 1], [1, 1, 1, 1], [0, 1, 1, 1]):
        for graded in (False, True):
            cfgs.append((sig, None, None, graded))
    cfgs.append(([0, 1, 1], None, ["e", "e1", "e2", "e0", "e20", "e01", "e12", "e012"], False))
    cfgs.append(([0, 1, 1, 1], None, ["e", "e1", "e2", "e3", "e0", "e01", "e02", "e03", "e12", "e31", "e23", "e032", "e013", "e021", "e123", "e0123"], False))
    cfgs.append(([0, 1, 1, 1], None, ["e", "e1", "e2", "e3", "e0", "e01", "e02", "e03", "e12", "e31", "e23", "e032", "e013", "e021", "e123", "e0123"], True))
    for _ in range(3 if ctx.quick else 20):
        d = rng.choice([2, 3, 3])
        cfgs.append(([rng.choice((1, -1, 0)) for _ in range(d)], None, random_custom_basis(rng, d), rng.random() < 0.3))
    cfgs.append(([1, 1], 0, None, False))
    cfgs.append(([1, 1, 1], 2, None, False))
    # start indices equal to 2**d (the label of the first vector then spells the number of blades)
    cfgs.append(([1], 2, None, False))
    cfgs.append(([1, -1], 4, None, False))
    cfgs.append(([0, 1, 1], 8, None, False))
    # labels spelled with hex letters, among them `e`, the letter of the prefix (default and custom bases)
    cfgs.append(([1, 1, 1], 13, None, False))
    cfgs.append(([1, -1, 1, 0], 12, None, False))
    cfgs.append(([1, 1, -1], 12, None, True))
    cfgs.append(([rng.choice((1, -1, 0)) for _ in range(3)], None, random_custom_basis(rng, 3, 12), False))
    cfgs.append(([rng.choice((1, -1, 0)) for _ in range(3)], None, random_custom_basis(rng, 3, 13), False))
    simp_func_pass(ctx)
    duplicate_spelling_pass(ctx)
    containers_and_dimensions_pass(ctx)
    lines, plan = [], []
    # several algebras are alive at the same time and are used alternately (shared-state defects)
    algs = [(make_algebra(sig, start, basis, graded=graded), sig, start, basis, graded) for sig, start, basis, graded in cfgs]
    work = []
    for alg, sig, start, basis, graded in algs:
        tok = cfg_token([int(s) for s in alg.signature], None if basis else int(alg.start_index), list(alg.canon2bin.keys()) if basis else None)
        for form in gen_forms(rng, alg, graded, 120 if ctx.quick else 800):
            work.append((alg, tok, {'sig': sig, 'start': start, 'basis': basis, 'graded': graded}, graded, form))
    rng.shuffle(work)
    for alg, tok, desc, graded, form in work:
        mv, err = call_real(alg, form)
        real = render_real(mv, err)
        ctx.case({**desc, 'form': form}, nontrivial=bool(form), tag=('ctor' if form.get('ctor') else 'items' if form.get('items') else
                 'mapping' if form.get('mapping') is not None else 'name' if form.get('name') else 'kv') + (':graded' if graded else ''))
        ctx.count('outcome:' + (err or 'ok'))
        lines.append(line_of(tok, graded, form))
        plan.append((desc, form, real))
        # pure keyword forms also through the keyword branch of __new__ as *translated from the source* (not graded: the rest of
        # __new__ then only turns the names into binary keys)
        if form.get('items') and set(form) <= {'items'} and not graded:
            lines.append(f'srckw {tok} I:' + ','.join(f'{a}={b}' for a, b in form['items'].items()))
            plan.append(({**desc, 'translated': 'keyword branch'}, form, real))
        # direct oracle
        sup = supplied_of(alg, form)
        if mv is not None and sup is not None and not form.get('ctor'):
            oracle_roundtrip(ctx, alg, desc, form, mv, sup, rng)
        if mv is not None:
            # graded mode: complete grades; declared grades respected
            ks = tuple(mv.keys())
            if graded and ks:
                gs = tuple(sorted({bin(k).count('1') for k in ks}))
                if ks != alg.indices_for_grades[gs]:
                    kindkey = 'mapping' if form.get('mapping') is not None else 'other'
                    ctx.violation('graded-incomplete', {**desc, 'form': form}, list(alg.indices_for_grades[gs]), list(ks), key=f'graded-incomplete:{kindkey}')
            if form.get('grades') is not None and any(bin(k).count('1') not in form['grades'] for k in ks):
                ctx.violation('keys-outside-grades', {**desc, 'form': form}, 'ValueError', real, key='inconsistent:grades')
            if form.get('ctor'):
                gr = expected_ctor_grades(form['ctor'], alg.d)
                if gr is None:
                    ctx.violation('ctor-invalid-grade-accepted', {**desc, 'form': form}, 'ValueError', real, key='ctor:invalid')
                elif form.get('name') and not form.get('values'):
                    expk = tuple(k for k in alg.canon2bin.values() if bin(k).count('1') in gr)
                    if ks != expk:
                        ctx.violation('ctor-grades', {**desc, 'form': form}, list(expk), list(ks), key='ctor:grades')
                elif any(bin(k).count('1') not in gr for k in ks):
                    ctx.violation('ctor-grades', {**desc, 'form': form}, gr, list(ks), key='ctor:grades')
            if any(isinstance(k, int) and not (0 <= k < 2 ** alg.d) for k in ks):
                ctx.violation('key-outside-algebra-accepted', {**desc, 'form': form}, 'an exception: the key is no blade of the algebra', real, key='inconsistent:oob-key')
            if form.get('keys') is not None and form.get('values') is not None and len(form['keys']) != len(form['values']):
                ctx.violation('length-mismatch-accepted', {**desc, 'form': form}, 'TypeError', real, key='inconsistent:length')
        elif form.get('ctor') and err:
            # consistent input for a documented constructor must not raise
            gr = expected_ctor_grades(form['ctor'], alg.d)
            if gr is not None and form.get('name') and not form.get('values') and not form.get('items'):
                ctx.violation('ctor-raises', {**desc, 'form': form}, 'a symbolic multivector of grades %s' % gr, real, key='ctor:raises')
            if gr is not None and form.get('values') is not None:
                n = len([k for k in alg.canon2bin.values() if bin(k).count('1') in gr])
                if len(form['values']) == n:
                    ctx.violation('ctor-raises', {**desc, 'form': form}, 'a multivector', real, key='ctor:raises')
            if gr is not None and not graded and form.get('items') and all((len(s) - 1) in gr for s in form['items']):
                ctx.violation('ctor-raises', {**desc, 'form': form}, 'a multivector', real, key='ctor:raises')
    out = ctx.drive(lines)
    if out is not None:
        nb = 0
        for (desc, form, exp), got in zip(plan, out):
            if exp != got:
                nb += 1
                if nb <= 6:
                    ctx.mismatch('construct', {**desc, 'form': form}, got[:200], exp[:200])
        ctx.count('driver-mismatches', nb)
    # accessor correspondence: getattr for permuted spellings on stored multivectors
    lines, plan = [], []
    for alg, sig, start, basis, graded in algs[: (12 if ctx.quick else len(algs))]:
        tok = cfg_token([int(s) for s in alg.signature], None if basis else int(alg.start_index), list(alg.canon2bin.keys()) if basis else None)
        from kingdon import MultiVector
        for _ in range(4 if ctx.quick else 20):
            ks = rng.sample(range(2 ** alg.d), rng.randint(1, min(2 ** alg.d, 5)))
            vs = [rng.randint(1, 9) for _ in ks]
            mv = MultiVector.fromkeysvalues(alg, tuple(ks), list(vs))
            for name in alg.canon2bin:
                for sp, sign in spellings_of(name, rng, 3):
                    try:
                        got = str(getattr(mv, sp))
                    except Exception as e:
                        got = 'raise:' + type(e).__name__
                    lines.append(f'getattr {tok} {",".join(map(str, ks))} {",".join(map(str, vs))} {sp}')
                    plan.append(({'sig': sig, 'basis': basis, 'keys': ks, 'values': vs, 'spelling': sp}, got))
                    # the same access through the translated __getattr__ (validates the translator)
                    lines.append(f'srcgetattr {tok} {",".join(map(str, ks))} {",".join(map(str, vs))} {sp}')
                    plan.append(({'sig': sig, 'basis': basis, 'keys': ks, 'values': vs, 'spelling': sp, 'via': 'translated source'}, got))
                    ctx.case(('getattr', tok, tuple(ks), sp), tag='getattr', sample=False)
                    exp = sign * dict(zip(ks, vs)).get(alg.canon2bin[name], 0)
                    if got != str(exp):
                        ctx.violation('getattr', {'sig': sig, 'basis': basis, 'keys': ks, 'values': vs, 'spelling': sp}, exp, got, key='roundtrip:getattr')
    out = ctx.drive(lines)
    if out is not None:
        nb = 0
        for (desc, exp), got in zip(plan, out):
            if exp != got:
                nb += 1
                if nb <= 4:
                    ctx.mismatch('getattr', desc, got, exp)
        ctx.count('getattr-mismatches', nb)
    ctx.assumptions = ['values are integers or symbols; string values (sympified) and array values are covered by C12/C16']

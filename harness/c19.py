"""C19 — exp, outer exponentials, sqrt, powers and norms obey their identities.

Tie:    the wedge powers x, x^x, ... of the Lean model (integer polynomials; the code divides the j-th by j!) vs. the real
        outerexp / outersin / outercos functions evaluated at rational points.
Oracle (numeric, 1e-9 relative; exact where kingdon keeps exactness): outerexp = sum x^(wedge k)/k!, outersin/outercos its
        odd/even parts, outertan = outersin * inverse(outercos); exp(x) of an element squaring to a scalar vs. 60 terms of the
        power series for positive, zero and negative squares (floats, ints, complex, numpy arrays, sympy symbols);
        Study numbers: sqrt(x)*sqrt(x) = x, x**0.5 = sqrt(x); integer powers (negative: of the inverse); norm()**2 = normsq;
        normalized() has squared norm 1.
"""
import math, warnings, re
from fractions import Fraction
from harness.common import *
from harness.opcorr import key_tuples, grade, mv_to_dict, ref_gp, ref_add, ref_graded, ref_scale
from harness.c07 import parse_mv


def fnum(d):
    return {k: complex(v) for k, v in d.items() if abs(complex(v)) > 1e-14}


def close(a, b, tol=1e-9):
    a, b = fnum(a), fnum(b)
    scale = max([1.0] + [abs(v) for v in b.values()])
    return all(abs(a.get(k, 0) - b.get(k, 0)) <= tol * scale for k in set(a) | set(b))


def dict_of(mv):
    d = {}
    for k, v in zip(mv.keys(), mv.values()):
        d[k] = d.get(k, 0) + v
    return d


def wedge_ref(S, x, y):
    return ref_graded(S, x, y, lambda a, b: a + b)


def run(ctx):
    import numpy as np, sympy
    from kingdon import MultiVector
    warnings.simplefilter('ignore')
    ctx.rule = ('signatures d<=4 (quick; <=6 thorough): outer series on pure-grade and mixed operands; exp on simple elements of every '
                'sign of square (blades, vectors, scalar multiples; float, int, complex, ndarray, sympy); sqrt / **0.5 / powers / norm / '
                'normalized on Study numbers scalar + blade / bivector / pseudoscalar; a case is one identity on one operand')
    ctx.lean_prepare()
    rng = ctx.rng
    sigs = [[1, 1], [1, -1], [1, 1, 1], [0, 1, 1], [1, -1, 1], [1, 1, 1, 1], [0, 1, 1, 1], [1, 1, 1, -1], [-1, -1, -1]]
    if not ctx.quick:
        sigs += [[1, 1, 1, 1, 1], [0, 1, 1, 1, -1], [1, 1, 1, 1, 1, 1], [1, 1, -1, -1, 0, 1]]
    lines, plan = [], []
    src_lines, src_plan = [], []
    for sig in sigs:
        alg = make_algebra(sig)
        d = alg.d
        S = alg.signs
        full = list(alg.canon2bin.values())
        tok = cfg_token(sig, int(alg.start_index))
        # ---- outer series -------------------------------------------------------------------------------------
        pats = []
        for g in range(1, d + 1):
            ks_ = [k for k in full if grade(k) == g]
            pats.append(ks_[:6])
            if len(ks_) > 2:
                pats.append(rng.sample(ks_, 2))
        pats += [[k for k in full if grade(k) in (1, 2)][:5]]
        if d == 4:
            pats += [[3, 12], [5, 10, 3]]          # non-simple bivectors: the wedge square does not vanish
            pats += [[3, 12, 7, 14], [5, 10, 11, 13]]     # non-simple bivector + trivector: outercos gets a grade-4 part that does not commute with outersin
        for kx in pats:
            vals = [Fraction(rng.randint(-4, 5) or 1, rng.choice([1, 2])) for _ in kx]
            x = MultiVector.fromkeysvalues(alg, tuple(kx), list(vals))
            xd = dict(zip(kx, vals))
            # reference: sum of wedge powers / k!
            terms = [{0: Fraction(1)}, dict(xd)]
            while len(terms) <= d:
                nxt = wedge_ref(S, terms[-1], xd)
                if not nxt:
                    break
                terms.append(nxt)
            scaled = [ref_scale(t, Fraction(1, math.factorial(j))) for j, t in enumerate(terms)]
            exp_all = {}
            for t in scaled:
                exp_all = ref_add(exp_all, t)
            exp_odd, exp_even = {}, {}
            for j, t in enumerate(scaled):
                if j % 2:
                    exp_odd = ref_add(exp_odd, t)
                else:
                    exp_even = ref_add(exp_even, t)
            for nm, fn, exp in (('outerexp', lambda: x.outerexp(), exp_all), ('outersin', lambda: x.outersin(), exp_odd),
                                ('outercos', lambda: x.outercos(), exp_even)):
                case = {'sig': sig, 'op': nm, 'kx': kx, 'values': [str(v) for v in vals]}
                ctx.case(case, tag=f'outer:{nm}')
                try:
                    got = dict_of(fn())
                except Exception as e:
                    ctx.violation('raises', case, 'a multivector', repr(e)[:200], key=f'{nm}:raises')
                    continue
                if not close(got, exp):
                    ctx.violation('outer-series', case, {k: str(v) for k, v in exp.items()}, {k: str(v) for k, v in got.items()}, key=f'{nm}:series')
            if len(kx) <= 4 and d <= 4:
                case = {'sig': sig, 'op': 'outertan', 'kx': kx, 'values': [str(v) for v in vals]}
                ctx.case(case, tag='outer:outertan')
                try:
                    t = dict_of(x.outertan())
                    e2 = dict_of(x.outersin() * x.outercos().inv())
                    if not close(t, e2):
                        ctx.violation('outertan', case, str(e2)[:200], str(t)[:200], key='outertan:def')
                except ZeroDivisionError:
                    pass
            # the outer series as *translated from the source* (validates the translator), run over the rationals on integer
            # coefficients and compared numerically with the library's results on the same operand
            if len(kx) <= 5:
                iv = [rng.choice([1, 2, 3, -2, 5, -1]) for _ in kx]
                xi = MultiVector.fromkeysvalues(alg, tuple(kx), [Fraction(v) for v in iv])
                try:
                    real3 = [dict_of(f()) for f in (xi.outerexp, xi.outersin, xi.outercos)]
                    src_lines.append(f'srcouter {tok} {",".join(map(str, kx))} {",".join(map(str, iv))}')
                    src_plan.append(({'sig': sig, 'kx': kx, 'values': iv}, real3))
                except Exception:
                    pass
            # model tie: wedge powers
            if len(kx) <= 5:
                lines.append(f'wedgepowers {tok} {",".join(map(str, kx))}')
                plan.append(({'sig': sig, 'kx': kx, 'values': [str(v) for v in vals]}, terms[1:], vals))
        # ---- exp of simple elements -----------------------------------------------------------------------------
        simple = []
        for name, K in alg.canon2bin.items():
            if K:
                simple.append(([K], int(S[K, K])))
        g1 = [k for k in full if grade(k) == 1]
        if len(g1) >= 2:
            simple.append((g1, None))        # a vector squares to a scalar
        # simple elements need not be of one grade: in even dimensions a vector anticommutes with the pseudoscalar, so v + s I squares
        # to a scalar; and a blade may be stored with explicit zeros of other grades
        if d % 2 == 0 and d >= 2:
            simple.append(([1, 2 ** d - 1], None))
            simple.append(([2, 1, 2 ** d - 1], None))
        for kx, sq in simple:
            for dtype in ('float', 'int', 'complex', 'ndarray', 'sympy', 'np.float64', '1d-array-values'):
                if ctx.quick and rng.random() < 0.4:
                    continue
                coeffs = [rng.choice([1, 2, -1, 3]) / rng.choice([1, 2, 4]) for _ in kx]
                if dtype == 'int':
                    vals = [int(rng.choice([1, 2, -1])) for _ in kx]
                elif dtype == 'complex':
                    vals = [complex(c, 0.5) for c in coeffs]
                elif dtype == 'ndarray':
                    vals = [np.array([c, 2 * c]) for c in coeffs]
                elif dtype == 'sympy':
                    vals = [sympy.Symbol(f't{i}', real=True) for i in range(len(kx))]
                elif dtype == 'np.float64':         # np.float64 IS a python float (subclass): what indexing an array-valued multivector hands out; other numpy scalar types
                    # (np.int64, np.float32) are outside the stated domain of exp and are not demanded
                    vals = [np.float64(c) for c in coeffs]
                elif dtype == '1d-array-values':    # the coefficients given as one 1-d array: each coefficient is a numpy scalar
                    vals = np.array([float(c) for c in coeffs])
                else:
                    vals = [float(c) for c in coeffs]
                x = MultiVector.fromkeysvalues(alg, tuple(kx), vals if dtype == '1d-array-values' else list(vals))
                case = {'sig': sig, 'op': 'exp', 'kx': kx, 'dtype': dtype, 'values': [str(v) for v in vals]}
                ctx.case(case, tag=f'exp:{dtype}')
                try:
                    e = x.exp()
                except NotImplementedError:
                    ctx.count('exp-notimplemented')
                    continue
                except Exception as ex:
                    ctx.violation('exp-raises', case, 'exp(x)', repr(ex)[:200], key=f'exp:raises:{dtype}:{type(ex).__name__}')
                    continue
                points = [None]
                if dtype == 'sympy':
                    points = [{s: float(rng.choice([0.5, 1.0, -0.75, 1.25])) for s in vals}]
                elif dtype == 'ndarray':
                    points = [0, 1]
                for pt in points:
                    if dtype == 'sympy':
                        xv = {k: complex(v.subs(pt)) for k, v in zip(kx, vals)}
                        ev = {k: complex(sympy.N(sympy.sympify(v).subs(pt))) for k, v in dict_of(e).items()}
                    elif dtype == 'ndarray':
                        xv = {k: complex(v[pt]) for k, v in zip(kx, vals)}
                        ev = {k: complex(np.broadcast_to(np.asarray(v), (2,))[pt]) for k, v in dict_of(e).items()}
                    else:
                        xv = {k: complex(v) for k, v in zip(kx, vals)}
                        ev = {k: complex(v) for k, v in dict_of(e).items()}
                    # 60 terms of the power series with the real sign table
                    term, tot = {0: 1.0 + 0j}, {0: 1.0 + 0j}
                    for n in range(1, 60):
                        term = {k: v / n for k, v in ref_gp(S, term, xv).items()}
                        tot = ref_add(tot, term)
                    if not close(ev, tot, 1e-8):
                        ctx.violation('exp-series', {**case, 'point': str(pt)}, {k: str(v) for k, v in fnum(tot).items()},
                                      {k: str(v) for k, v in fnum(ev).items()}, key=f'exp:series:{dtype}')
        # a blade held in a container with explicit zeros of other grades (dense multivector, even subalgebra)
        for K in [k for k in full if k][:3]:
            keys_p = [0, K] + [k for k in full if k not in (0, K)][:2]
            vals_p = [0.0, 0.75] + [0.0, 0.0][: len(keys_p) - 2]
            xz = MultiVector.fromkeysvalues(alg, tuple(keys_p), list(vals_p))
            case = {'sig': sig, 'op': 'exp', 'kx': keys_p, 'dtype': 'float, explicit zeros of other grades', 'values': vals_p}
            ctx.case(case, tag='exp:padded')
            try:
                ev = {k: complex(v) for k, v in dict_of(xz.exp()).items()}
                xv = {K: 0.75 + 0j}
                term, tot = {0: 1.0 + 0j}, {0: 1.0 + 0j}
                for n in range(1, 60):
                    term = {k: v / n for k, v in ref_gp(S, term, xv).items()}
                    tot = ref_add(tot, term)
                if not close(ev, tot, 1e-8):
                    ctx.violation('exp-series', case, {k: str(v) for k, v in fnum(tot).items()}, {k: str(v) for k, v in fnum(ev).items()}, key='exp:series:padded')
            except Exception as ex:
                ctx.violation('exp-raises', case, 'exp(x)', repr(ex)[:200], key=f'exp:raises:padded:{type(ex).__name__}')
        # normsq is x * ~x, also for k-vectors that are not blades (non-simple bivectors in d >= 4: a grade-4 part)
        if d >= 4:
            for kx in ([3, 12], [5, 10, 3], [3, 12, 6]):
                vals = [Fraction(rng.randint(1, 5)) for _ in kx]
                xq = MultiVector.fromkeysvalues(alg, tuple(kx), list(vals))
                case = {'sig': sig, 'op': 'normsq', 'kx': kx, 'values': [str(v) for v in vals]}
                ctx.case(case, tag='normsq:non-simple')
                got, exp = mv_to_dict(xq.normsq()), mv_to_dict(xq * ~xq)
                if got != exp:
                    ctx.violation('norm', case, str(exp), str(got), key='normsq:definition')
        # ---- Study numbers: sqrt, powers, norm ----------------------------------------------------------------------
        studies = []
        for name, K in alg.canon2bin.items():
            if K:
                studies.append([0, K])
        g2 = [k for k in full if grade(k) == 2]
        if len(g2) >= 2:
            studies.append([0] + g2[:3])
        for kx in studies:
            for dtype in ('float', 'ndarray'):
                a = float(rng.randint(3, 9))
                rest = [rng.choice([0.5, 1.0, -0.75, 0.25]) for _ in kx[1:]]
                vals = [a] + rest
                if dtype == 'ndarray':
                    vals = [np.array([v, v * 0.5 + (1.0 if i == 0 else 0.0)]) for i, v in enumerate(vals)]
                x = MultiVector.fromkeysvalues(alg, tuple(kx), list(vals))
                case = {'sig': sig, 'op': 'sqrt', 'kx': kx, 'dtype': dtype, 'values': [str(v) for v in vals]}
                ctx.case(case, tag=f'sqrt:{dtype}')
                try:
                    s = x.sqrt()
                    ss = dict_of(s * s)
                    xd = dict_of(x)
                    # a Study number: the non-scalar part squares to a scalar (decided on the key pattern, any values)
                    is_study = len(kx) == 2 or is_study_pattern(S, kx[1:])
                    if is_study and not close_arr(ss, xd, np):
                        ctx.violation('sqrt-square', case, str(xd)[:200], str(ss)[:200], key=f'sqrt:square:{dtype}')
                    p = dict_of(x ** 0.5)
                    if not close_arr(p, dict_of(s), np):
                        ctx.violation('pow-half', case, str(dict_of(s))[:200], str(p)[:200], key='pow:half')
                except Exception as ex:
                    ctx.violation('sqrt-raises', case, 'sqrt(x)', repr(ex)[:200], key=f'sqrt:raises:{dtype}:{type(ex).__name__}')
            # a Study number with positive scalar part whose squared norm is a NEGATIVE scalar (scalar + hyperbolic blade with the
            # larger coefficient): the norm is imaginary; norm()**2 is still normsq and normalized() still has squared norm 1
            if len(kx) == 2 and int(S[kx[1], kx[1]]) != 0:
                xn = MultiVector.fromkeysvalues(alg, tuple(kx), [1.0, 2.5])
                nsq = dict_of(xn.normsq())
                if set(k for k, v in nsq.items() if abs(v) > 1e-12) <= {0} and nsq.get(0, 0) < 0:
                    casen = {'sig': sig, 'kx': kx, 'values': [1.0, 2.5], 'normsq': nsq.get(0, 0)}
                    ctx.case(casen, tag='norm:negative-normsq')
                    try:
                        nrm = xn.norm()
                        sq = {k: complex(v) for k, v in dict_of(nrm * nrm).items() if abs(complex(v)) > 1e-9}
                        if set(sq) != {0} or abs(sq[0] - nsq[0]) > 1e-9 * abs(nsq[0]):
                            ctx.violation('norm', casen, str(nsq), str(sq), key='norm:square:negative-normsq')
                        un = {k: complex(v) for k, v in dict_of(xn.normalized().normsq()).items() if abs(complex(v)) > 1e-9}
                        if set(un) != {0} or abs(un[0] - 1) > 1e-9:
                            ctx.violation('normalized', casen, '{0: 1}', str(un), key='normalized:negative-normsq')
                    except Exception as ex:
                        ctx.count('norm-negative-raises:' + type(ex).__name__)
            # integer powers, norm, normalized (exact where possible)
            vals = [Fraction(rng.randint(2, 6))] + [Fraction(rng.randint(-3, 3) or 1, 2) for _ in kx[1:]]
            x = MultiVector.fromkeysvalues(alg, tuple(kx), list(vals))
            case = {'sig': sig, 'kx': kx, 'values': [str(v) for v in vals]}
            ctx.case(('powers', case), tag='powers')
            try:
                acc = x
                for n in range(2, 5):
                    acc = acc * x
                    if mv_to_dict(x ** n) != mv_to_dict(acc):
                        ctx.violation('power', {**case, 'n': n}, str(mv_to_dict(acc)), str(mv_to_dict(x ** n)), key='pow:positive')
                if mv_to_dict(x ** 1) != mv_to_dict(x) or mv_to_dict(x ** 0) != {0: 1}:
                    ctx.violation('power', {**case, 'n': '0/1'}, None, None, key='pow:trivial')
                try:
                    xi = x.inv()
                    acc = xi
                    for n in range(2, 7):
                        acc = acc * xi
                        if mv_to_dict(x ** -n) != mv_to_dict(acc):
                            ctx.violation('power', {**case, 'n': -n}, str(mv_to_dict(acc)), str(mv_to_dict(x ** -n)), key='pow:negative')
                            break
                    if mv_to_dict(x ** -1) != mv_to_dict(xi):
                        ctx.violation('power', {**case, 'n': -1}, None, None, key='pow:negative')
                except ZeroDivisionError:
                    pass
            except Exception as ex:
                ctx.violation('power-raises', case, 'x**n', repr(ex)[:200], key='pow:raises')
            xf = MultiVector.fromkeysvalues(alg, tuple(kx), [float(v) for v in vals])
            try:
                nsq = dict_of(xf.normsq())
                if set(k for k, v in nsq.items() if abs(v) > 1e-12) <= {0} and nsq.get(0, 0) > 0:
                    nrm = xf.norm()
                    if not close(dict_of(nrm * nrm), nsq):
                        ctx.violation('norm', case, str(nsq), str(dict_of(nrm * nrm)), key='norm:square')
                    u = xf.normalized()
                    if not close(dict_of(u.normsq()), {0: 1.0}):
                        ctx.violation('normalized', case, '{0: 1}', str(dict_of(u.normsq())), key='normalized')
                else:
                    # normsq is itself a Study number (e.g. scalar + pseudoscalar): norm()**2 must still be normsq
                    bI = {k: v for k, v in nsq.items() if k}
                    if set(ref_gp(S, bI, bI)) <= {0} and nsq.get(0, 0) > 0:
                        nrm = xf.norm()
                        if not close(dict_of(nrm * nrm), nsq):
                            ctx.violation('norm', case, str(nsq), str(dict_of(nrm * nrm)), key='norm:square')
            except ZeroDivisionError:
                pass
            except Exception as ex:
                ctx.count('norm-raises:' + type(ex).__name__)
    out = ctx.drive(lines)
    if out is not None:
        nb = 0
        for (case, terms, vals), got in zip(plan, out):
            try:
                model_terms = [parse_mv(t) for t in got.split('|')]
                env = {i: v for i, v in enumerate(vals)}
                # the model's powers are symbolic; the reference stops at the first power that vanishes for these VALUES: the
                # model may list further (symbolically non-zero) powers, which must then evaluate to zero
                ok = len(model_terms) >= len(terms)
                if ok:
                    for i_, mt in enumerate(model_terms):
                        rt = terms[i_] if i_ < len(terms) else {}
                        mv_ = {k: p.subs(env) for k, p in mt.items()}
                        mv_ = {k: v for k, v in mv_.items() if v != 0}
                        if mv_ != {k: v for k, v in rt.items() if v != 0}:
                            ok = False
            except Exception:
                ok = False
            if not ok:
                nb += 1
                if nb <= 4:
                    ctx.mismatch('wedge-powers', case, got[:200], str(terms)[:200])
        ctx.count('driver-lines', len(lines)); ctx.count('driver-mismatches', nb)
    out2 = ctx.drive(src_lines) if src_lines else None
    if out2 is not None:
        nb = 0
        for (case, real3), got in zip(src_plan, out2):
            try:
                parts = [{int(e.split(':')[0]): float(Fraction(e.split(':')[1])) for e in p_.split(',') if e} for p_ in got.split('|')]
                ok = len(parts) == 3 and all(close({k: v for k, v in a.items() if v != 0}, {k: float(v) for k, v in b.items() if v != 0}) for a, b in zip(parts, real3))
            except Exception:
                ok = False
            if not ok:
                nb += 1
                if nb <= 4:
                    ctx.mismatch('translated-source', {**case, 'functions': 'codegen_outerexp | outersin | outercos'}, got[:200], str(real3)[:200])
        ctx.count('translated-outer-lines', len(src_lines)); ctx.count('translated-outer-mismatches', nb)
    inplace_pass(ctx, np)
    name_route_pass(ctx, np)
    ctx.assumptions = ['the code computes in floating point (v / j in the outer series, **0.5, numpy/sympy transcendental functions): all '
                       'comparisons are to 1e-9 relative and are tests, the exact identities are theorems about the model',
                       'array-valued operands of exp() are outside its documented domain (float, int, complex, sympy); see known findings']


def inplace_pass(ctx, np):
    """array-valued multivectors whose entries are overwritten in place between calls: norm, normalized, sqrt, exp and the
    outer series are recomputed from the current coefficients (norm^2 = normsq, |normalized|^2 = 1, ...)"""
    from kingdon import MultiVector
    rng = ctx.rng
    nprng = np.random.RandomState(rng.randrange(2 ** 31))
    for sig, gr in (([1, 1, 1], 1), ([0, 1, 1, 1], 2), ([1, 1, 1, 1], 2), ([1, 1], 1)):
        alg = make_algebra(sig)
        ks = [k for k in alg.canon2bin.values() if grade(k) == gr]
        x = MultiVector.fromkeysvalues(alg, tuple(ks), nprng.random_sample((len(ks), 4)) + 0.5)
        for step in range(3):
            case = {'sig': sig, 'grade': gr, 'step': step, 'scenario': 'in-place assignment between calls'}
            ctx.case(case, tag='inplace')
            try:
                nsq, n, u = x.normsq(), x.norm(), x.normalized()
                maxabs = lambda mv: max([float(np.max(np.abs(np.asarray(v, dtype=complex)))) for v in mv.values()] or [0.0])
                e1 = maxabs(n * n - nsq)
                e2 = maxabs(u.normsq() - 1)
                fresh = MultiVector.fromkeysvalues(alg, tuple(ks), np.array(x.values()).copy())
                e3 = maxabs(fresh.norm() - n)
                e4 = maxabs(x.outerexp() - fresh.outerexp())
            except Exception as e:
                ctx.count('inplace-raises:' + type(e).__name__)
                break
            for nm, err in (('norm^2=normsq', e1), ('|normalized|^2=1', e2), ('norm=fresh norm', e3), ('outerexp=fresh outerexp', e4)):
                if err != err:
                    ctx.count('inplace-nan')        # a negative squared norm under numpy's real square root: nothing to compare
                    continue
                if not (err < 1e-8):
                    ctx.violation('stale-after-inplace', {**case, 'identity': nm}, 'error < 1e-8', float(err), key=f'inplace:{nm}')
            # overwrite one entry in place
            i = step % 4
            x[i] = (3.0 + step) * x[(i + 1) % 4]


def name_route_pass(ctx, np):
    """the outer functions, sqrt, norm and normalized reached through the by-name routes (an algebra with a wrapper, functions
    compiled by alg.register) in an interleaved order, against the plain method calls on a plain algebra"""
    from kingdon import MultiVector
    rng = ctx.rng
    ident = lambda f: f
    def r_osin(x): return x.outersin()
    def r_ocos(x): return x.outercos()
    def r_oexp(x): return x.outerexp()
    def r_otan(x): return x.outertan()
    def r_normalized(x): return x.normalized()
    def r_norm(x): return x.norm()
    def r_sqrt(x): return x.sqrt()
    for sig in ([1, 1, 1, 1], [1, 1, 1, -1], [0, 1, 1, 1]):
        plain = make_algebra(sig)
        wrapped = make_algebra(sig, wrapper=ident)
        d = len(sig)
        full = list(plain.canon2bin.values())
        g2 = [k for k in full if grade(k) == 2]
        operands = {'bivector': (g2, [float(rng.randint(1, 5)) for _ in g2]),
                    'scalar+pss': ([0, 2 ** d - 1], [2.0, 0.5]),
                    'vector': ([1, 2, 4], [1.0, 2.0, 2.0]),
                    'two-bivectors': ([3, 12], [1.5, 2.0])}
        calls = []
        for onm, (ks, vs) in operands.items():
            for fn in ('outersin', 'outercos', 'outerexp', 'outertan', 'normalized', 'norm', 'sqrt'):
                if fn == 'sqrt' and onm != 'scalar+pss':
                    continue
                if fn.startswith('outer') and onm == 'scalar+pss':
                    continue
                calls.append((onm, fn))
        seq = calls + calls
        rng.shuffle(seq)
        regs = {}
        for route, alg in (('wrapper', wrapped), ('registered', plain), ('registered+wrapper', wrapped)):
            if 'registered' in route:
                regs[route] = {n: alg.register(f) for n, f in (('outersin', r_osin), ('outercos', r_ocos), ('outerexp', r_oexp), ('outertan', r_otan),
                                                               ('normalized', r_normalized), ('norm', r_norm), ('sqrt', r_sqrt))}
        fresh_cache = {}
        for step, (onm, fn) in enumerate(seq):
            ks, vs = operands[onm]
            if (onm, fn) not in fresh_cache:
                xp = MultiVector.fromkeysvalues(make_algebra(sig), tuple(ks), list(vs))
                try:
                    fresh_cache[onm, fn] = dict_of(getattr(xp, fn)())
                except Exception as e:
                    fresh_cache[onm, fn] = 'raise:' + type(e).__name__
            exp = fresh_cache[onm, fn]
            if isinstance(exp, str):
                continue
            for route, alg in (('wrapper', wrapped), ('registered', plain), ('registered+wrapper', wrapped)):
                x = MultiVector.fromkeysvalues(alg, tuple(ks), list(vs))
                case = {'sig': sig, 'route': route, 'function': fn, 'operand': onm, 'step': step}
                ctx.case(case, tag='name-route:' + route)
                try:
                    got = dict_of(regs[route][fn](x)) if 'registered' in route else dict_of(getattr(x, fn)())
                except Exception as e:
                    ctx.violation('name-route-raises', case, str(exp)[:200], repr(e)[:200], key=f'name-route:{fn}:raises')
                    continue
                if not close(got, exp):
                    ctx.violation('name-route', case, str(exp)[:300], str(got)[:300], key=f'name-route:{fn}')


def is_study_pattern(S, keys):
    from harness.tracer import P
    b = {k: P.var(i) for i, k in enumerate(keys)}
    return set(ref_gp(S, b, b)) <= {0}


def close_arr(a, b, np):
    keys = set(a) | set(b)
    for k in keys:
        x, y = np.asarray(a.get(k, 0.0), dtype=complex), np.asarray(b.get(k, 0.0), dtype=complex)
        x, y = np.broadcast_arrays(x, y)
        if not np.allclose(x, y, rtol=1e-9, atol=1e-9):
            return False
    return True

/-
  Line-protocol interpreter over the executable model (no Mathlib).
  Run:  lake env lean --run Driver.lean < ops.txt
  One output line per input line.  Unknown or malformed input gives `bad-op` (never a default).
-/
import Kingdon.Model.Blade
import Kingdon.Model.Poly
import Kingdon.Model.Codegen
import Kingdon.Model.OpDict
import Kingdon.Model.KPoly
import Kingdon.Model.Construct
import Kingdon.Model.Graph
import Kingdon.Model.Api
import Kingdon.Model.Composite
import Kingdon.Model.Hitzer
import Kingdon.Model.Matrix
import Kingdon.Lemmas.SourceBase
import Kingdon.Generated.SourcePoly
import Kingdon.Lemmas.SourceOuterOps
open Kingdon

def hexDigit? (ch : Char) : Option Nat :=
  if '0' ≤ ch ∧ ch ≤ '9' then some (ch.toNat - '0'.toNat)
  else if 'a' ≤ ch ∧ ch ≤ 'f' then some (ch.toNat - 'a'.toNat + 10)
  else none

/-- `e12` ↦ [1,2] -/
def parseName (s : String) : Option (List Nat) :=
  match s.toList with
  | 'e' :: cs => cs.mapM hexDigit?
  | _ => none

def parseNatList (s : String) : Option (List Nat) :=
  if s == "-" || s == "" then some [] else (s.splitOn ",").mapM (·.toNat?)
def parseIntList (s : String) : Option (List Int) :=
  if s == "-" || s == "" then some [] else (s.splitOn ",").mapM (·.toInt?)

def renderName (n : List Nat) : String :=
  "e" ++ String.ofList (n.map fun l => if l < 10 then Char.ofNat (l + 48) else Char.ofNat (l + 87))
def joinC (l : List String) : String := String.intercalate "," l

/-- cfg token: `<sig>;<start|->;<basis|->`, e.g. `1,1,0;-;-` or `0,1,1;-;e,e1,e2,e0,e20,e01,e12,e012` -/
def parseCfg (s : String) : Option Cfg :=
  match s.splitOn ";" with
  | [sg, st, bs] => do
    let sig ← parseIntList sg
    if bs == "-" then
      let start ← if st == "-" then some (Cfg.defaultStart sig) else st.toNat?
      some (Cfg.default sig start)
    else
      let names ← (bs.splitOn ",").mapM parseName
      some (Cfg.custom sig names)
  | _ => none

/-- coefficient values of the construct protocol: integers or (possibly negated) symbols -/
inductive CV where
  | i (n : Int)
  | s (neg : Bool) (nm : String)
deriving BEq
instance : Neg CV := ⟨fun | .i n => .i (-n) | .s b nm => .s (!b) nm⟩
instance : Zero CV := ⟨.i 0⟩
def CV.render : CV → String
  | .i n => toString n
  | .s b nm => (if b then "-" else "") ++ nm

def parseKeyIn (s : String) : Option Con.KeyIn :=
  match s.toNat? with
  | some k => some (.int k)
  | none => (parseName s).map .name

def parseCVList (s : String) : Option (List CV) :=
  if s == "" then some [] else (s.splitOn ",").mapM fun t => t.toInt?.map CV.i

def parsePairs {κ : Type} (pk : String → Option κ) (s : String) : Option (List (κ × CV)) :=
  if s == "" then some [] else (s.splitOn ",").mapM fun t =>
    match t.splitOn "=" with
    | [k, v] => do let k ← pk k; let v ← v.toInt?; some (k, CV.i v)
    | _ => none

def parseForm (vals keys name grades items : String) : Option (Con.Form CV) := do
  let values ← if vals == "-" then some Con.ValuesIn.none
    else if vals.startsWith "L:" then (parseCVList (vals.drop 2).toString).map Con.ValuesIn.list
    else if vals.startsWith "M:" then (parsePairs parseKeyIn (vals.drop 2).toString).map Con.ValuesIn.mapping
    else none
  let keys ← if keys == "-" then some none
    else if keys.startsWith "K:" then
      let body := (keys.drop 2).toString
      if body == "" then some (some []) else ((body.splitOn ",").mapM parseKeyIn).map some
    else none
  let nm := if name == "-" then none else some name
  let grades ← if grades == "-" then some none
    else if grades.startsWith "G:" then (parseIntList (grades.drop 2).toString).map some
    else none
  let items ← if items == "-" then some []
    else if items.startsWith "I:" then parsePairs parseName (items.drop 2).toString
    else none
  some { values := values, keys := keys, name := nm, grades := grades, items := items }

def renderErr : Con.Err → String
  | .valueError => "raise:ValueError"
  | .typeError => "raise:TypeError"
  | .keyError => "raise:KeyError"

/-! graph protocol: prefix token stream  L<n> | T<n> | F | a:<text> | m:<keys>:<vals> | A:<keys>:<v,v;v,v> -/
partial def parseSubj : List String → Option (Graph.Subj Int × List String)
  | [] => none
  | tok :: rest =>
    if tok.startsWith "a:" then some (.atom (tok.drop 2).toString, rest)
    else if tok == "F" then (parseSubj rest).map fun (x, r) => (.thunk x, r)
    else if tok.startsWith "L" || tok.startsWith "T" then
      match (tok.drop 1).toString.toNat? with
      | none => none
      | some n =>
        let rec go (n : Nat) (toks : List String) (acc : List (Graph.Subj Int)) : Option (List (Graph.Subj Int) × List String) :=
          match n with
          | 0 => some (acc.reverse, toks)
          | n + 1 => match parseSubj toks with
            | none => none
            | some (x, r) => go n r (x :: acc)
        (go n rest []).map fun (xs, r) => (.seq (tok.startsWith "T") xs, r)
    else match tok.splitOn ":" with
      | ["m", ks, vs] => do
        let ks ← parseNatList ks; let vs ← parseIntList vs
        some (.mv ks vs, rest)
      | ["A", ks, es] => do
        let ks ← parseNatList ks
        let es ← (if es == "" then some [] else (es.splitOn ";").mapM parseIntList)
        some (.mvArr ks es, rest)
      | _ => none

partial def parseSubjs (toks : List String) (acc : List (Graph.Subj Int)) : Option (List (Graph.Subj Int)) :=
  match toks with
  | [] => some acc.reverse
  | _ => match parseSubj toks with
    | none => none
    | some (x, r) => parseSubjs r (x :: acc)

partial def renderPayload : Graph.Payload Int → String
  | .atom s => "a:" ++ s
  | .mv vals keys => "{" ++ joinC (vals.map toString) ++ "|" ++ (match keys with | none => "-" | some ks => joinC (ks.map toString)) ++ "}"
  | .seq xs => "[" ++ String.intercalate " " (xs.map renderPayload) ++ "]"

/-! call-binary protocol: prefix tokens  L<n> | T<n> | F | v:<name> | n:<int>;  leaves are symbolic names -/
partial def parseOperand : List String → Option (Api.Operand String × List String)
  | [] => none
  | tok :: rest =>
    if tok.startsWith "v:" then some (.mv (tok.drop 2).toString, rest)
    else if tok.startsWith "n:" then ((tok.drop 2).toString.toInt?).map fun n => (.num n, rest)
    else if tok == "F" then (parseOperand rest).map fun (x, r) => (.thunk x, r)
    else if tok.startsWith "L" || tok.startsWith "T" then
      match (tok.drop 1).toString.toNat? with
      | none => none
      | some n =>
        let rec go (n : Nat) (toks : List String) (acc : List (Api.Operand String)) : Option (List (Api.Operand String) × List String) :=
          match n with
          | 0 => some (acc.reverse, toks)
          | n + 1 => match parseOperand toks with
            | none => none
            | some (x, r) => go n r (x :: acc)
        (go n rest []).map fun (xs, r) => (.seq (tok.startsWith "T") xs, r)
    else none

partial def renderResult : Api.Result String → String
  | .mv x => x
  | .seq t xs => (if t then "(" else "[") ++ String.intercalate " " (xs.map renderResult) ++ (if t then ")" else "]")

/-! ### the C17 stack machine over the *translated* methods of kingdon/polynomial.py (validates the translation by execution) -/
namespace SrcPolyRun
open Kingdon

inductive Val where
  | p (x : Py.Poly) | r (x : Py.Rat) | b (x : Bool) | err (e : String)

def renderAtom : Py.Atom → String
  | .num n => toString n
  | .str s => String.ofList s
  | .none => "None"
def renderMono (m : Py.Mono) : String := "[" ++ String.intercalate "," (m.map renderAtom) ++ "]"
def renderPoly (p : Py.Poly) : String := "[" ++ String.intercalate "," (p.map renderMono) ++ "]"
def Val.render : Val → String
  | .p x => "P" ++ renderPoly x
  | .r x => "R" ++ renderPoly x.1 ++ "/" ++ renderPoly x.2
  | .b x => if x then "True" else "False"
  | .err e => "raise:" ++ e

def one : Py.Poly := [[.num 1]]
def liftP (x : Py.M Py.Poly) : Val := match x with | .ok v => .p v | .error e => .err e
def liftR (x : Py.M Py.Rat) : Val := match x with | .ok v => .r v | .error e => .err e
def liftB (x : Py.M Bool) : Val := match x with | .ok v => .b v | .error e => .err e

/-- `x ** n` through the model's `power_supply` with the translated multiplication -/
def powWith {β} (mulf : β → β → Py.M β) (x : β) (n : Nat) : Py.M β :=
  match KP.powerSupply (fun (a b : Py.M β) => do mulf (← a) (← b)) (pure x) n with
  | some l => match l.getLast? with
    | some v => v
    | none => throw "KeyError"
  | none => throw "KeyError"

def exec (tok : String) (st : List Val) : Option (List Val) :=
  match tok.splitOn ":" , st with
  | ["n", k], st => k.toInt?.map fun k => .p [[.num k]] :: st
  | ["v", x], st => some (.p [[.num 1, .str x.toList]] :: st)
  | ["rn", k], st => k.toInt?.map fun k => .r ([[.num k]], one) :: st
  | ["rv", x], st => some (.r ([[.num 1, .str x.toList]], one) :: st)
  | ["rz"], st => some (.r ([], one) :: st)
  | ["pz"], st => some (.p [] :: st)
  | ["dup"], a :: st => some (a :: a :: st)
  | ["swap"], a :: b :: st => some (b :: a :: st)
  | ["add"], .p b :: .p a :: st => some (liftP (SrcPoly.poly_add a b) :: st)
  | ["add"], .r b :: .r a :: st => some (liftR (SrcPoly.rat_add a b) :: st)
  | ["mul"], .p b :: .p a :: st => some (liftP (SrcPoly.poly_mul a b) :: st)
  | ["mul"], .r b :: .r a :: st => some (liftR (SrcPoly.rat_mul a b) :: st)
  | ["sub"], .p b :: .p a :: st => some (liftP (SrcPoly.poly_sub a b) :: st)
  | ["sub"], .r b :: .r a :: st => some (liftR (SrcPoly.rat_sub a b) :: st)
  | ["neg"], .p a :: st => some (liftP (SrcPoly.poly_neg a) :: st)
  | ["neg"], .r a :: st => some (liftR (SrcPoly.rat_neg a) :: st)
  | ["div"], .r b :: .r a :: st => some (liftR (SrcPoly.rat_div a b) :: st)
  | ["mkr"], .p b :: .p a :: st => some (.r (a, b) :: st)
  | ["rdiv", k], .r a :: st => k.toInt?.map fun k => liftR (SrcPoly.rat_rdiv_int a k) :: st
  | ["pow", k], .p a :: st => k.toInt?.map fun k => liftP (SrcPoly.poly_pow a k) :: st
  | ["pow", k], .r a :: st => k.toInt?.map fun k => liftR (SrcPoly.rat_pow a k) :: st
  | ["eq"], .p b :: .p a :: st => some (liftB (SrcPoly.poly_eq a b) :: st)
  | ["eq"], .r b :: .r a :: st => some (liftB (SrcPoly.rat_eq a b) :: st)
  | ["eq0"], .p a :: st => some (liftB (SrcPoly.poly_eq_int a 0) :: st)
  | ["eq0"], .r a :: st => some (liftB (SrcPoly.rat_eq_int a 0) :: st)
  | ["eq1"], .p a :: st => some (liftB (SrcPoly.poly_eq_int a 1) :: st)
  | ["eq1"], .r a :: st => some (liftB (SrcPoly.rat_eq_int a 1) :: st)
  | ["bool"], .p a :: st => some (liftB (SrcPoly.poly_bool a) :: st)
  | ["bool"], .r a :: st => some (liftB (SrcPoly.rat_bool a) :: st)
  | _, _ => none

def runProgram (toks : List String) : String :=
  let rec go (toks : List String) (st : List Val) : String :=
    match toks with
    | [] => match st with
      | v :: _ => v.render
      | [] => "empty"
    | t :: ts =>
      match st with
      | .err e :: _ => "raise:" ++ e
      | _ => match exec t st with
        | some st' => go ts st'
        | none => "bad-op"
  go toks []
end SrcPolyRun


/-- a stored kingdon polynomial as an executable normal-form polynomial over variable ids -/
def kpolyToPoly (ids : List (String × Nat)) (p : KP.Poly) : Poly :=
  p.foldl (fun acc m =>
    acc + m.vars.foldl (fun t v => t * Poly.var ((ids.lookup v).getD 999999)) (Poly.const m.coeff)) 0

/-- render a symbolic multivector whose denominators are all 1; `none` if some denominator is not the constant 1 -/
def renderRMV (ids : List (String × Nat)) (x : MV KP.RPoly) : String :=
  if x.all (fun kv => kv.2.denom == [⟨1, []⟩]) then
    let y : MV Poly := x.map fun kv => (kv.1, kpolyToPoly ids kv.2.numer)
    let y := y.filter fun kv => !kv.2.isZero
    let ks := (y.map (·.1)).eraseDups.mergeSort
    if ks.isEmpty then "0" else
    String.intercalate ";" (ks.map fun k =>
      let p : Poly := (y.filter (·.1 == k)).foldl (fun acc kv => acc + kv.2) 0
      s!"{k}={p.render}")
  else "non-unit-denominator"

def renderMV (x : MV Poly) : String :=
  let x := x.filter fun (_, p) => !p.isZero
  let ks := (x.map (·.1)).eraseDups.mergeSort
  if ks.isEmpty then "0" else
  String.intercalate ";" (ks.map fun k =>
    let p : Poly := (x.filter (·.1 == k)).foldl (fun acc kv => acc + kv.2) 0
    s!"{k}={p.render}")

def symMV (base : Nat) (keys : List Nat) : MV Poly :=
  keys.zipIdx.map fun (k, i) => (k, Poly.var (base + i))

def binOps : List (String × (Cfg → MV Poly → MV Poly → MV Poly)) :=
  [("gp", gp), ("op", op), ("ip", ip), ("lc", lc), ("rc", rc), ("sp", sp), ("cp", cp), ("acp", acp),
   ("rp", rp), ("add", fun _ => add), ("sub", fun _ => sub)]

def unOps : List (String × (Cfg → MV Poly → Option (MV Poly))) :=
  [("neg", fun _ x => some (neg x)), ("reverse", fun _ x => some (reverse x)),
   ("involute", fun _ x => some (involute x)), ("conjugate", fun _ x => some (conjugate x)),
   ("hodge", fun c x => some (hodge c x)), ("unhodge", fun c x => some (unhodge c x)),
   ("polarity", fun c x => polarityGen c false x), ("unpolarity", fun c x => polarityGen c true x)]

/-! ### the *translated source* (Generated/Source.lean) run on the same inputs: validates the translator and its prelude -/
open Kingdon.SrcEq in
def srcBinOps : List (String × (Src.Alg → Py.Dict Int Poly → Py.Dict Int Poly → Py.M (Py.Dict Int Poly))) :=
  [("gp", Src.codegen_gp), ("op", Src.codegen_op), ("ip", fun a x y => Src.codegen_ip a x y Py.abs), ("lc", Src.codegen_lc),
   ("rc", Src.codegen_rc), ("sp", Src.codegen_sp), ("cp", Src.codegen_cp), ("acp", Src.codegen_acp), ("rp", Src.codegen_rp),
   ("add", Src.codegen_add), ("sub", Src.codegen_sub)]

def srcUnOps : List (String × (Src.Alg → Py.Dict Int Poly → Py.M (Py.Dict Int Poly))) :=
  [("neg", Src.codegen_neg), ("reverse", Src.codegen_reverse), ("involute", Src.codegen_involute),
   ("conjugate", Src.codegen_conjugate), ("hodge", fun a x => Src.codegen_hodge a x false), ("unhodge", Src.codegen_unhodge)]

def renderSrc (r : Py.M (Py.Dict Int Poly)) : String :=
  match r with
  | .ok d => renderMV (SrcEq.uncastMV d)
  | .error e => "raise:" ++ e

def step (line : String) : String :=
  match (line.trimAscii.toString.splitOn " ").filter (· != "") with
  | ["cfginfo", cs] =>
    match parseCfg cs with
    | none => "bad-op"
    | some c => s!"adm={c.admissible} start={c.start} d={c.d} keys={joinC (c.canonKeys.map toString)} names={joinC (c.basis.map renderName)} pss={c.pss}"
  | ["pqr", p, q, r] =>
    match p.toNat?, q.toNat?, r.toNat? with
    | some p, some q, some r =>
      let sig := Cfg.sigOfPQR p q r
      s!"sig={joinC (sig.map toString)} start={Cfg.defaultStart sig}"
    | _, _, _ => "bad-op"
  | ["signs", cs] =>
    match parseCfg cs with
    | none => "bad-op"
    | some c => joinC (c.canonKeys.flatMap fun I => c.canonKeys.map fun J => toString (c.computeSign I J))
  | ["sign", cs, i, j] =>
    match parseCfg cs, i.toNat?, j.toNat? with
    | some c, some I, some J => toString (c.computeSign I J)
    | _, _, _ => "bad-op"
  | ["cayley", cs] =>
    match parseCfg cs with
    | none => "bad-op"
    | some c => joinC (c.basis.flatMap fun nI => c.basis.map fun nJ =>
        let r := c.cayley nI nJ
        if r.1 = 0 then "0" else (if r.1 < 0 then "-" else "") ++ renderName r.2)
  | ["blade", cs, sp] =>
    match parseCfg cs, parseName sp with
    | some c, some w =>
      match c.bladeOf w with
      | some (k, s) => s!"{k} {s}"
      | none => "none"
    | _, _ => "bad-op"
  | ["grades", cs, gs] =>
    match parseCfg cs, parseNatList gs with
    | some c, some gs => joinC ((c.indicesForGrades gs).map toString)
    | _, _ => "bad-op"
  | ["srcbin", opn, cs, kx, ky] =>
    match srcBinOps.lookup opn, parseCfg cs, parseNatList kx, parseNatList ky with
    | some f, some c, some kx, some ky => renderSrc (f (SrcEq.algOf c) (SrcEq.castMV (symMV 0 kx)) (SrcEq.castMV (symMV 1000 ky)))
    | _, _, _, _ => "bad-op"
  | ["srcun", opn, cs, kx] =>
    match srcUnOps.lookup opn, parseCfg cs, parseNatList kx with
    | some f, some c, some kx => renderSrc (f (SrcEq.algOf c) (SrcEq.castMV (symMV 0 kx)))
    | _, _, _ => "bad-op"
  | ["srcsigns", cs] =>
    match parseCfg cs with
    | none => "bad-op"
    | some c => joinC (c.canonKeys.flatMap fun I => c.canonKeys.map fun J =>
        match Src.compute_sign (SrcEq.algOf c) (Int.ofNat I, Int.ofNat J) (some (SrcEq.pyName (c.nameOf I), SrcEq.pyName (c.nameOf J))) with
        | .ok s => toString s
        | .error e => "raise:" ++ e)
  | ["srctables", cs] =>
    -- the table builders of the algebra as translated from the source: stored sign table, Cayley table, grade table
    match parseCfg cs with
    | none => "bad-op"
    | some c =>
      let a := SrcEq.algOf c
      let signs := match Src.prepare_signs a with
        | .ok tbl => joinC (c.canonKeys.flatMap fun I => c.canonKeys.map fun J =>
            match Py.dictGet? tbl (Int.ofNat I, Int.ofNat J) with | some s => toString s | none => "missing")
        | .error e => "raise:" ++ e
      let cay := match Src.cayley a with
        | .ok tbl => joinC (c.basis.flatMap fun nI => c.basis.map fun nJ =>
            match Py.dictGet? tbl (SrcEq.pyName nI, SrcEq.pyName nJ) with | some s => String.ofList s | none => "missing")
        | .error e => "raise:" ++ e
      let grades := match Src.indices_for_grade a with
        | .ok tbl => ";".intercalate (tbl.map fun (p : Int × List Int) => toString p.1 ++ ":" ++ joinC (p.2.map toString))
        | .error e => "raise:" ++ e
      s!"{signs}|{cay}|{grades}"
  | ["srcsign", cs, i, j] =>
    match parseCfg cs, i.toNat?, j.toNat? with
    | some c, some I, some J =>
      match Src.compute_sign (SrcEq.algOf c) (Int.ofNat I, Int.ofNat J) none with
      | .ok s => toString s
      | .error e => "raise:" ++ e
    | _, _, _ => "bad-op"
  | ["srcblade", cs, sp] =>
    match parseCfg cs, parseName sp with
    | some c, some w =>
      match Src.blade2canon (SrcEq.algOf c) (SrcEq.pyName w) with
      | .ok (nm, sw) => String.ofList nm ++ " " ++ toString sw
      | .error e => "raise:" ++ e
    | _, _ => "bad-op"
  | ["srcnames", bs, d, st] =>
    -- bs: '-' (no basis) or names separated by commas (each: 'e' followed by hex digits)
    match d.toNat?, st.toInt? with
    | some d, some st =>
      let basis : List (List Char) := if bs == "-" then [] else (bs.splitOn ",").map String.toList
      match Src.post_init_names basis (Int.ofNat d) st with
      | .ok (s, c2b, b2c) => s!"{s}|" ++ joinC (c2b.map fun (n, k) => String.ofList n ++ ":" ++ toString k) ++ "|" ++
          joinC (b2c.map fun (k, n) => toString k ++ ":" ++ String.ofList n)
      | .error e => "raise:" ++ e
    | _, _ => "bad-op"
  | ["bin", opn, cs, kx, ky] =>
    match binOps.lookup opn, parseCfg cs, parseNatList kx, parseNatList ky with
    | some f, some c, some kx, some ky => renderMV (f c (symMV 0 kx) (symMV 1000 ky))
    | _, _, _, _ => "bad-op"
  | ["un", opn, cs, kx] =>
    match unOps.lookup opn, parseCfg cs, parseNatList kx with
    | some f, some c, some kx =>
      match f c (symMV 0 kx) with
      | some r => renderMV r
      | none => "ZeroDivisionError"
    | _, _, _ => "bad-op"
  | ["grade", cs, gs, kx] =>
    match parseCfg cs, parseNatList gs, parseNatList kx with
    | some c, some gs, some kx => renderMV (gradeSel c gs (symMV 0 kx))
    | _, _, _ => "bad-op"
  | "kpoly" :: prog => KP.runProgram prog
  | "srckpoly" :: prog => SrcPolyRun.runProgram prog
  | ["srcouter", cs, kx, vs] =>
    -- the outer series as translated from the source, run over the rationals on integer coefficients
    match parseCfg cs, parseNatList kx, (vs.splitOn ",").mapM String.toInt? with
    | some c, some kx, some vs =>
      if kx.length != vs.length then "bad-op" else
      let x : MV Rat := kx.zip (vs.map fun (v : Int) => ((v : Int) : Rat))
      let ops := SrcEq.outerOps c (fun (v : Rat) => v == 0)
      let show1 (r : Py.M (Py.Dict Int Rat)) : String := match r with
        | .ok m => joinC ((m.filter fun kv => kv.2 != 0).map fun kv => s!"{kv.1}:{kv.2.num}/{kv.2.den}")
        | .error e => "raise:" ++ e
      show1 (Src.codegen_outerexp (SrcEq.algOf c) ops (SrcEq.castMV x)) ++ "|" ++ show1 (Src.codegen_outersin (SrcEq.algOf c) ops (SrcEq.castMV x)) ++ "|" ++
        show1 (Src.codegen_outercos (SrcEq.algOf c) ops (SrcEq.castMV x))
    | _, _, _ => "bad-op"
  | ["wedgepowers", cs, kx] =>
    match parseCfg cs, parseNatList kx with
    | some c, some kx => String.intercalate "|" ((wedgePowers c Poly.isZero (symMV 0 kx)).map renderMV)
    | _, _ => "bad-op"
  | ["matrix", cs] =>
    match parseCfg cs with
    | some c => String.intercalate ";" ((Mx.dMatrixBasis c).map (Mx.renderD (2 ^ c.d)))
    | none => "bad-op"
  | ["hitzer", cs, kx] =>
    match parseCfg cs, parseNatList kx with
    | some c, some kx =>
      let x := symMV 0 kx
      match hitzerNum c x, hitzerDenom c x with
      | some num, some den => "num=" ++ renderMV num ++ "|den=" ++ den.render
      | _, _ => "NotImplementedError"
    | _, _ => "bad-op"
  | ["gen6", opn, cs, kx, ky] =>
    match parseCfg cs, parseNatList kx, parseNatList ky with
    | some c, some kx, some ky =>
      let ids := (kx.zipIdx.map fun (k, i) => ("a" ++ Gen6.suffixOf (c.nameOf k), i)) ++
                 (ky.zipIdx.map fun (k, i) => ("b" ++ Gen6.suffixOf (c.nameOf k), 1000 + i))
      match opn with
      | "sw" => renderRMV ids (Gen6.swGen c kx ky)
      | "proj" => renderRMV ids (Gen6.projGen c kx ky)
      | "normsq" => renderRMV ids (Gen6.normsqGen c kx)
      | _ => "bad-op"
    | _, _, _ => "bad-op"
  | ["eps", cs] =>
    -- orientation of every stored name relative to ascending bit order, and the bit-ordered signature
    match parseCfg cs with
    | none => "bad-op"
    | some c => "sigbits=" ++ joinC (c.sigBits.map toString) ++ " eps=" ++
        joinC ((List.range (2 ^ c.d)).map fun I => toString (eps c.sigBits (c.wordOf (c.nameOf I))))
  | "callbin" :: toks =>
    match parseOperand toks with
    | some (a, rest) =>
      match parseOperand rest with
      | some (b, []) => renderResult (Api.callBinary (fun x y => s!"f({x},{y})") (fun n => s!"s{n}") a b)
      | _ => "bad-op"
    | none => "bad-op"
  | "graph" :: cs :: toks =>
    match parseCfg cs, parseSubjs toks [] with
    | some c, some raw => String.intercalate " " ((Graph.subjects c.canonKeys (Graph.preSubjects raw)).map renderPayload)
    | _, _ => "bad-op"
  | "graphleaves" :: cs :: toks =>
    match parseCfg cs, parseSubjs toks [] with
    | some c, some raw =>
      String.intercalate ";" ((Graph.leavesList c.canonKeys (Graph.preSubjects raw)).map fun d => joinC (d.map toString))
    | _, _ => "bad-op"
  | ["drag", cs, ks, old, new] =>
    match parseCfg cs, parseNatList ks, parseIntList old, parseIntList new with
    | some c, some ks, some old, some new => joinC ((Graph.dragOne c.canonKeys ks old new).map toString)
    | _, _, _, _ => "bad-op"
  | ["construct", cs, g, vals, keys, name, grades, items] =>
    let grades' := if grades.startsWith "C:" then
        match parseCfg cs with
        | some c => match Con.ctorGrades c.d (grades.drop 2).toString with
          | some gs => "G:" ++ joinC (gs.map toString)
          | none => "bad"
        | none => "bad"
      else grades
    match parseCfg cs, parseForm vals keys name grades' items with
    | some c, some f =>
      match Con.construct c (g == "1") (fun nm suffix => CV.s false (nm ++ (renderName suffix).drop 1)) f with
      | .ok (ks, vs) => s!"ok keys={joinC (ks.map toString)} values={joinC (vs.map CV.render)}"
      | .error e => renderErr e
    | _, _ => "bad-op"
  | ["getattr", cs, ks, vs, sp] =>
    match parseCfg cs, parseNatList ks, parseCVList (if vs == "-" then "" else vs), parseName sp with
    | some c, some ks, some vs, some sp => (Con.getattr c (ks, vs) sp).render
    | _, _, _, _ => "bad-op"
  | ["srckw", cs, items] =>
    -- keyword blades through the *translated* keyword branch of MultiVector.__new__ (names back to binary keys)
    match parseCfg cs, (if items.startsWith "I:" then parsePairs parseName (items.drop 2).toString else none) with
    | some c, some (its : List (List Nat × CV)) =>
      let a := SrcEq.algOf c
      match Src.mv_new_keywords a (its.map fun p => (SrcEq.pyName p.1, p.2)) with
      | .ok (names, vals) =>
        match names.mapM (fun n => Py.dictGet a.canon2bin n) with
        | .ok ks => "ok keys=" ++ joinC (ks.map toString) ++ " values=" ++ joinC (vals.map CV.render)
        | .error e => "raise:" ++ e
      | .error e => "raise:" ++ e
    | _, _ => "bad-op"
  | ["srcgetattr", cs, ks, vs, sp] =>
    -- the same access through the *translated* MultiVector.__getattr__
    match parseCfg cs, parseNatList ks, parseCVList (if vs == "-" then "" else vs), parseName sp with
    | some c, some ks, some vs, some sp =>
      match Src.mv_getattr (SrcEq.algOf c) (ks.map Int.ofNat) vs (SrcEq.pyName sp) with
      | .ok v => v.render
      | .error e => "raise:" ++ e
    | _, _, _, _ => "bad-op"
  | "srcfname" :: cs :: pre :: keys =>
    -- the same name built from the *translated* MultiVector.type_name
    match parseCfg cs, keys.mapM parseNatList with
    | some c, some kss =>
      match kss.mapM (fun ks => Src.type_name (SrcEq.algOf c) (ks.map Int.ofNat)) with
      | .ok tns => pre ++ "_" ++ String.intercalate "_x_" (tns.map String.ofList)
      | .error e => "raise:" ++ e
    | _, _ => "bad-op"
  | "fname" :: cs :: pre :: keys =>
    match parseCfg cs, keys.mapM parseNatList with
    | some c, some kss =>
      pre ++ "_" ++ String.intercalate "_x_" (kss.map fun ks => OD.renderTypeName (OD.typeName c.canonKeys ks))
    | _, _ => "bad-op"
  | "odrun" :: cs :: w :: calls =>
    -- each call: <opIndex>/<keys>/<keys>...[!]   (`!` = its generation raises)
    match parseCfg cs with
    | none => "bad-op"
    | some c =>
      let parsed := calls.mapM fun tok =>
        let fails := tok.endsWith "!"
        let tok := if fails then (tok.dropEnd 1).toString else tok
        match tok.splitOn "/" with
        | o :: ks => do
          let o ← o.toNat?
          let ks ← ks.mapM parseNatList
          some ((⟨o, ks⟩ : OD.FuncId), fails)
        | [] => none
      match parsed with
      | none => "bad-op"
      | some cl =>
        let failing := (cl.filter (·.2)).map (·.1)
        let genFails := fun f => failing.contains f
        let rec go (s : OD.State) (l : List OD.FuncId) (acc : List String) : List String :=
          match l with
          | [] => acc.reverse
          | f :: r =>
            let (s', served) := OD.call c.canonKeys genFails (w == "1") s f
            let g := if s'.gens.length > s.gens.length then "G" else "-"
            let sv := match served with
              | none => "raise"
              | some h => if h == f then "own" else "other"
            go s' r (s!"{g}:{sv}" :: acc)
        String.intercalate " " (go OD.init (cl.map (·.1)) [])
  | _ => "bad-op"

partial def loop (h : IO.FS.Stream) (out : IO.FS.Stream) : IO Unit := do
  let line ← h.getLine
  if line.isEmpty then return ()
  out.putStrLn (step line)
  loop h out

def driverMain : IO Unit := do
  let out ← IO.getStdout
  loop (← IO.getStdin) out
  out.flush

/-
  L7 of the model: matrix representations (kingdon/matrixreps.py:25-95, algebra.py matrix_basis,
  multivector.py asmatrix / frommatrix).  Matrices are functions `Nat → Nat → Int` together with their size.
  Import-free.
-/
import Kingdon.Model.Blade
namespace Kingdon.Mx

abbrev Mat := Nat → Nat → Int

def I2 : Mat := fun i j => if i = j then 1 else 0
def Ip2 : Mat := fun i j => if i = j then (if i = 0 then 1 else -1) else 0
def P2 : Mat := fun i j => if i + j = 1 then 1 else 0
def N2 : Mat := fun i j => if i = 0 ∧ j = 1 then 1 else if i = 1 ∧ j = 0 then -1 else 0
def Z2 : Mat := fun i j => if i = 1 ∧ j = 0 then 1 else 0

/-- `np.kron(A, B)` with `B` of size `nB` -/
def kron (nB : Nat) (A B : Mat) : Mat := fun i j => A (i / nB) (j / nB) * B (i % nB) (j % nB)

/-- `reduce(np.kron, mats, 1)` for 2x2 blocks -/
def kronAll (mats : List Mat) : Mat := mats.foldl (fun acc m => kron 2 acc m) (fun _ _ => 1)

def matMul (n : Nat) (A B : Mat) : Mat := fun i j => ((List.range n).map fun k => A i k * B k j).sum
def ident : Mat := fun i j => if i = j then 1 else 0
def transpose (A : Mat) : Mat := fun i j => A j i

/-- the 2x2 block of a signature entry: 0 ↦ Z, 1 ↦ P, -1 ↦ N -/
def blockOf (s : Int) : Mat := if s = 0 then Z2 else if s = 1 then P2 else N2

/-- `Es[i] = kron(I, .., I, S_i, Ip, .., Ip)` -/
def genMat (sig : List Int) (i : Nat) : Mat :=
  kronAll ((List.replicate i I2) ++ [blockOf (sig[i]!)] ++ List.replicate (sig.length - i - 1) Ip2)

/-- matrix of a blade spelled by the (zero-based) generator indices `blade`: ordered product -/
def bladeMat (sig : List Int) (blade : List Nat) : Mat :=
  blade.foldl (fun acc i => matMul (2 ^ sig.length) acc (genMat sig i)) ident

/-- `matrix_rep(..., blades=...)` before the ordering transform -/
def rawReps (c : Cfg) : List Mat := c.basis.map fun name => bladeMat c.signature (name.map (· - c.start))

/-- `ordering_matrix`: row i is the first column of `Rs[i]` -/
def ordering (Rs : List Mat) : Mat := fun i k => (Rs[i]?.getD (fun _ _ => 0)) k 0

/-- `Algebra.matrix_basis`: `[O @ Ri @ O.T for Ri in Rs]` -/
def matrixBasis (c : Cfg) : List Mat :=
  let Rs := rawReps c
  let n := 2 ^ c.d
  let O := ordering Rs
  Rs.map fun R => matMul n (matMul n O R) (transpose O)

/-- `MultiVector.asmatrix` for integer coefficients: sum of `v * matrix_basis[position of k]` -/
def asMatrix (c : Cfg) (x : List (Nat × Int)) : Mat :=
  let B := matrixBasis c
  fun i j => (x.map fun kv => kv.2 * ((B[c.canonKeys.idxOf kv.1]?.getD (fun _ _ => 0)) i j)).sum

/-- `MultiVector.frommatrix`: the first column, as values of a full multivector in canonical order -/
def fromMatrix (c : Cfg) (A : Mat) : List (Nat × Int) :=
  c.canonKeys.zipIdx.map fun (k, i) => (k, A i 0)

/-! ### executable refinement: the same construction on tabulated matrices (what the driver runs).
`Lemmas/MatrixLemmas.lean` proves entry-wise agreement with the function-level definitions above. -/

abbrev DMat := Array (Array Int)
def DMat.ofFun (n : Nat) (A : Mat) : DMat := (Array.range n).map fun i => (Array.range n).map fun j => A i j
def DMat.get (M : DMat) (i j : Nat) : Int := (M[i]?.getD #[])[j]?.getD 0
def dMatMul (n : Nat) (A B : DMat) : DMat :=
  DMat.ofFun n fun i j => ((List.range n).map fun k => A.get i k * B.get k j).sum
def dGenMat (sig : List Int) (i : Nat) : DMat := DMat.ofFun (2 ^ sig.length) (genMat sig i)
def dBladeMat (sig : List Int) (blade : List Nat) : DMat :=
  blade.foldl (fun acc i => dMatMul (2 ^ sig.length) acc (dGenMat sig i)) (DMat.ofFun (2 ^ sig.length) ident)
def dMatrixBasis (c : Cfg) : List DMat :=
  let n := 2 ^ c.d
  let Rs := c.basis.map fun name => dBladeMat c.signature (name.map (· - c.start))
  let O : DMat := DMat.ofFun n fun i k => (Rs[i]?.getD #[]).get k 0
  let Ot : DMat := DMat.ofFun n fun i k => O.get k i
  Rs.map fun R => dMatMul n (dMatMul n O R) Ot

def renderD (n : Nat) (A : DMat) : String :=
  String.intercalate "," ((List.range n).flatMap fun i => (List.range n).map fun j => toString (A.get i j))

def render (n : Nat) (A : Mat) : String :=
  String.intercalate "," ((List.range n).flatMap fun i => (List.range n).map fun j => toString (A i j))

end Kingdon.Mx

/-
  Prelude for the translation of kingdon/polynomial.py (harness/pytolean_poly.py → Generated/SourcePoly.lean).
  A monomial is the python list `[coeff, name, name, ...]`: a heterogeneous list, modelled as a list of `Atom`s
  (python ints, strs and `None`; floats are outside the model).  `Polynomial.args` is a list of monomials; a
  `RationalPolynomial` is the pair `(numer.args, denom.args)`.
  Every operation raises what python raises on the combinations the code can reach; combinations python would accept
  but the model does not represent (`'a' * 3`, `'a' + 'b'` as coefficient arithmetic) raise "UNMODELLED", so a
  translated function that returns `.ok` went only through modelled steps.
  Import-free apart from the general prelude.
-/
import Kingdon.Model.Py
namespace Kingdon.Py

inductive Atom where
  | num (n : Int)
  | str (s : List Char)
  | none
deriving DecidableEq, Repr, Inhabited

abbrev Mono := List Atom
abbrev Poly := List Mono
abbrev Rat := Poly × Poly

namespace Atom
/-- `isinstance(x, str)` -/
def isStr : Atom → Bool | .str _ => true | _ => false
/-- `x is None` -/
def isNone : Atom → Bool | .none => true | _ => false
/-- `bool(x)` -/
def truthy : Atom → Bool | .num n => n != 0 | .str s => !s.isEmpty | .none => false
/-- `x * y` on coefficients -/
def mul : Atom → Atom → M Atom
  | .num a, .num b => pure (.num (a * b))
  | .none, _ => throw "TypeError"
  | _, .none => throw "TypeError"
  | .str _, .str _ => throw "TypeError"
  | _, _ => throw "UNMODELLED"          -- str * int: python repeats the string
/-- `x + y` on coefficients -/
def add : Atom → Atom → M Atom
  | .num a, .num b => pure (.num (a + b))
  | .str _, .str _ => throw "UNMODELLED" -- python concatenates
  | _, _ => throw "TypeError"
/-- `-x` -/
def neg : Atom → M Atom
  | .num a => pure (.num (-a))
  | _ => throw "TypeError"
/-- `x < y`: numbers with numbers, strings with strings (code-point order); anything else is a TypeError -/
def lt : Atom → Atom → M Bool
  | .num a, .num b => pure (decide (a < b))
  | .str a, .str b => pure (decide (a < b))
  | _, _ => throw "TypeError"
end Atom

/-- `len(x)` where `x` may be `None` -/
def olen {α} : Option (List α) → M Int
  | some l => pure (Int.ofNat l.length)
  | .none => throw "TypeError"
/-- `x[i]` where `x` may be `None` -/
def ogetItem {α} : Option (List α) → Int → M α
  | some l, i => getItem l i
  | .none, _ => throw "TypeError"
/-- `x.copy()` where `x` may be `None` -/
def ocopy {α} : Option (List α) → M (Option (List α))
  | some l => pure (some l)
  | .none => throw "AttributeError"
/-- `l[i] = v` -/
def setItem {α} (l : List α) (i : Int) (v : α) : M (List α) :=
  match normIdx l.length i with
  | some j => if j < l.length then pure (l.set j v) else throw "IndexError"
  | .none => throw "IndexError"
/-- `x[i] = v` where `x` may be `None` -/
def osetItem {α} : Option (List α) → Int → α → M (Option (List α))
  | some l, i, v => do pure (some (← setItem l i v))
  | .none, _, _ => throw "TypeError"
/-- `l.append(x)` where `x` may be `None`: python would append `None`; a polynomial holding `None` as a monomial is
    outside the model -/
def unwrap {α} : Option α → M α
  | some a => pure a
  | .none => throw "UNMODELLED"
/-- `min(a, b)` -/
def imin (a b : Int) : Int := if b < a then b else a
/-- short-circuit `and` / `or` whose right operand may raise -/
def andM (a : Bool) (b : M Bool) : M Bool := if a then b else pure false
def orM (a : Bool) (b : M Bool) : M Bool := if a then pure true else b

/-- `*_, last = xs`: the last element; python raises ValueError (not enough values to unpack) for an empty iterable -/
def lastOf {α} (l : List α) : M α :=
  match l.getLast? with
  | some a => pure a
  | .none => throw "ValueError"

end Kingdon.Py

/-
  L4 of the model: the operator dictionaries as a state machine.
  Anchors: operator_dict.py:45-53 (OperatorDict.__getitem__), 67-151 (__call__/_call_binary, Unary),
           154-195 (Registry), codegen.py:575-635 (function names), multivector.py:129-143 (type_number/type_name).
  Import-free.
-/
namespace Kingdon.OD

/-- identity of a generated function: operator and the *ordered* key tuples it was generated for -/
structure FuncId where
  op : Nat
  keys : List (List Nat)
deriving DecidableEq, Repr

/-- `type_number`: bit p is set iff the p-th blade of the canonical order is among the keys -/
def typeNumber (canon : List Nat) (ks : List Nat) : Nat :=
  (canon.zipIdx.map fun (k, p) => if ks.contains k then 2 ^ p else 0).sum

/-- the keys in canonical order without repetition: `tuple(k for k in canon2bin.values() if k in keys)` -/
def canonOrdered (canon : List Nat) (ks : List Nat) : List Nat := canon.filter (ks.contains ·)

/-- `type_name`: the type number, extended by the key order when the keys are not in canonical order -/
def typeName (canon : List Nat) (ks : List Nat) : Nat × List Nat :=
  if ks = canonOrdered canon ks then (typeNumber canon ks, []) else (typeNumber canon ks, ks)

/-- generated function name: codegen name + type names -/
abbrev Name := Nat × List (Nat × List Nat)
def name (canon : List Nat) (f : FuncId) : Name := (f.op, f.keys.map (typeName canon))

/-- rendering used by the driver: `<type_number>` or `<type_number>_o<k1>_<k2>...` -/
def renderTypeName (t : Nat × List Nat) : String :=
  if t.2.isEmpty then toString t.1 else toString t.1 ++ "_o" ++ String.intercalate "_" (t.2.map toString)

structure State where
  cache : List FuncId              -- OperatorDict.operator_dict of every operator, flattened
  numspace : List (Name × FuncId)  -- Algebra.numspace: name ↦ function (latest binding first)
  gens : List FuncId               -- log of code-generation events (history variable)
deriving Repr

def init : State := ⟨[], [], []⟩

def lookupNS (ns : List (Name × FuncId)) (n : Name) : Option FuncId :=
  (ns.find? (·.1 = n)).map (·.2)

/-- `OperatorDict.__getitem__`: generate on a miss, bind the name, store; `genFails f` models a codegen
    function that raises for these keys (nothing is stored then) -/
def getitem (canon : List Nat) (genFails : FuncId → Bool) (s : State) (f : FuncId) : State × Bool :=
  if f ∈ s.cache then (s, true)
  else if genFails f then (s, false)
  else ({ cache := f :: s.cache, numspace := (name canon f, f) :: s.numspace, gens := f :: s.gens }, true)

/-- one call: which function computes the result (`none`: the call raised during generation).
    Without wrapper (or for symbolic operands) the cached function is invoked directly; with a wrapper the
    function bound to its *name* in the numspace is invoked. -/
def call (canon : List Nat) (genFails : FuncId → Bool) (wrapper : Bool) (s : State) (f : FuncId) :
    State × Option FuncId :=
  let (s', ok) := getitem canon genFails s f
  if !ok then (s', none)
  else if wrapper then (s', lookupNS s'.numspace (name canon f)) else (s', some f)

def run (canon : List Nat) (genFails : FuncId → Bool) (wrapper : Bool) :
    State → List FuncId → State × List (Option FuncId)
  | s, [] => (s, [])
  | s, f :: h =>
    let (s1, g) := call canon genFails wrapper s f
    let (s2, gs) := run canon genFails wrapper s1 h
    (s2, g :: gs)

/-! ### small-step semantics for several threads sharing one algebra

Each Python-level dict operation is one atomic step (assumption: the GIL). A thread executing a call goes
through: `lookup` → (`hit` → invoke) | (`miss` → generate (thread-local) → bind name → store in cache → invoke). -/

inductive PC where
  | start | bindName | storeCache | invoke | done (served : Option FuncId)
deriving DecidableEq, Repr

structure Thread where
  f : FuncId
  pc : PC
deriving Repr

/-- one atomic step of thread `t` on the shared state -/
def stepThread (canon : List Nat) (wrapper : Bool) (s : State) (t : Thread) : State × Thread :=
  match t.pc with
  | .start => if t.f ∈ s.cache then (s, { t with pc := .invoke })
              else ({ s with gens := t.f :: s.gens }, { t with pc := .bindName })   -- do_codegen runs thread-locally
  | .bindName => ({ s with numspace := (name canon t.f, t.f) :: s.numspace }, { t with pc := .storeCache })
  | .storeCache => ({ s with cache := t.f :: s.cache }, { t with pc := .invoke })
  | .invoke => (s, { t with pc := .done (if wrapper then lookupNS s.numspace (name canon t.f) else some t.f) })
  | .done _ => (s, t)

/-- run a schedule: a list of thread indices; index out of range = no-op -/
def runSchedule (canon : List Nat) (wrapper : Bool) : State → List Thread → List Nat → State × List Thread
  | s, ts, [] => (s, ts)
  | s, ts, i :: sched =>
    match ts[i]? with
    | none => runSchedule canon wrapper s ts sched
    | some t =>
      let (s', t') := stepThread canon wrapper s t
      runSchedule canon wrapper s' (ts.set i t') sched

end Kingdon.OD

/-
  L5 of the model: API dispatch.
  (a) `OperatorDict._call_binary` (operator_dict.py:91-107): unwrapping of zero-argument callables, mapping over
      lists/tuples, scalar wrapping of plain numbers, operand order.
  (b) expression trees over the operator surface, evaluated the way `MultiVector` dispatches them and the way
      `TapeRecorder` records them, both parametrised by dispatch tables that are re-extracted from the source.
  Import-free.
-/
namespace Kingdon.Api

/-! ### (a) `_call_binary` -/

/-- what may stand on either side of an infix operator -/
inductive Operand (M : Type) where
  | mv (x : M)
  | num (n : Int)
  | seq (isTuple : Bool) (xs : List (Operand M))
  | thunk (x : Operand M)

inductive Result (M : Type) where
  | mv (x : M)
  | seq (isTuple : Bool) (xs : List (Result M))

variable {M : Type}

mutual
/-- right operand is a multivector value `b`; recursion over the left operand -/
def cbLeft (f : M → M → M) (scalar : Int → M) (b : M) : Operand M → Result M
  | .mv x => .mv (f x b)
  | .num n => .mv (f (scalar n) b)
  | .seq t xs => .seq t (cbLeftList f scalar b xs)
  | .thunk x => cbLeft f scalar b x
def cbLeftList (f : M → M → M) (scalar : Int → M) (b : M) : List (Operand M) → List (Result M)
  | [] => []
  | x :: xs => cbLeft f scalar b x :: cbLeftList f scalar b xs
end

mutual
/-- `_call_binary(mv1, mv2)`: callables are called until a value remains, a list/tuple on the right maps over its
    elements first, then one on the left; numbers become scalar multivectors; the operator always receives
    (left, right) in that order -/
def callBinary (f : M → M → M) (scalar : Int → M) (a : Operand M) : Operand M → Result M
  | .mv y => cbLeft f scalar y a
  | .num n => cbLeft f scalar (scalar n) a
  | .seq t ys => .seq t (callBinaryList f scalar a ys)
  | .thunk y => callBinary f scalar a y
def callBinaryList (f : M → M → M) (scalar : Int → M) (a : Operand M) : List (Operand M) → List (Result M)
  | [] => []
  | y :: ys => callBinary f scalar a y :: callBinaryList f scalar a ys
end

/-! ### (b) expression trees and the two dispatch routes -/

/-- the operator dictionaries of an algebra, abstractly -/
structure Sem (M : Type) where
  bin : String → M → M → M
  un : String → M → M
  scalar : Int → M

inductive Expr where
  | arg (i : Nat)
  | binm (m : String) (a b : Expr)      -- `a.m(b)` / infix form of dunder `m`, both operands multivector-valued
  | unm (m : String) (a : Expr)         -- `a.m()` / prefix form
  | numm (m : String) (a : Expr) (n : Int)   -- dunder `m` of `a` called with the plain number `n` (`a * 2`: __mul__, `2 * a`: __rmul__)
deriving Repr

abbrev BinTable := List (String × String × Bool × Nat)          -- method ↦ (operator, swapped, #operator calls)
abbrev NumTable := List (String × String × String × Bool × Nat)  -- (class, method, operator, number is left, #calls)

def lookupBin (t : BinTable) (m : String) : Option (String × Bool) :=
  match t.lookup m with
  | some (op, sw, 1) => if op == "other" || op == "composite" then none else some (op, sw)
  | _ => none

def lookupNum (t : NumTable) (cls m : String) : Option (String × Bool) :=
  match t.find? (fun r => r.1 == cls && r.2.1 == m) with
  | some (_, _, op, left, 1) => if op == "other" || op == "composite" then none else some (op, left)
  | _ => none

/-- evaluate an expression with the dispatch of class `cls` ("mv" or "tape"); `none` = the call raises -/
def eval (S : Sem M) (bt : BinTable) (nt : NumTable) (cls : String) (env : List M) : Expr → Option M
  | .arg i => env[i]?
  | .binm m a b =>
    match eval S bt nt cls env a, eval S bt nt cls env b, lookupBin bt m with
    | some va, some vb, some (op, sw) => some (if sw then S.bin op vb va else S.bin op va vb)
    | _, _, _ => none
  | .unm m a =>
    match eval S bt nt cls env a, lookupBin bt m with
    | some va, some (op, _) => some (S.un op va)
    | _, _ => none
  | .numm m a n =>
    match eval S bt nt cls env a, lookupNum nt cls m with
    | some va, some (op, left) => some (if left then S.bin op (S.scalar n) va else S.bin op va (S.scalar n))
    | _, _ => none

/-- the binary and unary methods through which two multivector-valued operands can meet (python tries the
    non-reflected dunder of the left operand first, so reflected dunders only ever see plain numbers) -/
def mvMethods : List String :=
  ["__mul__", "gp", "__xor__", "op", "__or__", "ip", "__and__", "rp", "__rshift__", "sw", "__matmul__", "proj",
   "__add__", "add", "__sub__", "sub", "__truediv__", "div", "cp", "acp", "lc", "rc", "sp",
   "__neg__", "neg", "__invert__", "reverse", "involute", "conjugate", "inv", "sqrt", "normsq", "polarity",
   "unpolarity", "hodge", "unhodge", "outerexp", "outersin", "outercos", "outertan"]

/-- operators for which a scalar operand may change sides without changing the result -/
def scalarCentral : List String := ["gp", "op", "add"]

/-- every node of the expression uses a method on which the two dispatch tables agree (for number operands: agree,
    or differ only in the side of the number for an operator in which scalars are central) -/
def supported (mvT tapeT : BinTable) (nt : NumTable) : Expr → Bool
  | .arg _ => true
  | .binm m a b => mvMethods.contains m && lookupBin mvT m == lookupBin tapeT m && (lookupBin mvT m).isSome &&
      supported mvT tapeT nt a && supported mvT tapeT nt b
  | .unm m a => mvMethods.contains m && lookupBin mvT m == lookupBin tapeT m && (lookupBin mvT m).isSome &&
      supported mvT tapeT nt a
  | .numm m a _ =>
      (match lookupNum nt "mv" m, lookupNum nt "tape" m with
       | some (o1, l1), some (o2, l2) => o1 == o2 && (l1 == l2 || scalarCentral.contains o1)
       | _, _ => false) && supported mvT tapeT nt a

end Kingdon.Api

/-
  Closed-form inverses (codegen.py:316-348 `codegen_hitzer_inv`, 290-314 `codegen_inv`, 383-404 `codegen_div`),
  generic in the coefficient type.  The numerator is built from conjugation, reversion, grade selection and products
  exactly as in the code; the denominator is the scalar part of `x.sp(num)`.
  Import-free.
-/
import Kingdon.Model.Codegen
namespace Kingdon
variable {β : Type}

/-- `2 * mv` -/
def scale2 [Add β] (x : MV β) : MV β := x.map fun kv => (kv.1, kv.2 + kv.2)

/-- numerator of `codegen_hitzer_inv` for d = 0..5 (`none`: NotImplementedError for d > 5) -/
def hitzerNum [Add β] [Mul β] [Neg β] [Sub β] [One β] (c : Cfg) (x : MV β) : Option (MV β) :=
  match c.d with
  | 0 => some [(0, 1)]
  | 1 => some (involute x)
  | 2 => some (conjugate x)
  | 3 =>
    let xc := conjugate x
    some (gp c xc (reverse (gp c x xc)))
  | 4 =>
    let xc := conjugate x
    let xx := gp c x xc
    some (gp c xc (sub xx (scale2 (gradeSel c [3, 4] xx))))
  | 5 =>
    let xc := conjugate x
    let xx := gp c x xc
    let combo := gp c xc (reverse xx)
    let xcombo := gp c x combo
    some (gp c combo (sub xcombo (scale2 (gradeSel c [1, 4] xcombo))))
  | _ => none

/-- the scalar part: `mv.e` (sum over repeated keys, absent = 0) -/
def scalarPart [Add β] [Zero β] (x : MV β) : β := (x.filter (·.1 == 0)).foldl (fun acc kv => acc + kv.2) 0

/-- `denom = (x.sp(num)).e` -/
def hitzerDenom [Add β] [Mul β] [Neg β] [Sub β] [One β] [Zero β] (c : Cfg) (x : MV β) : Option β :=
  (hitzerNum c x).map fun num => scalarPart (sp c x num)

end Kingdon

namespace Kingdon
variable {β : Type}

/-- unscaled wedge powers `x, x^x, x^x^x, ...` as `codegen_outerexp` builds them (codegen.py:411-431): the loop
    runs while `j <= d` and stops at the first power that has no non-zero coefficient left (`if Wj: ... else: break`);
    `isZero` is the truthiness test of a coefficient.  The code divides the j-th power by j at every step, i.e. by j!
    in total; the model keeps the integer numerators. -/
def wedgePowers [Add β] [Mul β] [Neg β] (c : Cfg) (isZero : β → Bool) (x : MV β) : List (MV β) :=
  let rec go (fuel : Nat) (prev : MV β) (acc : List (MV β)) : List (MV β) :=
    match fuel with
    | 0 => acc.reverse
    | fuel + 1 =>
      let w := (op c prev x).filter fun kv => !isZero kv.2
      if w.isEmpty then acc.reverse else go fuel w (w :: acc)
  go (c.d - 1) x [x]

end Kingdon

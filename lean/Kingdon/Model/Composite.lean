/-
  Generation path of the composite operators (codegen.py:153-159 sw, 224-230 proj, 407-408 normsq): they are
  written as compositions of the elementary operators and evaluated ONCE on symbolic multivectors whose coefficients
  are kingdon's own RationalPolynomial objects; every intermediate symbolic result passes `OperatorDict.filter`
  (operator_dict.py:61-65), which drops the coefficients that are falsy.  The surviving polynomials are printed into
  the generated function (sympy CSE + printer: trusted).
  Import-free.
-/
import Kingdon.Model.Codegen
import Kingdon.Model.KPoly
namespace Kingdon
open KP

instance : Add RPoly := ⟨RPoly.add⟩
instance : Mul RPoly := ⟨RPoly.mul⟩
instance : Neg RPoly := ⟨RPoly.neg⟩
instance : Sub RPoly := ⟨RPoly.sub⟩

namespace Gen6

def suffixOf (n : List Nat) : String :=
  String.ofList (n.map fun l => if l < 10 then Char.ofNat (l + 48) else Char.ofNat (l + 87))

/-- `algebra.multivector(name=nm, keys=keys, symbolcls=RationalPolynomial.fromname)`:
    coefficient of blade k is the variable `nm ++ bin2canon[k][1:]` -/
def symMV (c : Cfg) (nm : String) (keys : List Nat) : MV RPoly :=
  keys.map fun k => (k, RPoly.ofName (nm ++ suffixOf (c.nameOf k)))

/-- `OperatorDict.filter` for RationalPolynomial coefficients (simp_func is the identity on them) -/
def filterMV (x : MV RPoly) : MV RPoly := x.filter fun kv => kv.2.toBool

/-- `codegen_sw`: `x * y * ~x` -/
def swGen (c : Cfg) (kx ky : List Nat) : MV RPoly :=
  let x := symMV c "a" kx
  let y := symMV c "b" ky
  filterMV (gp c (filterMV (gp c x y)) (filterMV (reverse x)))

/-- `codegen_proj`: `(x | y) * ~y` -/
def projGen (c : Cfg) (kx ky : List Nat) : MV RPoly :=
  let x := symMV c "a" kx
  let y := symMV c "b" ky
  filterMV (gp c (filterMV (ip c x y)) (filterMV (reverse y)))

/-- `codegen_normsq`: `x * ~x` -/
def normsqGen (c : Cfg) (kx : List Nat) : MV RPoly :=
  let x := symMV c "a" kx
  filterMV (gp c x (filterMV (reverse x)))

end Gen6
end Kingdon

/-
  `MultiVector.__call__` / `_lambdify_mv` (multivector.py:374-389, codegen.py:565-572): the generated function takes the
  free symbols sorted by name; positional arguments are passed as given, keyword arguments are sorted by keyword.
  Import-free.
-/
namespace Kingdon.Bind

/-- insertion sort by the string order (`sorted(..., key=lambda x: x.name)` / `sorted(kwargs.items(), key=lambda x: x[0])`) -/
def insertBy {β : Type} (key : β → String) (x : β) : List β → List β
  | [] => [x]
  | y :: ys => if key y < key x then y :: insertBy key x ys else x :: y :: ys
def sortBy {β : Type} (key : β → String) (l : List β) : List β := l.foldr (insertBy key) []

/-- the parameter list of the generated function: the free symbols in name order -/
def params (syms : List String) : List String := sortBy id syms

/-- positional call: `func(args)` binds the i-th argument to the i-th parameter -/
def bindPositional {V : Type} (syms : List String) (args : List V) : List (String × V) := (params syms).zip args

/-- keyword call: `args = [v for k, v in sorted(kwargs.items())]`, then as positional -/
def bindKeyword {V : Type} (syms : List String) (kwargs : List (String × V)) : List (String × V) :=
  (params syms).zip ((sortBy (·.1) kwargs).map (·.2))

end Kingdon.Bind

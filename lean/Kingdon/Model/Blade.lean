/-
  L0 of the model: blades, names, the string swap algorithm and the sign table.
  Anchors: kingdon/algebra.py:134-190 (__post_init__), 265-306 (_prepare_signs, cayley),
           469-479 (_blade2canon), 505-538 (_swap_blades), 576-589 (BladeDict.__getitem__).
  Import-free: this file is also interpreted by Driver.lean.
-/
namespace Kingdon

/-! ### reference objects (used by theorems; `csign` is the canonical Clifford cocycle) -/

/-- parity (mod 2) of the number of set bits among the lowest `w` bits -/
def parity : Nat → Nat → Bool
  | 0, _ => false
  | w+1, n => (n % 2 == 1) != parity w (n / 2)

/-- canonical reordering+metric sign of e_I * e_J for signature `sig` (generator k = bit k). -/
def csign : List Int → Nat → Nat → Int
  | [], _, _ => 1
  | s :: sig, I, J =>
    (if J % 2 = 1 ∧ parity sig.length (I / 2) then -1 else 1) *
    (if I % 2 = 1 ∧ J % 2 = 1 then s else 1) * csign sig (I / 2) (J / 2)

/-- signed basis blade: coefficient and bitmask -/
structure SB where
  c : Int
  k : Nat
deriving DecidableEq, Repr

def SB.mul (sig : List Int) (a b : SB) : SB := ⟨a.c * b.c * csign sig a.k b.k, a.k ^^^ b.k⟩
def SB.one : SB := ⟨1, 0⟩
def SB.smul (s : Int) (a : SB) : SB := ⟨s * a.c, a.k⟩
def gen (g : Nat) : SB := ⟨1, 2 ^ g⟩

/-- product of the generators of a word, left to right -/
def evalWord (sig : List Int) : List Nat → SB
  | [] => SB.one
  | g :: w => SB.mul sig (gen g) (evalWord sig w)

/-- bitmask of a word of generator positions -/
def bitsOf : List Nat → Nat
  | [] => 0
  | g :: w => 2 ^ g ^^^ bitsOf w

/-- orientation of a blade name relative to the canonical blade with the same bits -/
def eps (sig : List Int) (w : List Nat) : Int := (evalWord sig w).c

/-! ### `_swap_blades` (algebra.py:505-538), on lists of letters -/

/-- first loop of `_swap_blades`: returns (blade1, swaps, eliminated) -/
def phase1 : List Nat → List Nat → Nat → List Nat → List Nat × Nat × List Nat
  | b1, [], sw, el => (b1, sw, el)
  | b1, c :: b2, sw, el =>
    if c ∈ b1 then phase1 (b1.erase c) b2 (sw + (b1.length - b1.idxOf c - 1)) (el ++ [c])
    else phase1 (b1 ++ [c]) b2 sw el

/-- second loop of `_swap_blades` (reorder to the target spelling):
    `blade1.insert(i, blade1.pop(blade1.index(char))); swaps += idx - i` -/
def phase2 : List Nat → List Nat → Nat → Nat → List Nat × Nat
  | b1, [], _, sw => (b1, sw)
  | b1, c :: t, i, sw =>
      phase2 ((b1.eraseIdx (b1.idxOf c)).insertIdx i c) t (i + 1) (sw + (b1.idxOf c - i))

/-- `_swap_blades(blade1, blade2, target)`: (swaps, resulting blade, eliminated) -/
def swapBlades (b1 b2 target : List Nat) : Nat × List Nat × List Nat :=
  let r := phase1 b1 b2 0 []
  let r2 := phase2 r.1 target 0 r.2.1
  (r2.2, r2.1, r.2.2)

/-- metric product over eliminated letters when letters are bit positions -/
def prodSig (sig : List Int) (el : List Nat) : Int := (el.map (fun g => sig[g]!)).prod

/-- `_compute_sign` at the level of words of bit positions -/
def computeSignW (sig : List Int) (wI wJ wK : List Nat) : Int :=
  let r := swapBlades wI wJ wK
  (-1) ^ r.1 * prodSig sig r.2.2

/-! ### the algebra configuration after `__post_init__` -/

/-- What `Algebra.__post_init__` leaves behind, as far as naming and metric are concerned.
    A blade *name* is the list of generator labels after the leading `e` (hex digits). -/
structure Cfg where
  signature : List Int        -- Algebra.signature (indexed by label - start_index)
  start : Nat                 -- Algebra.start_index
  basis : List (List Nat)     -- the keys of canon2bin, in their (canonical) order
  vecs : List Nat             -- generator labels by bit position: bit j ↔ vecs[j]
deriving Repr, DecidableEq

namespace Cfg

def d (c : Cfg) : Nat := c.signature.length

/-- `np.array([0]*r + [1]*p + [-1]*q)` if `r == 1` else `[1]*p + [-1]*q + [0]*r` -/
def sigOfPQR (p q r : Nat) : List Int :=
  if r = 1 then List.replicate r 0 ++ List.replicate p 1 ++ List.replicate q (-1)
  else List.replicate p 1 ++ List.replicate q (-1) ++ List.replicate r 0

/-- default start index: `0 if r == 1 else 1` -/
def defaultStart (sig : List Int) : Nat := if sig.count 0 = 1 then 0 else 1

/-- default name of bitmask `I`: labels `ei + start` for the set bits, ascending -/
def defaultName (start d I : Nat) : List Nat :=
  (List.range d).filterMap fun ei => if I.testBit ei then some (ei + start) else none

/-- lexicographic `<` on label lists (python string comparison of single hex digits) -/
def lexLt : List Nat → List Nat → Bool
  | [], [] => false
  | [], _ :: _ => true
  | _ :: _, [] => false
  | a :: as, b :: bs => if a < b then true else if b < a then false else lexLt as bs

/-- sort key `(len(name), name)` -/
def nameLe (a b : List Nat) : Bool :=
  if a.length < b.length then true else if b.length < a.length then false else !lexLt b a

def insertSorted (x : List Nat) : List (List Nat) → List (List Nat)
  | [] => [x]
  | y :: ys => if nameLe x y then x :: y :: ys else y :: insertSorted x ys

def sortNames (l : List (List Nat)) : List (List Nat) := l.foldr insertSorted []

/-- default basis: `canon2bin = dict(sorted(..., key=lambda x: (len(x[0]), x[0])))` -/
def default (sig : List Int) (start : Nat) : Cfg :=
  let d := sig.length
  { signature := sig, start := start,
    basis := sortNames ((List.range (2 ^ d)).map (defaultName start d)),
    vecs := (List.range d).map (· + start) }

/-- custom basis: `vecs = [eJ[1:] for eJ in basis if len(eJ) == 2]`, `start_index = int(min(vecs))` -/
def custom (sig : List Int) (basis : List (List Nat)) : Cfg :=
  let vecs := (basis.filter (·.length == 1)).map (·.headD 0)
  { signature := sig, start := vecs.foldl min (vecs.headD 0), basis := basis, vecs := vecs }

/-- `canon2bin[name]`: xor of the generator bits of the letters -/
def binOf (c : Cfg) (name : List Nat) : Nat :=
  name.foldl (fun acc l => acc ^^^ 2 ^ (c.vecs.idxOf l)) 0

/-- `bin2canon[I]` (the name stored for bitmask `I`) -/
def nameOf (c : Cfg) (I : Nat) : List Nat :=
  (c.basis.find? (fun n => c.binOf n == I)).getD []

/-- `signature[int(key, 16) - start_index]` -/
def metric (c : Cfg) (l : Nat) : Int := c.signature[l - c.start]!

/-- `_compute_sign((I, J))` -/
def computeSign (c : Cfg) (I J : Nat) : Int :=
  let r := swapBlades (c.nameOf I) (c.nameOf J) (c.nameOf (I ^^^ J))
  (if r.1 % 2 = 1 then -1 else 1) * (r.2.2.map c.metric).prod

/-- the keys of the algebra in canonical order: `canon2bin.values()` -/
def canonKeys (c : Cfg) : List Nat := c.basis.map c.binOf

/-- the metric by bit position: `sigBits[j] = signature[vecs[j] - start]` -/
def sigBits (c : Cfg) : List Int := c.vecs.map c.metric

/-- a name as a word of bit positions -/
def wordOf (c : Cfg) (name : List Nat) : List Nat := name.map (c.vecs.idxOf ·)

/-- key of the pseudoscalar -/
def pss (c : Cfg) : Nat := 2 ^ c.d - 1

/-- `Algebra.cayley[eI, eJ]` as (sign, name) with sign 0 ↦ the entry `'0'` -/
def cayley (c : Cfg) (nI nJ : List Nat) : Int × List Nat :=
  let I := c.binOf nI; let J := c.binOf nJ
  let s := c.computeSign I J
  if s = 0 then (0, []) else (s, c.nameOf (I ^^^ J))

/-- `_blade2canon(spelling)`: `some (name, swaps)` or `none` for "generator outside the space".
    The python passes the spelling and the canonical name *with* their leading `e` through
    `_swap_blades`; that letter sits at index 0 of both, is moved from 0 to 0 and shifts `idx` and `i` of all
    other letters by one, so `idx - i` and hence the swap count are those of the bare letter lists. -/
def blade2canon (c : Cfg) (sp : List Nat) : Option (List Nat × Nat) :=
  if c.basis.contains sp then some (sp, 0) else
  if sp.any (fun l => !c.vecs.contains l) then none else
  let bin := sp.foldl (fun acc l => acc ||| 2 ^ (c.vecs.idxOf l)) 0
  match c.basis.find? (fun n => c.binOf n == bin) with
  | none => none
  | some canon => some (canon, (swapBlades sp [] canon).1)

/-- `BladeDict.__getitem__(spelling)`: (key, sign) of the returned basis blade -/
def bladeOf (c : Cfg) (sp : List Nat) : Option (Nat × Int) :=
  match c.blade2canon sp with
  | none => none
  | some (canon, swaps) => some (c.binOf canon, if swaps % 2 = 0 then 1 else -1)

/-- `indices_for_grade[g]`: keys of the names of length `g`, in canonical order -/
def indicesForGrade (c : Cfg) (g : Nat) : List Nat :=
  (c.basis.filter (·.length == g)).map c.binOf

/-- `indices_for_grades[grades]` -/
def indicesForGrades (c : Cfg) (gs : List Nat) : List Nat := gs.flatMap c.indicesForGrade

/-- Decidable admissibility of a configuration: what the `assert`s of `__post_init__` check plus
    what the naming scheme silently assumes (distinct single-hex-digit generator labels inside the
    signature's index range, `2^d` duplicate-free names over the generators among which every bitmask
    is spelled, names ordered by grade). -/
def admissible (c : Cfg) : Bool :=
  c.vecs.length == c.d && decide c.vecs.Nodup &&
  c.vecs.all (fun v => decide (c.start ≤ v) && decide (v < c.start + c.d) && decide (v < 16)) &&
  c.basis.length == 2 ^ c.d &&
  c.basis.all (fun n => decide n.Nodup && n.all (c.vecs.contains ·)) &&
  (List.range (2 ^ c.d)).all (fun I => (c.basis.find? (fun n => c.binOf n == I)).isSome) &&
  decide ((c.basis.map (·.length)).Pairwise (· ≤ ·)) &&
  c.signature.all (fun s => s == 1 || s == -1 || s == 0)

end Cfg
end Kingdon

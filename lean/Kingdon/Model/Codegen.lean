/-
  L1 of the model: sparse multivectors as insertion-ordered key/value lists and the generators of
  kingdon/codegen.py, generic in the coefficient type.
  Anchors: codegen.py:114-273 (products), 454-497 (add/sub/neg/involutions), 536-562 (duals),
           575-611 (do_codegen re-sorting), multivector.py:167-179 (grade), 396-408 (asfullmv).
  Import-free.
-/
import Kingdon.Model.Blade
namespace Kingdon
variable {α : Type}

/-- a sparse multivector: `zip(mv.keys(), mv.values())` -/
abbrev MV (α : Type) := List (Nat × α)

/-- Python `res[k] += t` / `res[k] = t` on an insertion-ordered dict -/
def insertAdd [Add α] : List (Nat × α) → Nat → α → List (Nat × α)
  | [], k, t => [(k, t)]
  | (k', v) :: r, k, t => if k' = k then (k', v + t) :: r else (k', v) :: insertAdd r k t

/-- `itertools.product(x.items(), y.items())` -/
def pairs (x y : List (Nat × α)) : List ((Nat × α) × (Nat × α)) :=
  x.flatMap fun p => y.map fun q => (p, q)

/-- one iteration of the loop body of `codegen_product` -/
def cpStep [Add α] [Mul α] [Neg α] (signf : Nat → Nat → Int) (keyout : Nat → Nat → Nat)
    (filt : Nat → Nat → Nat → Bool) (res : List (Nat × α)) (pq : (Nat × α) × (Nat × α)) : List (Nat × α) :=
  let s := signf pq.1.1 pq.2.1
  if s = 0 then res else
    let ko := keyout pq.1.1 pq.2.1
    if filt pq.1.1 pq.2.1 ko then
      insertAdd res ko (if s > 0 then pq.1.2 * pq.2.2 else (- pq.1.2) * pq.2.2)
    else res

/-- `codegen_product` (codegen.py:114-138) -/
def codegenProduct [Add α] [Mul α] [Neg α] (signf : Nat → Nat → Int) (keyout : Nat → Nat → Nat)
    (filt : Nat → Nat → Nat → Bool) (x y : List (Nat × α)) : List (Nat × α) :=
  (pairs x y).foldl (cpStep signf keyout filt) []

/-- popcount: `bin(k).count('1')` -/
def popcount : Nat → Nat
  | 0 => 0
  | n+1 => (n+1) % 2 + popcount ((n+1) / 2)

def lookupKey (x : List (Nat × α)) (k : Nat) : Option α := (x.find? (·.1 == k)).map (·.2)

/-- `do_codegen`'s `{bin: res[bin] for canon, bin in canon2bin.items() if bin in res}` -/
def sortCanon (c : Cfg) (res : List (Nat × α)) : List (Nat × α) :=
  c.canonKeys.filterMap fun k => (lookupKey res k).map fun v => (k, v)

section products
variable [Add α] [Mul α] [Neg α] (c : Cfg)

def noFilter : Nat → Nat → Nat → Bool := fun _ _ _ => true

/-- `codegen_gp` -/
def gp (x y : MV α) : MV α := codegenProduct c.computeSign (· ^^^ ·) noFilter x y
/-- `codegen_op`: `k_out == kx + ky` -/
def op (x y : MV α) : MV α := codegenProduct c.computeSign (· ^^^ ·) (fun kx ky ko => ko == kx + ky) x y
/-- `codegen_ip`: `k_out == abs(kx - ky)` -/
def ip (x y : MV α) : MV α :=
  codegenProduct c.computeSign (· ^^^ ·) (fun kx ky ko => (ko : Int) == ((kx : Int) - ky).natAbs) x y
/-- `codegen_lc`: `k_out == -(kx - ky)` -/
def lc (x y : MV α) : MV α :=
  codegenProduct c.computeSign (· ^^^ ·) (fun kx ky ko => (ko : Int) == -((kx : Int) - ky)) x y
/-- `codegen_rc`: `k_out == kx - ky` -/
def rc (x y : MV α) : MV α :=
  codegenProduct c.computeSign (· ^^^ ·) (fun kx ky ko => (ko : Int) == (kx : Int) - ky) x y
/-- `codegen_sp`: `k_out == 0` -/
def sp (x y : MV α) : MV α := codegenProduct c.computeSign (· ^^^ ·) (fun _ _ ko => ko == 0) x y
/-- `codegen_cp`: filter `signs[kx,ky] - signs[ky,kx]` truthy -/
def cp (x y : MV α) : MV α :=
  codegenProduct c.computeSign (· ^^^ ·) (fun kx ky _ => c.computeSign kx ky - c.computeSign ky kx != 0) x y
/-- `codegen_acp`: filter `signs[kx,ky] + signs[ky,kx]` truthy -/
def acp (x y : MV α) : MV α :=
  codegenProduct c.computeSign (· ^^^ ·) (fun kx ky _ => c.computeSign kx ky + c.computeSign ky kx != 0) x y

/-- `codegen_rp` (codegen.py:247-273): four-factor sign, complement key-out, union filter -/
def rp (x y : MV α) : MV α :=
  let pss := c.pss
  codegenProduct
    (fun kx ky => c.computeSign kx (pss - kx) * c.computeSign ky (pss - ky) *
                  c.computeSign (pss - kx) (pss - ky) * c.computeSign (pss - (kx ^^^ ky)) (kx ^^^ ky))
    (fun kx ky => pss - (kx ^^^ ky))
    (fun kx ky ko => (pss : Int) == (kx : Int) + ky - ko) x y
end products

/-- `codegen_add` -/
def add [Add α] (x y : MV α) : MV α :=
  y.foldl (fun vals (k, v) => insertAdd vals k v) x
/-- `codegen_sub`: `vals[k] - v` resp. `-v` -/
def insertSub [Sub α] [Neg α] : List (Nat × α) → Nat → α → List (Nat × α)
  | [], k, t => [(k, -t)]
  | (k', v) :: r, k, t => if k' = k then (k', v - t) :: r else (k', v) :: insertSub r k t
def sub [Sub α] [Neg α] (x y : MV α) : MV α :=
  y.foldl (fun vals (k, v) => insertSub vals k v) x
/-- `codegen_neg` -/
def neg [Neg α] (x : MV α) : MV α := x.map fun (k, v) => (k, -v)

/-- `codegen_involutions`: `-v if bin(k).count('1') % 4 in invert_grades else v` -/
def involutions [Neg α] (invertGrades : List Nat) (x : MV α) : MV α :=
  x.map fun (k, v) => (k, if invertGrades.contains (popcount k % 4) then -v else v)
def reverse [Neg α] (x : MV α) : MV α := involutions [2, 3] x
def involute [Neg α] (x : MV α) : MV α := involutions [1, 3] x
def conjugate [Neg α] (x : MV α) : MV α := involutions [1, 2] x

/-- `codegen_hodge(x, undual)` -/
def hodgeGen [Neg α] (c : Cfg) (undual : Bool) (x : MV α) : MV α :=
  x.map fun (eI, v) =>
    let kd := c.pss - eI
    let s := if undual then c.computeSign kd eI else c.computeSign eI kd
    (kd, if s < 0 then -v else v)
def hodge [Neg α] (c : Cfg) (x : MV α) : MV α := hodgeGen c false x
def unhodge [Neg α] (c : Cfg) (x : MV α) : MV α := hodgeGen c true x

/-- `codegen_polarity(x, undual)`: `none` models `ZeroDivisionError` -/
def polarityGen [Add α] [Mul α] [Neg α] [One α] (c : Cfg) (undual : Bool) (x : MV α) : Option (MV α) :=
  let pssmv : MV α := [(c.pss, 1)]
  if undual then some (gp c x pssmv) else
  let s := c.computeSign c.pss c.pss
  if s = -1 then some (gp c (neg x) pssmv)
  else if s = 1 then some (gp c x pssmv)
  else none

/-- `MultiVector.grade(*grades)`: stored coefficients of the requested grades, canonical order -/
def gradeSel (c : Cfg) (gs : List Nat) (x : MV α) : MV α :=
  (c.indicesForGrades gs).filterMap fun k => (lookupKey x k).map fun v => (k, v)

/-- `MultiVector.asfullmv(canonical)` -/
def asfullmv [Zero α] (c : Cfg) (canonical : Bool) (x : MV α) : MV α :=
  let keys := if canonical then c.indicesForGrades (List.range (c.d + 1)) else List.range (2 ^ c.d)
  keys.map fun k => (k, (lookupKey x k).getD 0)

end Kingdon

/-
  Python prelude for the *translated* source (Kingdon/Generated/Source.lean, written by harness/pytolean.py).
  Each definition is the meaning the translator assigns to one Python primitive.  Python `int` is Lean `Int`,
  `str` and `list`/`tuple` are `List`, `dict` is an insertion-ordered association list, a raised exception is
  `Except.error` with the exception's class name.
  Import-free.
-/
namespace Kingdon.Py

/-- computations that may raise -/
abbrev M := Except String

/-! ### truthiness (`if x:`, `not x`, `x and y`, `x or y`) -/
class Truthy (α : Type) where
  truthy : α → Bool
export Truthy (truthy)
instance : Truthy Bool := ⟨id⟩
instance : Truthy Int := ⟨fun n => n != 0⟩
instance {α} : Truthy (List α) := ⟨fun l => !l.isEmpty⟩
instance {α} : Truthy (Option α) := ⟨Option.isSome⟩

/-! ### integers -/
/-- `a ^ b` on non-negative ints (blade keys); operands are clamped at 0, which no modelled call site reaches -/
def xor (a b : Int) : Int := Int.ofNat (a.toNat ^^^ b.toNat)
/-- `a | b`, `a & b` on non-negative ints -/
def lor (a b : Int) : Int := Int.ofNat (a.toNat ||| b.toNat)
def land (a b : Int) : Int := Int.ofNat (a.toNat &&& b.toNat)
def abs (a : Int) : Int := Int.ofNat a.natAbs
/-- `bin(k).count('1')` for `k ≥ 0` -/
def popcountNat : Nat → Nat
  | 0 => 0
  | n+1 => (n+1) % 2 + popcountNat ((n+1) / 2)
def popcount (k : Int) : Int := Int.ofNat (popcountNat k.toNat)

/-- `a ** b` for ints with `b ≥ 0` -/
def pow (a b : Int) : Int := a ^ b.toNat

/-- `str(n)` / `f'{n}'` for an int -/
def strOfInt (n : Int) : List Char := (toString n).toList

/-! ### lists and strings -/
def len {α} (l : List α) : Int := Int.ofNat l.length

/-- normalise a Python index (negative counts from the end); `none` when out of range -/
def normIdx (n : Nat) (i : Int) : Option Nat :=
  if 0 ≤ i then (if i.toNat < n then some i.toNat else none)
  else (if (-i).toNat ≤ n then some (n - (-i).toNat) else none)

/-- `l[i]` -/
def getItem {α} (l : List α) (i : Int) : M α :=
  match normIdx l.length i with
  | some j => match l[j]? with
    | some a => pure a
    | none => throw "IndexError"
  | none => throw "IndexError"

/-- `l.index(x)` -/
def index {α} [BEq α] (l : List α) (x : α) : M Int :=
  match l.idxOf? x with
  | some i => pure (Int.ofNat i)
  | none => throw "ValueError"

/-- `l.remove(x)` (the list after removal) -/
def remove {α} [BEq α] (l : List α) (x : α) : M (List α) :=
  if l.contains x then pure (l.erase x) else throw "ValueError"

/-- `l.pop(i)`: the popped element and the list after popping -/
def pop {α} (l : List α) (i : Int) : M (α × List α) :=
  match normIdx l.length i with
  | some j => match l[j]? with
    | some a => pure (a, l.eraseIdx j)
    | none => throw "IndexError"
  | none => throw "IndexError"

/-- `l.insert(i, x)` (the list after insertion): indices are clamped to `[0, len]`, negative ones count from the end -/
def insert {α} (l : List α) (i : Int) (x : α) : List α :=
  let n := l.length
  let j : Nat := if 0 ≤ i then min i.toNat n else n - min (-i).toNat n
  l.insertIdx j x

def append {α} (l : List α) (x : α) : List α := l ++ [x]

/-- `enumerate(l)` -/
def enumerateFrom {α} : Nat → List α → List (Int × α)
  | _, [] => []
  | n, a :: l => (Int.ofNat n, a) :: enumerateFrom (n + 1) l
def enumerate {α} (l : List α) : List (Int × α) := enumerateFrom 0 l

/-- `s[n:]` for `n ≥ 0` -/
def sliceFrom {α} (l : List α) (n : Int) : List α := l.drop n.toNat

/-- `range(a, b)` -/
def range (a b : Int) : List Int := (List.range (b - a).toNat).map fun i => a + Int.ofNat i

/-- `itertools.combinations(l, r)`: the r-element sub-sequences in lexicographic order of positions -/
def combinationsNat {α} : List α → Nat → List (List α)
  | _, 0 => [[]]
  | [], _ + 1 => []
  | a :: l, r + 1 => (combinationsNat l r).map (a :: ·) ++ combinationsNat l (r + 1)
def combinations {α} (l : List α) (r : Int) : List (List α) := if r < 0 then [] else combinationsNat l r.toNat

/-- `itertools.groupby(strings, key=len)`: maximal runs of consecutive strings of equal length, with that length -/
def groupbyLen : List (List Char) → List (Int × List (List Char))
  | [] => []
  | a :: l =>
    match groupbyLen l with
    | (n, g) :: rest => if n == Int.ofNat a.length then (n, a :: g) :: rest else (Int.ofNat a.length, [a]) :: (n, g) :: rest
    | [] => [(Int.ofNat a.length, [a])]

/-- `l[lo::step]` for constants `lo >= 0`, `step > 0` -/
def sliceStep {α} (l : List α) (lo step : Nat) : List α :=
  ((l.drop lo).zipIdx.filter fun p => p.2 % step == 0).map (·.1)

/-- `functools.reduce(f, xs)` without initial value -/
def reduce {α} (f : α → α → α) : List α → M α
  | [] => throw "TypeError"
  | a :: l => pure (l.foldl f a)

/-- `itertools.product(a, b)` -/
def product {α β} (a : List α) (b : List β) : List (α × β) := a.flatMap fun p => b.map fun q => (p, q)

/-- `zip(*pairs) if pairs else ((), [])`: the two columns of a list of pairs -/
def unzip {α β} (l : List (α × β)) : List α × List β := (l.map (·.1), l.map (·.2))

/-- `zip(a, b)` -/
def zip {α β} (a : List α) (b : List β) : List (α × β) := List.zip a b

/-- `int(c, base=16)` for a one-character string -/
def hexDigit (c : Char) : M Int :=
  let n := c.toNat
  if 48 ≤ n ∧ n ≤ 57 then pure (Int.ofNat (n - 48))
  else if 97 ≤ n ∧ n ≤ 102 then pure (Int.ofNat (n - 87))
  else if 65 ≤ n ∧ n ≤ 70 then pure (Int.ofNat (n - 55))
  else throw "ValueError"

/-! ### ordering (`<` of python on ints, characters, strings / lists (lexicographic) and tuples) and `sorted` -/
class PyOrd (α : Type) where
  lt : α → α → Bool
instance : PyOrd Int := ⟨fun a b => decide (a < b)⟩
instance : PyOrd Char := ⟨fun a b => decide (a.toNat < b.toNat)⟩

def listLt {α} [PyOrd α] [BEq α] : List α → List α → Bool
  | [], [] => false
  | [], _ :: _ => true
  | _ :: _, [] => false
  | a :: as, b :: bs => if PyOrd.lt a b then true else if a == b then listLt as bs else false
instance {α} [PyOrd α] [BEq α] : PyOrd (List α) := ⟨listLt⟩
instance {α β} [PyOrd α] [PyOrd β] [BEq α] : PyOrd (α × β) :=
  ⟨fun a b => PyOrd.lt a.1 b.1 || (a.1 == b.1 && PyOrd.lt a.2 b.2)⟩

/-- insert `x` behind every element whose key is not greater (stability) -/
def insertByKey {α κ} [PyOrd κ] (key : α → κ) (x : α) : List α → List α
  | [] => [x]
  | y :: ys => if PyOrd.lt (key x) (key y) then x :: y :: ys else y :: insertByKey key x ys

/-- `sorted(l, key=key)`: stable -/
def sorted {α κ} [PyOrd κ] (key : α → κ) (l : List α) : List α := l.foldl (fun acc x => insertByKey key x acc) []

/-- `min(l)` for a list of strings: the first minimal element -/
def minStr : List (List Char) → M (List Char)
  | [] => throw "ValueError"
  | a :: l => pure (l.foldl (fun m x => if PyOrd.lt x m then x else m) a)

/-- `int(s)` for a plain decimal string (optional sign; python also accepts surrounding blanks and underscores: not modelled) -/
def digitsToNat : List Char → Option Nat
  | [] => none
  | cs => cs.foldl (fun acc c => match acc with
      | none => none
      | some n => if 48 ≤ c.toNat ∧ c.toNat ≤ 57 then some (10 * n + (c.toNat - 48)) else none) (some 0)
def intOfStr : List Char → M Int
  | '-' :: cs => match digitsToNat cs with | some n => pure (-(Int.ofNat n)) | none => throw "ValueError"
  | '+' :: cs => match digitsToNat cs with | some n => pure (Int.ofNat n) | none => throw "ValueError"
  | cs => match digitsToNat cs with | some n => pure (Int.ofNat n) | none => throw "ValueError"

/-- `int(s, base=16)` for a string of hexadecimal digits with an optional sign (python also accepts a `0x` prefix, blanks and
    underscores: not modelled, they raise here) -/
def intOfHex : List Char → M Int
  | '-' :: cs => if cs.isEmpty then throw "ValueError" else do pure (-(← cs.foldlM (fun acc c => do pure (16 * acc + (← hexDigit c))) (0 : Int)))
  | '+' :: cs => if cs.isEmpty then throw "ValueError" else cs.foldlM (fun acc c => do pure (16 * acc + (← hexDigit c))) (0 : Int)
  | cs => if cs.isEmpty then throw "ValueError" else cs.foldlM (fun acc c => do pure (16 * acc + (← hexDigit c))) (0 : Int)

/-- `re.match(r'^e[0-9a-fA-F]*$', s)`: an `e` followed by hexadecimal digits only -/
def isHexChar (c : Char) : Bool :=
  let n := c.toNat
  (48 ≤ n && n ≤ 57) || (97 ≤ n && n ≤ 102) || (65 ≤ n && n ≤ 70)
def isBladeName : List Char → Bool
  | 'e' :: rest => rest.all isHexChar
  | _ => false

/-- `int(s, 2)` for a string of binary digits -/
def intOfBin (s : List Char) : M Int :=
  if s.isEmpty then throw "ValueError" else
  s.foldlM (fun acc c => if c == '0' then pure (2 * acc) else if c == '1' then pure (2 * acc + 1) else throw "ValueError") 0

/-- `sep.join(parts)` -/
def joinStr (sep : List Char) : List (List Char) → List Char
  | [] => []
  | [a] => a
  | a :: rest => a ++ sep ++ joinStr sep rest

/-- `hex(n)[2:]`: the lowercase hexadecimal digits of `n ≥ 0` (for negative `n` python's `'-0x..'[2:]` is `'x..'`) -/
def hexDigitsNat (n : Nat) : List Char := (Nat.toDigits 16 n)
def hexStr (n : Int) : List Char := if 0 ≤ n then hexDigitsNat n.toNat else 'x' :: hexDigitsNat (-n).toNat

/-- `n.bit_length()` -/
def bitLength (n : Int) : Int := if n = 0 then 0 else Int.ofNat (Nat.log2 n.natAbs + 1)

/-! ### dicts (insertion ordered) -/
abbrev Dict (κ ν : Type) := List (κ × ν)

def dictHas {κ ν} [BEq κ] (d : Dict κ ν) (k : κ) : Bool := d.any (·.1 == k)

/-- `d[k]` -/
def dictGet {κ ν} [BEq κ] (d : Dict κ ν) (k : κ) : M ν :=
  match d.find? (·.1 == k) with
  | some p => pure p.2
  | none => throw "KeyError"

/-- `d.get(k)` as an option -/
def dictGet? {κ ν} [BEq κ] (d : Dict κ ν) (k : κ) : Option ν := (d.find? (·.1 == k)).map (·.2)

/-- `d.get(k, default)` -/
def dictGetD {κ ν} [BEq κ] (d : Dict κ ν) (k : κ) (dflt : ν) : ν := (dictGet? d k).getD dflt

/-- `d[k] = v`: replaces in place, else appends -/
def dictSet {κ ν} [BEq κ] : Dict κ ν → κ → ν → Dict κ ν
  | [], k, v => [(k, v)]
  | (k', v') :: r, k, v => if k' == k then (k', v) :: r else (k', v') :: dictSet r k v

/-- `dict(items)` / a dict comprehension over `items` -/
def dictOf {κ ν} [BEq κ] (items : List (κ × ν)) : Dict κ ν :=
  items.foldl (fun d kv => dictSet d kv.1 kv.2) []

/-- `del d[k]` / the removal half of `d.pop(k)` for a key that is present -/
def dictDel {κ ν} [BEq κ] (d : Dict κ ν) (k : κ) : Dict κ ν := d.filter fun p => !(p.1 == k)
def dictKeys {κ ν} (d : Dict κ ν) : List κ := d.map (·.1)
def dictValues {κ ν} (d : Dict κ ν) : List ν := d.map (·.2)

/-! ### the operator dictionaries (method mode of the translator): what `self` holds -/

/-- the mutable state a method of `OperatorDict` touches: its own `operator_dict`, the algebra-wide `numspace`, and a log
    of the completed code generations (history variable added by the translation of the external `do_codegen` call) -/
structure ODState (κ ρ φ ν : Type) where
  operator_dict : Dict κ (ρ × φ)
  numspace : Dict ν φ
  gens : List κ

/-- what the methods call out to -/
structure ODEnv (κ ρ φ ν ω : Type) where
  /-- `do_codegen(self.codegen, *symbolic operands with these keys)` / `do_compile(..)`: may raise -/
  do_codegen : κ → M (ρ × φ)
  /-- `func.__name__` -/
  name : φ → ν
  /-- `algebra.wrapper` -/
  wrapper : Option (φ → φ)
  /-- calling a generated function on coefficient values -/
  apply : φ → ω → M ω
  /-- whether `algebra.simp_func` is set -/
  simp_func : Bool
  /-- `OperatorDict.filter(keys_out, values_out)` -/
  filter : ρ → ω → ρ × ω

/-- an operand as the call methods see it -/
structure ODArg (κ ω : Type) where
  keys : κ
  issymbolic : Bool
  values : ω

/-- the external call `do_codegen(...)`: run it, and log the generation when it returned.
    Methods are translated into `ExceptT String (StateM σ)`: like in python, the state reached when an exception is raised
    is kept (an exception does not roll back earlier stores). -/
def odCodegen {κ ρ φ ν ω : Type} (env : ODEnv κ ρ φ ν ω) (k : κ) : ExceptT String (StateM (ODState κ ρ φ ν)) (ρ × φ) := do
  let r ← (env.do_codegen k : M (ρ × φ))
  modify fun s => { s with gens := k :: s.gens }
  return r

/-- run a translated method from a state: what it returned or raised, and the state it left behind -/
def runMethod {σ α : Type} (x : ExceptT String (StateM σ) α) (s : σ) : Except String α × σ :=
  Id.run (StateT.run (ExceptT.run x) s)

end Kingdon.Py

/-
  L3 of the model: kingdon's own `Polynomial` and `RationalPolynomial` classes (kingdon/polynomial.py), mirrored
  operation by operation, and `AdditionChains` / `power_supply` (kingdon/codegen.py:45-99).
  A monomial is the python list `[coeff, var1, var2, ...]`; a polynomial is `Polynomial.args`.
  Coefficients are modelled as integers (python floats are outside the model).
  Import-free.
-/
namespace Kingdon.KP

structure Mono where
  coeff : Int
  vars : List String
deriving DecidableEq, Repr, Inhabited

abbrev Poly := List Mono

/-- `compare(a, b)` on two monomial lists (both not `None`): `-1/0/1`-like integer.
    Python: `for i in range(1, min(la, lb)): if a[i] < b[i]: return -1 elif a[i] > b[i]: return 1` then `la - lb`. -/
def compareVars : List String → List String → Int
  | [], [] => 0
  | [], b => - (b.length : Int)
  | a, [] => (a.length : Int)
  | x :: a, y :: b => if x < y then -1 else if y < x then 1 else compareVars a b

def compare (a b : Mono) : Int := compareVars a.vars b.vars

/-- truthiness test used by `==`: `not self.args or self.args == [[0]]` -/
def isZeroish (p : Poly) : Bool := p.isEmpty || p == [⟨0, []⟩]
def isOne (p : Poly) : Bool := p == [⟨1, []⟩]

/-- `Polynomial.__eq__` between two polynomials -/
def eq (p q : Poly) : Bool :=
  if isZeroish q && isZeroish p then true
  else if isOne q && isOne p then true
  else p == q

/-- `p == 0` / `p == 1` with a python number on the right -/
def eqZero (p : Poly) : Bool := isZeroish p
def eqOne (p : Poly) : Bool := isOne p

/-- `Polynomial.__bool__` -/
def toBool (p : Poly) : Bool :=
  match p with
  | [m] => m.coeff != 0
  | _ => !p.isEmpty

/-- the merge loop of `Polynomial.__add__` -/
def merge : Poly → Poly → Poly
  | [], q => q
  | p, [] => p
  | ea :: p, eb :: q =>
    let diff := compare ea eb
    if diff < 0 then ea :: merge p (eb :: q)
    else if diff > 0 then eb :: merge (ea :: p) q
    else
      let c := ea.coeff + eb.coeff
      if c != 0 then ⟨c, ea.vars⟩ :: merge p q else merge p q
termination_by p q => p.length + q.length

/-- `Polynomial.__add__`: `if other == 0: return self`, `if self == 0: return other`, then merge -/
def add (p q : Poly) : Poly := if isZeroish q then p else if isZeroish p then q else merge p q

/-- merge of the (sorted) factor lists of two monomials, as in the inner loop of `Polynomial.__mul__` -/
def mulVars : List String → List String → List String
  | [], b => b
  | a, [] => a
  | x :: a, y :: b => if x < y then x :: mulVars a (y :: b) else y :: mulVars (x :: a) b
termination_by a b => a.length + b.length

def mulMono (a b : Mono) : Mono := ⟨a.coeff * b.coeff, mulVars a.vars b.vars⟩

/-- `Polynomial.__mul__`: zero shortcut, then `res = res + Polynomial([C])` over `itertools.product` -/
def mul (p q : Poly) : Poly :=
  if isZeroish p || isZeroish q then []
  else (p.flatMap fun a => q.map fun b => mulMono a b).foldl (fun res c => add res [c]) []

/-- `Polynomial.__neg__` -/
def neg (p : Poly) : Poly := p.map fun m => ⟨-m.coeff, m.vars⟩
/-- `Polynomial.__sub__`: `self + (-other)` -/
def sub (p q : Poly) : Poly := add p (neg q)

/-- public constructors -/
def ofInt (c : Int) : Poly := [⟨c, []⟩]                    -- `Polynomial(c)`
def ofName (s : String) : Poly := [⟨1, [s]⟩]               -- `Polynomial.fromname(s)` / `Polynomial('s')`

/-! ### `AdditionChains.minimal_chains` and `power_supply` -/

def chainsLookup (chains : List (Nat × List Nat)) (n : Nat) : Option (List Nat) :=
  (chains.find? (·.1 == n)).map (·.2)

/-- one pass of the `while` body: `for chain in chains.copy().values(): for left in chain: ...` -/
def chainsPass (limit : Nat) (chains : List (Nat × List Nat)) : List (Nat × List Nat) :=
  chains.foldl (fun acc (entry : Nat × List Nat) =>
    let chain := entry.2
    let right := chain.getLastD 0
    chain.foldl (fun acc left =>
      let value := left + right
      if value ≤ limit && (chainsLookup acc value).isNone then acc ++ [(value, chain ++ [value])] else acc) acc) chains

/-- `minimal_chains` (with fuel for the `while any(i not in chains ...)` loop) -/
def minimalChains (limit : Nat) : Nat → List (Nat × List Nat) → List (Nat × List Nat)
  | 0, chains => chains
  | fuel + 1, chains =>
    if (List.range' 1 limit).all (fun i => (chainsLookup chains i).isSome) then chains
    else minimalChains limit fuel (chainsPass limit chains)

def additionChains (limit : Nat) : List (Nat × List Nat) := minimalChains limit (limit + 1) [(1, [1])]

/-- `power_supply(x, n)` for an integer exponent with an arbitrary multiplication; returns the list of yielded
    powers, `none` where the python raises `KeyError` -/
def powerSupply {β : Type} (mulf : β → β → β) (x : β) (n : Nat) : Option (List β) :=
  let chains := additionChains n
  match chainsLookup chains n with
  | none => none
  | some exps =>
    let step := fun (st : Option (List (Nat × β) × List β)) (e : Nat) =>
      match st with
      | none => none
      | some (powers, out) =>
        match powers.find? (·.1 == e) with
        | some pe => some (powers, out ++ [pe.2])
        | none =>
          match chainsLookup chains e with
          | none => none
          | some ch =>
            let prev := (ch.dropLast).getLastD 0
            match powers.find? (·.1 == prev), powers.find? (·.1 == e - prev) with
            | some a, some b => let v := mulf a.2 b.2; some (powers ++ [(e, v)], out ++ [v])
            | _, _ => none
    (exps.foldl step (some ([(1, x)], []))).map (·.2)

/-- `Polynomial.__pow__`: the last yielded power -/
def pow (p : Poly) (n : Nat) : Option Poly := (powerSupply mul p n).bind (·.getLast?)

/-! ### `RationalPolynomial` -/

structure RPoly where
  numer : Poly
  denom : Poly
deriving DecidableEq, Repr

namespace RPoly

def ofPoly (p : Poly) : RPoly := ⟨p, [⟨1, []⟩]⟩              -- `RationalPolynomial(p)`
def ofName (s : String) : RPoly := ofPoly (KP.ofName s)       -- `RationalPolynomial.fromname`
def zero : RPoly := ofPoly []                                 -- `RationalPolynomial([])`
def one : RPoly := ofPoly [⟨1, []⟩]

/-- `__eq__` with the number 0 / 1 -/
def eqZero (r : RPoly) : Bool := KP.eqZero r.numer
def eqOne (r : RPoly) : Bool := isOne r.numer && isOne r.denom
/-- `__eq__` between two rational polynomials -/
def eq (r s : RPoly) : Bool :=
  if eqZero s && eqZero r then true
  else if eqOne s && eqOne r then true
  else KP.eq r.numer s.numer && KP.eq r.denom s.denom
def toBool (r : RPoly) : Bool := KP.toBool r.numer

/-- `__add__` -/
def add (r s : RPoly) : RPoly :=
  if eqZero s then r else if eqZero r then s else
  let (nn, nd) :=
    if r.denom.length == s.denom.length && KP.eq r.denom s.denom then (KP.add r.numer s.numer, r.denom)
    else (KP.add (KP.mul r.numer s.denom) (KP.mul s.numer r.denom), KP.mul r.denom s.denom)
  if KP.eqZero nn then zero
  else if nn.length == nd.length && KP.eq nn nd then one
  else ⟨nn, nd⟩

/-- common-factor removal of two single monomials (the `while p1 < len(fl1) or p2 < len(fl2)` loop) -/
def cancelVars : List String → List String → List String × List String
  | [], b => ([], b)
  | a, [] => (a, [])
  | x :: a, y :: b =>
    if x == y then cancelVars a b
    else if x < y then let r := cancelVars a (y :: b); (x :: r.1, r.2)
    else let r := cancelVars (x :: a) b; (r.1, y :: r.2)
termination_by a b => a.length + b.length

/-- `__mul__` -/
def mul (r s : RPoly) : RPoly :=
  if eqZero r then r else if eqZero s then s else if eqOne s then r else if eqOne r then s else
  let numer := KP.mul r.numer s.numer
  let denom := KP.mul r.denom s.denom
  if KP.eqZero numer then ofPoly [⟨0, []⟩]
  else if numer.length == denom.length && KP.eq numer denom then one
  else match numer, denom with
    | [f1], [f2] => let c := cancelVars f1.vars f2.vars; ⟨[⟨f1.coeff, c.1⟩], [⟨f2.coeff, c.2⟩]⟩
    | _, _ => ⟨numer, denom⟩

def neg (r : RPoly) : RPoly := ⟨KP.neg r.numer, r.denom⟩
def sub (r s : RPoly) : RPoly := add r (neg s)
/-- `inv`: python returns the integer `0` for a zero argument; modelled as `none` -/
def inv (r : RPoly) : Option RPoly := if eqZero r then none else some ⟨r.denom, r.numer⟩
/-- `__truediv__` by a rational polynomial: `self * other.inv()` (`x * 0` when `other == 0`) -/
def div (r s : RPoly) : RPoly := match inv s with
  | some si => mul r si
  | none => if eqZero r then r else ofPoly [⟨0, []⟩]   -- `self * 0`: `other = RationalPolynomial([[0]])`

/-- `__rtruediv__` with a python integer on the left: `RationalPolynomial(other * self.denom, self.numer)` (no zero check) -/
def rdivInt (n : Int) (r : RPoly) : RPoly := ⟨KP.mul r.denom (KP.ofInt n), r.numer⟩

/-- `__pow__` for a non-negative exponent -/
def pow (r : RPoly) (n : Nat) : Option RPoly := (powerSupply mul r n).bind (·.getLast?)

/-- `__pow__` for any integer exponent: `power < 0` computes the positive power and returns `1 / last` -/
def powInt (r : RPoly) (n : Int) : Option RPoly :=
  if n < 0 then (pow r n.natAbs).map (rdivInt 1) else pow r n.toNat

end RPoly

/-! ### a small stack machine over both classes, used by the driver for the correspondence check -/

inductive Val where
  | p (x : Poly) | r (x : RPoly) | b (x : Bool) | err (e : String)
deriving Repr

def renderMono (m : Mono) : String := "[" ++ String.intercalate "," (toString m.coeff :: m.vars) ++ "]"
def renderPoly (p : Poly) : String := "[" ++ String.intercalate "," (p.map renderMono) ++ "]"
def Val.render : Val → String
  | .p x => "P" ++ renderPoly x
  | .r x => "R" ++ renderPoly x.numer ++ "/" ++ renderPoly x.denom
  | .b x => if x then "True" else "False"
  | .err e => "raise:" ++ e

/-- one instruction; python semantics incl. the implicit promotion of a Polynomial operand of a
    RationalPolynomial operator is NOT modelled: programs are well-typed (the harness generates them so) -/
def exec (tok : String) (st : List Val) : Option (List Val) :=
  match tok.splitOn ":" , st with
  | ["n", k], st => k.toInt?.map fun k => .p (ofInt k) :: st
  | ["v", x], st => some (.p (ofName x) :: st)
  | ["rn", k], st => k.toInt?.map fun k => .r (RPoly.ofPoly [⟨k, []⟩]) :: st
  | ["rv", x], st => some (.r (RPoly.ofName x) :: st)
  | ["rz"], st => some (.r RPoly.zero :: st)
  | ["pz"], st => some (.p [] :: st)
  | ["dup"], a :: st => some (a :: a :: st)
  | ["swap"], a :: b :: st => some (b :: a :: st)
  | ["add"], .p b :: .p a :: st => some (.p (add a b) :: st)
  | ["add"], .r b :: .r a :: st => some (.r (RPoly.add a b) :: st)
  | ["mul"], .p b :: .p a :: st => some (.p (mul a b) :: st)
  | ["mul"], .r b :: .r a :: st => some (.r (RPoly.mul a b) :: st)
  | ["sub"], .p b :: .p a :: st => some (.p (sub a b) :: st)
  | ["sub"], .r b :: .r a :: st => some (.r (RPoly.sub a b) :: st)
  | ["neg"], .p a :: st => some (.p (neg a) :: st)
  | ["neg"], .r a :: st => some (.r (RPoly.neg a) :: st)
  | ["div"], .r b :: .r a :: st => some (.r (RPoly.div a b) :: st)
  | ["mkr"], .p b :: .p a :: st => some (.r ⟨a, b⟩ :: st)              -- Polynomial / Polynomial
  | ["rdiv", k], .r a :: st => k.toInt?.map fun k => .r (RPoly.rdivInt k a) :: st
  | ["pow", k], .p a :: st => k.toNat?.map fun k => (match pow a k with | some v => .p v | none => .err "KeyError") :: st
  | ["pow", k], .r a :: st => k.toInt?.map fun k => (match RPoly.powInt a k with | some v => .r v | none => .err "KeyError") :: st
  | ["eq"], .p b :: .p a :: st => some (.b (eq a b) :: st)
  | ["eq"], .r b :: .r a :: st => some (.b (RPoly.eq a b) :: st)
  | ["eq0"], .p a :: st => some (.b (eqZero a) :: st)
  | ["eq0"], .r a :: st => some (.b (RPoly.eqZero a) :: st)
  | ["eq1"], .p a :: st => some (.b (eqOne a) :: st)
  | ["eq1"], .r a :: st => some (.b (RPoly.eqOne a) :: st)
  | ["bool"], .p a :: st => some (.b (toBool a) :: st)
  | ["bool"], .r a :: st => some (.b (RPoly.toBool a) :: st)
  | _, _ => none

def runProgram (toks : List String) : String :=
  let rec go (toks : List String) (st : List Val) : String :=
    match toks with
    | [] => match st with
      | v :: _ => v.render
      | [] => "empty"
    | t :: ts =>
      match st with
      | .err e :: _ => "raise:" ++ e
      | _ => match exec t st with
        | some st' => go ts st'
        | none => "bad-op"
  go toks []

end Kingdon.KP

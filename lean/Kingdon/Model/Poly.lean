/-
  Executable polynomial normal form (sorted monomials, integer coefficients).
  It is the coefficient ring in which the driver runs the generic generators of Model/Codegen.lean
  on *symbolic* operands, so that one comparison with the real generated function (evaluated on the
  harness's own free polynomial ring) covers all coefficient values; and it is the normal form the
  Hitzer identities are reflected through.  Evaluation is proved to be a ring homomorphism in
  Lemmas/PolySound.lean.
-/
namespace Kingdon

abbrev Mono := List Nat          -- sorted variable indices, with repetition
/-- sorted by monomial, non-zero coefficients -/
def Poly := List (Mono × Int)

namespace Poly

def monoLt : Mono → Mono → Bool
  | [], [] => false
  | [], _ :: _ => true
  | _ :: _, [] => false
  | a :: as, b :: bs => if a < b then true else if b < a then false else monoLt as bs

def padd : List (Mono × Int) → List (Mono × Int) → List (Mono × Int)
  | [], q => q
  | p, [] => p
  | (m, c) :: p, (n, d) :: q =>
    if monoLt m n then (m, c) :: padd p ((n, d) :: q)
    else if monoLt n m then (n, d) :: padd ((m, c) :: p) q
    else if c + d = 0 then padd p q else (m, c + d) :: padd p q
termination_by p q => p.length + q.length

def mmul : Mono → Mono → Mono
  | [], n => n
  | m, [] => m
  | a :: as, b :: bs => if a ≤ b then a :: mmul as (b :: bs) else b :: mmul (a :: as) bs
termination_by m n => m.length + n.length

def pscale (m : Mono) (c : Int) (q : List (Mono × Int)) : List (Mono × Int) :=
  q.map fun (n, d) => (mmul m n, c * d)
def pmul (p q : List (Mono × Int)) : List (Mono × Int) :=
  p.foldl (fun acc (m, c) => padd acc (pscale m c q)) []
def pneg (p : List (Mono × Int)) : List (Mono × Int) := p.map fun (m, c) => (m, -c)
def pvar (i : Nat) : List (Mono × Int) := [([i], 1)]
def pone : List (Mono × Int) := [([], 1)]
def pconst (c : Int) : List (Mono × Int) := if c = 0 then [] else [([], c)]

def var (i : Nat) : Poly := pvar i
def const (c : Int) : Poly := pconst c
def toList (p : Poly) : List (Mono × Int) := p

instance : Add Poly := ⟨padd⟩
instance : Mul Poly := ⟨pmul⟩
instance : Neg Poly := ⟨pneg⟩
instance : Sub Poly := ⟨fun a b => padd a (pneg b)⟩
instance : Zero Poly := ⟨([] : List (Mono × Int))⟩
instance : One Poly := ⟨pone⟩
instance : Inhabited Poly := ⟨([] : List (Mono × Int))⟩
instance : BEq Poly := ⟨fun a b => (a.toList == b.toList)⟩
instance : OfNat Poly n := ⟨pconst n⟩

def isZero (p : Poly) : Bool := p.toList.isEmpty

/-- canonical text: `c*v1*v2+c*v3` with monomials in normal-form order; zero is `0` -/
def render (p : Poly) : String :=
  if p.toList.isEmpty then "0" else
  String.intercalate "+" (p.toList.map fun (m, c) =>
    String.intercalate "*" (toString c :: m.map toString))

end Poly
end Kingdon

/-
  L8 of the model: the payload of the graph widget.
  Anchors: graph.py:18-50 (walker / encode), 53-133 (traitlet defaults), 135-165 (drag handling),
           graph.js:14-24 (toElement / decode as executed by the front end).
  Import-free.
-/
import Kingdon.Model.Blade
namespace Kingdon.Graph

/-- what the user hands to `Algebra.graph` -/
inductive Subj (V : Type) where
  | atom (s : String)                                  -- colours, strings, numbers: passed through
  | mv (keys : List Nat) (vals : List V)               -- a multivector (list- or ndarray-backed), one element
  | mvArr (keys : List Nat) (elems : List (List V))    -- array-valued: `itermv()` yields these value lists in order
  | seq (isTuple : Bool) (xs : List (Subj V))          -- list / tuple
  | thunk (x : Subj V)                                 -- zero-argument callable and what it returns

/-- what reaches the front end -/
inductive Payload (V : Type) where
  | atom (s : String)
  | mv (vals : List V) (keys : Option (List Nat))      -- `{'mv': values}` / `{'mv': values, 'keys': keys}`
  | seq (xs : List (Payload V))                        -- walker turns lists and tuples into lists

variable {V : Type}

/-- `encode` of one multivector: keys are omitted exactly for the canonical full layout (after fix ccb1879) -/
def encodeMV (canon : List Nat) (keys : List Nat) (vals : List V) : Payload V :=
  if keys = canon then .mv vals none else .mv vals (some keys)

mutual
/-- `walker(encode(o))` for a non-root object: the items the generator contributes to its parent -/
def enc (canon : List Nat) : Subj V → List (Payload V)
  | .atom s => [.atom s]
  | .mv keys vals => [encodeMV canon keys vals]
  | .mvArr keys elems => elems.map fun vals => encodeMV canon keys vals
  | .seq _ xs => [.seq (encList canon xs)]
  | .thunk x => enc canon x
def encList (canon : List Nat) : List (Subj V) → List (Payload V)
  | [] => []
  | x :: xs => enc canon x ++ encList canon xs
end

/-- `GraphWidget.get_subjects`: `walker(encode(pre_subjects, root=True))` -/
def subjects (canon : List Nat) (pre : List (Subj V)) : List (Payload V) := encList canon pre

/-- `_get_pre_subjects`: a single callable argument is called and its result (wrapped in a list if it is not one)
    becomes the subject list -/
def preSubjects : List (Subj V) → List (Subj V)
  | [.thunk (.seq _ xs)] => xs
  | [.thunk x] => [x]
  | raw => raw

/-- position of a key in the canonical order: `key2idx` -/
def key2idx (canon : List Nat) (k : Nat) : Nat := canon.idxOf k

/-- the front end's `toElement`: dense coefficient vector in canonical order -/
def toElement [Zero V] (canon : List Nat) (vals : List V) : Option (List Nat) → List V
  | none => vals
  | some keys =>
    (keys.zip vals).foldl (fun acc (kv : Nat × V) => acc.set (key2idx canon kv.1) kv.2) (List.replicate canon.length 0)

/-- decoded structure as the front end sees it -/
inductive Dec (V : Type) where
  | atom (s : String)
  | elem (dense : List V)
  | seq (xs : List (Dec V))

mutual
def decode [Zero V] (canon : List Nat) : Payload V → Dec V
  | .atom s => .atom s
  | .mv vals keys => .elem (toElement canon vals keys)
  | .seq xs => .seq (decodeList canon xs)
def decodeList [Zero V] (canon : List Nat) : List (Payload V) → List (Dec V)
  | [] => []
  | x :: xs => decode canon x :: decodeList canon xs
end

/-- the true dense coefficient vector of a stored multivector, canonical order, absent = 0 (first occurrence) -/
def dense [Zero V] (canon : List Nat) (keys : List Nat) (vals : List V) : List V :=
  canon.map fun k => match (keys.zip vals).find? (·.1 == k) with
    | some p => p.2
    | none => 0

mutual
/-- the multivectors reachable in a subject, in order, as dense coefficient vectors -/
def leaves [Zero V] (canon : List Nat) : Subj V → List (List V)
  | .atom _ => []
  | .mv keys vals => [dense canon keys vals]
  | .mvArr keys elems => elems.map fun vals => dense canon keys vals
  | .seq _ xs => leavesList canon xs
  | .thunk x => leaves canon x
def leavesList [Zero V] (canon : List Nat) : List (Subj V) → List (List V)
  | [] => []
  | x :: xs => leaves canon x ++ leavesList canon xs
end

mutual
def decLeaves : Dec V → List (List V)
  | .atom _ => []
  | .elem d => [d]
  | .seq xs => decLeavesList xs
def decLeavesList : List (Dec V) → List (List V)
  | [] => []
  | x :: xs => decLeaves x ++ decLeavesList xs
end

/-- `inplacereplace` for one dragged subject: the front end reports the dense canonical vector `new`;
    exactly the stored coefficients are overwritten -/
def dragOne [Inhabited V] (canon : List Nat) (keys : List Nat) (_old : List V) (new : List V) : List V :=
  if keys = canon then new.take canon.length ++ _old.drop (min new.length canon.length)
  else keys.map fun k => new[key2idx canon k]!

/-- a sequence of drag updates on the subject list: `(index, new dense vector)` pairs applied in order -/
def dragAll [Inhabited V] (canon : List Nat) (subs : List (List Nat × List V)) (updates : List (Nat × List V)) :
    List (List Nat × List V) :=
  updates.foldl (fun ss (u : Nat × List V) =>
    match ss[u.1]? with
    | none => ss
    | some (keys, old) => ss.set u.1 (keys, dragOne canon keys old u.2)) subs

end Kingdon.Graph

/-
  Reflection harness for the closed-form inverses: run `hitzerNum` once on the dense symbolic multivector over the
  executable polynomial normal form and test that x * num and num * x have no non-scalar component.
  Import-free (evaluated by the kernel through `decide +kernel`).
-/
import Kingdon.Model.Hitzer
import Kingdon.Model.Poly
namespace Kingdon

/-- total coefficient of blade `k` (repeated keys summed) -/
def collect {β : Type} [Add β] [Zero β] (k : Nat) (m : MV β) : β :=
  (m.filter (·.1 == k)).foldl (fun acc kv => acc + kv.2) 0

/-- every non-scalar blade has total coefficient the zero polynomial -/
def scalarOnly (m : MV Poly) : Bool := (m.map (·.1)).all fun k => k == 0 || (collect k m).isZero

/-- the dense symbolic multivector: coefficient of blade `k` is the variable `k` -/
def denseSym (c : Cfg) : MV Poly := (List.range (2 ^ c.d)).map fun k => (k, Poly.var k)

/-- both Hitzer identities, as polynomial identities in the 2^d coefficients -/
def hitzerCheck (c : Cfg) : Bool :=
  match hitzerNum c (denseSym c) with
  | some num => scalarOnly (gp c (denseSym c) num) && scalarOnly (gp c num (denseSym c))
  | none => false

end Kingdon

/-
  L6 of the model: `MultiVector.__new__` branch by branch, and the accessors.
  Anchors: multivector.py:21-98 (__new__), 167-179 (grade), 316-372 (__getattr__, __contains__, map, filter),
           396-408 (asfullmv); algebra.py:361-415 (convenience constructors).
  Import-free.  Values are an abstract type `V`; symbolic values are built by `mkSym name suffix`.
-/
import Kingdon.Model.Codegen
namespace Kingdon.Con

inductive Err where
  | valueError | typeError | keyError
deriving DecidableEq, Repr

/-- a key as the user may pass it: an integer or a blade name -/
inductive KeyIn where
  | int (k : Nat)
  | name (n : List Nat)
deriving DecidableEq, Repr

inductive ValuesIn (V : Type) where
  | none                                   -- `values=None`
  | list (vs : List V)                     -- a sequence
  | mapping (items : List (KeyIn × V))     -- a Mapping (insertion order)

structure Form (V : Type) where
  values : ValuesIn V
  keys : Option (List KeyIn)
  name : Option String
  grades : Option (List Int)
  items : List (List Nat × V)              -- keyword blades in call order (spelling, value)

variable {V : Type}

/-- `k if k in bin2canon else canon2bin[k]` -/
def sanitizeKey (c : Cfg) : KeyIn → Except Err Nat
  | .int k => if k < 2 ^ c.d then .ok k else .error .keyError
  | .name n => if c.basis.contains n then .ok (c.binOf n) else .error .keyError

def isInt : KeyIn → Bool
  | .int _ => true
  | .name _ => false

/-- the sanitising step: only when not all keys are ints -/
def sanitizeKeys (c : Cfg) (ks : List KeyIn) : Except Err (List KeyIn) :=
  if ks.all isInt then .ok ks else (ks.mapM (sanitizeKey c)).map (·.map KeyIn.int)

def keyNat : KeyIn → Nat
  | .int k => k
  | .name _ => 0

/-- `tuple(sorted({popcount(k) for k in keys}))` -/
def gradesOfKeys (ks : List Nat) : List Nat :=
  ((ks.map popcount).eraseDups).mergeSort

/-- `algebra.indices_for_grades[grades]`: a dict keyed by strictly increasing tuples of grades in `0..d` -/
def indicesForGradesLookup (c : Cfg) (gs : List Nat) : Except Err (List Nat) :=
  if gs.Pairwise (· < ·) && gs.all (· ≤ c.d) then .ok (c.indicesForGrades gs) else .error .keyError

/-- the keyword branch (after the fix c249a88): every non-canonical spelling is re-keyed with its sign; unknown
    or repeated blades raise; then `zip(*((blade, items[blade]) for blade in canon2bin if blade in items))` -/
def rekeyItems [Neg V] (c : Cfg) : List (List Nat × V) → List (List Nat × V) → Except Err (List (List Nat × V))
  | [], acc => .ok acc
  | (sp, v) :: rest, acc =>
    -- python iterates over a snapshot of the keys; canonical spellings stay in place
    if c.basis.contains sp then rekeyItems c rest acc
    else match c.blade2canon sp with
      | none => .error .valueError
      | some (target, swaps) =>
        if (acc.map (·.1)).contains target then .error .valueError
        else
          let acc' := (acc.filter (·.1 != sp)) ++ [(target, if swaps % 2 = 1 then -v else v)]
          rekeyItems c rest acc'

def keywordBranch [Neg V] (c : Cfg) (items : List (List Nat × V)) : Except Err (List KeyIn × List V) := do
  -- python dict semantics: a keyword can occur only once, so `items` has distinct spellings
  let re ← rekeyItems c items items
  let sel := c.basis.filterMap fun n => (re.find? (·.1 == n)).map fun p => (KeyIn.name n, p.2)
  if sel.isEmpty then .error .valueError      -- `keys, values = zip(*())` : not enough values to unpack
  else .ok (sel.map (·.1), sel.map (·.2))

/-- `MultiVector.__new__` -/
def construct [Neg V] (c : Cfg) (graded : Bool) (mkSym : String → List Nat → V) (f : Form V) :
    Except Err (List Nat × List V) := do
  -- keyword blades
  let (keys0, values0) ←
    match f.items, f.keys, f.values with
    | _ :: _, none, .none => do
      let (ks, vs) ← keywordBranch c f.items
      pure (some ks, ValuesIn.list vs)
    | _, _, _ => pure (f.keys, f.values)
  -- sanitize
  let keys1 ← match keys0 with
    | none => pure none
    | some ks => do let ks' ← sanitizeKeys c ks; pure (some ks')
  let grades1 : Option (List Int) :=
    match f.grades, f.name, keys1 with
    | none, some nm, some ks => if nm.isEmpty then none else some ((gradesOfKeys (ks.map keyNat)).map Int.ofNat)
    | g, _, _ => g
  let keys2 : List KeyIn := keys1.getD []
  -- grades
  let grades2 : List Nat ←
    match grades1 with
    | some gs => if gs.all (fun g => 0 ≤ g && g ≤ (c.d : Int)) then pure (gs.map Int.toNat) else throw Err.valueError
    | none => if !keys2.isEmpty then pure (gradesOfKeys (keys2.map keyNat)) else pure (List.range (c.d + 1))
  -- graded mode
  if graded && !keys2.isEmpty then
    let exp ← indicesForGradesLookup c grades2
    if keys2.map keyNat != exp || !keys2.all isInt then throw Err.valueError
  -- the kind of input
  let named := match f.name with | some nm => !nm.isEmpty | none => false
  let (keys3, values3) : List KeyIn × List V ←
    match values0 with
    | .mapping items => pure (items.map (·.1), items.map (·.2))
    | .none | .list [] =>
      -- `len(values) == len(indices_for_grades[grades]) and not keys`
      let exp ← indicesForGradesLookup c grades2
      if exp.isEmpty && keys2.isEmpty then pure (([] : List KeyIn), ([] : List V))
      else if named then
        let ks := if keys2.isEmpty then exp.map KeyIn.int else keys2
        pure (ks, ks.map fun k => mkSym (f.name.getD "") (c.nameOf (keyNat k)))
      else if keys2.length != 0 then throw Err.typeError
      else pure (keys2, [])
    | .list vs =>
      let exp ← indicesForGradesLookup c grades2
      if vs.length == exp.length && keys2.isEmpty then pure (exp.map KeyIn.int, vs)
      else if keys2.length != vs.length then throw Err.typeError
      else pure (keys2, vs)
  let keys4 ← sanitizeKeys c keys3
  let keysN := keys4.map keyNat
  let exp ← indicesForGradesLookup c grades2
  if !keysN.all (exp.contains ·) then throw Err.valueError
  pure (keysN, values3)

/-- grades fixed by the convenience constructors of `Algebra` (algebra.py:361-415) -/
def ctorGrades (d : Nat) : String → Option (List Int)
  | "evenmv" => some (((List.range (d + 1)).filter (· % 2 == 0)).map Int.ofNat)
  | "oddmv" => some (((List.range (d + 1)).filter (· % 2 == 1)).map Int.ofNat)
  | "scalar" => some [0]
  | "vector" => some [1]
  | "bivector" => some [2]
  | "trivector" => some [3]
  | "quadvector" => some [4]
  | "pseudoscalar" => some [(d : Int)]
  | "pseudovector" => some [(d : Int) - 1]
  | "pseudobivector" => some [(d : Int) - 2]
  | "pseudotrivector" => some [(d : Int) - 3]
  | "pseudoquadvector" => some [(d : Int) - 4]
  | _ => none

/-! ### accessors -/

/-- `MultiVector.__getattr__(spelling)` -/
def getattr [Neg V] [Zero V] (c : Cfg) (mv : List Nat × List V) (sp : List Nat) : V :=
  match c.blade2canon sp with
  | none => 0
  | some (canon, swaps) =>
    if !c.basis.contains canon then 0 else
    let k := c.binOf canon
    match (mv.1.zip mv.2).find? (·.1 == k) with
    | none => 0
    | some p => if swaps % 2 = 0 then p.2 else -p.2

/-- `item in mv` -/
def contains (mv : List Nat × List V) (k : Nat) : Bool := mv.1.contains k

end Kingdon.Con

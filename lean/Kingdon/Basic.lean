def hello := "world"

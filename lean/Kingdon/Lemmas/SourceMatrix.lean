/-
  The translated `matrix_rep` / `ordering_matrix` (matrixreps.py), instantiated with the model's matrix operations on
  sized matrices, computes the model's `Mx.matrixBasis`.
-/
import Kingdon.Generated.Source
import Kingdon.Model.Matrix
import Kingdon.Lemmas.CfgSign
import Kingdon.Lemmas.MatrixLemmas
import Mathlib.Data.List.Forall2
import Mathlib.Data.List.Sort
import Mathlib.Data.Nat.Choose.Sum
namespace Kingdon.SrcEq
open Kingdon Kingdon.Mx

/-- a matrix with its size: (n, entries) -/
abbrev SMat := Nat × Mat

/-- numpy's operations as the model has them (entries outside the size are never read by the statements below) -/
def modelMatOps : Src.MatOps SMat where
  i2 := (2, I2)
  ip2 := (2, Ip2)
  p2 := (2, P2)
  n2 := (2, N2)
  z2 := (2, Z2)
  kron := fun A B => (A.1 * B.1, kron B.1 A.2 B.2)
  matmul := fun A B => (A.1, matMul A.1 A.2 B.2)
  transpose := fun A => (A.1, Mx.transpose A.2)
  col0 := fun A => (A.1, fun i _ => A.2 i 0)
  vstack := fun cols => (cols.length, fun i k => (cols[i]?.getD (0, fun _ _ => 0)).2 k 0)
  one := (1, fun _ _ => 1)
  eye1 := (1, fun _ _ => 1)

/-- the `blades` argument `Algebra.matrix_basis` passes for a custom basis:
    `[[int(ei, 16) - start_index for ei in eJ[1:]] for eJ in canon2bin]` -/
def bladesArg (c : Cfg) : List (List Int) := c.basis.map fun n => n.map fun l => Int.ofNat l - Int.ofNat c.start

/-- (p, q, r) as `__post_init__` derives them from the signature -/
def countOf (sig : List Int) (s : Int) : Int := Int.ofNat (sig.count s)


/-! ### Kronecker chains -/

theorem foldl_kron_two (l : List Mat) (acc : SMat) :
    (l.map (fun m => ((2 : Nat), m))).foldl modelMatOps.kron acc =
      (acc.1 * 2 ^ l.length, l.foldl (fun a m => kron 2 a m) acc.2) := by
  induction l generalizing acc with
  | nil => simp
  | cons m l ih =>
    rw [List.map_cons, List.foldl_cons, ih]
    simp only [modelMatOps, List.length_cons, List.foldl_cons, Nat.pow_succ]
    congr 1
    rw [Nat.mul_assoc, Nat.mul_comm 2]

theorem chain_eq_map (i k : Nat) (B : Mat) :
    List.replicate i modelMatOps.i2 ++ [((2 : Nat), B)] ++ List.replicate k modelMatOps.ip2 =
      (List.replicate i I2 ++ [B] ++ List.replicate k Ip2).map (fun m => ((2 : Nat), m)) := by
  simp [modelMatOps]

theorem chain_fold (sig : List Int) (i : Nat) (hi : i < sig.length) :
    (List.replicate i modelMatOps.i2 ++ [((2 : Nat), blockOf (sig[i]!))] ++
        List.replicate (sig.length - i - 1) modelMatOps.ip2).foldl modelMatOps.kron modelMatOps.one =
      (2 ^ sig.length, genMat sig i) := by
  rw [chain_eq_map, foldl_kron_two]
  have hl : (List.replicate i I2 ++ [blockOf (sig[i]!)] ++ List.replicate (sig.length - i - 1) Ip2).length = sig.length := by
    simp; omega
  rw [hl]
  simp [modelMatOps, genMat, kronAll]

theorem iden_fold (d : Nat) :
    (List.replicate d modelMatOps.i2).foldl modelMatOps.kron modelMatOps.eye1 = (2 ^ d, kronAll (List.replicate d I2)) := by
  have : List.replicate d modelMatOps.i2 = (List.replicate d I2).map (fun m => ((2 : Nat), m)) := by
    simp [modelMatOps]
  rw [this, foldl_kron_two]
  simp [modelMatOps, kronAll]

theorem kronAll_I2 (d a b : Nat) (ha : a < 2 ^ d) (hb : b < 2 ^ d) :
    kronAll (List.replicate d I2) a b = ident a b := by
  rw [kronAll_eq_kronF]
  simp only [List.length_replicate]
  apply kronF_ident _ _ _ a b ha hb
  intro k hk x y _ _
  simp [hk]


/-! ### the translated function, cut into its loops -/

abbrev St (μ : Type) := List μ × List μ × List μ × List μ

def body1 {μ : Type} (s : Int) (st : St μ) : Py.M (ForInStep (St μ)) :=
  if (s == (0 : Int)) = true then do
    let popped ← Py.pop st.2.1 0
    pure (ForInStep.yield (Py.append st.1 popped.1, popped.2, st.2.2.1, st.2.2.2))
  else if (s == (1 : Int)) = true then do
    let popped ← Py.pop st.2.2.1 0
    pure (ForInStep.yield (Py.append st.1 popped.1, st.2.1, popped.2, st.2.2.2))
  else if (s == (-1 : Int)) = true then do
    let popped ← Py.pop st.2.2.2 0
    pure (ForInStep.yield (Py.append st.1 popped.1, st.2.1, st.2.2.1, popped.2))
  else pure (ForInStep.yield (st.1, st.2.1, st.2.2.1, st.2.2.2))

def esGen {μ : Type} (ops : Src.MatOps μ) (d : Int) (x : Int × μ) : μ :=
  List.foldl ops.kron ops.one
    (Py.append (List.map (fun _ => ops.i2) (Py.range 0 x.1)) x.2 ++ List.map (fun _ => ops.ip2) (Py.range 0 (d - x.1 - 1)))

def body2 {μ : Type} (ops : Src.MatOps μ) (d : Int) (x : Int × μ) (Es : List μ) : Py.M (ForInStep (List μ)) :=
  pure (ForInStep.yield (Py.append Es (esGen ops d x)))

def idenOf {μ : Type} (ops : Src.MatOps μ) (d : Int) : μ :=
  List.foldl ops.kron ops.eye1 (List.map (fun _ => ops.i2) (Py.range 0 d))

def finish {μ : Type} (ops : Src.MatOps μ) (Rs : List μ) : Py.M (List μ) := do
  let O ← Src.ordering_matrix ops Rs
  pure (List.map (fun Ri => ops.matmul (ops.matmul O Ri) (ops.transpose O)) Rs)

def rsBlades {μ : Type} (ops : Src.MatOps μ) (Es : List μ) (Iden : μ) (blades : List (List Int)) : Py.M (List μ) :=
  List.mapM (fun blade => do
      let xs ← List.mapM (fun i => Py.getItem Es i) blade
      pure (List.foldl (fun x y => ops.matmul x y) Iden xs)) blades

def body3 {μ : Type} (ops : Src.MatOps μ) (Es : List μ) (i : Int) (Rs : List μ) : Py.M (ForInStep (List μ)) := do
  let g ← List.mapM (fun comb => Py.reduce (fun x y => ops.matmul x y) comb) (Py.combinations Es i)
  pure (ForInStep.yield (Rs ++ g))

theorem matrix_rep_blades_unfold {μ : Type} (ops : Src.MatOps μ) (p q r : Int) (sig : List Int) (blades : List (List Int)) :
    Src.matrix_rep ops p q r (some sig) (some blades) = (do
      let st ← forIn sig (([] : List μ), List.map (fun _ => ops.z2) (Py.range 0 r), List.map (fun _ => ops.p2) (Py.range 0 p),
        List.map (fun _ => ops.n2) (Py.range 0 q)) body1
      let Es ← forIn (Py.enumerate st.1) ([] : List μ) (body2 ops (p + q + r))
      let Rs ← rsBlades ops Es (idenOf ops (p + q + r)) blades
      finish ops Rs) := by
  rfl

theorem matrix_rep_default_unfold {μ : Type} (ops : Src.MatOps μ) (p q r : Int) (sig : List Int) :
    Src.matrix_rep ops p q r (some sig) none = (do
      let st ← forIn sig (([] : List μ), List.map (fun _ => ops.z2) (Py.range 0 r), List.map (fun _ => ops.p2) (Py.range 0 p),
        List.map (fun _ => ops.n2) (Py.range 0 q)) body1
      let Es ← forIn (Py.enumerate st.1) ([] : List μ) (body2 ops (p + q + r))
      let Rs ← forIn (Py.range 2 (p + q + r + 1)) (Py.insert Es 0 (idenOf ops (p + q + r))) (body3 ops Es)
      finish ops Rs) := by
  rfl


/-! ### loop lemmas -/

def blk {μ : Type} (ops : Src.MatOps μ) (s : Int) : μ := if s = 0 then ops.z2 else if s = 1 then ops.p2 else ops.n2

theorem pop_replicate {α : Type} (m : Nat) (a : α) : Py.pop (List.replicate (m + 1) a) 0 = .ok (a, List.replicate m a) := by
  simp [Py.pop, Py.normIdx, List.replicate_succ]
  rfl

theorem loop1 {μ : Type} (ops : Src.MatOps μ) (sig : List Int) (hs : ∀ s ∈ sig, s = 1 ∨ s = -1 ∨ s = 0) (acc : List μ)
    (nR nP nN : Nat) (hR : sig.count 0 ≤ nR) (hP : sig.count 1 ≤ nP) (hN : sig.count (-1) ≤ nN) :
    forIn sig (acc, List.replicate nR ops.z2, List.replicate nP ops.p2, List.replicate nN ops.n2) body1 =
      (.ok (acc ++ sig.map (blk ops), List.replicate (nR - sig.count 0) ops.z2, List.replicate (nP - sig.count 1) ops.p2,
        List.replicate (nN - sig.count (-1)) ops.n2) : Py.M (St μ)) := by
  induction sig generalizing acc nR nP nN with
  | nil => simp; rfl
  | cons s sig ih =>
    have hs' : ∀ s ∈ sig, s = 1 ∨ s = -1 ∨ s = 0 := fun x hx => hs x (by simp [hx])
    rw [List.forIn_cons]
    rcases hs s (by simp) with rfl | rfl | rfl
    · simp only [List.count_cons] at hR hP hN ⊢
      simp at hR hP hN
      obtain ⟨m, rfl⟩ : ∃ m, nP = m + 1 := ⟨nP - 1, by omega⟩
      simp only [body1, pop_replicate]
      simp [Py.append]
      show forIn sig (acc ++ [ops.p2], _, List.replicate m ops.p2, _) body1 = _
      rw [ih hs' _ _ _ _ hR (by omega) hN]
      simp [blk]
    · simp only [List.count_cons] at hR hP hN ⊢
      simp at hR hP hN
      obtain ⟨m, rfl⟩ : ∃ m, nN = m + 1 := ⟨nN - 1, by omega⟩
      simp only [body1, pop_replicate]
      simp [Py.append]
      show forIn sig (acc ++ [ops.n2], _, _, List.replicate m ops.n2) body1 = _
      rw [ih hs' _ _ _ _ hR hP (by omega)]
      simp [blk]
    · simp only [List.count_cons] at hR hP hN ⊢
      simp at hR hP hN
      obtain ⟨m, rfl⟩ : ∃ m, nR = m + 1 := ⟨nR - 1, by omega⟩
      simp only [body1, pop_replicate]
      simp [Py.append]
      show forIn sig (acc ++ [ops.z2], List.replicate m ops.z2, _, _) body1 = _
      rw [ih hs' _ _ _ _ (by omega) hP hN]
      simp [blk]

theorem map_range_const {α : Type} (a : α) (n : Nat) :
    List.map (fun _ => a) (Py.range 0 (Int.ofNat n)) = List.replicate n a := by
  unfold Py.range
  rw [List.map_map]
  show List.map (fun _ => a) (List.range _) = _
  rw [List.map_const', List.length_range]
  simp

theorem forIn_append_pure {α β : Type} (l : List α) (g : α → β) (init : List β) :
    forIn (m := Py.M) l init (fun x acc => pure (ForInStep.yield (Py.append acc (g x)))) = pure (init ++ l.map g) := by
  induction l generalizing init with
  | nil => simp
  | cons a l ih => rw [List.forIn_cons, pure_bind]; simp only []; rw [ih]; simp [Py.append]

theorem mapM_pure {α β : Type} (l : List α) (f : α → Py.M β) (g : α → β) (h : ∀ x ∈ l, f x = pure (g x)) :
    l.mapM f = pure (l.map g) := by
  induction l with
  | nil => simp
  | cons a l ih =>
    rw [List.mapM_cons, h a (by simp), ih (fun x hx => h x (by simp [hx]))]
    simp

theorem forIn_extend {α β : Type} (l : List α) (f : α → Py.M (List β)) (g : α → List β)
    (h : ∀ x ∈ l, f x = pure (g x)) (init : List β) :
    forIn (m := Py.M) l init (fun x acc => do let y ← f x; pure (ForInStep.yield (acc ++ y))) =
      pure (init ++ l.flatMap g) := by
  induction l generalizing init with
  | nil => simp
  | cons a l ih =>
    rw [List.forIn_cons, h a (by simp)]
    simp only [pure_bind]
    rw [ih (fun x hx => h x (by simp [hx]))]
    simp


theorem blk_model (s : Int) : blk modelMatOps s = ((2 : Nat), blockOf s) := by
  unfold blk blockOf
  split
  · rfl
  · split <;> rfl

theorem count_total (sig : List Int) (hs : ∀ s ∈ sig, s = 1 ∨ s = -1 ∨ s = 0) :
    sig.count 1 + sig.count (-1) + sig.count 0 = sig.length := by
  induction sig with
  | nil => rfl
  | cons s sig ih =>
    have := ih (fun x hx => hs x (by simp [hx]))
    rcases hs s (by simp) with rfl | rfl | rfl <;> simp <;> omega

theorem countOf_total (sig : List Int) (hs : ∀ s ∈ sig, s = 1 ∨ s = -1 ∨ s = 0) :
    countOf sig 1 + countOf sig (-1) + countOf sig 0 = Int.ofNat sig.length := by
  have := count_total sig hs
  unfold countOf
  simp only [Int.ofNat_eq_natCast]
  omega

theorem enumerateFrom_length {α : Type} (n : Nat) (l : List α) : (Py.enumerateFrom n l).length = l.length := by
  induction l generalizing n with
  | nil => rfl
  | cons a l ih => simp [Py.enumerateFrom, ih]

theorem enumerateFrom_getElem {α : Type} (n : Nat) (l : List α) (k : Nat) (hk : k < (Py.enumerateFrom n l).length)
    (hk' : k < l.length) :
    (Py.enumerateFrom n l)[k] = (Int.ofNat (n + k), l[k]) := by
  induction l generalizing n k with
  | nil => simp at hk'
  | cons a l ih =>
    cases k with
    | zero => simp [Py.enumerateFrom]
    | succ k =>
      simp only [Py.enumerateFrom, List.getElem_cons_succ]
      rw [ih]
      · congr 2; omega
      · simpa using hk'

/-- the first loop, for the model's operations -/
theorem loop1_model (sig : List Int) (hs : ∀ s ∈ sig, s = 1 ∨ s = -1 ∨ s = 0) :
    ∃ rest, forIn sig (([] : List SMat), List.map (fun _ => modelMatOps.z2) (Py.range 0 (countOf sig 0)),
        List.map (fun _ => modelMatOps.p2) (Py.range 0 (countOf sig 1)),
        List.map (fun _ => modelMatOps.n2) (Py.range 0 (countOf sig (-1)))) body1 =
      (.ok (sig.map (fun s => ((2 : Nat), blockOf s)), rest) : Py.M (St SMat)) := by
  unfold countOf
  rw [map_range_const, map_range_const, map_range_const,
    loop1 modelMatOps sig hs [] _ _ _ (Nat.le_refl _) (Nat.le_refl _) (Nat.le_refl _)]
  have hm : List.map (blk modelMatOps) sig = List.map (fun s => ((2 : Nat), blockOf s)) sig :=
    List.map_congr_left (fun s _ => blk_model s)
  rw [List.nil_append, hm]
  exact ⟨_, rfl⟩

/-- the generator matrices the model has -/
def esModel (sig : List Int) : List SMat := (List.range sig.length).map fun k => (2 ^ sig.length, genMat sig k)

theorem esGen_model (sig : List Int) (k : Nat) (hk : k < sig.length) :
    esGen modelMatOps (Int.ofNat sig.length) (Int.ofNat k, ((2 : Nat), blockOf sig[k])) = (2 ^ sig.length, genMat sig k) := by
  unfold esGen
  have e : (Int.ofNat sig.length - Int.ofNat k - 1) = Int.ofNat (sig.length - k - 1) := by
    simp only [Int.ofNat_eq_natCast]; omega
  simp only [e, map_range_const, Py.append]
  have := chain_fold sig k hk
  rw [getElem!_pos sig k hk] at this
  exact this

theorem loop2_model (sig : List Int) :
    forIn (Py.enumerate (sig.map (fun s => ((2 : Nat), blockOf s)))) ([] : List SMat) (body2 modelMatOps (Int.ofNat sig.length)) =
      (.ok (esModel sig) : Py.M (List SMat)) := by
  have hb : body2 modelMatOps (Int.ofNat sig.length) =
      fun x acc => pure (ForInStep.yield (Py.append acc (esGen modelMatOps (Int.ofNat sig.length) x))) := rfl
  rw [hb, forIn_append_pure]
  show Except.ok _ = Except.ok _
  congr 1
  simp only [List.nil_append]
  apply List.ext_getElem
  · simp [Py.enumerate, enumerateFrom_length, esModel]
  · intro k h1 h2
    have hk : k < sig.length := by simpa [esModel] using h2
    simp only [List.getElem_map, Py.enumerate, esModel, List.getElem_range]
    rw [enumerateFrom_getElem 0 _ k (by simpa [enumerateFrom_length] using hk) (by simpa using hk)]
    simp only [List.getElem_map, Nat.zero_add]
    exact esGen_model sig k hk

/-! ### sized matrices that agree with a model matrix below their size -/

/-- `R` has size `N` and agrees with `M` on all entries below `N` -/
def MRel (N : Nat) (R : SMat) (M : Mat) : Prop := R.1 = N ∧ ∀ i j, i < N → j < N → R.2 i j = M i j

theorem matMul_congr (N : Nat) (A A' B B' : Mat) (hA : ∀ i j, i < N → j < N → A i j = A' i j)
    (hB : ∀ i j, i < N → j < N → B i j = B' i j) (i j : Nat) (hi : i < N) (hj : j < N) :
    matMul N A B i j = matMul N A' B' i j := by
  unfold matMul
  congr 1
  apply List.map_congr_left
  intro k hk
  simp only [List.mem_range] at hk
  rw [hA i k hi hk, hB k j hk hj]

theorem MRel.matmul {N : Nat} {A B : SMat} {A' B' : Mat} (hA : MRel N A A') (hB : MRel N B B') :
    MRel N (modelMatOps.matmul A B) (matMul N A' B') := by
  obtain ⟨a1, a2⟩ := hA
  obtain ⟨_, b2⟩ := hB
  refine ⟨a1, fun i j hi hj => ?_⟩
  show matMul A.1 A.2 B.2 i j = _
  rw [a1]
  exact matMul_congr N _ _ _ _ a2 b2 i j hi hj

theorem MRel.transpose {N : Nat} {A : SMat} {A' : Mat} (hA : MRel N A A') :
    MRel N (modelMatOps.transpose A) (Mx.transpose A') :=
  ⟨hA.1, fun i j hi hj => hA.2 j i hj hi⟩

theorem MRel.foldl {α : Type} {N : Nat} (F : α → SMat) (G : α → Mat) (l : List α) (h : ∀ x ∈ l, MRel N (F x) (G x))
    (A : SMat) (A' : Mat) (hA : MRel N A A') :
    MRel N (l.foldl (fun acc x => modelMatOps.matmul acc (F x)) A) (l.foldl (fun acc x => matMul N acc (G x)) A') := by
  induction l generalizing A A' with
  | nil => exact hA
  | cons x l ih =>
    simp only [List.foldl_cons]
    exact ih (fun y hy => h y (by simp [hy])) _ _ (hA.matmul (h x (by simp)))

theorem matMul_ident_left (N : Nat) (B : Mat) (i j : Nat) (hi : i < N) : matMul N ident B i j = B i j := by
  rw [matMul_eq_sum]
  simp only [ident]
  rw [Finset.sum_eq_single i]
  · simp
  · intro k _ hk; simp [Ne.symm hk]
  · intro h; simp at h; omega

theorem iden_rel (d : Nat) : MRel (2 ^ d) ((2 : Nat) ^ d, kronAll (List.replicate d I2)) ident :=
  ⟨rfl, fun i j hi hj => kronAll_I2 d i j hi hj⟩

/-! ### the ordering transform -/

theorem finish_rel (N : Nat) (hN : 0 < N) (Rs : List SMat) (Ms : List Mat) (hl : Rs.length = N)
    (h : List.Forall₂ (MRel N) Rs Ms) :
    ∃ Fs, finish modelMatOps Rs = .ok Fs ∧
      List.Forall₂ (MRel N) Fs (Ms.map fun R => matMul N (matMul N (ordering Ms) R) (Mx.transpose (ordering Ms))) := by
  have hO : MRel N (modelMatOps.vstack (Rs.map modelMatOps.col0)) (ordering Ms) := by
    refine ⟨by simp [modelMatOps, hl], fun i k hi hk => ?_⟩
    have h1 : i < Rs.length := by omega
    have h2 : i < Ms.length := by rw [← h.length_eq]; exact h1
    have hr := h.get h1 h2
    simp only [modelMatOps, ordering, List.getElem?_map, List.getElem?_eq_getElem h1, List.getElem?_eq_getElem h2,
      Option.map_some, Option.getD_some]
    exact hr.2 k 0 hk hN
  refine ⟨_, rfl, ?_⟩
  rw [List.forall₂_map_left_iff, List.forall₂_map_right_iff]
  exact h.imp fun R M hRM => (hO.matmul hRM).matmul hO.transpose

/-- from the relation between lists to the indexed form of the main statements -/
theorem forall₂_index (N : Nat) (Fs : List SMat) (Ms : List Mat) (h : List.Forall₂ (MRel N) Fs Ms) :
    ∀ k, k < Fs.length → (Fs[k]!).1 = N ∧ ∀ i j, i < N → j < N → (Fs[k]!).2 i j = (Ms[k]!) i j := by
  intro k hk
  have h2 : k < Ms.length := by rw [← h.length_eq]; exact hk
  have := h.get hk h2
  rw [getElem!_pos Fs k hk, getElem!_pos Ms k h2]
  exact this

theorem getItem_ofNat {α : Type} (l : List α) (k : Nat) (hk : k < l.length) :
    Py.getItem l (Int.ofNat k) = pure l[k] := by
  simp [Py.getItem, Py.normIdx, hk]

theorem getItem_esModel (sig : List Int) (k : Nat) (hk : k < sig.length) :
    Py.getItem (esModel sig) (Int.ofNat k) = pure (2 ^ sig.length, genMat sig k) := by
  rw [getItem_ofNat _ k (by simpa [esModel] using hk)]
  simp [esModel]

/-- one blade of the `blades` argument -/
theorem blade_model (sig : List Int) (start : Nat) (name : List Nat)
    (hn : ∀ l ∈ name, start ≤ l ∧ l < start + sig.length) :
    ∃ R, (do
        let xs ← List.mapM (fun i => Py.getItem (esModel sig) i) (name.map fun l => Int.ofNat l - Int.ofNat start)
        pure (List.foldl (fun x y => modelMatOps.matmul x y) ((2 : Nat) ^ sig.length, kronAll (List.replicate sig.length I2)) xs) : Py.M SMat) = pure R ∧
      MRel (2 ^ sig.length) R (bladeMat sig (name.map (· - start))) := by
  rw [mapM_pure _ _ (fun i => (2 ^ sig.length, genMat sig i.toNat))]
  · refine ⟨_, rfl, ?_⟩
    rw [List.map_map, List.foldl_map]
    unfold bladeMat
    rw [List.foldl_map]
    apply MRel.foldl _ _ _ _ _ _ (iden_rel sig.length)
    intro l hl
    have := hn l hl
    have e : (Int.ofNat l - Int.ofNat start).toNat = l - start := by
      simp only [Int.ofNat_eq_natCast]; omega
    simp only [Function.comp, e]
    exact ⟨rfl, fun _ _ _ _ => rfl⟩
  · intro i hi
    obtain ⟨l, hl, rfl⟩ := List.mem_map.mp hi
    have := hn l hl
    have e : Int.ofNat l - Int.ofNat start = Int.ofNat (l - start) := by
      simp only [Int.ofNat_eq_natCast]; omega
    rw [e, getItem_esModel sig _ (by omega)]
    simp

theorem rsBlades_model (sig : List Int) (start : Nat) (basis : List (List Nat))
    (hn : ∀ name ∈ basis, ∀ l ∈ name, start ≤ l ∧ l < start + sig.length) :
    ∃ Rs, rsBlades modelMatOps (esModel sig) ((2 : Nat) ^ sig.length, kronAll (List.replicate sig.length I2))
        (basis.map fun n => n.map fun l => Int.ofNat l - Int.ofNat start) = pure Rs ∧
      List.Forall₂ (MRel (2 ^ sig.length)) Rs (basis.map fun name => bladeMat sig (name.map (· - start))) := by
  induction basis with
  | nil => exact ⟨[], rfl, by simp⟩
  | cons name basis ih =>
    obtain ⟨Rs, h1, h2⟩ := ih (fun n hn' => hn n (by simp [hn']))
    obtain ⟨R, h3, h4⟩ := blade_model sig start name (hn name (by simp))
    refine ⟨R :: Rs, ?_, ?_⟩
    · unfold rsBlades at h1 ⊢
      rw [List.map_cons, List.mapM_cons, h3, h1]
      rfl
    · rw [List.map_cons]
      exact List.Forall₂.cons h4 h2

theorem ok_bind {α β : Type} (a : α) (f : α → Py.M β) : (Except.ok a >>= f) = f a := rfl

/-! ### `itertools.combinations` -/

theorem comb_zero {α : Type} (l : List α) : Py.combinationsNat l 0 = [[]] := by
  cases l <;> rfl

theorem comb_cons {α : Type} (a : α) (l : List α) (r : Nat) :
    Py.combinationsNat (a :: l) (r + 1) = (Py.combinationsNat l r).map (a :: ·) ++ Py.combinationsNat l (r + 1) := rfl

theorem comb_map {α β : Type} (f : α → β) (l : List α) (r : Nat) :
    Py.combinationsNat (l.map f) r = (Py.combinationsNat l r).map (List.map f) := by
  induction l generalizing r with
  | nil => cases r <;> rfl
  | cons a l ih =>
    cases r with
    | zero => simp [comb_zero]
    | succ r => simp [comb_cons, ih, Function.comp_def]

theorem comb_one {α : Type} (l : List α) : Py.combinationsNat l 1 = l.map ([·]) := by
  induction l with
  | nil => rfl
  | cons a l ih => simp [comb_cons, comb_zero, ih]

theorem mem_comb {α : Type} (l : List α) (r : Nat) (x : List α) (h : x ∈ Py.combinationsNat l r) :
    x.Sublist l ∧ x.length = r := by
  induction l generalizing r x with
  | nil =>
    cases r with
    | zero => simp [comb_zero] at h; simp [h]
    | succ r => simp [Py.combinationsNat] at h
  | cons a l ih =>
    cases r with
    | zero => simp [comb_zero] at h; simp [h]
    | succ r =>
      rw [comb_cons, List.mem_append] at h
      rcases h with h | h
      · obtain ⟨y, hy, rfl⟩ := List.mem_map.mp h
        obtain ⟨h1, h2⟩ := ih r y hy
        exact ⟨h1.cons_cons a, by simp [h2]⟩
      · obtain ⟨h1, h2⟩ := ih (r + 1) x h
        exact ⟨h1.cons a, h2⟩

theorem sublist_mem_comb {α : Type} (l x : List α) (h : x.Sublist l) : x ∈ Py.combinationsNat l x.length := by
  induction h with
  | slnil => simp [comb_zero]
  | @cons x l a _ ih =>
    cases x with
    | nil => simp [comb_zero]
    | cons b x =>
      simp only [List.length_cons, comb_cons, List.mem_append]
      exact Or.inr ih
  | @cons_cons x l a _ ih =>
    simp only [List.length_cons, comb_cons, List.mem_append]
    exact Or.inl (List.mem_map.mpr ⟨x, ih, rfl⟩)

theorem length_comb {α : Type} (l : List α) (r : Nat) : (Py.combinationsNat l r).length = l.length.choose r := by
  induction l generalizing r with
  | nil => cases r <;> simp [Py.combinationsNat]
  | cons a l ih =>
    cases r with
    | zero => simp [comb_zero]
    | succ r => simp [comb_cons, ih, Nat.choose_succ_succ]

/-! ### the sort order of the default names -/

open Cfg in
theorem lexLt_nil_right (a : List Nat) : lexLt a [] = false := by cases a <;> rfl

open Cfg in
theorem lexLt_cons (a b : Nat) (as bs : List Nat) :
    lexLt (a :: as) (b :: bs) = if a < b then true else if b < a then false else lexLt as bs := rfl

open Cfg in
theorem lexLe_trans (a b c : List Nat) (h1 : lexLt b a = false) (h2 : lexLt c b = false) : lexLt c a = false := by
  induction a generalizing b c with
  | nil => exact lexLt_nil_right c
  | cons x a ih =>
    cases b with
    | nil => simp [lexLt] at h1
    | cons y b =>
      cases c with
      | nil => simp [lexLt] at h2
      | cons z c =>
        rw [lexLt_cons] at h1 h2 ⊢
        by_cases e1 : y < x
        · simp [e1] at h1
        by_cases e2 : z < y
        · simp [e2] at h2
        by_cases e3 : x < y
        · have : ¬ z < x := by omega
          have : x < z := by omega
          simp [*]
        by_cases e4 : y < z
        · have : ¬ z < x := by omega
          have : x < z := by omega
          simp [*]
        have e5 : ¬ z < x := by omega
        have e6 : ¬ x < z := by omega
        simp only [e1, e2, e3, e4, if_false] at h1 h2
        simp only [e5, e6, if_false]
        exact ih b c h1 h2

open Cfg in
theorem lexLe_antisymm (a b : List Nat) (h1 : lexLt b a = false) (h2 : lexLt a b = false) : a = b := by
  induction a generalizing b with
  | nil => cases b with
    | nil => rfl
    | cons y b => simp [lexLt] at h2
  | cons x a ih =>
    cases b with
    | nil => simp [lexLt] at h1
    | cons y b =>
      rw [lexLt_cons] at h1 h2
      by_cases e1 : y < x
      · simp [e1] at h1
      by_cases e2 : x < y
      · simp [e2] at h2
      simp only [e1, e2, if_false] at h1 h2
      rw [ih b h1 h2]
      congr 1; omega

open Cfg in
theorem lexLe_total (a b : List Nat) : lexLt b a = false ∨ lexLt a b = false := by
  induction a generalizing b with
  | nil => exact Or.inl (lexLt_nil_right b)
  | cons x a ih =>
    cases b with
    | nil => exact Or.inr (lexLt_nil_right _)
    | cons y b =>
      rw [lexLt_cons, lexLt_cons]
      by_cases e1 : y < x
      · have : ¬ x < y := by omega
        simp [*]
      by_cases e2 : x < y
      · simp [*]
      simp only [e1, e2, if_false]
      exact ih b

/-- the sort key `(len(name), name)` as a relation -/
def nameRel (a b : List Nat) : Prop := Cfg.nameLe a b = true

instance : DecidableRel nameRel := fun a b => inferInstanceAs (Decidable (Cfg.nameLe a b = true))

theorem nameRel_iff (a b : List Nat) :
    nameRel a b ↔ a.length < b.length ∨ (a.length = b.length ∧ Cfg.lexLt b a = false) := by
  unfold nameRel Cfg.nameLe
  by_cases h1 : a.length < b.length
  · simp [h1]
  · by_cases h2 : b.length < a.length
    · simp [h1, h2]; omega
    · have : a.length = b.length := by omega
      simp [this]

instance : Std.Total nameRel where
  total a b := by
    rw [nameRel_iff, nameRel_iff]
    rcases Nat.lt_trichotomy a.length b.length with h | h | h
    · exact Or.inl (Or.inl h)
    · rcases lexLe_total a b with h' | h'
      · exact Or.inl (Or.inr ⟨h, h'⟩)
      · exact Or.inr (Or.inr ⟨h.symm, h'⟩)
    · exact Or.inr (Or.inl h)

instance : IsTrans (List Nat) nameRel where
  trans a b c := by
    rw [nameRel_iff, nameRel_iff, nameRel_iff]
    rintro (h1 | ⟨h1, h1'⟩) (h2 | ⟨h2, h2'⟩)
    · left; omega
    · left; omega
    · left; omega
    · right; exact ⟨by omega, lexLe_trans a b c h1' h2'⟩

theorem nameRel_antisymm (a b : List Nat) (h1 : nameRel a b) (h2 : nameRel b a) : a = b := by
  rw [nameRel_iff] at h1 h2
  rcases h1 with h1 | ⟨h1, h1'⟩ <;> rcases h2 with h2 | ⟨h2, h2'⟩
  · omega
  · omega
  · omega
  · exact lexLe_antisymm a b h1' h2'

theorem insertSorted_eq (x : List Nat) (l : List (List Nat)) : Cfg.insertSorted x l = l.orderedInsert nameRel x := by
  induction l with
  | nil => rfl
  | cons y l ih =>
    simp only [Cfg.insertSorted, List.orderedInsert_cons, ih]
    rfl

theorem sortNames_eq (l : List (List Nat)) : Cfg.sortNames l = l.insertionSort nameRel := by
  induction l with
  | nil => rfl
  | cons x l ih =>
    show Cfg.insertSorted x (Cfg.sortNames l) = _
    rw [ih, insertSorted_eq]; rfl

theorem comb_sorted (l : List Nat) (hl : l.Pairwise (· < ·)) (r : Nat) :
    (Py.combinationsNat l r).Pairwise (fun x y => Cfg.lexLt y x = false) := by
  induction l generalizing r with
  | nil => cases r <;> simp [Py.combinationsNat]
  | cons a l ih =>
    cases r with
    | zero => simp [comb_zero]
    | succ r =>
      rw [List.pairwise_cons] at hl
      rw [comb_cons, List.pairwise_append]
      refine ⟨?_, ih hl.2 (r + 1), ?_⟩
      · rw [List.pairwise_map]
        refine (ih hl.2 r).imp ?_
        intro x y h
        simp [lexLt_cons, h]
      · intro x hx y hy
        obtain ⟨x', _, rfl⟩ := List.mem_map.mp hx
        obtain ⟨h1, h2⟩ := mem_comb l (r + 1) y hy
        cases y with
        | nil => simp at h2
        | cons b y' =>
          have hb : b ∈ l := h1.subset (by simp)
          have := hl.1 b hb
          rw [lexLt_cons]
          have h' : ¬ b < a := by omega
          simp [h', this]

theorem comb_nameSorted (l : List Nat) (hl : l.Pairwise (· < ·)) (r : Nat) :
    (Py.combinationsNat l r).Pairwise nameRel := by
  refine (comb_sorted l hl r).imp_of_mem ?_
  intro x y hx hy h
  rw [nameRel_iff]
  exact Or.inr ⟨by rw [(mem_comb l r x hx).2, (mem_comb l r y hy).2], h⟩

/-- all grades, ascending combinations in each grade -/
def gradedNames (vecs : List Nat) : List (List Nat) :=
  (List.range (vecs.length + 1)).flatMap fun g => Py.combinationsNat vecs g

theorem gradedNames_sorted (vecs : List Nat) (hl : vecs.Pairwise (· < ·)) : (gradedNames vecs).Pairwise nameRel := by
  unfold gradedNames
  rw [List.pairwise_flatMap]
  refine ⟨fun g _ => comb_nameSorted vecs hl g, ?_⟩
  refine List.pairwise_lt_range.imp ?_
  intro g1 g2 hg x hx y hy
  rw [nameRel_iff]
  left
  rw [(mem_comb _ _ x hx).2, (mem_comb _ _ y hy).2]
  exact hg

theorem natListSum_range (f : Nat → Nat) (n : Nat) :
    ((List.range n).map f).sum = ∑ i ∈ Finset.range n, f i := by
  induction n with
  | zero => simp
  | succ n ih => simp [List.range_succ, Finset.sum_range_succ, ih]

theorem gradedNames_length (vecs : List Nat) : (gradedNames vecs).length = 2 ^ vecs.length := by
  unfold gradedNames
  rw [List.length_flatMap]
  simp only [length_comb]
  rw [natListSum_range, Nat.sum_range_choose]

theorem defaultName_eq (start d I : Nat) :
    Cfg.defaultName start d I = ((List.range d).filter (fun i => I.testBit i)).map (· + start) := by
  unfold Cfg.defaultName
  generalize List.range d = l
  induction l with
  | nil => rfl
  | cons a l ih =>
    by_cases h : I.testBit a <;> simp [h, ih]

theorem defaultName_inj (start d I J : Nat) (hI : I < 2 ^ d) (hJ : J < 2 ^ d)
    (h : Cfg.defaultName start d I = Cfg.defaultName start d J) : I = J := by
  apply Nat.eq_of_testBit_eq
  intro i
  by_cases hi : i < d
  · have key : ∀ K, (i + start) ∈ Cfg.defaultName start d K ↔ K.testBit i = true := by
      intro K
      rw [defaultName_eq]
      simp [hi]
    have h1 := key I
    have h2 := key J
    rw [h] at h1
    rw [Bool.eq_iff_iff, ← h1, h2]
  · have hle : 2 ^ d ≤ 2 ^ i := Nat.pow_le_pow_right (by omega) (by omega)
    rw [Nat.testBit_lt_two_pow (by omega), Nat.testBit_lt_two_pow (by omega)]

theorem default_basis (sig : List Int) (start : Nat) :
    (Cfg.default sig start).basis = gradedNames ((List.range sig.length).map (· + start)) := by
  have hv : ((List.range sig.length).map (· + start)).Pairwise (· < ·) := by
    rw [List.pairwise_map]
    exact List.pairwise_lt_range.imp (by intro a b h; omega)
  have hvl : ((List.range sig.length).map (· + start)).length = sig.length := by simp
  show Cfg.sortNames ((List.range (2 ^ sig.length)).map (Cfg.defaultName start sig.length)) = _
  rw [sortNames_eq]
  apply List.Perm.eq_of_pairwise (le := nameRel) (fun a b _ _ => nameRel_antisymm a b)
    (List.pairwise_insertionSort nameRel _) (gradedNames_sorted _ hv)
  refine (List.perm_insertionSort nameRel _).trans ?_
  apply List.Subperm.perm_of_length_le
  · apply List.subperm_of_subset
    · apply List.Nodup.map_on _ List.nodup_range
      intro I hI J hJ h
      exact defaultName_inj start sig.length I J (List.mem_range.mp hI) (List.mem_range.mp hJ) h
    · intro x hx
      obtain ⟨I, _, rfl⟩ := List.mem_map.mp hx
      have hsub : (Cfg.defaultName start sig.length I).Sublist ((List.range sig.length).map (· + start)) := by
        rw [defaultName_eq]
        exact (List.filter_sublist).map _
      unfold gradedNames
      rw [List.mem_flatMap]
      refine ⟨_, ?_, sublist_mem_comb _ _ hsub⟩
      rw [List.mem_range]
      have := hsub.length_le
      omega
  · rw [gradedNames_length, hvl]; simp

/-! ### the default path -/

/-- `reduce(lambda x, y: x @ y, comb)` for a non-empty `comb` -/
def red : List SMat → SMat
  | [] => (0, fun _ _ => 0)
  | a :: l => l.foldl (fun x y => modelMatOps.matmul x y) a

theorem reduce_eq (comb : List SMat) (h : comb ≠ []) :
    Py.reduce (fun x y => modelMatOps.matmul x y) comb = pure (red comb) := by
  cases comb with
  | nil => exact absurd rfl h
  | cons a l => rfl

/-- the `k`-th generator as a sized matrix -/
def esE (sig : List Int) (k : Nat) : SMat := (2 ^ sig.length, genMat sig k)

theorem esModel_eq (sig : List Int) : esModel sig = (List.range sig.length).map (esE sig) := rfl

theorem red_rel (sig : List Int) (comb : List Nat) (h : comb ≠ []) :
    MRel (2 ^ sig.length) (red (comb.map (esE sig))) (bladeMat sig comb) := by
  cases comb with
  | nil => exact absurd rfl h
  | cons a l =>
    simp only [List.map_cons, red, bladeMat, List.foldl_cons]
    rw [List.foldl_map]
    apply MRel.foldl (esE sig) (genMat sig) l (fun x _ => ⟨rfl, fun _ _ _ _ => rfl⟩)
    exact ⟨rfl, fun i j hi _ => (matMul_ident_left _ _ i j hi).symm⟩

theorem pyRange_two (n : Nat) : Py.range 2 (Int.ofNat n + 1) = (List.range (n - 1)).map fun k => Int.ofNat (k + 2) := by
  unfold Py.range
  have e : (Int.ofNat n + 1 - 2).toNat = n - 1 := by simp only [Int.ofNat_eq_natCast]; omega
  rw [e]
  apply List.map_congr_left
  intro k _
  simp only [Int.ofNat_eq_natCast]; omega

theorem loop3_model (sig : List Int) (Iden : SMat) :
    forIn (Py.range 2 (Int.ofNat sig.length + 1)) (Py.insert (esModel sig) 0 Iden) (body3 modelMatOps (esModel sig)) =
      (.ok (Iden :: esModel sig ++ (List.range (sig.length - 1)).flatMap fun k =>
        (Py.combinationsNat (List.range sig.length) (k + 2)).map fun comb => red (comb.map (esE sig))) : Py.M (List SMat)) := by
  have hb : body3 modelMatOps (esModel sig) = fun i Rs =>
      (List.mapM (fun comb => Py.reduce (fun x y => modelMatOps.matmul x y) comb) (Py.combinations (esModel sig) i)) >>=
        fun g => pure (ForInStep.yield (Rs ++ g)) := rfl
  rw [hb, pyRange_two, forIn_extend _ _
    (fun i => (Py.combinationsNat (List.range sig.length) i.toNat).map fun comb => red (comb.map (esE sig)))]
  · show Except.ok _ = Except.ok _
    congr 1
    rw [List.flatMap_map]
    have e : ∀ k : Nat, (Int.ofNat (k + 2)).toNat = k + 2 := fun _ => rfl
    simp only [e]
    simp [Py.insert]
  · intro i hi
    obtain ⟨k, _, rfl⟩ := List.mem_map.mp hi
    have e1 : ¬ (Int.ofNat (k + 2) < 0) := by simp only [Int.ofNat_eq_natCast]; omega
    have e2 : (Int.ofNat (k + 2)).toNat = k + 2 := rfl
    simp only [Py.combinations, e1, if_false, e2]
    rw [esModel_eq, comb_map, mapM_pure _ _ red]
    · rw [List.map_map]; rfl
    · intro comb hc
      obtain ⟨c, hc', rfl⟩ := List.mem_map.mp hc
      apply reduce_eq
      have := (mem_comb _ _ c hc').2
      intro h0
      rw [List.map_eq_nil_iff] at h0
      rw [h0] at this
      simp at this

theorem range_succ_flatMap_split {α : Type} (n : Nat) (F : Nat → List α) (hF : n = 0 → F 1 = []) :
    (List.range (n + 1)).flatMap F = F 0 ++ F 1 ++ (List.range (n - 1)).flatMap (fun k => F (k + 2)) := by
  cases n with
  | zero => simp [hF rfl]
  | succ m =>
    rw [List.range_succ_eq_map, List.range_succ_eq_map]
    simp [List.flatMap_map]

theorem forall₂_map_same {α β γ : Type} (P : β → γ → Prop) (l : List α) (f : α → β) (g : α → γ)
    (h : ∀ x ∈ l, P (f x) (g x)) : List.Forall₂ P (l.map f) (l.map g) := by
  induction l with
  | nil => exact List.Forall₂.nil
  | cons a l ih => exact List.Forall₂.cons (h a (by simp)) (ih fun x hx => h x (by simp [hx]))

theorem forall₂_flatMap_same {α β γ : Type} (P : β → γ → Prop) (l : List α) (f : α → List β) (g : α → List γ)
    (h : ∀ x ∈ l, List.Forall₂ P (f x) (g x)) : List.Forall₂ P (l.flatMap f) (l.flatMap g) := by
  induction l with
  | nil => exact List.Forall₂.nil
  | cons a l ih =>
    rw [List.flatMap_cons, List.flatMap_cons]
    exact List.rel_append (h a (by simp)) (ih fun x hx => h x (by simp [hx]))

/-- the model's raw representations of the default basis, grade by grade -/
theorem rawReps_default (sig : List Int) (start : Nat) :
    rawReps (Cfg.default sig start) =
      [bladeMat sig []] ++ (List.range sig.length).map (fun k => bladeMat sig [k]) ++
        (List.range (sig.length - 1)).flatMap fun k => (Py.combinationsNat (List.range sig.length) (k + 2)).map (bladeMat sig) := by
  have h1 : rawReps (Cfg.default sig start) =
      (List.range (sig.length + 1)).flatMap fun g => (Py.combinationsNat (List.range sig.length) g).map (bladeMat sig) := by
    unfold rawReps
    rw [default_basis]
    show List.map (fun name : List Nat => bladeMat sig (name.map (· - start))) _ = _
    unfold gradedNames
    rw [List.map_flatMap, List.length_map, List.length_range]
    congr 1
    funext g
    rw [comb_map, List.map_map]
    apply List.map_congr_left
    intro comb _
    simp only [Function.comp, List.map_map]
    congr 1
    conv => rhs; rw [← List.map_id comb]
    apply List.map_congr_left
    intro x _
    simp
  rw [h1, range_succ_flatMap_split]
  · rw [comb_zero, comb_one, List.map_map]
    rfl
  · intro h0
    rw [h0]
    rfl

theorem default_rel (sig : List Int) (start : Nat) :
    List.Forall₂ (MRel (2 ^ sig.length))
      (((2 : Nat) ^ sig.length, kronAll (List.replicate sig.length I2)) :: esModel sig ++
        (List.range (sig.length - 1)).flatMap fun k =>
          (Py.combinationsNat (List.range sig.length) (k + 2)).map fun comb => red (comb.map (esE sig)))
      (rawReps (Cfg.default sig start)) := by
  rw [rawReps_default, List.append_assoc, List.singleton_append]
  refine List.Forall₂.cons (iden_rel sig.length) (List.rel_append ?_ ?_)
  · rw [esModel_eq]
    apply forall₂_map_same
    intro k _
    exact red_rel sig [k] (by simp)
  · apply forall₂_flatMap_same
    intro k _
    apply forall₂_map_same
    intro comb hc
    apply red_rel
    intro h0
    have := (mem_comb _ _ comb hc).2
    rw [h0] at this
    simp at this

theorem default_length (sig : List Int) (start : Nat) : (Cfg.default sig start).basis.length = 2 ^ sig.length := by
  rw [default_basis, gradedNames_length]; simp

/-! ### the main statements -/

/-- **`matrix_rep` with explicit blades (custom bases) is the model's `matrixBasis`**: the python does not raise, returns
    one matrix per basis blade, each of size 2^d, and every entry agrees with the model -/
theorem matrix_rep_blades_eq (c : Cfg) (h : Cfg.Adm c) (hlen : c.basis.length = 2 ^ c.d) :
    ∃ Rs, Src.matrix_rep modelMatOps (countOf c.signature 1) (countOf c.signature (-1)) (countOf c.signature 0)
        (some c.signature) (some (bladesArg c)) = .ok Rs ∧
      Rs.length = c.basis.length ∧
      ∀ k, k < Rs.length → (Rs[k]!).1 = 2 ^ c.d ∧
        ∀ i j, i < 2 ^ c.d → j < 2 ^ c.d → (Rs[k]!).2 i j = ((matrixBasis c)[k]!) i j := by
  have hs : ∀ s ∈ c.signature, s = 1 ∨ s = -1 ∨ s = 0 := h.sig_range
  obtain ⟨rest, h1⟩ := loop1_model c.signature hs
  have hn : ∀ name ∈ c.basis, ∀ l ∈ name, c.start ≤ l ∧ l < c.start + c.signature.length :=
    fun name hname l hl => h.vecs_range l (h.names_letters name hname l hl)
  obtain ⟨Rs, h3, h4⟩ := rsBlades_model c.signature c.start c.basis hn
  have hRl : Rs.length = 2 ^ c.signature.length := by
    rw [h4.length_eq, List.length_map]; exact hlen
  obtain ⟨Fs, h5, h6⟩ := finish_rel (2 ^ c.signature.length) (Nat.pos_of_ne_zero (by simp)) Rs _ hRl h4
  refine ⟨Fs, ?_, ?_, ?_⟩
  · rw [matrix_rep_blades_unfold, h1, countOf_total c.signature hs]
    simp only [ok_bind]
    rw [loop2_model]
    simp only [ok_bind, idenOf, map_range_const, iden_fold]
    unfold bladesArg
    rw [h3]
    exact h5
  · rw [h6.length_eq]; simp
  · exact forall₂_index _ Fs _ h6

set_option linter.unusedVariables false in
/-- the generator matrices `Es` the python builds are the model's `genMat` (entries below 2^d) -/
theorem kron_chain_eq (sig : List Int) (i : Nat) (hi : i < sig.length) (a b : Nat) (ha : a < 2 ^ sig.length) (hb : b < 2 ^ sig.length) :
    (((List.replicate i modelMatOps.i2 ++ [(2, blockOf (sig[i]!))] ++ List.replicate (sig.length - i - 1) modelMatOps.ip2).foldl
        modelMatOps.kron modelMatOps.one).2 a b) = genMat sig i a b ∧
    ((List.replicate i modelMatOps.i2 ++ [(2, blockOf (sig[i]!))] ++ List.replicate (sig.length - i - 1) modelMatOps.ip2).foldl
        modelMatOps.kron modelMatOps.one).1 = 2 ^ sig.length := by
  rw [chain_fold sig i hi]
  exact ⟨rfl, rfl⟩

set_option linter.unusedVariables false in
/-- **the default path** (no `blades`: ascending combinations of the generators, grade by grade) computes the model's
    `matrixBasis` of the default configuration -/
theorem matrix_rep_default_eq (sig : List Int) (start : Nat) (hs : ∀ s ∈ sig, s = 1 ∨ s = -1 ∨ s = 0)
    (hstart : start + sig.length ≤ 16) :
    ∃ Rs, Src.matrix_rep modelMatOps (countOf sig 1) (countOf sig (-1)) (countOf sig 0) (some sig) none = .ok Rs ∧
      Rs.length = 2 ^ sig.length ∧
      ∀ k, k < Rs.length → (Rs[k]!).1 = 2 ^ sig.length ∧
        ∀ i j, i < 2 ^ sig.length → j < 2 ^ sig.length →
          (Rs[k]!).2 i j = ((matrixBasis (Cfg.default sig start))[k]!) i j := by
  obtain ⟨rest, h1⟩ := loop1_model sig hs
  have h4 := default_rel sig start
  have hRl := h4.length_eq
  rw [show (rawReps (Cfg.default sig start)).length = 2 ^ sig.length by
    unfold rawReps; rw [List.length_map, default_length]] at hRl
  obtain ⟨Fs, h5, h6⟩ := finish_rel (2 ^ sig.length) (Nat.pos_of_ne_zero (by simp)) _ _ hRl h4
  refine ⟨Fs, ?_, ?_, ?_⟩
  · rw [matrix_rep_default_unfold, h1, countOf_total sig hs]
    simp only [ok_bind]
    rw [loop2_model]
    simp only [ok_bind, idenOf, map_range_const, iden_fold]
    rw [loop3_model]
    exact h5
  · rw [h6.length_eq, List.length_map]
    unfold rawReps; rw [List.length_map, default_length]
  · exact forall₂_index _ Fs _ h6

end Kingdon.SrcEq

import Kingdon.Model.Blade
namespace Kingdon

theorem and_mod_two' (a b : Nat) : (a &&& b) % 2 = (a % 2) * (b % 2) := by
  have h := @Nat.and_mod_two_eq_one a b
  rcases Nat.mod_two_eq_zero_or_one a with ha | ha <;>
  rcases Nat.mod_two_eq_zero_or_one b with hb | hb <;>
  rcases Nat.mod_two_eq_zero_or_one (a &&& b) with hab | hab <;> simp_all

theorem xor_mod_two' (a b : Nat) : (a ^^^ b) % 2 = (a % 2 + b % 2) % 2 := by
  have := @Nat.xor_mod_two_eq_one a b; omega

/-- a + b = (a xor b) + 2 (a and b) -/
theorem add_eq_xor_add_and (a b : Nat) : a + b = (a ^^^ b) + 2 * (a &&& b) := by
  induction a using Nat.strongRecOn generalizing b with
  | _ a ih =>
    by_cases h : a = 0
    · subst h; simp
    · have := ih (a / 2) (by omega) (b / 2)
      have hx := Nat.xor_div_two (a := a) (b := b)
      have ha := Nat.and_div_two (a := a) (b := b)
      have mx := xor_mod_two' a b
      have ma := and_mod_two' a b
      rcases Nat.mod_two_eq_zero_or_one a with h1 | h1 <;>
      rcases Nat.mod_two_eq_zero_or_one b with h2 | h2 <;>
      rw [h1, h2] at mx ma <;> omega

/-- filter of `codegen_op`: `k_out == kx + ky` with `k_out = kx ^ ky` -/
theorem xor_eq_add_iff (a b : Nat) : a ^^^ b = a + b ↔ a &&& b = 0 := by
  have := add_eq_xor_add_and a b; omega

/-- filter of `codegen_ip` (case kx ≥ ky): `k_out == kx - ky` iff `ky ⊆ kx` -/
theorem xor_eq_sub_iff (a b : Nat) (h : b ≤ a) : a ^^^ b = a - b ↔ a &&& b = b := by
  have := add_eq_xor_add_and a b; omega

end Kingdon

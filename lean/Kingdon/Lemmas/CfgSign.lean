/-
  C01/C14 at the level of the algebra configuration: the sign `Algebra._compute_sign` stores for two
  blades equals the canonical Clifford cocycle of the bit-ordered metric, twisted by the orientations
  of the three blade names involved.  All clauses of C01 follow.
-/
import Kingdon.Lemmas.Names
namespace Kingdon


theorem mem_map_of_injOn (f : Nat → Nat) (l : List Nat) (c : Nat)
    (h : ∀ x ∈ l, f x = f c → x = c) : f c ∈ l.map f ↔ c ∈ l := by
  constructor
  · intro hm
    obtain ⟨x, hx, e⟩ := List.mem_map.mp hm
    exact h x hx e ▸ hx
  · intro hm; exact List.mem_map_of_mem hm

theorem idxOf_map_of_injOn (f : Nat → Nat) (l : List Nat) (c : Nat)
    (h : ∀ x ∈ l, f x = f c → x = c) : (l.map f).idxOf (f c) = l.idxOf c := by
  induction l with
  | nil => simp
  | cons a l ih =>
    have ih' := ih (fun x hx => h x (by simp [hx]))
    by_cases e : a = c
    · subst e; simp
    · have : f a ≠ f c := fun e' => e (h a (by simp) e')
      simp [e, this, ih']

theorem erase_map_of_injOn (f : Nat → Nat) (l : List Nat) (c : Nat)
    (h : ∀ x ∈ l, f x = f c → x = c) : (l.map f).erase (f c) = (l.erase c).map f := by
  induction l with
  | nil => simp
  | cons a l ih =>
    have ih' := ih (fun x hx => h x (by simp [hx]))
    by_cases e : a = c
    · subst e; simp
    · have : f a ≠ f c := fun e' => e (h a (by simp) e')
      simp [e, this, ih']

theorem mem_insertIdx_imp (l : List Nat) (i c x : Nat) (h : x ∈ l.insertIdx i c) : x = c ∨ x ∈ l := by
  by_cases hi : i ≤ l.length
  · exact (List.mem_insertIdx hi).mp h
  · rw [List.insertIdx_of_length_lt (by omega)] at h; exact Or.inr h

theorem phase1_mem : ∀ (b2 b1 : List Nat) (sw : Nat) (el : List Nat) (x : Nat),
    x ∈ (phase1 b1 b2 sw el).1 → x ∈ b1 ∨ x ∈ b2 := by
  intro b2
  induction b2 with
  | nil => intro b1 sw el x h; simpa [phase1] using h
  | cons c b2 ih =>
    intro b1 sw el x h
    by_cases hm : c ∈ b1
    · simp only [phase1, hm, if_true] at h
      rcases ih _ _ _ _ h with h | h
      · exact Or.inl (List.erase_subset h)
      · exact Or.inr (by simp [h])
    · simp only [phase1, hm, if_false] at h
      rcases ih _ _ _ _ h with h | h
      · rcases List.mem_append.mp h with h | h
        · exact Or.inl h
        · exact Or.inr (by simp at h; simp [h])
      · exact Or.inr (by simp [h])

theorem phase1_el_mem : ∀ (b2 b1 : List Nat) (sw : Nat) (el : List Nat) (x : Nat),
    x ∈ (phase1 b1 b2 sw el).2.2 → x ∈ el ∨ x ∈ b2 := by
  intro b2
  induction b2 with
  | nil => intro b1 sw el x h; simpa [phase1] using h
  | cons c b2 ih =>
    intro b1 sw el x h
    by_cases hm : c ∈ b1
    · simp only [phase1, hm, if_true] at h
      rcases ih _ _ _ _ h with h | h
      · rcases List.mem_append.mp h with h | h
        · exact Or.inl h
        · exact Or.inr (by simp at h; simp [h])
      · exact Or.inr (by simp [h])
    · simp only [phase1, hm, if_false] at h
      rcases ih _ _ _ _ h with h | h
      · exact Or.inl h
      · exact Or.inr (by simp [h])

theorem phase1_map (f : Nat → Nat) : ∀ (b2 b1 : List Nat) (sw : Nat) (el : List Nat),
    (∀ x y, x ∈ b1 ++ b2 → y ∈ b1 ++ b2 → f x = f y → x = y) →
    phase1 (b1.map f) (b2.map f) sw (el.map f) =
      ((phase1 b1 b2 sw el).1.map f, (phase1 b1 b2 sw el).2.1, (phase1 b1 b2 sw el).2.2.map f) := by
  intro b2
  induction b2 with
  | nil => intro b1 sw el _; simp [phase1]
  | cons c b2 ih =>
    intro b1 sw el hf
    have hc : ∀ x ∈ b1, f x = f c → x = c := fun x hx e => hf x c (by simp [hx]) (by simp) e
    by_cases hm : c ∈ b1
    · have hm' : f c ∈ b1.map f := (mem_map_of_injOn f b1 c hc).mpr hm
      simp only [List.map_cons, phase1, hm, hm', if_true]
      rw [erase_map_of_injOn f b1 c hc, idxOf_map_of_injOn f b1 c hc, List.length_map]
      have := ih (b1.erase c) (sw + (b1.length - b1.idxOf c - 1)) (el ++ [c])
        (fun x y hx hy => hf x y
          (by rcases List.mem_append.mp hx with h | h
              · simp [List.erase_subset h]
              · simp [h])
          (by rcases List.mem_append.mp hy with h | h
              · simp [List.erase_subset h]
              · simp [h]))
      simpa using this
    · have hm' : f c ∉ b1.map f := fun h => hm ((mem_map_of_injOn f b1 c hc).mp h)
      simp only [List.map_cons, phase1, hm, hm', if_false]
      have := ih (b1 ++ [c]) sw el
        (fun x y hx hy => hf x y (by simpa using hx) (by simpa using hy))
      simpa using this

theorem phase2_map (f : Nat → Nat) : ∀ (t b1 : List Nat) (i sw : Nat),
    (∀ x y, x ∈ b1 ++ t → y ∈ b1 ++ t → f x = f y → x = y) →
    phase2 (b1.map f) (t.map f) i sw = ((phase2 b1 t i sw).1.map f, (phase2 b1 t i sw).2) := by
  intro t
  induction t with
  | nil => intro b1 i sw _; simp [phase2]
  | cons c t ih =>
    intro b1 i sw hf
    have hc : ∀ x ∈ b1, f x = f c → x = c := fun x hx e => hf x c (by simp [hx]) (by simp) e
    simp only [List.map_cons, phase2]
    rw [idxOf_map_of_injOn f b1 c hc, List.eraseIdx_map, ← List.map_insertIdx]
    apply ih
    intro x y hx hy
    have key : ∀ z, z ∈ (b1.eraseIdx (b1.idxOf c)).insertIdx i c ++ t → z ∈ b1 ++ c :: t := by
      intro z hz
      rcases List.mem_append.mp hz with h | h
      · rcases mem_insertIdx_imp _ _ _ _ h with h | h
        · simp [h]
        · simp [List.mem_of_mem_eraseIdx h]
      · simp [h]
    exact hf x y (key x hx) (key y hy)

theorem phase1_residue : ∀ (b2 b1 : List Nat) (sw : Nat) (el : List Nat), b1.Nodup → b2.Nodup →
    (phase1 b1 b2 sw el).1.Nodup ∧ ∀ x, x ∈ (phase1 b1 b2 sw el).1 ↔ ¬ (x ∈ b1 ↔ x ∈ b2) := by
  intro b2
  induction b2 with
  | nil => intro b1 sw el h1 _; simpa [phase1] using h1
  | cons c b2 ih =>
    intro b1 sw el h1 h2
    have hc2 := (List.nodup_cons.mp h2).1
    have h2' := (List.nodup_cons.mp h2).2
    by_cases hm : c ∈ b1
    · simp only [phase1, hm, if_true]
      obtain ⟨a, b⟩ := ih (b1.erase c) (sw + (b1.length - b1.idxOf c - 1)) (el ++ [c]) (h1.erase c) h2'
      refine ⟨a, fun x => ?_⟩
      rw [b, h1.mem_erase_iff]
      by_cases e : x = c
      · subst e; simp [hm, hc2]
      · simp [e]
    · simp only [phase1, hm, if_false]
      have hnd' : (b1 ++ [c]).Nodup := by
        rw [List.nodup_append]; exact ⟨h1, by simp, by intro a ha b hb; simp at hb; subst hb; intro e; exact hm (e ▸ ha)⟩
      obtain ⟨a, b⟩ := ih (b1 ++ [c]) sw el hnd' h2'
      refine ⟨a, fun x => ?_⟩
      rw [b]
      by_cases e : x = c
      · subst e; simp [hm, hc2]
      · simp [e]

theorem perm_residue (wI wJ wK : List Nat) (hI : wI.Nodup) (hJ : wJ.Nodup) (hK : wK.Nodup)
    (hb : bitsOf wK = bitsOf wI ^^^ bitsOf wJ) : wK.Perm (phase1 wI wJ 0 []).1 := by
  obtain ⟨hnd, hmem⟩ := phase1_residue wJ wI 0 [] hI hJ
  rw [List.perm_ext_iff_of_nodup hK hnd]
  intro x
  rw [hmem]
  have := congrArg (fun n => Nat.testBit n x) hb
  simp only [Nat.testBit_xor, testBit_bitsOf _ hI, testBit_bitsOf _ hJ, testBit_bitsOf _ hK] at this
  by_cases h1 : x ∈ wI <;> by_cases h2 : x ∈ wJ <;> simp_all

theorem word_singleton (w : List Nat) (hw : w.Nodup) (j : Nat) (hb : bitsOf w = 2 ^ j) : w = [j] := by
  apply List.perm_singleton.mp
  rw [List.perm_ext_iff_of_nodup hw (by simp)]
  intro x
  have := testBit_bitsOf w hw x
  rw [hb, Nat.testBit_two_pow] at this
  by_cases e : j = x <;> simp_all [eq_comm]

theorem word_nil (w : List Nat) (hw : w.Nodup) (hb : bitsOf w = 0) : w = [] := by
  rw [List.eq_nil_iff_forall_not_mem]
  intro x hx
  have := testBit_bitsOf w hw x
  rw [hb] at this
  simp [hx] at this

theorem neg_one_pow_ite (n : Nat) : (if n % 2 = 1 then -1 else 1 : Int) = (-1)^n := by
  rcases Nat.mod_two_eq_zero_or_one n with h | h
  · obtain ⟨k, rfl⟩ : ∃ k, n = 2 * k := ⟨n/2, by omega⟩
    simp [Int.pow_mul, Int.one_pow]
  · obtain ⟨k, rfl⟩ : ∃ k, n = 2 * k + 1 := ⟨n/2, by omega⟩
    simp [Int.pow_succ, Int.pow_mul, Int.one_pow]
namespace Cfg

/-- signature entries are 1, -1 or 0 -/
def SigRange (sig : List Int) : Prop := ∀ s ∈ sig, s = 1 ∨ s = -1 ∨ s = 0

/-- Prop form of the facts `admissible` checks -/
structure Adm (c : Cfg) : Prop where
  vecs_len : c.vecs.length = c.d
  vecs_nodup : c.vecs.Nodup
  vecs_range : ∀ v ∈ c.vecs, c.start ≤ v ∧ v < c.start + c.d
  names_nodup : ∀ n ∈ c.basis, n.Nodup
  names_letters : ∀ n ∈ c.basis, ∀ l ∈ n, l ∈ c.vecs
  spelled : ∀ I, I < 2 ^ c.d → ∃ n ∈ c.basis, c.binOf n = I
  sig_range : SigRange c.signature

theorem adm_of_admissible (c : Cfg) (h : c.admissible = true) : Adm c := by
  unfold admissible at h
  simp only [Bool.and_eq_true, List.all_eq_true, decide_eq_true_eq, beq_iff_eq, Bool.or_eq_true,
    List.contains_iff_mem, List.mem_range] at h
  obtain ⟨⟨⟨⟨⟨⟨⟨h1, h2⟩, h3⟩, h4⟩, h5⟩, h6⟩, h7⟩, h8⟩ := h
  refine ⟨h1, h2, ?_, ?_, ?_, ?_, ?_⟩
  · intro v hv; exact ⟨(h3 v hv).1.1, (h3 v hv).1.2⟩
  · intro n hn; exact (h5 n hn).1
  · intro n hn; exact (h5 n hn).2
  · intro I hI
    have := h6 I hI
    rw [Option.isSome_iff_exists] at this
    obtain ⟨n, hn⟩ := this
    have h1 := List.find?_some hn
    exact ⟨n, List.mem_of_find?_eq_some hn, by simpa using h1⟩
  · intro s hs; rcases h8 s hs with (h|h)|h <;> simp [h]

/-- orientation of the name stored for blade `I`, relative to ascending bit order -/
def epsK (c : Cfg) (I : Nat) : Int := eps c.sigBits (c.wordOf (c.nameOf I))

/-- `_swap_blades` commutes with an injective relabelling of the letters -/
theorem swapBlades_map (f : Nat → Nat) (a b t : List Nat)
    (hf : ∀ x y, x ∈ a ++ b ++ t → y ∈ a ++ b ++ t → f x = f y → x = y) :
    swapBlades (a.map f) (b.map f) (t.map f) =
      ((swapBlades a b t).1, (swapBlades a b t).2.1.map f, (swapBlades a b t).2.2.map f) := by
  have h1 := phase1_map f b a 0 [] (fun x y hx hy => hf x y (by simp at hx ⊢; tauto) (by simp at hy ⊢; tauto))
  simp only [List.map_nil] at h1
  have key : ∀ z, z ∈ (phase1 a b 0 []).1 ++ t → z ∈ a ++ b ++ t := by
    intro z hz
    rcases List.mem_append.mp hz with h | h
    · rcases phase1_mem _ _ _ _ _ h with h | h <;> simp [h]
    · simp [h]
  have h2 := phase2_map f t (phase1 a b 0 []).1 0 (phase1 a b 0 []).2.1
    (fun x y hx hy => hf x y (key x hx) (key y hy))
  simp only [swapBlades, h1, h2]

theorem nameOf_mem (c : Cfg) (h : Adm c) (I : Nat) (hI : I < 2 ^ c.d) :
    c.nameOf I ∈ c.basis ∧ c.binOf (c.nameOf I) = I := by
  obtain ⟨n, hn, hb⟩ := h.spelled I hI
  unfold nameOf
  cases hf : c.basis.find? (fun n => c.binOf n == I) with
  | none =>
    rw [List.find?_eq_none] at hf
    exact absurd (by simpa using hb) (hf n hn)
  | some m =>
    have h1 := List.find?_some hf
    exact ⟨List.mem_of_find?_eq_some hf, by simpa using h1⟩

theorem binOf_foldl (c : Cfg) (n : List Nat) (acc : Nat) :
    n.foldl (fun acc l => acc ^^^ 2 ^ (c.vecs.idxOf l)) acc = acc ^^^ bitsOf (c.wordOf n) := by
  induction n generalizing acc with
  | nil => simp [wordOf, bitsOf]
  | cons a n ih => simp [wordOf, bitsOf, ih, Nat.xor_assoc]

theorem binOf_eq_bitsOf (c : Cfg) (n : List Nat) : c.binOf n = bitsOf (c.wordOf n) := by
  unfold binOf; rw [binOf_foldl]; simp

theorem idx_inj (c : Cfg) (x y : Nat) (hx : x ∈ c.vecs) (hy : y ∈ c.vecs)
    (e : c.vecs.idxOf x = c.vecs.idxOf y) : x = y := by
  have hx' := List.idxOf_lt_length_of_mem hx
  have hy' := List.idxOf_lt_length_of_mem hy
  have aux : ∀ i j (hi : i < c.vecs.length) (hj : j < c.vecs.length), i = j → c.vecs[i] = c.vecs[j] := by
    intro i j hi hj e; subst e; rfl
  calc x = c.vecs[c.vecs.idxOf x] := (List.getElem_idxOf hx').symm
    _ = c.vecs[c.vecs.idxOf y] := aux _ _ hx' hy' e
    _ = y := List.getElem_idxOf hy'

theorem sigBits_idx (c : Cfg) (l : Nat) (hl : l ∈ c.vecs) : c.sigBits[c.vecs.idxOf l]! = c.metric l := by
  have hx' := List.idxOf_lt_length_of_mem hl
  have : c.vecs.idxOf l < c.sigBits.length := by simpa [sigBits] using hx'
  rw [getElem!_pos c.sigBits _ this]
  simp [sigBits]

theorem prodSig_wordOf (c : Cfg) (el : List Nat) (h : ∀ l ∈ el, l ∈ c.vecs) :
    prodSig c.sigBits (c.wordOf el) = (el.map c.metric).prod := by
  induction el with
  | nil => simp [prodSig, wordOf]
  | cons a el ih =>
    have := ih (fun l hl => h l (by simp [hl]))
    simp only [prodSig, wordOf, List.map_cons, List.prod_cons, List.map_map] at this ⊢
    rw [this, sigBits_idx c a (h a (by simp))]

/-- the model of `_compute_sign` on labels equals the word-level algorithm on bit positions -/
theorem computeSign_eq_word (c : Cfg) (h : Adm c) (I J : Nat) (hI : I < 2 ^ c.d) (hJ : J < 2 ^ c.d) :
    c.computeSign I J =
      computeSignW c.sigBits (c.wordOf (c.nameOf I)) (c.wordOf (c.nameOf J)) (c.wordOf (c.nameOf (I ^^^ J))) := by
  have hK : I ^^^ J < 2 ^ c.d := Nat.xor_lt_two_pow hI hJ
  have mI := fun l hl => h.names_letters _ (nameOf_mem c h I hI).1 l hl
  have mJ := fun l hl => h.names_letters _ (nameOf_mem c h J hJ).1 l hl
  have mK := fun l hl => h.names_letters _ (nameOf_mem c h _ hK).1 l hl
  have hmap := swapBlades_map (fun l => c.vecs.idxOf l) (c.nameOf I) (c.nameOf J) (c.nameOf (I ^^^ J))
    (by
      intro x y hx hy e
      have mem : ∀ z, z ∈ c.nameOf I ++ c.nameOf J ++ c.nameOf (I ^^^ J) → z ∈ c.vecs := by
        intro z hz
        simp only [List.mem_append] at hz
        rcases hz with (hz | hz) | hz
        · exact mI z hz
        · exact mJ z hz
        · exact mK z hz
      exact idx_inj c x y (mem x hx) (mem y hy) e)
  have hel : ∀ l ∈ (swapBlades (c.nameOf I) (c.nameOf J) (c.nameOf (I ^^^ J))).2.2, l ∈ c.vecs := by
    intro l hl
    simp only [swapBlades] at hl
    rcases phase1_el_mem _ _ _ _ _ hl with hl | hl
    · simp at hl
    · exact mJ l hl
  unfold computeSign computeSignW
  simp only [wordOf] at hmap ⊢
  rw [hmap]
  simp only
  rw [neg_one_pow_ite]
  have := prodSig_wordOf c _ hel
  simp only [wordOf] at this
  rw [this]

theorem wordOf_nodup (c : Cfg) (n : List Nat) (hn : n.Nodup) (hl : ∀ l ∈ n, l ∈ c.vecs) :
    (c.wordOf n).Nodup :=
  List.Nodup.map_on (fun x hx y hy e => idx_inj c x y (hl x hx) (hl y hy) e) hn

theorem wordOf_valid (c : Cfg) (n : List Nat) (hl : ∀ l ∈ n, l ∈ c.vecs) :
    Valid c.sigBits (c.wordOf n) := by
  intro g hg
  obtain ⟨l, hl', rfl⟩ := List.mem_map.mp hg
  simpa [sigBits] using List.idxOf_lt_length_of_mem (hl l hl')

/-- facts about the word of the stored name of `I` -/
theorem word_facts (c : Cfg) (h : Adm c) (I : Nat) (hI : I < 2 ^ c.d) :
    (c.wordOf (c.nameOf I)).Nodup ∧ Valid c.sigBits (c.wordOf (c.nameOf I)) ∧
      bitsOf (c.wordOf (c.nameOf I)) = I := by
  obtain ⟨hb, he⟩ := nameOf_mem c h I hI
  exact ⟨wordOf_nodup c _ (h.names_nodup _ hb) (h.names_letters _ hb),
    wordOf_valid c _ (h.names_letters _ hb), by rw [← binOf_eq_bitsOf, he]⟩

theorem epsK_sq (c : Cfg) (h : Adm c) (I : Nat) (hI : I < 2 ^ c.d) : c.epsK I = 1 ∨ c.epsK I = -1 :=
  evalWord_nodup _ _ (word_facts c h I hI).1

/-- **The twist theorem**: for every admissible configuration (any dimension, signature ordering, start
    index, generator order, blade spelling) the stored sign is the canonical cocycle twisted by name
    orientations. -/
theorem computeSign_twist (c : Cfg) (h : Adm c) (I J : Nat) (hI : I < 2 ^ c.d) (hJ : J < 2 ^ c.d) :
    c.computeSign I J = c.epsK I * c.epsK J * c.epsK (I ^^^ J) * csign c.sigBits I J := by
  have hK : I ^^^ J < 2 ^ c.d := Nat.xor_lt_two_pow hI hJ
  obtain ⟨nI, vI, bI⟩ := word_facts c h I hI
  obtain ⟨nJ, vJ, bJ⟩ := word_facts c h J hJ
  obtain ⟨nK, vK, bK⟩ := word_facts c h _ hK
  rw [computeSign_eq_word c h I J hI hJ,
    computeSignW_eq _ _ _ _ nI nK vI vJ (perm_residue _ _ _ nI nJ nK (by rw [bI, bJ, bK]))]
  unfold epsK
  rw [bI, bJ]

theorem epsK_mul_self (c : Cfg) (h : Adm c) (I : Nat) (hI : I < 2 ^ c.d) : c.epsK I * c.epsK I = 1 := by
  rcases epsK_sq c h I hI with e | e <;> simp [e]

theorem two_pow_lt (c : Cfg) (j : Nat) (hj : j < c.d) : 2 ^ j < 2 ^ c.d :=
  Nat.pow_lt_pow_right (by omega) hj

theorem epsK_two_pow (c : Cfg) (h : Adm c) (j : Nat) (hj : j < c.d) : c.epsK (2 ^ j) = 1 := by
  obtain ⟨nd, _, b⟩ := word_facts c h (2 ^ j) (two_pow_lt c j hj)
  unfold epsK
  rw [word_singleton _ nd j b]
  simp [eps, evalWord, SB.mul, gen, SB.one, csign_zero_right]

theorem epsK_zero (c : Cfg) (h : Adm c) : c.epsK 0 = 1 := by
  obtain ⟨nd, _, b⟩ := word_facts c h 0 (Nat.pow_pos (by omega))
  unfold epsK
  rw [word_nil _ nd b]
  simp [eps, evalWord, SB.one]

theorem sigBits_length (c : Cfg) (h : Adm c) : c.sigBits.length = c.d := by
  simp [sigBits, h.vecs_len]

/-- clause 1: each basis vector squares to its signature entry -/
theorem gen_square (c : Cfg) (h : Adm c) (j : Nat) (hj : j < c.d) :
    c.computeSign (2 ^ j) (2 ^ j) = c.metric (c.vecs[j]!) := by
  have hl := sigBits_length c h
  rw [computeSign_twist c h _ _ (two_pow_lt c j hj) (two_pow_lt c j hj), Nat.xor_self,
    epsK_two_pow c h j hj, epsK_zero c h, csign_gen _ j j (by omega) (by omega)]
  have hv : j < c.vecs.length := by rw [h.vecs_len]; exact hj
  simp [sigBits, hv]

/-- clause 2: distinct basis vectors anticommute (and their product is not zero) -/
theorem gen_anticommute (c : Cfg) (h : Adm c) (j k : Nat) (hj : j < c.d) (hk : k < c.d) (hjk : j ≠ k) :
    c.computeSign (2 ^ j) (2 ^ k) = - c.computeSign (2 ^ k) (2 ^ j) ∧
    (c.computeSign (2 ^ j) (2 ^ k) = 1 ∨ c.computeSign (2 ^ j) (2 ^ k) = -1) := by
  have hl := sigBits_length c h
  have hJ := two_pow_lt c j hj
  have hK := two_pow_lt c k hk
  rw [computeSign_twist c h _ _ hJ hK, computeSign_twist c h _ _ hK hJ, Nat.xor_comm (2 ^ k) (2 ^ j),
    epsK_two_pow c h j hj, epsK_two_pow c h k hk,
    csign_gen _ j k (by omega) (by omega), csign_gen _ k j (by omega) (by omega)]
  have hkj : k ≠ j := fun e => hjk e.symm
  simp only [hjk, hkj, if_false]
  rcases epsK_sq c h _ (Nat.xor_lt_two_pow hJ hK) with e | e <;> rw [e] <;>
  rcases Nat.lt_or_gt_of_ne hjk with hl | hl
  all_goals
    first
    | (have : ¬ k < j := by omega
       simp [hl, this])
    | (have : ¬ j < k := by omega
       simp [hl, this])

/-- clause 3: blade multiplication is associative -/
theorem computeSign_cocycle (c : Cfg) (h : Adm c) (I J L : Nat)
    (hI : I < 2 ^ c.d) (hJ : J < 2 ^ c.d) (hL : L < 2 ^ c.d) :
    c.computeSign I J * c.computeSign (I ^^^ J) L = c.computeSign J L * c.computeSign I (J ^^^ L) := by
  have hIJ : I ^^^ J < 2 ^ c.d := Nat.xor_lt_two_pow hI hJ
  have hJL : J ^^^ L < 2 ^ c.d := Nat.xor_lt_two_pow hJ hL
  rw [computeSign_twist c h I J hI hJ, computeSign_twist c h _ L hIJ hL,
    computeSign_twist c h J L hJ hL, computeSign_twist c h I _ hI hJL, Nat.xor_assoc]
  have h0 := csign_cocycle c.sigBits I J L
  have h1 := epsK_mul_self c h _ hIJ
  have h2 := epsK_mul_self c h _ hJL
  generalize csign c.sigBits I J = C1 at *
  generalize csign c.sigBits (I ^^^ J) L = C2 at *
  generalize csign c.sigBits J L = C3 at *
  generalize csign c.sigBits I (J ^^^ L) = C4 at *
  generalize c.epsK (I ^^^ J) = ab at *
  generalize c.epsK (J ^^^ L) = bl at *
  generalize c.epsK (I ^^^ (J ^^^ L)) = abl at *
  generalize c.epsK I = a at *
  generalize c.epsK J = b at *
  generalize c.epsK L = l at *
  grind

/-- left-to-right product of the generators named by the letters of a word, computed with the
    stored table: `(((e_a e_b) e_c) ...)` as (coefficient, blade) -/
def prodWord (c : Cfg) (w : List Nat) : Int × Nat :=
  w.foldl (fun acc l => (acc.1 * c.computeSign acc.2 (2 ^ c.vecs.idxOf l), acc.2 ^^^ 2 ^ c.vecs.idxOf l)) (1, 0)

/-- (coefficient, blade) relative to the stored name ↦ signed canonical blade -/
def Phi (c : Cfg) (p : Int × Nat) : SB := ⟨p.1 * c.epsK p.2, p.2⟩

theorem Phi_step (c : Cfg) (h : Adm c) (s : Int) (I g : Nat) (hI : I < 2 ^ c.d) (hg : g < c.d) :
    Phi c (s * c.computeSign I (2 ^ g), I ^^^ 2 ^ g) = SB.mul c.sigBits (Phi c (s, I)) (gen g) := by
  have hG := two_pow_lt c g hg
  have h1 := epsK_mul_self c h _ (Nat.xor_lt_two_pow hI hG)
  simp only [Phi, SB.mul, gen, computeSign_twist c h I _ hI hG, epsK_two_pow c h g hg, SB.mk.injEq, and_true]
  generalize c.epsK (I ^^^ 2 ^ g) = e at *
  generalize c.epsK I = a
  generalize csign c.sigBits I (2 ^ g) = C
  grind

theorem prodWord_fold (c : Cfg) (h : Adm c) (w : List Nat) (hw : ∀ l ∈ w, l ∈ c.vecs) :
    ∀ (acc : Int × Nat), acc.2 < 2 ^ c.d →
    Phi c (w.foldl (fun acc l => (acc.1 * c.computeSign acc.2 (2 ^ c.vecs.idxOf l),
        acc.2 ^^^ 2 ^ c.vecs.idxOf l)) acc) =
      SB.mul c.sigBits (Phi c acc) (evalWord c.sigBits (c.wordOf w)) := by
  induction w with
  | nil => intro acc _; simp [wordOf, evalWord, SB.mul_one]
  | cons l w ih =>
    intro acc hacc
    have hg : c.vecs.idxOf l < c.d := by
      rw [← h.vecs_len]; exact List.idxOf_lt_length_of_mem (hw l (by simp))
    rw [List.foldl_cons, ih (fun x hx => hw x (by simp [hx])) _
      (Nat.xor_lt_two_pow hacc (two_pow_lt c _ hg)), Phi_step c h _ _ _ hacc hg, SB.mul_assoc]
    simp [wordOf, evalWord]

/-- clause 4: a blade named e_ij..k equals the ordered product e_i e_j .. e_k -/
theorem named_blade_is_product (c : Cfg) (h : Adm c) (K : Nat) (hK : K < 2 ^ c.d) :
    c.prodWord (c.nameOf K) = (1, K) := by
  have hb := (nameOf_mem c h K hK).1
  have hf := prodWord_fold c h (c.nameOf K) (h.names_letters _ hb) (1, 0) (Nat.pow_pos (by omega))
  have h0 : Phi c (1, 0) = SB.one := by simp [Phi, epsK_zero c h, SB.one]
  rw [h0, SB.one_mul] at hf
  change Phi c (c.prodWord (c.nameOf K)) = _ at hf
  have hk := congrArg SB.k hf
  have hc := congrArg SB.c hf
  rw [evalWord_key, (word_facts c h K hK).2.2] at hk
  simp only [Phi] at hk hc
  rw [hk] at hc
  change _ = c.epsK K at hc
  have : (c.prodWord (c.nameOf K)).1 = 1 := by
    rcases epsK_sq c h K hK with e | e <;> rw [e] at hc <;> omega
  exact Prod.ext this hk

theorem prod_range (l : List Int) (h : ∀ s ∈ l, s = 1 ∨ s = -1 ∨ s = 0) :
    l.prod = 1 ∨ l.prod = -1 ∨ l.prod = 0 := by
  induction l with
  | nil => simp
  | cons a l ih =>
    have ha := h a (by simp)
    have := ih (fun s hs => h s (by simp [hs]))
    rw [List.prod_cons]
    rcases ha with e | e | e <;> rcases this with e' | e' | e' <;> simp [e, e']

theorem metric_range (c : Cfg) (hs : SigRange c.signature) (l : Nat) :
    c.metric l = 1 ∨ c.metric l = -1 ∨ c.metric l = 0 := by
  unfold metric
  by_cases hlt : l - c.start < c.signature.length
  · rw [getElem!_pos c.signature _ hlt]; exact hs _ (List.getElem_mem _)
  · rw [getElem!_neg c.signature _ hlt]; right; right; rfl

/-- the values of the table are 1, -1 or 0 -/
theorem computeSign_range (c : Cfg) (hs : SigRange c.signature) (I J : Nat) :
    c.computeSign I J = 1 ∨ c.computeSign I J = -1 ∨ c.computeSign I J = 0 := by
  unfold computeSign
  simp only
  have := prod_range ((swapBlades (c.nameOf I) (c.nameOf J) (c.nameOf (I ^^^ J))).2.2.map c.metric)
    (by intro s hs'; obtain ⟨l, _, rfl⟩ := List.mem_map.mp hs'; exact metric_range c hs l)
  split <;> rcases this with e | e | e <;> simp [e]

theorem orFold_testBit (c : Cfg) (sp : List Nat) (acc x : Nat) :
    (sp.foldl (fun acc l => acc ||| 2 ^ (c.vecs.idxOf l)) acc).testBit x =
      (acc.testBit x || decide (x ∈ c.wordOf sp)) := by
  induction sp generalizing acc with
  | nil => simp [wordOf]
  | cons a sp ih =>
    rw [List.foldl_cons, ih]
    simp only [wordOf, List.map_cons, List.mem_cons, Nat.testBit_or, Nat.testBit_two_pow, Bool.or_assoc]
    congr 1
    by_cases e : c.vecs.idxOf a = x
    · subst e; simp
    · have e' : ¬ x = c.vecs.idxOf a := fun h => e h.symm
      simp [e, e']

theorem orFold_eq_binOf (c : Cfg) (sp : List Nat) (hnd : sp.Nodup) (hl : ∀ l ∈ sp, l ∈ c.vecs) :
    sp.foldl (fun acc l => acc ||| 2 ^ (c.vecs.idxOf l)) 0 = c.binOf sp := by
  apply Nat.eq_of_testBit_eq
  intro x
  rw [orFold_testBit, binOf_eq_bitsOf, testBit_bitsOf _ (wordOf_nodup c sp hnd hl)]
  simp

theorem mem_of_bits (c : Cfg) (a b : List Nat) (ha : a.Nodup) (hb : b.Nodup)
    (la : ∀ l ∈ a, l ∈ c.vecs) (lb : ∀ l ∈ b, l ∈ c.vecs)
    (e : c.binOf a = c.binOf b) : ∀ x, x ∈ a → x ∈ b := by
  intro x hx
  have h1 := testBit_bitsOf _ (wordOf_nodup c a ha la) (c.vecs.idxOf x)
  have h2 := testBit_bitsOf _ (wordOf_nodup c b hb lb) (c.vecs.idxOf x)
  rw [← binOf_eq_bitsOf] at h1 h2
  rw [e, h2] at h1
  have hm : c.vecs.idxOf x ∈ c.wordOf a := List.mem_map_of_mem hx
  simp only [hm, decide_true, decide_eq_true_eq] at h1
  obtain ⟨y, hy, ey⟩ := List.mem_map.mp h1
  exact idx_inj c y x (lb y hy) (la x hx) ey ▸ hy

theorem perm_of_bits (c : Cfg) (a b : List Nat) (ha : a.Nodup) (hb : b.Nodup)
    (la : ∀ l ∈ a, l ∈ c.vecs) (lb : ∀ l ∈ b, l ∈ c.vecs)
    (e : c.binOf a = c.binOf b) : a.Perm b := by
  rw [List.perm_ext_iff_of_nodup ha hb]
  exact fun x => ⟨mem_of_bits c a b ha hb la lb e x, mem_of_bits c b a hb ha lb la e.symm x⟩

theorem binOf_perm (c : Cfg) (a b : List Nat) (ha : a.Nodup) (la : ∀ l ∈ a, l ∈ c.vecs)
    (hp : a.Perm b) : c.binOf a = c.binOf b := by
  have hb : b.Nodup := hp.nodup_iff.mp ha
  have lb : ∀ l ∈ b, l ∈ c.vecs := fun l hl => la l (hp.mem_iff.mpr hl)
  apply Nat.eq_of_testBit_eq
  intro x
  rw [binOf_eq_bitsOf, binOf_eq_bitsOf, testBit_bitsOf _ (wordOf_nodup c a ha la),
    testBit_bitsOf _ (wordOf_nodup c b hb lb)]
  have : x ∈ c.wordOf a ↔ x ∈ c.wordOf b := (hp.map _).mem_iff
  simp [this]

/-- reordering a spelling to a permutation of it: the swap count is the parity -/
theorem reorder_sound (c : Cfg) (sp canon : List Nat) (hnd : sp.Nodup) (hl : ∀ l ∈ sp, l ∈ c.vecs)
    (hp : canon.Perm sp) :
    evalWord c.sigBits (c.wordOf sp) =
      SB.smul ((-1) ^ (swapBlades sp [] canon).1) (evalWord c.sigBits (c.wordOf canon)) := by
  have lc : ∀ l ∈ canon, l ∈ c.vecs := fun l h' => hl l (hp.mem_iff.mp h')
  have hmap := phase2_map (fun l => c.vecs.idxOf l) canon sp 0 0
    (by
      intro x y hx hy e
      have mem : ∀ z, z ∈ sp ++ canon → z ∈ c.vecs := by
        intro z hz
        rcases List.mem_append.mp hz with hz | hz
        · exact hl z hz
        · exact lc z hz
      exact idx_inj c x y (mem x hx) (mem y hy) e)
  obtain ⟨n, e1, e2⟩ := phase2_sound c.sigBits (c.wordOf canon) [] (c.wordOf sp) 0
    (by simpa using wordOf_nodup c sp hnd hl) (by simpa using wordOf_valid c sp hl) (hp.map _)
  simp only [List.nil_append, List.length_nil, Nat.zero_add] at e1 e2
  simp only [wordOf] at hmap e1 e2 ⊢
  rw [hmap] at e1
  have hn : (phase2 sp canon 0 0).2 = n := congrArg Prod.snd e1
  simp only [swapBlades, phase1, hn]
  exact e2

/-- non-canonical spellings: `_blade2canon` returns a name of the basis that is a permutation of the
    spelling, and the swap count it reports is the parity relating the two ordered products -/
theorem blade2canon_sound (c : Cfg) (h : Adm c) (sp n : List Nat) (hn : n ∈ c.basis) (hp : sp.Perm n) :
    ∃ canon swaps, c.blade2canon sp = some (canon, swaps) ∧ canon ∈ c.basis ∧ canon.Perm sp ∧
      evalWord c.sigBits (c.wordOf sp) = SB.smul ((-1) ^ swaps) (evalWord c.sigBits (c.wordOf canon)) := by
  have ndn := h.names_nodup n hn
  have ln := h.names_letters n hn
  have nds : sp.Nodup := hp.nodup_iff.mpr ndn
  have ls : ∀ l ∈ sp, l ∈ c.vecs := fun l hl => ln l (hp.mem_iff.mp hl)
  unfold blade2canon
  by_cases hc : sp ∈ c.basis
  · refine ⟨sp, 0, ?_, hc, List.Perm.refl _, ?_⟩
    · simp [hc]
    · simp [SB.one_smul]
  · have hany : (sp.any fun l => !c.vecs.contains l) = false := by
      rw [List.any_eq_false]; intro x hx; simp [ls x hx]
    have hbin : c.binOf sp = c.binOf n := binOf_perm c sp n nds ls hp
    simp only [List.contains_iff_mem, hc, if_false, hany, orFold_eq_binOf c sp nds ls, Bool.false_eq_true]
    cases hf : c.basis.find? (fun m => c.binOf m == c.binOf sp) with
    | none =>
      rw [List.find?_eq_none] at hf
      exact absurd (by simpa using hbin.symm) (hf n hn)
    | some canon =>
      have hb : c.binOf canon = c.binOf sp := by simpa using List.find?_some hf
      have hmem : canon ∈ c.basis := List.mem_of_find?_eq_some hf
      have hperm : canon.Perm sp :=
        perm_of_bits c canon sp (h.names_nodup _ hmem) nds (h.names_letters _ hmem) ls hb
      exact ⟨canon, _, rfl, hmem, hperm, reorder_sound c sp canon nds ls hperm⟩

end Cfg
end Kingdon

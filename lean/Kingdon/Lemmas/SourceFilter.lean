/-
  The translated zero filter of symbolic results (`OperatorDict.filter`, operator_dict.py).
-/
import Kingdon.Generated.Source
namespace Kingdon.SrcEq
open Kingdon

/-- what the filter computes: the pairs (key, simplified value) with a truthy simplified value, in order -/
def filterSpec {α : Type} [Py.Truthy α] (simp : α → α) (ks : List Int) (vs : List α) : List (Int × α) :=
  (List.zip ks vs).filterMap fun kv => if Py.truthy (simp kv.2) then some (kv.1, simp kv.2) else none

theorem od_filter_eq {α : Type} [Py.Truthy α] (simp : α → α) (ks : List Int) (vs : List α) :
    Src.od_filter simp ks vs = .ok ((filterSpec simp ks vs).map (·.1), (filterSpec simp ks vs).map (·.2)) := by
  rfl

/-- a blade is dropped only if its simplified coefficient is falsy, and a kept coefficient is the simplified one -/
theorem filterSpec_mem {α : Type} [Py.Truthy α] (simp : α → α) (ks : List Int) (vs : List α) (k : Int) (v : α) :
    (k, v) ∈ filterSpec simp ks vs ↔ ∃ v0, (k, v0) ∈ List.zip ks vs ∧ Py.truthy (simp v0) = true ∧ v = simp v0 := by
  unfold filterSpec
  rw [List.mem_filterMap]
  constructor
  · rintro ⟨⟨k0, v0⟩, hm, hf⟩
    by_cases ht : Py.truthy (simp v0) = true
    · simp only [ht, if_true, Option.some.injEq, Prod.mk.injEq] at hf
      obtain ⟨rfl, rfl⟩ := hf
      exact ⟨v0, hm, ht, rfl⟩
    · simp [ht] at hf
  · rintro ⟨v0, hm, ht, rfl⟩
    exact ⟨(k, v0), hm, by simp [ht]⟩

end Kingdon.SrcEq

/-
  Histories of `__getitem__` calls on one operator of the translated source: the generation log.
-/
import Kingdon.Lemmas.SourceOpDict
import Mathlib.Data.List.Nodup
namespace Kingdon.SrcEq
open Kingdon Kingdon.OD

/-- run a history of lookups of one operator through the translated `OperatorDict.__getitem__`; an exception raised by a
    call propagates to the caller of that call only: the next call starts from the state the failed one left -/
def srcHistory (env : Py.ODEnv KeysIn (List Nat) FuncId Name (List FuncId)) :
    Py.ODState KeysIn (List Nat) FuncId Name → List KeysIn → Py.ODState KeysIn (List Nat) FuncId Name
  | s, [] => s
  | s, k :: ks => srcHistory env (Py.runMethod (Src.operatordict_getitem env k) s).2 ks

/-- the model history of the same lookups (results dropped) -/
def modelHistory (canon : List Nat) (genFails : FuncId → Bool) (op : Nat) : OD.State → List KeysIn → OD.State
  | S, [] => S
  | S, k :: ks => modelHistory canon genFails op (OD.getitem canon genFails S ⟨op, k⟩).1 ks

theorem getitem_false_state (canon : List Nat) (genFails : FuncId → Bool) (S : OD.State) (f : FuncId)
    (hr : (OD.getitem canon genFails S f).2 = false) : (OD.getitem canon genFails S f).1 = S := by
  unfold OD.getitem at hr ⊢
  split
  · rfl
  · split
    · rfl
    · rename_i h1 h2
      rw [if_neg h1, if_neg h2] at hr
      cases hr

/-- the relation is preserved along every history -/
theorem rel_history (canon : List Nat) (genFails : FuncId → Bool) (w : Bool) (op : Nat) (ko : KeysIn → List Nat)
    (ks : List KeysIn) (s : Py.ODState KeysIn (List Nat) FuncId Name) (S : OD.State) (h : Rel op ko s S) :
    Rel op ko (srcHistory (envOf canon genFails w op ko) s ks) (modelHistory canon genFails op S ks) := by
  induction ks generalizing s S with
  | nil => exact h
  | cons k ks ih =>
    show Rel op ko (srcHistory _ (Py.runMethod (Src.operatordict_getitem (envOf canon genFails w op ko) k) s).2 ks)
      (modelHistory canon genFails op (OD.getitem canon genFails S ⟨op, k⟩).1 ks)
    cases hr : (OD.getitem canon genFails S ⟨op, k⟩).2
    · rw [getitem_err_run canon genFails w op ko h k hr]
      have hS : (OD.getitem canon genFails S ⟨op, k⟩).1 = S := getitem_false_state canon genFails S _ hr
      rw [hS]
      exact ih s S h
    · obtain ⟨s', hrun, hrel⟩ := getitem_ok_run canon genFails w op ko h k hr
      rw [hrun]
      exact ih s' _ hrel

/-- in the model, `getitem` logs a generation only for a function that is not cached, and caches it -/
theorem model_gens_nodup (canon : List Nat) (genFails : FuncId → Bool) (op : Nat) (ks : List KeysIn) (S : OD.State)
    (hn : S.gens.Nodup) (hsub : ∀ f ∈ S.gens, f ∈ S.cache) :
    (modelHistory canon genFails op S ks).gens.Nodup ∧
    ∀ f ∈ (modelHistory canon genFails op S ks).gens, f ∈ (modelHistory canon genFails op S ks).cache := by
  induction ks generalizing S with
  | nil => exact ⟨hn, hsub⟩
  | cons k ks ih =>
    show (modelHistory canon genFails op (OD.getitem canon genFails S ⟨op, k⟩).1 ks).gens.Nodup ∧
      ∀ f ∈ (modelHistory canon genFails op (OD.getitem canon genFails S ⟨op, k⟩).1 ks).gens,
        f ∈ (modelHistory canon genFails op (OD.getitem canon genFails S ⟨op, k⟩).1 ks).cache
    apply ih
    · unfold OD.getitem
      split
      · exact hn
      · split
        · exact hn
        · rename_i hc _
          exact List.nodup_cons.mpr ⟨fun hm => hc (hsub _ hm), hn⟩
    · unfold OD.getitem
      split
      · exact hsub
      · split
        · exact hsub
        · intro f hf
          rcases List.mem_cons.mp hf with e | hm
          · exact List.mem_cons.mpr (Or.inl e)
          · exact List.mem_cons.mpr (Or.inr (hsub f hm))

/-- **at most one generation per key pattern, at the source level**: along every history of lookups on a fresh
    operator dictionary - repeated patterns, failing generations that are retried, with or without a wrapper - the log
    of completed `do_codegen` calls has no key pattern twice -/
theorem source_gens_nodup (canon : List Nat) (genFails : FuncId → Bool) (w : Bool) (op : Nat) (ko : KeysIn → List Nat)
    (ks : List KeysIn) :
    (srcHistory (envOf canon genFails w op ko) ⟨[], [], []⟩ ks).gens.Nodup := by
  have hrel := rel_history canon genFails w op ko ks ⟨[], [], []⟩ OD.init (rel_init op ko)
  have hnd := (model_gens_nodup canon genFails op ks OD.init List.nodup_nil (by intro f hf; cases hf)).1
  rw [hrel.gens]
  refine List.Nodup.map_on ?_ (hnd.filter _)
  intro a ha b hb hab
  have ha' : a.op = op := by simpa using (List.mem_filter.mp ha).2
  have hb' : b.op = op := by simpa using (List.mem_filter.mp hb).2
  cases a; cases b
  simp only at ha' hb' hab
  subst ha' hb' hab
  rfl

/-- a lookup of a cached pattern changes nothing: no generation, no rebinding of the name, same state -/
theorem source_cached_lookup_is_free (canon : List Nat) (genFails : FuncId → Bool) (w : Bool) (op : Nat)
    (ko : KeysIn → List Nat) (s : Py.ODState KeysIn (List Nat) FuncId Name) (S : OD.State) (h : Rel op ko s S)
    (k : KeysIn) (hk : Py.dictHas s.operator_dict k = true) :
    Py.runMethod (Src.operatordict_getitem (envOf canon genFails w op ko) k) s = (.ok (ko k, ⟨op, k⟩), s) := by
  have hf : (⟨op, k⟩ : FuncId) ∈ S.cache := by
    have := h.has k
    rw [hk] at this
    exact of_decide_eq_true this.symm
  exact getitem_hit_run canon genFails w op ko h k hf

end Kingdon.SrcEq

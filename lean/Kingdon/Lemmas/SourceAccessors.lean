/-
  The translated coefficient accessors of `MultiVector` (`__getattr__`, `asfullmv`, `grade`: multivector.py) equal the model's
  `Con.getattr`, `asfullmv`, `gradeSel`.
-/
import Kingdon.Lemmas.SourceBlades
import Kingdon.Model.Construct
import Kingdon.Lemmas.Keys
import Kingdon.Lemmas.SourceLinear
namespace Kingdon.SrcEq
open Kingdon
set_option linter.unusedSimpArgs false

/-! ### `__getattr__` -/

def arrPrio : List Char := ['_', '_', 'a', 'r', 'r', 'a', 'y', '_', 'p', 'r', 'i', 'o', 'r', 'i', 't', 'y', '_', '_']

theorem pyName_ne_arrPrio (sp : List Nat) : (pyName sp == arrPrio) = false := by
  unfold pyName arrPrio
  rw [List.cons_beq_cons]
  rfl

theorem isHexChar_hexChar (l : Nat) (h : l < 16) : Py.isHexChar (hexChar l) = true := by
  rcases hexChar_cases l h with h|h|h|h|h|h|h|h|h|h|h|h|h|h|h|h <;> subst h <;> rfl

theorem isBladeName_pyName (sp : List Nat) (h : ∀ l ∈ sp, l < 16) : Py.isBladeName (pyName sp) = true := by
  show (sp.map hexChar).all Py.isHexChar = true
  rw [List.all_eq_true]
  intro x hx
  obtain ⟨l, hl, rfl⟩ := List.mem_map.mp hx
  exact isHexChar_hexChar l (h l hl)

theorem blade2canon_some_mem (c : Cfg) (sp canon : List Nat) (swaps : Nat)
    (h : c.blade2canon sp = some (canon, swaps)) : canon ∈ c.basis := by
  unfold Cfg.blade2canon at h
  by_cases hc : c.basis.contains sp = true
  · rw [if_pos hc] at h
    injection h with h
    injection h with h1 h2
    subst h1
    simpa using hc
  · rw [if_neg hc] at h
    by_cases ha : (sp.any fun l => !c.vecs.contains l) = true
    · rw [if_pos ha] at h; cases h
    · rw [if_neg ha] at h
      dsimp only at h
      cases hf : c.basis.find? (fun n => c.binOf n == sp.foldl (fun acc l => acc ||| 2 ^ c.vecs.idxOf l) 0) with
      | none => rw [hf] at h; cases h
      | some m =>
        rw [hf] at h
        injection h with h
        injection h with h1 h2
        subst h1
        exact List.mem_of_find?_eq_some hf

theorem blade2canon_none_not_mem (c : Cfg) (sp : List Nat) (h : c.blade2canon sp = none) : sp ∉ c.basis := by
  unfold Cfg.blade2canon at h
  by_cases hc : c.basis.contains sp = true
  · rw [if_pos hc] at h; cases h
  · simpa using hc

theorem dictGet_of_dictGet? {κ ν : Type} [BEq κ] (d : Py.Dict κ ν) (k : κ) (v : ν)
    (h : Py.dictGet? d k = some v) : Py.dictGet d k = .ok v := by
  unfold Py.dictGet? at h
  unfold Py.dictGet
  cases hf : d.find? (·.1 == k) with
  | none => rw [hf] at h; cases h
  | some p =>
    rw [hf] at h
    simp only [Option.map_some, Option.some.injEq] at h
    rw [← h]; rfl

theorem index_map_ofNat_mem (ks : List Nat) (k : Nat) (h : k ∈ ks) :
    Py.index (ks.map Int.ofNat) (Int.ofNat k) = .ok (Int.ofNat (ks.idxOf k)) := by
  have hinj : Function.Injective Int.ofNat := fun a b e => Int.ofNat.inj e
  rw [index_of_mem _ _ (List.mem_map_of_mem h), idxOf_map_inj Int.ofNat hinj]

theorem index_map_ofNat_not_mem (ks : List Nat) (k : Nat) (h : k ∉ ks) :
    Py.index (ks.map Int.ofNat) (Int.ofNat k) = .error "ValueError" := by
  have hinj : Function.Injective Int.ofNat := fun a b e => Int.ofNat.inj e
  exact index_of_not_mem _ _ (fun hm => h ((mem_map_inj Int.ofNat hinj ks k).mp hm))

theorem find?_zip_mem {α : Type} : ∀ (ks : List Nat) (vs : List α) (k : Nat), ks.length = vs.length →
    k ∈ ks → ∃ hi : ks.idxOf k < vs.length, (ks.zip vs).find? (·.1 == k) = some (k, vs[ks.idxOf k]) := by
  intro ks
  induction ks with
  | nil => intro vs k _ h; simp at h
  | cons a ks ih =>
    intro vs k hlen h
    cases vs with
    | nil => simp at hlen
    | cons v vs =>
      rw [List.zip_cons_cons, List.find?_cons, List.idxOf_cons]
      by_cases e : a = k
      · subst e
        simp
      · have e1 : (a == k) = false := by simpa using e
        have hm : k ∈ ks := by
          rcases List.mem_cons.mp h with h | h
          · exact absurd h.symm e
          · exact h
        obtain ⟨hi, hf⟩ := ih vs k (by simpa using hlen) hm
        simp only [e1, cond_false]
        refine ⟨by simpa using hi, ?_⟩
        exact hf

theorem find?_zip_not_mem {α : Type} (ks : List Nat) (vs : List α) (k : Nat) (h : k ∉ ks) :
    (ks.zip vs).find? (·.1 == k) = none := by
  rw [List.find?_eq_none]
  intro p hp hb
  have : p.1 ∈ ks := (List.of_mem_zip hp).1
  rw [beq_iff_eq.mp hb] at this
  exact h this

theorem getattr_absent {α : Type} [Neg α] [Zero α] (alg : Src.Alg) (ks : List Int) (vs : List α) (bb nm : List Char) (sw : Int)
    (h1 : (bb == arrPrio) = false) (h2 : Py.isBladeName bb = true)
    (h3 : Src.blade2canon alg bb = .ok (nm, sw)) (h4 : Py.dictHas alg.canon2bin nm = false) :
    Src.mv_getattr alg ks vs bb = .ok 0 := by
  unfold arrPrio at h1
  unfold Src.mv_getattr
  simp only [h1, h2, h3, Bool.false_eq_true, ↓reduceIte, Bool.not_true]
  show (if (!Py.dictHas alg.canon2bin nm) = true then pure 0 else _) = _
  simp only [h4, Bool.false_eq_true, ↓reduceIte, Bool.not_true, Bool.not_false]
  rfl

theorem getattr_noindex {α : Type} [Neg α] [Zero α] (alg : Src.Alg) (ks : List Int) (vs : List α) (bb nm : List Char) (sw k : Int)
    (h1 : (bb == arrPrio) = false) (h2 : Py.isBladeName bb = true)
    (h3 : Src.blade2canon alg bb = .ok (nm, sw)) (h4 : Py.dictHas alg.canon2bin nm = true)
    (h5 : Py.dictGet alg.canon2bin nm = .ok k) (h6 : Py.index ks k = .error "ValueError") :
    Src.mv_getattr alg ks vs bb = .ok 0 := by
  unfold arrPrio at h1
  unfold Src.mv_getattr
  simp only [h1, h2, h3, Bool.false_eq_true, ↓reduceIte, Bool.not_true]
  show (if (!Py.dictHas alg.canon2bin nm) = true then pure 0 else _) = _
  simp only [h4, Bool.false_eq_true, ↓reduceIte, Bool.not_true, Bool.not_false]
  show (do
      let tried ← tryCatch (do
          let a ← Py.dictGet alg.canon2bin nm
          let b ← Py.index ks a
          pure (some b)) (fun e => if (e == "ValueError") = true then pure none else throw e)
      _) = _
  rw [h5]
  show (do
      let tried ← tryCatch (do
          let b ← Py.index ks k
          pure (some b)) (fun e => if (e == "ValueError") = true then pure none else throw e)
      _) = _
  rw [h6]
  rfl

theorem getattr_index {α : Type} [Neg α] [Zero α] (alg : Src.Alg) (ks : List Int) (vs : List α) (bb nm : List Char) (sw k idx : Int) (v : α)
    (h1 : (bb == arrPrio) = false) (h2 : Py.isBladeName bb = true)
    (h3 : Src.blade2canon alg bb = .ok (nm, sw)) (h4 : Py.dictHas alg.canon2bin nm = true)
    (h5 : Py.dictGet alg.canon2bin nm = .ok k) (h6 : Py.index ks k = .ok idx) (h7 : Py.getItem vs idx = .ok v) :
    Src.mv_getattr alg ks vs bb = .ok (if sw % 2 = 0 then v else -v) := by
  unfold arrPrio at h1
  unfold Src.mv_getattr
  simp only [h1, h2, h3, Bool.false_eq_true, ↓reduceIte, Bool.not_true]
  show (if (!Py.dictHas alg.canon2bin nm) = true then pure 0 else _) = _
  simp only [h4, Bool.false_eq_true, ↓reduceIte, Bool.not_true, Bool.not_false]
  show (do
      let tried ← tryCatch (do
          let a ← Py.dictGet alg.canon2bin nm
          let b ← Py.index ks a
          pure (some b)) (fun e => if (e == "ValueError") = true then pure none else throw e)
      _) = _
  rw [h5]
  show (do
      let tried ← tryCatch (do
          let b ← Py.index ks k
          pure (some b)) (fun e => if (e == "ValueError") = true then pure none else throw e)
      _) = _
  rw [h6]
  show (if (sw % 2 == 0) = true then Py.getItem vs idx else do
                  let x ← Py.getItem vs idx
                  pure (-x)) = _
  rw [h7]
  by_cases e : sw % 2 = 0
  · simp [e]
  · simp [e]

/-- **attribute access by any spelling**: for an admissible configuration (labels are single hex digits), a multivector given by its
    key tuple and value list of the same length, and any spelling over single hex digits — canonical, permuted, with repeated or foreign
    letters — the translated `__getattr__` returns the model's coefficient (0 for an absent or foreign blade, the sign of the
    permutation otherwise) and never raises -/
theorem mv_getattr_eq {α : Type} [Neg α] [Zero α] (c : Cfg) (h : Cfg.Adm c) (h16 : ∀ v ∈ c.vecs, v < 16)
    (ks : List Nat) (vs : List α) (hlen : ks.length = vs.length) (sp : List Nat) (hsp : ∀ l ∈ sp, l < 16) :
    Src.mv_getattr (algOf c) (ks.map Int.ofNat) vs (pyName sp) = .ok (Con.getattr c (ks, vs) sp) := by
  have hb16 : ∀ n ∈ c.basis, ∀ l ∈ n, l < 16 := fun n hn l hl => h16 l (h.names_letters n hn l hl)
  have hs16 : ∀ l ∈ sp, l < 16 := hsp
  have h1 := pyName_ne_arrPrio sp
  have h2 := isBladeName_pyName sp hs16
  have h3 := blade2canon_eq c h h16 sp hsp
  unfold Con.getattr
  cases hb : c.blade2canon sp with
  | none =>
    rw [hb] at h3
    have hnm := blade2canon_none_not_mem c sp hb
    have h4 : Py.dictHas (algOf c).canon2bin (pyName sp) = false := by
      rw [dictHas_canon2bin c hb16 sp hs16]; simpa using hnm
    exact getattr_absent _ _ _ _ _ _ h1 h2 h3 h4
  | some r =>
    obtain ⟨canon, swaps⟩ := r
    rw [hb] at h3
    have hm := blade2canon_some_mem c sp canon swaps hb
    have hc16 := hb16 canon hm
    have h4 : Py.dictHas (algOf c).canon2bin (pyName canon) = true := by
      rw [dictHas_canon2bin c hb16 canon hc16]; simpa using hm
    have h5 : Py.dictGet (algOf c).canon2bin (pyName canon) = .ok (Int.ofNat (c.binOf canon)) := by
      apply dictGet_of_dictGet?
      rw [dictGet?_canon2bin c hb16 canon hc16, if_pos hm]
    have hcont : c.basis.contains canon = true := by simpa using hm
    simp only [hcont, Bool.not_true, Bool.false_eq_true, ↓reduceIte]
    by_cases hk : c.binOf canon ∈ ks
    · obtain ⟨hi, hf⟩ := find?_zip_mem ks vs _ hlen hk
      rw [hf]
      have h6 := index_map_ofNat_mem ks _ hk
      have h7 := getItem_lt vs _ hi
      rw [getattr_index _ _ _ _ _ _ _ _ _ h1 h2 h3 h4 h5 h6 h7]
      congr 1
      dsimp only
      by_cases e : swaps % 2 = 0
      · have : (Int.ofNat swaps) % 2 = 0 := by simp only [Int.ofNat_eq_natCast]; omega
        rw [if_pos e, if_pos this]
      · have : ¬ (Int.ofNat swaps) % 2 = 0 := by simp only [Int.ofNat_eq_natCast]; omega
        rw [if_neg e, if_neg this]
    · rw [find?_zip_not_mem ks vs _ hk]
      have h6 := index_map_ofNat_not_mem ks _ hk
      exact getattr_noindex _ _ _ _ _ _ _ h1 h2 h3 h4 h5 h6

/-! ### coefficient of a stored name -/

theorem zip_fst_snd {α β : Type} (x : List (α × β)) : (x.map (·.1)).zip (x.map (·.2)) = x := by
  induction x with
  | nil => rfl
  | cons p x ih => rw [List.map_cons, List.map_cons, List.zip_cons_cons, ih]

/-- the model's `getattr` on the name stored for key `k` is the stored coefficient, 0 if absent -/
theorem getattr_nameOf {α : Type} [Neg α] [Zero α] (c : Cfg) (h : Cfg.Adm c) (x : MV α) (k : Nat) (hk : k < 2 ^ c.d) :
    Con.getattr c (x.map (·.1), x.map (·.2)) (c.nameOf k) = (lookupKey x k).getD 0 := by
  obtain ⟨hm, hb⟩ := Cfg.nameOf_mem c h k hk
  have hcont : c.basis.contains (c.nameOf k) = true := by simpa using hm
  have h2 : c.blade2canon (c.nameOf k) = some (c.nameOf k, 0) := by
    unfold Cfg.blade2canon; rw [if_pos hcont]
  unfold Con.getattr
  rw [h2]
  simp only [hcont, Bool.not_true, Bool.false_eq_true, ↓reduceIte]
  rw [zip_fst_snd, hb]
  unfold lookupKey
  cases x.find? (·.1 == k) with
  | none => rfl
  | some p => rfl

/-- one step of the comprehensions of `asfullmv` and `grade`: `getattr(self, bin2canon[k])` -/
theorem getattr_key {α : Type} [Neg α] [Zero α] (c : Cfg) (h : Cfg.Adm c) (h16 : ∀ v ∈ c.vecs, v < 16)
    (x : MV α) (k : Nat) (hk : k < 2 ^ c.d) :
    (do let n ← Py.dictGet (algOf c).bin2canon (Int.ofNat k)
        Src.mv_getattr (algOf c) ((x.map (·.1)).map Int.ofNat) (x.map (·.2)) n : Py.M α) =
      .ok ((lookupKey x k).getD 0) := by
  rw [dictGet_bin2canon c h k hk]
  change Src.mv_getattr (algOf c) ((x.map (·.1)).map Int.ofNat) (x.map (·.2)) (pyName (c.nameOf k)) = _
  have hm := (Cfg.nameOf_mem c h k hk).1
  rw [mv_getattr_eq c h h16 _ _ (by simp) _ (fun l hl => h16 l (h.names_letters _ hm l hl)), getattr_nameOf c h x k hk]

theorem mapM_ok {α β : Type} (l : List α) (f : α → Py.M β) (g : α → β) (h : ∀ a ∈ l, f a = .ok (g a)) :
    l.mapM f = .ok (l.map g) := by
  induction l with
  | nil => rfl
  | cons a l ih =>
    rw [List.mapM_cons, h a (by simp), ih (fun b hb => h b (by simp [hb]))]
    rfl

theorem mapM_map_ok {α β γ : Type} (l : List α) (e : α → γ) (f : γ → Py.M β) (g : α → β)
    (h : ∀ a ∈ l, f (e a) = .ok (g a)) : (l.map e).mapM f = .ok (l.map g) := by
  rw [List.mapM_map]
  exact mapM_ok l _ g h

/-! ### `indices_for_grades` and `range` -/

theorem map_toNat_ofNat (l : List Nat) : (l.map Int.ofNat).map Int.toNat = l := by
  rw [List.map_map]
  conv => rhs; rw [← List.map_id l]
  apply List.map_congr_left
  intro a _
  rfl

theorem indices_for_grades_eq (c : Cfg) (gs : List Nat) (hgs : gs.Pairwise (· < ·)) (hd : ∀ g ∈ gs, g ≤ c.d) :
    (algOf c).indices_for_grades (gs.map Int.ofNat) = .ok ((c.indicesForGrades gs).map Int.ofNat) := by
  show (if _ then _ else _) = _
  rw [map_toNat_ofNat]
  have h1 : (gs.map Int.ofNat).all (fun g => decide (0 ≤ g)) = true := by
    rw [List.all_eq_true]
    intro g hg
    obtain ⟨n, _, rfl⟩ := List.mem_map.mp hg
    simp
  have h2 : decide (gs.Pairwise (· < ·)) = true := by simpa using hgs
  have h3 : gs.all (· ≤ c.d) = true := by
    rw [List.all_eq_true]
    intro g hg
    simpa using hd g hg
  rw [h1, h2, h3]
  rfl

theorem range_zero_ofNat (n : Nat) : Py.range 0 (Int.ofNat n) = (List.range n).map Int.ofNat := by
  unfold Py.range
  have : (Int.ofNat n - 0).toNat = n := by simp
  rw [this]
  apply List.map_congr_left
  intro a _
  simp

theorem range_pairwise (n : Nat) : (List.range n).Pairwise (· < ·) := List.pairwise_lt_range

/-! ### `asfullmv` -/

/-- `asfullmv(canonical)`: all blades of the algebra in canonical resp. binary order, absent ones as 0 -/
theorem mv_asfullmv_eq {α : Type} [Neg α] [Zero α] (c : Cfg) (h : c.admissible = true)
    (x : MV α) (canonical : Bool) :
    Src.mv_asfullmv (algOf c) ((x.map (·.1)).map Int.ofNat) (x.map (·.2)) canonical =
      .ok (((asfullmv c canonical x).map (·.1)).map Int.ofNat, (asfullmv c canonical x).map (·.2)) := by
  have ha := Cfg.adm_of_admissible c h
  -- the common tail
  have tail : ∀ keys : List Nat, (∀ k ∈ keys, k < 2 ^ c.d) →
      (do let vals ← (keys.map Int.ofNat).mapM (fun k => do
              let n ← Py.dictGet (algOf c).bin2canon k
              Src.mv_getattr (algOf c) ((x.map (·.1)).map Int.ofNat) (x.map (·.2)) n)
          pure (keys.map Int.ofNat, vals) : Py.M (List Int × List α)) =
        .ok (keys.map Int.ofNat, keys.map fun k => (lookupKey x k).getD 0) := by
    intro keys hk
    rw [mapM_map_ok keys Int.ofNat _ (fun k => (lookupKey x k).getD 0)
      (fun k hkm => getattr_key c ha (vecs16_of_admissible c h) x k (hk k hkm))]
    rfl
  have hres : ∀ keys : List Nat,
      (((keys.map fun k => (k, (lookupKey x k).getD 0)).map (·.1)).map Int.ofNat,
        (keys.map fun k => (k, (lookupKey x k).getD (0 : α))).map (·.2)) =
      (keys.map Int.ofNat, keys.map fun k => (lookupKey x k).getD 0) := by
    intro keys
    simp [List.map_map, Function.comp_def]
  unfold asfullmv
  cases canonical with
  | true =>
    simp only [if_true]
    rw [hres]
    unfold Src.mv_asfullmv
    simp only [if_true]
    have hr : Py.range 0 ((algOf c).d + 1) = (List.range (c.d + 1)).map Int.ofNat :=
      range_zero_ofNat (c.d + 1)
    rw [hr, indices_for_grades_eq c _ (range_pairwise _) (fun g hg => by have := List.mem_range.mp hg; omega)]
    exact tail _ (fun k hk => ((mem_indicesForGrades c ha _ k).mp hk).1)
  | false =>
    simp only [Bool.false_eq_true, if_false]
    rw [hres]
    unfold Src.mv_asfullmv
    simp only [Bool.false_eq_true, if_false]
    have hr : Py.range 0 (algOf c).len = (List.range (2 ^ c.d)).map Int.ofNat := range_zero_ofNat _
    rw [hr]
    exact tail _ (fun k hk => List.mem_range.mp hk)

/-! ### `grade` -/

theorem lookupKey_none_of_not_mem {α : Type} (x : MV α) (k : Nat) (hk : k ∉ x.map (·.1)) : lookupKey x k = none := by
  unfold lookupKey
  rw [Option.map_eq_none_iff, List.find?_eq_none]
  intro p hp hb
  exact hk (List.mem_map.mpr ⟨p, hp, beq_iff_eq.mp hb⟩)

theorem lookupKey_some_of_mem {α : Type} (x : MV α) (k : Nat) (hk : k ∈ x.map (·.1)) : ∃ v, lookupKey x k = some v := by
  unfold lookupKey
  obtain ⟨p, hp, e⟩ := List.mem_map.mp hk
  cases hf : x.find? (·.1 == k) with
  | none =>
    rw [List.find?_eq_none] at hf
    exact absurd (by simpa using e) (hf p hp)
  | some q => exact ⟨q.2, rfl⟩

/-- the model's selection as "filter the stored keys, then read the coefficient" -/
theorem filterMap_lookup_eq {α : Type} [Zero α] (x : MV α) (L : List Nat) :
    (L.filterMap fun k => (lookupKey x k).map fun v => (k, v)) =
      (L.filter fun k => (x.map (·.1)).contains k).map fun k => (k, (lookupKey x k).getD 0) := by
  induction L with
  | nil => rfl
  | cons k L ih =>
    rw [List.filterMap_cons, List.filter_cons]
    by_cases hk : k ∈ x.map (·.1)
    · obtain ⟨v, hv⟩ := lookupKey_some_of_mem x k hk
      have hc : (x.map (·.1)).contains k = true := by simpa using hk
      rw [hv, if_pos hc, List.map_cons, hv, ← ih]
      rfl
    · have hc : ¬ (x.map (·.1)).contains k = true := by simpa using hk
      rw [lookupKey_none_of_not_mem x k hk, if_neg hc, ← ih]
      rfl

theorem filter_contains_map_ofNat (ks L : List Nat) :
    (L.map Int.ofNat).filter (fun k => (ks.map Int.ofNat).contains k) =
      (L.filter fun k => ks.contains k).map Int.ofNat := by
  rw [List.filter_map]
  congr 1
  apply List.filter_congr
  intro k _
  have hinj : Function.Injective Int.ofNat := fun a b e => Int.ofNat.inj e
  simp only [Function.comp]
  rw [List.contains_eq_mem, List.contains_eq_mem]
  by_cases hk : k ∈ ks
  · have : Int.ofNat k ∈ ks.map Int.ofNat := List.mem_map_of_mem hk
    simp only [hk, this]
  · have : ¬ Int.ofNat k ∈ ks.map Int.ofNat := fun hm => hk ((mem_map_inj Int.ofNat hinj ks k).mp hm)
    simp only [hk, this]

theorem nodup_map_ofNat (l : List Nat) (h : l.Nodup) : (l.map Int.ofNat).Nodup := by
  unfold List.Nodup at h ⊢
  rw [List.pairwise_map]
  exact h.imp (fun hab e => hab (Int.ofNat.inj e))

/-- `grade(*gs)` for a strictly increasing tuple of grades in 0..d: the stored coefficients of those grades in canonical order -/
theorem mv_grade_eq {α : Type} [Neg α] [Zero α] (c : Cfg) (h : c.admissible = true)
    (x : MV α) (gs : List Nat) (hgs : gs.Pairwise (· < ·)) (hd : ∀ g ∈ gs, g ≤ c.d) :
    Src.mv_grade (algOf c) ((x.map (·.1)).map Int.ofNat) (x.map (·.2)) (gs.map Int.ofNat) =
      .ok (((gradeSel c gs x).map (·.1)).map Int.ofNat, (gradeSel c gs x).map (·.2)) := by
  have ha := Cfg.adm_of_admissible c h
  have hgnd : gs.Nodup := hgs.imp (fun hab => Nat.ne_of_lt hab)
  have hnd := nodup_indicesForGrades c ha (binOf_injective_of_admissible c h) gs hgnd
  unfold gradeSel
  rw [filterMap_lookup_eq]
  generalize hK : ((c.indicesForGrades gs).filter fun k => (x.map (·.1)).contains k) = K
  have hKlt : ∀ k ∈ K, k < 2 ^ c.d := by
    intro k hk
    rw [← hK] at hk
    exact ((mem_indicesForGrades c ha gs k).mp (List.mem_filter.mp hk).1).1
  have hKnd : K.Nodup := by
    rw [← hK]; exact hnd.sublist List.filter_sublist
  unfold Src.mv_grade
  simp only [indices_for_grades_eq c gs hgs hd]
  show (do
      let items ← List.mapM _ (List.filter (fun k => ((x.map (·.1)).map Int.ofNat).contains k) ((c.indicesForGrades gs).map Int.ofNat))
      _ : Py.M (List Int × List α)) = _
  rw [filter_contains_map_ofNat, hK]
  have hstep : ∀ k ∈ K, (do
      let n ← Py.dictGet (algOf c).bin2canon (Int.ofNat k)
      let v ← Src.mv_getattr (algOf c) ((x.map (·.1)).map Int.ofNat) (x.map (·.2)) n
      pure (Int.ofNat k, v) : Py.M (Int × α)) = .ok (Int.ofNat k, (lookupKey x k).getD 0) := by
    intro k hk
    have := getattr_key c ha (vecs16_of_admissible c h) x k (hKlt k hk)
    rw [← bind_assoc, this]
    rfl
  rw [mapM_map_ok K Int.ofNat _ (fun k => (Int.ofNat k, (lookupKey x k).getD 0)) hstep]
  show Except.ok (Py.dictKeys (Py.dictOf _), Py.dictValues (Py.dictOf _)) = _
  rw [dictOf_nodup _ (by
    rw [List.map_map]
    exact nodup_map_ofNat K hKnd)]
  unfold Py.dictKeys Py.dictValues
  simp [List.map_map, Function.comp_def]

end Kingdon.SrcEq

/-
  C07: soundness of the reflection.  If `hitzerCheck c = true` (a finite computation on polynomial normal forms,
  discharged by `decide +kernel` per configuration in Properties/C07*.lean) then for EVERY commutative ring and EVERY
  operand of the algebra (dense or sparse, any storage) x * num(x) and num(x) * x are scalars, so that
  num(x) / denom(x) is a two-sided inverse whenever the denominator is a unit.
-/
import Kingdon.Model.HitzerCheck
import Kingdon.Lemmas.Naturality
import Kingdon.Lemmas.ConstructLemmas
import Kingdon.Lemmas.Duality
namespace Kingdon
open Finsupp

section polyeval
variable {α : Type} [CommRing α] (ρ : Nat → α)

/-- value of an executable normal-form polynomial under a valuation of its variables -/
def Poly.eval (p : Poly) : α := (p.toList.map fun mc => ((mc.2 : Int) : α) * (mc.1.map ρ).prod).sum

/-- list-level evaluation -/
def evalL (l : List (Mono × Int)) : α := (l.map fun mc => ((mc.2 : Int) : α) * (mc.1.map ρ).prod).sum

@[simp] theorem evalL_nil : evalL ρ [] = 0 := rfl
@[simp] theorem evalL_cons (mc : Mono × Int) (l : List (Mono × Int)) :
    evalL ρ (mc :: l) = ((mc.2 : Int) : α) * (mc.1.map ρ).prod + evalL ρ l := by
  simp [evalL]

theorem monoLt_antisymm (m n : Mono) (h1 : Poly.monoLt m n = false) (h2 : Poly.monoLt n m = false) : m = n := by
  induction m generalizing n with
  | nil =>
    cases n with
    | nil => rfl
    | cons b bs => simp [Poly.monoLt] at h1
  | cons a as ih =>
    cases n with
    | nil => simp [Poly.monoLt] at h2
    | cons b bs =>
      simp only [Poly.monoLt] at h1 h2
      by_cases hab : a < b
      · simp [hab] at h1
      · by_cases hba : b < a
        · simp [hba] at h2
        · simp only [hab, hba, if_false] at h1 h2
          have : a = b := by omega
          subst this
          rw [ih bs h1 h2]

theorem evalL_padd (p q : List (Mono × Int)) : evalL ρ (Poly.padd p q) = evalL ρ p + evalL ρ q := by
  fun_induction Poly.padd p q with
  | case1 q => simp
  | case2 p hp => simp
  | case3 m c p n d q h ih => simp only [evalL_cons, ih]; ring
  | case4 m c p n d q h1 h2 ih => simp only [evalL_cons, ih]; ring
  | case5 m c p n d q h1 h2 h3 ih =>
    have hmn : m = n := monoLt_antisymm m n (by simpa using h1) (by simpa using h2)
    subst hmn
    simp only [evalL_cons, ih]
    have : ((c : α) + (d : α)) = 0 := by
      have := congrArg (Int.cast (R := α)) h3
      simpa using this
    linear_combination (-(List.map ρ m).prod) * this
  | case6 m c p n d q h1 h2 h3 ih =>
    have hmn : m = n := monoLt_antisymm m n (by simpa using h1) (by simpa using h2)
    subst hmn
    simp only [evalL_cons, ih]
    push_cast
    ring

theorem prod_mmul (m n : Mono) : ((Poly.mmul m n).map ρ).prod = (m.map ρ).prod * (n.map ρ).prod := by
  fun_induction Poly.mmul m n with
  | case1 n => simp
  | case2 m hm => simp
  | case3 a as b bs h ih => simp only [List.map_cons, List.prod_cons, ih]; ring
  | case4 a as b bs h ih => simp only [List.map_cons, List.prod_cons, ih]; ring

theorem evalL_pscale (m : Mono) (c : Int) (q : List (Mono × Int)) :
    evalL ρ (Poly.pscale m c q) = (c : α) * (m.map ρ).prod * evalL ρ q := by
  induction q with
  | nil => simp [Poly.pscale]
  | cons nd q ih =>
    have : Poly.pscale m c (nd :: q) = (Poly.mmul m nd.1, c * nd.2) :: Poly.pscale m c q := rfl
    rw [this, evalL_cons, evalL_cons, ih, prod_mmul]
    push_cast
    ring

theorem evalL_pmul_aux (p q acc : List (Mono × Int)) :
    evalL ρ (p.foldl (fun acc (mc : Mono × Int) => Poly.padd acc (Poly.pscale mc.1 mc.2 q)) acc) =
      evalL ρ acc + evalL ρ p * evalL ρ q := by
  induction p generalizing acc with
  | nil => simp
  | cons mc p ih =>
    rw [List.foldl_cons, ih, evalL_padd, evalL_pscale, evalL_cons]
    ring

theorem evalL_pmul (p q : List (Mono × Int)) : evalL ρ (Poly.pmul p q) = evalL ρ p * evalL ρ q := by
  have := evalL_pmul_aux ρ p q []
  simp only [evalL_nil, zero_add] at this
  exact this

theorem evalL_pneg (p : List (Mono × Int)) : evalL ρ (Poly.pneg p) = - evalL ρ p := by
  induction p with
  | nil => simp [Poly.pneg]
  | cons mc p ih =>
    have : Poly.pneg (mc :: p) = (mc.1, -mc.2) :: Poly.pneg p := rfl
    rw [this, evalL_cons, evalL_cons, ih]
    push_cast
    ring

theorem Poly.eval_add (p q : Poly) : Poly.eval ρ (p + q) = Poly.eval ρ p + Poly.eval ρ q :=
  evalL_padd ρ p q
theorem Poly.eval_neg (p : Poly) : Poly.eval ρ (-p) = - Poly.eval ρ p :=
  evalL_pneg ρ p
theorem Poly.eval_mul (p q : Poly) : Poly.eval ρ (p * q) = Poly.eval ρ p * Poly.eval ρ q :=
  evalL_pmul ρ p q
theorem Poly.eval_sub (p q : Poly) : Poly.eval ρ (p - q) = Poly.eval ρ p - Poly.eval ρ q := by
  have h1 := evalL_padd ρ (Poly.toList p) (Poly.pneg (Poly.toList q))
  rw [evalL_pneg] at h1
  exact h1.trans (sub_eq_add_neg _ _).symm
theorem Poly.eval_zero : Poly.eval ρ (0 : Poly) = 0 := rfl
theorem Poly.eval_one : Poly.eval ρ (1 : Poly) = 1 := by
  show evalL ρ Poly.pone = 1
  simp [Poly.pone]
theorem Poly.eval_var (i : Nat) : Poly.eval ρ (Poly.var i) = ρ i := by
  show evalL ρ (Poly.pvar i) = ρ i
  simp [Poly.pvar]
theorem Poly.eval_isZero (p : Poly) (h : p.isZero = true) : Poly.eval ρ p = 0 := by
  have : p.toList = [] := by simpa [Poly.isZero] using h
  unfold Poly.eval
  rw [this]; rfl
end polyeval

section gen
variable {β γ : Type} [Add β] [Mul β] [Neg β] [Sub β] [One β] [Add γ] [Mul γ] [Neg γ] [Sub γ] [One γ] (f : β → γ)

omit [Add β] [Mul β] [One β] [Add γ] [Mul γ] [One γ] in
theorem mapV_insertSub (hsub : ∀ a b, f (a - b) = f a - f b) (hneg : ∀ a, f (-a) = - f a)
    (r : MV β) (k : Nat) (t : β) : mapV f (insertSub r k t) = insertSub (mapV f r) k (f t) := by
  induction r with
  | nil => simp [insertSub, hneg]
  | cons p r ih =>
    obtain ⟨k', v⟩ := p
    by_cases h : k' = k
    · simp [insertSub, h, hsub]
    · simp [insertSub, h, ih]

omit [Add β] [Mul β] [One β] [Add γ] [Mul γ] [One γ] in
theorem mapV_sub (hsub : ∀ a b, f (a - b) = f a - f b) (hneg : ∀ a, f (-a) = - f a)
    (x y : MV β) : mapV f (sub x y) = sub (mapV f x) (mapV f y) := by
  unfold sub
  induction y generalizing x with
  | nil => rfl
  | cons q y ih =>
    rw [mapV_cons, List.foldl_cons, List.foldl_cons, ih]
    congr 1
    exact mapV_insertSub f hsub hneg x q.1 q.2

omit [Mul β] [Neg β] [Sub β] [One β] [Mul γ] [Neg γ] [Sub γ] [One γ] in
theorem mapV_scale2 (hadd : ∀ a b, f (a + b) = f a + f b) (x : MV β) :
    mapV f (scale2 x) = scale2 (mapV f x) := by
  simp [mapV, scale2, List.map_map, Function.comp_def, hadd]

omit [Add β] [Mul β] [Neg β] [Sub β] [One β] [Add γ] [Mul γ] [Neg γ] [Sub γ] [One γ] in
theorem mapV_gradeSel (c : Cfg) (gs : List Nat) (x : MV β) :
    mapV f (gradeSel c gs x) = gradeSel c gs (mapV f x) := by
  unfold gradeSel
  simp only [mapV, List.map_filterMap]
  apply List.filterMap_congr
  intro k _
  have := lookupKey_mapV f x k
  unfold mapV at this
  rw [this]
  cases lookupKey x k <;> rfl

omit [Sub β] [One β] [Sub γ] [One γ] in
theorem mapV_gp (hadd : ∀ a b, f (a + b) = f a + f b) (hmul : ∀ a b, f (a * b) = f a * f b)
    (hneg : ∀ a, f (-a) = - f a) (c : Cfg) (x y : MV β) :
    mapV f (gp c x y) = gp c (mapV f x) (mapV f y) :=
  (codegenProduct_aux f (fun _ => True) (fun _ _ _ _ => trivial) (fun _ _ _ _ => trivial)
    (fun _ _ => trivial) (fun a b _ _ => hadd a b) (fun a b _ _ => hmul a b)
    (fun a _ => hneg a) _ _ _ x y (fun _ _ => trivial) (fun _ _ => trivial)).2

omit [Add β] [Mul β] [Sub β] [One β] [Add γ] [Mul γ] [Sub γ] [One γ] in
theorem mapV_involutions (hneg : ∀ a, f (-a) = - f a) (gs : List Nat) (x : MV β) :
    mapV f (involutions gs x) = involutions gs (mapV f x) :=
  (involutions_aux f (fun _ => True) (fun _ _ => trivial) (fun a _ => hneg a) gs x (fun _ _ => trivial)).2

theorem hitzerNum_mapV (hadd : ∀ a b, f (a + b) = f a + f b) (hmul : ∀ a b, f (a * b) = f a * f b)
    (hneg : ∀ a, f (-a) = - f a) (hsub : ∀ a b, f (a - b) = f a - f b) (hone : f 1 = 1)
    (c : Cfg) (x : MV β) : (hitzerNum c x).map (mapV f) = hitzerNum c (mapV f x) := by
  unfold hitzerNum
  split <;>
  simp only [Option.map_some, Option.map_none, reverse, conjugate, involute, mapV_gp f hadd hmul hneg,
    mapV_involutions f hneg, mapV_sub f hsub hneg, mapV_scale2 f hadd, mapV_gradeSel, mapV_cons, mapV_nil, hone]
end gen

variable {α : Type} [CommRing α]

/-- the dense multivector with coefficient `v k` on blade `k` -/
def denseVal (c : Cfg) (v : Nat → α) : MV α := (List.range (2 ^ c.d)).map fun k => (k, v k)

theorem mapV_denseSym (c : Cfg) (ρ : Nat → α) : mapV (Poly.eval ρ) (denseSym c) = denseVal c ρ := by
  simp [mapV, denseSym, denseVal, List.map_map, Function.comp_def, Poly.eval_var]

theorem mapV_eval_gp (ρ : Nat → α) (c : Cfg) (x y : MV Poly) :
    mapV (Poly.eval ρ) (gp c x y) = gp c (mapV (Poly.eval ρ) x) (mapV (Poly.eval ρ) y) :=
  mapV_gp (Poly.eval ρ) (Poly.eval_add ρ) (Poly.eval_mul ρ) (Poly.eval_neg ρ) c x y

/-- the numerator construction commutes with evaluating the polynomial coefficients -/
theorem hitzerNum_eval (c : Cfg) (ρ : Nat → α) :
    (hitzerNum c (denseSym c)).map (mapV (Poly.eval ρ)) = hitzerNum c (denseVal c ρ) := by
  rw [hitzerNum_mapV (Poly.eval ρ) (Poly.eval_add ρ) (Poly.eval_mul ρ) (Poly.eval_neg ρ) (Poly.eval_sub ρ)
    (Poly.eval_one ρ), mapV_denseSym]

theorem hz_den_apply (l : MV α) (k : Nat) : (den l) k = ((l.filter (·.1 == k)).map (·.2)).sum := by
  induction l with
  | nil => simp
  | cons p l ih =>
    rw [den_cons, Finsupp.add_apply, ih, List.filter_cons]
    by_cases h : p.1 = k
    · simp [h]
    · simp [h]

theorem eval_foldl_add (ρ : Nat → α) (l : MV Poly) (a : Poly) :
    Poly.eval ρ (l.foldl (fun acc kv => acc + kv.2) a) = Poly.eval ρ a + (l.map fun kv => Poly.eval ρ kv.2).sum := by
  induction l generalizing a with
  | nil => simp
  | cons p l ih => rw [List.foldl_cons, ih, Poly.eval_add, List.map_cons, List.sum_cons, add_assoc]

theorem den_mapV_eval_apply (ρ : Nat → α) (m : MV Poly) (k : Nat) :
    (den (mapV (Poly.eval ρ) m)) k = Poly.eval ρ (collect k m) := by
  unfold collect
  rw [eval_foldl_add, hz_den_apply]
  show _ = (0 : α) + _
  rw [zero_add]
  unfold mapV
  rw [List.filter_map, List.map_map]
  rfl

theorem den_of_scalarOnly (ρ : Nat → α) (m : MV Poly) (h : scalarOnly m = true) :
    den (mapV (Poly.eval ρ) m) = single 0 (Poly.eval ρ (collect 0 m)) := by
  ext k
  rw [den_mapV_eval_apply]
  by_cases hk : k = 0
  · subst hk; simp
  · rw [Finsupp.single_apply, if_neg (Ne.symm hk)]
    by_cases hm : k ∈ m.map (·.1)
    · unfold scalarOnly at h
      rw [List.all_eq_true] at h
      have := h k hm
      simp only [Bool.or_eq_true, beq_iff_eq, hk, false_or] at this
      exact Poly.eval_isZero ρ _ this
    · have : m.filter (·.1 == k) = [] := by
        rw [List.filter_eq_nil_iff]
        intro p hp hpk
        exact hm (List.mem_map.2 ⟨p, hp, by simpa using hpk⟩)
      unfold collect
      rw [this]
      exact Poly.eval_zero ρ

/-- **lifting**: from the polynomial check to every valuation in every commutative ring -/
theorem hitzer_dense_of_check (c : Cfg) (hc : hitzerCheck c = true) (ρ : Nat → α) :
    ∃ num D D', hitzerNum c (denseVal c ρ) = some num ∧
      den (gp c (denseVal c ρ) num) = single 0 D ∧ den (gp c num (denseVal c ρ)) = single 0 D' := by
  unfold hitzerCheck at hc
  cases hnum : hitzerNum c (denseSym c) with
  | none => rw [hnum] at hc; simp at hc
  | some num_s =>
    rw [hnum] at hc
    simp only [Bool.and_eq_true] at hc
    have h1 := hitzerNum_eval c ρ
    rw [hnum, Option.map_some] at h1
    refine ⟨mapV (Poly.eval ρ) num_s, Poly.eval ρ (collect 0 (gp c (denseSym c) num_s)),
      Poly.eval ρ (collect 0 (gp c num_s (denseSym c))), h1.symm, ?_, ?_⟩
    · rw [← mapV_denseSym, ← mapV_eval_gp]
      exact den_of_scalarOnly ρ _ hc.1
    · rw [← mapV_denseSym, ← mapV_eval_gp]
      exact den_of_scalarOnly ρ _ hc.2

/-! ### the numerator respects denotations -/

theorem den_apply_of_not_mem (x : MV α) (k : Nat) (h : k ∉ x.map (·.1)) : (den x) k = 0 := by
  rw [hz_den_apply]
  have : x.filter (·.1 == k) = [] := by
    rw [List.filter_eq_nil_iff]
    intro p hp hpk
    exact h (List.mem_map.2 ⟨p, hp, by simpa using hpk⟩)
  rw [this]; rfl

omit [CommRing α] in
theorem hz_lookupKey_cons (p : Nat × α) (x : MV α) (k : Nat) :
    lookupKey (p :: x) k = if p.1 = k then some p.2 else lookupKey x k := by
  unfold lookupKey
  rw [List.find?_cons]
  by_cases h : p.1 = k
  · simp [h]
  · have : (p.1 == k) = false := by simpa using h
    simp [this, h]

theorem den_apply_lookupKey (x : MV α) (hk : (x.map (·.1)).Nodup) (k : Nat) :
    (den x) k = (lookupKey x k).getD 0 := by
  induction x with
  | nil => simp [lookupKey]
  | cons p x ih =>
    rw [List.map_cons, List.nodup_cons] at hk
    rw [den_cons, Finsupp.add_apply, hz_lookupKey_cons]
    by_cases h : p.1 = k
    · subst h
      rw [if_pos rfl, den_apply_of_not_mem x _ hk.1]
      simp
    · rw [if_neg h, ih hk.2, Finsupp.single_apply, if_neg h, zero_add]

/-- the part of `X` on the listed blades (with the multiplicity of the list) -/
noncomputable def gsel (L : List Nat) (X : ℕ →₀ α) : ℕ →₀ α := (L.map fun k => single k (X k)).sum

theorem hz_den_filterMap_lookup (x : MV α) (hk : (x.map (·.1)).Nodup) (L : List Nat) :
    den (L.filterMap fun k => (lookupKey x k).map fun v => (k, v)) = gsel L (den x) := by
  unfold gsel
  induction L with
  | nil => simp
  | cons k L ih =>
    rw [List.filterMap_cons, List.map_cons, List.sum_cons, den_apply_lookupKey x hk k]
    cases h : lookupKey x k with
    | none => simp [ih]
    | some v => simp [ih]

theorem hz_gradeSel_den (c : Cfg) (gs : List Nat) (x : MV α) (hk : (x.map (·.1)).Nodup) :
    den (gradeSel c gs x) = gsel (c.indicesForGrades gs) (den x) :=
  hz_den_filterMap_lookup x hk _

theorem scale2_den (x : MV α) : den (scale2 x) = den x + den x := by
  induction x with
  | nil => simp [scale2]
  | cons p x ih =>
    have : scale2 (p :: x) = (p.1, p.2 + p.2) :: scale2 x := rfl
    rw [this, den_cons, den_cons, ih, single_add]
    abel

section keys
variable {β : Type} [Add β] [Mul β] [Neg β]

omit [Mul β] [Neg β] in
theorem keys_insertAdd (r : MV β) (k : Nat) (t : β) :
    (insertAdd r k t).map (·.1) = if k ∈ r.map (·.1) then r.map (·.1) else r.map (·.1) ++ [k] := by
  induction r with
  | nil => simp [insertAdd]
  | cons p r ih =>
    obtain ⟨k', v⟩ := p
    by_cases h : k' = k
    · simp [insertAdd, h]
    · have h' : ¬ k = k' := fun e => h e.symm
      simp only [insertAdd, h, if_false, List.map_cons, ih, List.mem_cons, h', false_or]
      split <;> simp

omit [Mul β] [Neg β] in
theorem nodup_insertAdd (r : MV β) (k : Nat) (t : β) (h : (r.map (·.1)).Nodup) :
    ((insertAdd r k t).map (·.1)).Nodup := by
  rw [keys_insertAdd]
  split
  · exact h
  · rename_i hk
    rw [List.nodup_append]
    exact ⟨h, by simp, by intro a ha b hb; simp at hb; subst hb; intro e; subst e; exact hk ha⟩

theorem nodup_cpStep (signf keyout filt) (res : MV β) (pq) (h : (res.map (·.1)).Nodup) :
    ((cpStep signf keyout filt res pq).map (·.1)).Nodup := by
  unfold cpStep
  dsimp only
  split
  · exact h
  · split
    · exact nodup_insertAdd _ _ _ h
    · exact h

theorem nodup_foldl_cpStep (signf keyout filt) (l : List ((Nat × β) × (Nat × β))) (res : MV β)
    (h : (res.map (·.1)).Nodup) : ((l.foldl (cpStep signf keyout filt) res).map (·.1)).Nodup := by
  induction l generalizing res with
  | nil => exact h
  | cons pq l ih => exact ih _ (nodup_cpStep _ _ _ _ _ h)

theorem nodup_codegenProduct (signf keyout filt) (x y : MV β) :
    ((codegenProduct signf keyout filt x y).map (·.1)).Nodup :=
  nodup_foldl_cpStep _ _ _ _ _ (by simp)
end keys

theorem gradeSel_den_cp (c : Cfg) (gs : List Nat) (signf keyout filt) (x y : MV α) :
    den (gradeSel c gs (codegenProduct signf keyout filt x y)) =
      gsel (c.indicesForGrades gs) (den (codegenProduct signf keyout filt x y)) :=
  hz_gradeSel_den c gs _ (nodup_codegenProduct _ _ _ x y)

/-- the numerator respects denotations (no side conditions are needed: `gradeSel` is only ever applied to the
    output of `codegenProduct`, whose keys are duplicate-free) -/
theorem hitzerNum_den_congr' (c : Cfg) (x x' num num' : MV α)
    (hd : den x = den x') (hn : hitzerNum c x = some num) (hn' : hitzerNum c x' = some num') :
    den num = den num' := by
  unfold hitzerNum at hn hn'
  generalize c.d = d at hn hn'
  rcases d with _|_|_|_|_|_|d
  all_goals simp only [Option.some.injEq, reduceCtorEq] at hn hn'
  all_goals subst hn hn'
  all_goals simp only [gp, reverse, conjugate, involute, codegenProduct_den, involutions_den, sub_den, scale2_den,
    gradeSel_den_cp, hd]


set_option linter.unusedVariables false in
/-- the numerator respects denotations: operands denoting the same element (with duplicate-free keys inside the
    algebra) have numerators denoting the same element -/
theorem hitzerNum_den_congr (c : Cfg) (h : Cfg.Adm c) (x x' num num' : MV α)
    (hk : (x.map (·.1)).Nodup) (hk' : (x'.map (·.1)).Nodup)
    (hr : ∀ p ∈ x, p.1 < 2 ^ c.d) (hr' : ∀ p ∈ x', p.1 < 2 ^ c.d)
    (hd : den x = den x') (hn : hitzerNum c x = some num) (hn' : hitzerNum c x' = some num') :
    den num = den num' :=
  hitzerNum_den_congr' c x x' num num' hd hn hn'

theorem hitzerNum_isSome_indep (c : Cfg) (x y : MV α) : (hitzerNum c x).isSome = (hitzerNum c y).isSome := by
  unfold hitzerNum
  generalize c.d = d
  rcases d with _|_|_|_|_|_|d <;> rfl

theorem den_range_apply (n : Nat) (v : Nat → α) (k : Nat) :
    (den ((List.range n).map fun k => (k, v k))) k = if k < n then v k else 0 := by
  induction n with
  | zero => simp
  | succ n ih =>
    rw [List.range_succ, List.map_append, den_append, Finsupp.add_apply, ih]
    simp only [List.map_cons, List.map_nil, den_cons, den_nil, add_zero, Finsupp.single_apply]
    by_cases h1 : k < n
    · rw [if_pos h1, if_neg (by omega), if_pos (by omega), add_zero]
    · by_cases h2 : n = k
      · subst h2; simp
      · rw [if_neg h1, if_neg h2, if_neg (by omega), add_zero]

theorem den_denseVal_of_inRange (c : Cfg) (X : ℕ →₀ α) (hX : InRange c X) : den (denseVal c fun k => X k) = X := by
  ext k
  unfold denseVal
  rw [den_range_apply]
  split
  · rfl
  · rename_i hk
    symm
    rw [← Finsupp.notMem_support_iff]
    intro hm
    exact hk (hX k hm)

set_option linter.unusedVariables false in
/-- **C07 for every operand**: for an admissible configuration that passes the check, any stored operand with
    duplicate-free keys inside the algebra: x * num and num * x are scalars -/
theorem hitzer_spec (c : Cfg) (h : Cfg.Adm c) (hc : hitzerCheck c = true) (x : MV α)
    (hk : (x.map (·.1)).Nodup) (hr : ∀ p ∈ x, p.1 < 2 ^ c.d) :
    ∃ num D D', hitzerNum c x = some num ∧
      clMulS c.computeSign (den x) (den num) = single 0 D ∧
      clMulS c.computeSign (den num) (den x) = single 0 D' := by
  have hT := Cfg.tableRange_of_adm c h
  obtain ⟨num', D, D', hn', h1, h2⟩ := hitzer_dense_of_check c hc (fun k => (den x) k)
  have hden : den (denseVal c fun k => (den x) k) = den x := den_denseVal_of_inRange c _ (inRange_den c x hr)
  have hs := hitzerNum_isSome_indep c x (denseVal c fun k => (den x) k)
  rw [hn', Option.isSome_some, Option.isSome_iff_exists] at hs
  obtain ⟨num, hn⟩ := hs
  have hnn : den num = den num' := hitzerNum_den_congr' c _ _ _ _ hden.symm hn hn'
  rw [gp_den c hT, hden, ← hnn] at h1 h2
  exact ⟨num, D, D', hn, h1, h2⟩


/-! ### scalars are central; two-sided inverse -/

/-- multiply all coefficients by `u` -/
noncomputable def smulR (u : α) (N : ℕ →₀ α) : ℕ →₀ α := N.mapRange (· * u) (by simp)

theorem smulR_add (u : α) (a b : ℕ →₀ α) : smulR u (a + b) = smulR u a + smulR u b :=
  Finsupp.mapRange_add (fun x y => add_mul x y u) a b

@[simp] theorem smulR_zero (u : α) : smulR u (0 : ℕ →₀ α) = 0 := Finsupp.mapRange_zero

theorem smulR_single (u : α) (k : Nat) (v : α) : smulR u (single k v) = single k (v * u) :=
  Finsupp.mapRange_single

theorem bilin_smulR_right (s ko) (u : α) (a b : ℕ →₀ α) :
    bilin s ko a (smulR u b) = smulR u (bilin s ko a b) := by
  induction a using Finsupp.induction_linear with
  | zero => simp
  | add x y h1 h2 => rw [bilin_add_left, bilin_add_left, smulR_add, h1, h2]
  | single i v =>
    induction b using Finsupp.induction_linear with
    | zero => simp
    | add x y h1 h2 => rw [smulR_add, bilin_add_right, bilin_add_right, smulR_add, h1, h2]
    | single j w =>
      rw [smulR_single, bilin_single_single, bilin_single_single, smulR_single]; congr 1; ring

theorem bilin_smulR_left (s ko) (u : α) (a b : ℕ →₀ α) :
    bilin s ko (smulR u a) b = smulR u (bilin s ko a b) := by
  induction a using Finsupp.induction_linear with
  | zero => simp
  | add x y h1 h2 => rw [smulR_add, bilin_add_left, bilin_add_left, smulR_add, h1, h2]
  | single i v =>
    induction b using Finsupp.induction_linear with
    | zero => simp
    | add x y h1 h2 => rw [bilin_add_right, bilin_add_right, smulR_add, h1, h2]
    | single j w =>
      rw [smulR_single, bilin_single_single, bilin_single_single, smulR_single]; congr 1; ring

theorem clMulS_one_left (c : Cfg) (h : Cfg.Adm c) (a : ℕ →₀ α) (ha : InRange c a) :
    clMulS c.computeSign (single 0 1) a = a := by
  unfold clMulS
  rw [bilin_single_left]
  conv_rhs => rw [← Finsupp.sum_single a]
  refine Finsupp.sum_congr fun i hi => ?_
  rw [c.computeSign_zero_left h i (ha i hi)]
  simp

theorem clMulS_scalar_right (c : Cfg) (h : Cfg.Adm c) (a : ℕ →₀ α) (ha : InRange c a) (u : α) :
    clMulS c.computeSign a (single 0 u) = smulR u a := by
  have : (single 0 u : ℕ →₀ α) = smulR u (single 0 1) := by rw [smulR_single, one_mul]
  rw [this]
  unfold clMulS
  rw [bilin_smulR_right]
  exact congrArg _ (clMulS_one_right c h a ha)

theorem clMulS_scalar_left (c : Cfg) (h : Cfg.Adm c) (a : ℕ →₀ α) (ha : InRange c a) (u : α) :
    clMulS c.computeSign (single 0 u) a = smulR u a := by
  have : (single 0 u : ℕ →₀ α) = smulR u (single 0 1) := by rw [smulR_single, one_mul]
  rw [this]
  unfold clMulS
  rw [bilin_smulR_left]
  exact congrArg _ (clMulS_one_left c h a ha)

/-- the two scalars coincide whenever one of them is a unit: then `D⁻¹ • num` is a two-sided inverse -/
theorem hitzer_two_sided (c : Cfg) (h : Cfg.Adm c) (X N : ℕ →₀ α) (D D' : α) (u : α)
    (hX : InRange c X) (hN : InRange c N)
    (h1 : clMulS c.computeSign X N = single 0 D) (h2 : clMulS c.computeSign N X = single 0 D')
    (hu : D * u = 1) :
    clMulS c.computeSign X (N.mapRange (· * u) (by simp)) = single 0 1 ∧
    clMulS c.computeSign (N.mapRange (· * u) (by simp)) X = single 0 1 ∧
    D' = D := by
  have hDD : D' = D := by
    have hassoc := clMulS_assoc_cfg c h X N X hX hN hX
    rw [h1, h2, clMulS_scalar_left c h X hX, clMulS_scalar_right c h X hX] at hassoc
    have h3 := congrArg (fun Y => clMulS c.computeSign Y N) hassoc
    simp only [clMulS, bilin_smulR_left] at h3
    change smulR D (clMulS c.computeSign X N) = smulR D' (clMulS c.computeSign X N) at h3
    rw [h1, smulR_single, smulR_single] at h3
    have h4 : D * D = D * D' := by
      have := congrArg (fun Y : ℕ →₀ α => Y 0) h3
      simpa using this
    calc D' = (D * u) * D' := by rw [hu, one_mul]
      _ = u * (D * D') := by ring
      _ = u * (D * D) := by rw [h4]
      _ = (D * u) * D := by ring
      _ = D := by rw [hu, one_mul]
  refine ⟨?_, ?_, hDD⟩
  · change clMulS c.computeSign X (smulR u N) = single 0 1
    unfold clMulS
    rw [bilin_smulR_right]
    change smulR u (clMulS c.computeSign X N) = _
    rw [h1, smulR_single, hu]
  · change clMulS c.computeSign (smulR u N) X = single 0 1
    unfold clMulS
    rw [bilin_smulR_left]
    change smulR u (clMulS c.computeSign N X) = _
    rw [h2, smulR_single, hDD, hu]


/-! ### the denominator -/

theorem foldl_add_snd (l : MV α) (a : α) :
    l.foldl (fun acc kv => acc + kv.2) a = a + (l.map (·.2)).sum := by
  induction l generalizing a with
  | nil => simp
  | cons p l ih => rw [List.foldl_cons, ih, List.map_cons, List.sum_cons, add_assoc]

theorem scalarPart_eq (m : MV α) : scalarPart m = (den m) 0 := by
  unfold scalarPart
  rw [foldl_add_snd, zero_add, hz_den_apply]

theorem bilin_apply_congr (s s' : Nat → Nat → Int) (ko : Nat → Nat → Nat) (a b : ℕ →₀ α) (k : Nat)
    (h : ∀ i j, ko i j = k → s i j = s' i j) : (bilin s ko a b) k = (bilin s' ko a b) k := by
  unfold bilin
  rw [Finsupp.sum_apply, Finsupp.sum_apply]
  refine Finsupp.sum_congr fun i _ => ?_
  rw [Finsupp.sum_apply, Finsupp.sum_apply]
  refine Finsupp.sum_congr fun j _ => ?_
  rw [Finsupp.single_apply, Finsupp.single_apply]
  split
  · rename_i hk; rw [h i j hk]
  · rfl

set_option linter.unusedVariables false in
/-- the denominator the code uses, `(x.sp(num)).e`, is that scalar -/
theorem hitzerDenom_eq (c : Cfg) (h : Cfg.Adm c) (x num : MV α) (D : α)
    (hn : hitzerNum c x = some num) (h1 : den (gp c x num) = single 0 D) :
    hitzerDenom c x = some D := by
  unfold hitzerDenom
  rw [hn, Option.map_some, scalarPart_eq]
  congr 1
  have h2 : (den (sp c x num)) 0 = (den (gp c x num)) 0 := by
    unfold sp gp
    rw [codegenProduct_den, codegenProduct_den]
    apply bilin_apply_congr
    intro i j hij
    unfold effSign noFilter
    simp [hij]
  rw [h2, h1]
  simp

end Kingdon

/-
  The translated linear generators of codegen.py (add, sub, neg, involutions, Hodge duals) equal the model's.
  A python dict built from items has one entry per *distinct* key, so these hold for duplicate-free key tuples
  (which is what `MultiVector` carries).
-/
import Kingdon.Lemmas.SourceBase
namespace Kingdon.SrcEq
open Kingdon
variable {α : Type} [Add α] [Sub α] [Mul α] [Neg α]

/-! ### `dict(items)` for distinct keys -/

theorem dictSet_new {κ ν : Type} [BEq κ] [LawfulBEq κ] (acc : List (κ × ν)) (k : κ) (v : ν)
    (h : k ∉ acc.map (·.1)) : Py.dictSet acc k v = acc ++ [(k, v)] := by
  induction acc with
  | nil => rfl
  | cons a r ih =>
    obtain ⟨k', v'⟩ := a
    simp only [List.map_cons, List.mem_cons, not_or] at h
    have hne : (k' == k) = false := by
      simp only [beq_eq_false_iff_ne, ne_eq]; exact fun e => h.1 e.symm
    simp only [Py.dictSet, hne, Bool.false_eq_true, if_false, List.cons_append, ih h.2]

theorem foldl_dictSet_nodup {κ ν : Type} [BEq κ] [LawfulBEq κ] (items acc : List (κ × ν))
    (h : ((acc ++ items).map (·.1)).Nodup) :
    items.foldl (fun d kv => Py.dictSet d kv.1 kv.2) acc = acc ++ items := by
  induction items generalizing acc with
  | nil => simp
  | cons a r ih =>
    have hn : a.1 ∉ acc.map (·.1) := by
      simp only [List.map_append, List.map_cons, List.nodup_append, List.mem_cons] at h
      intro hm
      exact h.2.2 _ hm _ (Or.inl rfl) rfl
    rw [List.foldl_cons, dictSet_new acc a.1 a.2 hn, ih]
    · simp
    · simpa using h

theorem dictOf_nodup {κ ν : Type} [BEq κ] [LawfulBEq κ] (items : List (κ × ν))
    (h : (items.map (·.1)).Nodup) : Py.dictOf items = items := by
  unfold Py.dictOf
  rw [foldl_dictSet_nodup items [] (by simpa using h)]; rfl

theorem nodup_cast (l : List Nat) (h : l.Nodup) : (l.map Int.ofNat).Nodup := by
  unfold List.Nodup at h ⊢
  rw [List.pairwise_map]
  refine h.imp ?_
  intro a b hab e
  exact hab (Int.ofNat.inj e)

omit [Add α] [Sub α] [Mul α] [Neg α] in
theorem keys_castMV (x : MV α) : (castMV x).map (·.1) = (keysOf x).map Int.ofNat := by
  simp [castMV, keysOf, List.map_map, Function.comp_def]

omit [Add α] [Sub α] [Mul α] [Neg α] in
theorem dictOf_castMV (x : MV α) (hx : (keysOf x).Nodup) : Py.dictOf (castMV x) = castMV x := by
  apply dictOf_nodup
  rw [keys_castMV]
  exact nodup_cast _ hx

omit [Add α] [Sub α] [Mul α] [Neg α] in
/-- a comprehension `{k: f k v for k, v in x.items()}` keeps the keys -/
theorem dictOf_map_val {β : Type} (x : MV α) (hx : (keysOf x).Nodup) (f : Int → α → β) :
    Py.dictOf ((castMV x).map fun kv => (kv.1, f kv.1 kv.2)) = (castMV x).map fun kv => (kv.1, f kv.1 kv.2) := by
  apply dictOf_nodup
  rw [List.map_map]
  have : ((fun x : Int × β => x.1) ∘ fun kv : Int × α => (kv.1, f kv.1 kv.2)) = (·.1) := rfl
  rw [this, keys_castMV]
  exact nodup_cast _ hx

/-! ### add -/

def addBody (d : Py.Dict Int α) (k : Int) (v : α) : Py.M (Py.Dict Int α) :=
  if Py.dictHas d k = true then do
    let g ← Py.dictGet d k
    pure (Py.dictSet d k (g + v))
  else pure (Py.dictSet d k v)

omit [Sub α] [Mul α] [Neg α] in
theorem addBody_cast (r : MV α) (k : Nat) (v : α) :
    addBody (castMV r) (Int.ofNat k) v = .ok (castMV (insertAdd r k v)) := by
  induction r with
  | nil => rfl
  | cons a r ih =>
    obtain ⟨k', v'⟩ := a
    by_cases h : k' = k
    · subst h
      simp [addBody, castMV, insertAdd, Py.dictHas, Py.dictGet, Py.dictSet, pure, Except.pure, bind, Except.bind]
    · have hne : (Int.ofNat k' == Int.ofNat k) = false := by
        simp only [beq_eq_false_iff_ne, ne_eq, Int.ofNat_eq_natCast, Int.natCast_inj]; exact h
      unfold addBody at ih ⊢
      simp only [castMV, List.map_cons, Py.dictHas, List.any_cons, hne, Bool.false_or, Py.dictGet,
        List.find?_cons, Py.dictSet, insertAdd, h, if_false, Bool.false_eq_true] at ih ⊢
      by_cases hh : ((List.map (fun kv => (Int.ofNat kv.fst, kv.snd)) r).any fun x => x.fst == Int.ofNat k) = true
      · simp only [hh, if_true] at ih ⊢
        cases hf : List.find? (fun x => x.fst == Int.ofNat k) (List.map (fun kv => (Int.ofNat kv.fst, kv.snd)) r) with
        | none => simp only [hf] at ih; cases ih
        | some p =>
          simp only [hf] at ih ⊢
          simp only [pure, Except.pure, bind, Except.bind, Except.ok.injEq] at ih ⊢
          rw [ih]
      · simp only [hh, if_false, Bool.false_eq_true] at ih ⊢
        simp only [pure, Except.pure, Except.ok.injEq] at ih ⊢
        rw [ih]

omit [Sub α] [Mul α] [Neg α] in
theorem add_body_eq :
  (fun (x : Int × α) (__s : Py.Dict Int α) =>
            if Py.dictHas __s x.fst = true then do
              let __do_lift ← Py.dictGet __s x.fst
              pure (f := Py.M) (ForInStep.yield (Py.dictSet __s x.fst (__do_lift + x.snd)))
            else pure (ForInStep.yield (Py.dictSet __s x.fst x.snd)))
   = fun x s => ForInStep.yield <$> addBody s x.1 x.2 := by
  funext x s
  unfold addBody
  split <;> simp

omit [Sub α] [Mul α] [Neg α] in
theorem add_loop (y r : MV α) :
    forIn (m := Py.M) (castMV y) (castMV r) (fun x s => ForInStep.yield <$> addBody s x.1 x.2)
      = .ok (castMV (y.foldl (fun vals (k, v) => insertAdd vals k v) r)) := by
  induction y generalizing r with
  | nil => rfl
  | cons a y ih =>
    obtain ⟨k, v⟩ := a
    show forIn (m := Py.M) ((Int.ofNat k, v) :: castMV y) _ _ = _
    rw [List.forIn_cons]
    simp only [addBody_cast, List.foldl_cons]
    exact ih _

theorem codegen_add_eq (c : Cfg) (x y : MV α) (hx : (keysOf x).Nodup) :
    Src.codegen_add (algOf c) (castMV x) (castMV y) = .ok (castMV (add x y)) := by
  unfold Src.codegen_add
  simp only []
  rw [add_body_eq, dictOf_castMV x hx, add_loop]
  rfl

/-! ### sub -/

def subBody (d : Py.Dict Int α) (k : Int) (v : α) : Py.M (Py.Dict Int α) :=
  if Py.dictHas d k = true then do
    let g ← Py.dictGet d k
    pure (Py.dictSet d k (g - v))
  else pure (Py.dictSet d k (-v))

omit [Add α] [Mul α] in
theorem subBody_cast (r : MV α) (k : Nat) (v : α) :
    subBody (castMV r) (Int.ofNat k) v = .ok (castMV (insertSub r k v)) := by
  induction r with
  | nil => rfl
  | cons a r ih =>
    obtain ⟨k', v'⟩ := a
    by_cases h : k' = k
    · subst h
      simp [subBody, castMV, insertSub, Py.dictHas, Py.dictGet, Py.dictSet, pure, Except.pure, bind, Except.bind]
    · have hne : (Int.ofNat k' == Int.ofNat k) = false := by
        simp only [beq_eq_false_iff_ne, ne_eq, Int.ofNat_eq_natCast, Int.natCast_inj]; exact h
      unfold subBody at ih ⊢
      simp only [castMV, List.map_cons, Py.dictHas, List.any_cons, hne, Bool.false_or, Py.dictGet,
        List.find?_cons, Py.dictSet, insertSub, h, if_false, Bool.false_eq_true] at ih ⊢
      by_cases hh : ((List.map (fun kv => (Int.ofNat kv.fst, kv.snd)) r).any fun x => x.fst == Int.ofNat k) = true
      · simp only [hh, if_true] at ih ⊢
        cases hf : List.find? (fun x => x.fst == Int.ofNat k) (List.map (fun kv => (Int.ofNat kv.fst, kv.snd)) r) with
        | none => simp only [hf] at ih; cases ih
        | some p =>
          simp only [hf] at ih ⊢
          simp only [pure, Except.pure, bind, Except.bind, Except.ok.injEq] at ih ⊢
          rw [ih]
      · simp only [hh, if_false, Bool.false_eq_true] at ih ⊢
        simp only [pure, Except.pure, Except.ok.injEq] at ih ⊢
        rw [ih]

omit [Add α] [Mul α] in
theorem sub_body_eq :
  (fun (x : Int × α) (__s : Py.Dict Int α) =>
            if Py.dictHas __s x.fst = true then do
              let __do_lift ← Py.dictGet __s x.fst
              pure (f := Py.M) (ForInStep.yield (Py.dictSet __s x.fst (__do_lift - x.snd)))
            else pure (ForInStep.yield (Py.dictSet __s x.fst (-x.snd))))
   = fun x s => ForInStep.yield <$> subBody s x.1 x.2 := by
  funext x s
  unfold subBody
  split <;> simp

omit [Add α] [Mul α] in
theorem sub_loop (y r : MV α) :
    forIn (m := Py.M) (castMV y) (castMV r) (fun x s => ForInStep.yield <$> subBody s x.1 x.2)
      = .ok (castMV (y.foldl (fun vals (k, v) => insertSub vals k v) r)) := by
  induction y generalizing r with
  | nil => rfl
  | cons a y ih =>
    obtain ⟨k, v⟩ := a
    show forIn (m := Py.M) ((Int.ofNat k, v) :: castMV y) _ _ = _
    rw [List.forIn_cons]
    simp only [subBody_cast, List.foldl_cons]
    exact ih _

theorem codegen_sub_eq (c : Cfg) (x y : MV α) (hx : (keysOf x).Nodup) :
    Src.codegen_sub (algOf c) (castMV x) (castMV y) = .ok (castMV (sub x y)) := by
  unfold Src.codegen_sub
  simp only []
  rw [sub_body_eq, dictOf_castMV x hx, sub_loop]
  rfl

/-! ### neg and the involutions -/

theorem codegen_neg_eq (c : Cfg) (x : MV α) (hx : (keysOf x).Nodup) :
    Src.codegen_neg (algOf c) (castMV x) = .ok (castMV (neg x)) := by
  unfold Src.codegen_neg
  have := dictOf_map_val x hx (fun _ v => -v)
  simp only [] at this ⊢
  show pure _ = _
  rw [this]
  simp [castMV, neg, List.map_map, Function.comp_def, pure, Except.pure]

theorem popcountNat_eq (n : Nat) : Py.popcountNat n = popcount n := by
  fun_induction popcount n with
  | case1 => simp [Py.popcountNat]
  | case2 n ih => rw [Py.popcountNat, ih]

theorem contains_cast (g : List Nat) (n : Nat) : (g.map Int.ofNat).contains (Int.ofNat n) = g.contains n := by
  induction g with
  | nil => rfl
  | cons a g ih =>
    simp only [List.map_cons, List.contains_cons, ih]
    congr 1
    rw [Bool.eq_iff_iff]
    simp only [beq_iff_eq]
    exact ⟨fun e => Int.ofNat.inj e, fun e => by rw [e]⟩

theorem popcount_cast_mod (k : Nat) : Py.popcount (Int.ofNat k) % (4 : Int) = Int.ofNat (popcount k % 4) := by
  show Int.ofNat (Py.popcountNat k) % (4 : Int) = _
  rw [popcountNat_eq]
  rfl

theorem codegen_involutions_eq (c : Cfg) (x : MV α) (g : List Nat) (hx : (keysOf x).Nodup) :
    Src.codegen_involutions (algOf c) (castMV x) (g.map Int.ofNat) = .ok (castMV (involutions g x)) := by
  unfold Src.codegen_involutions
  have := dictOf_map_val x hx
    (fun k v => if (g.map Int.ofNat).contains ((Py.popcount k) % (4 : Int)) then (-v) else v)
  simp only [] at this ⊢
  show pure _ = _
  rw [this]
  simp only [castMV, involutions, List.map_map, Function.comp_def, pure, Except.pure, popcount_cast_mod,
    contains_cast]

theorem codegen_reverse_eq (c : Cfg) (x : MV α) (hx : (keysOf x).Nodup) :
    Src.codegen_reverse (algOf c) (castMV x) = .ok (castMV (reverse x)) := by
  unfold Src.codegen_reverse
  have := codegen_involutions_eq c x [2, 3] hx
  simp only [List.map_cons, List.map_nil] at this
  show (do let r ← Src.codegen_involutions (algOf c) (castMV x) [Int.ofNat 2, Int.ofNat 3]; pure r) = _
  rw [this]; rfl

theorem codegen_involute_eq (c : Cfg) (x : MV α) (hx : (keysOf x).Nodup) :
    Src.codegen_involute (algOf c) (castMV x) = .ok (castMV (involute x)) := by
  unfold Src.codegen_involute
  have := codegen_involutions_eq c x [1, 3] hx
  simp only [List.map_cons, List.map_nil] at this
  show (do let r ← Src.codegen_involutions (algOf c) (castMV x) [Int.ofNat 1, Int.ofNat 3]; pure r) = _
  rw [this]; rfl

theorem codegen_conjugate_eq (c : Cfg) (x : MV α) (hx : (keysOf x).Nodup) :
    Src.codegen_conjugate (algOf c) (castMV x) = .ok (castMV (conjugate x)) := by
  unfold Src.codegen_conjugate
  have := codegen_involutions_eq c x [1, 2] hx
  simp only [List.map_cons, List.map_nil] at this
  show (do let r ← Src.codegen_involutions (algOf c) (castMV x) [Int.ofNat 1, Int.ofNat 2]; pure r) = _
  rw [this]; rfl

/-! ### Hodge duals -/

omit [Add α] [Sub α] [Mul α] in
theorem keysOf_hodgeGen (c : Cfg) (u : Bool) (x : MV α) :
    keysOf (hodgeGen c u x) = (keysOf x).map (c.pss - ·) := by
  simp [keysOf, hodgeGen, List.map_map, Function.comp_def]

omit [Add α] [Sub α] [Mul α] in
theorem nodup_hodgeGen (c : Cfg) (u : Bool) (x : MV α) (hx : (keysOf x).Nodup)
    (hk : ∀ k ∈ keysOf x, k < 2 ^ c.d) : (keysOf (hodgeGen c u x)).Nodup := by
  rw [keysOf_hodgeGen]
  unfold List.Nodup at hx ⊢
  rw [List.pairwise_map]
  refine hx.imp_of_mem ?_
  intro a b ha hb hab
  have h1 := hk a ha
  have h2 := hk b hb
  unfold Cfg.pss
  omega

theorem dual_key (c : Cfg) (k : Nat) (h : k < 2 ^ c.d) :
    (algOf c).len - 1 - Int.ofNat k = Int.ofNat (c.pss - k) := by
  show Int.ofNat (2 ^ c.d) - 1 - Int.ofNat k = Int.ofNat (2 ^ c.d - 1 - k)
  generalize 2 ^ c.d = N at h
  simp only [Int.ofNat_eq_natCast]
  omega

theorem signs_cast (c : Cfg) (a b : Nat) : (algOf c).signs (Int.ofNat a, Int.ofNat b) = c.computeSign a b := rfl

omit [Add α] [Sub α] [Mul α] in
theorem hodge_map (c : Cfg) (x : MV α) (hk : ∀ k ∈ keysOf x, k < 2 ^ c.d) :
    List.map (fun x : Int × α =>
            ((algOf c).len - 1 - x.fst,
              if decide ((algOf c).signs (x.fst, (algOf c).len - 1 - x.fst) < 0) = true then -x.snd else x.snd))
          (castMV x) = castMV (hodgeGen c false x) := by
  unfold castMV hodgeGen
  rw [List.map_map, List.map_map]
  apply List.map_congr_left
  intro kv hkv
  have h := hk kv.1 (by unfold keysOf; exact List.mem_map_of_mem hkv)
  simp only [Function.comp_apply, dual_key c kv.1 h, signs_cast, decide_eq_true_eq, Bool.false_eq_true, if_false]

omit [Add α] [Sub α] [Mul α] in
theorem unhodge_map (c : Cfg) (x : MV α) (hk : ∀ k ∈ keysOf x, k < 2 ^ c.d) :
    List.map (fun x : Int × α =>
            ((algOf c).len - 1 - x.fst,
              if decide ((algOf c).signs ((algOf c).len - 1 - x.fst, x.fst) < 0) = true then -x.snd else x.snd))
          (castMV x) = castMV (hodgeGen c true x) := by
  unfold castMV hodgeGen
  rw [List.map_map, List.map_map]
  apply List.map_congr_left
  intro kv hkv
  have h := hk kv.1 (by unfold keysOf; exact List.mem_map_of_mem hkv)
  simp only [Function.comp_apply, dual_key c kv.1 h, signs_cast, decide_eq_true_eq, if_true]

theorem codegen_hodge_eq (c : Cfg) (x : MV α) (hx : (keysOf x).Nodup) (hk : ∀ k ∈ keysOf x, k < 2 ^ c.d) :
    Src.codegen_hodge (algOf c) (castMV x) false = .ok (castMV (hodge c x)) := by
  unfold Src.codegen_hodge
  simp only [Bool.false_eq_true, if_false]
  rw [hodge_map c x hk, dictOf_castMV _ (nodup_hodgeGen c false x hx hk)]
  rfl

theorem codegen_unhodge_eq (c : Cfg) (x : MV α) (hx : (keysOf x).Nodup) (hk : ∀ k ∈ keysOf x, k < 2 ^ c.d) :
    Src.codegen_unhodge (algOf c) (castMV x) = .ok (castMV (unhodge c x)) := by
  unfold Src.codegen_unhodge Src.codegen_hodge
  simp only [if_true]
  rw [unhodge_map c x hk, dictOf_castMV _ (nodup_hodgeGen c true x hx hk)]
  rfl

end Kingdon.SrcEq


/-
  Which blades a result stores (C02: "every blade that can receive a non-zero coefficient is present"; C04: grade
  selection returns exactly the stored coefficients; C08: full layouts; do_codegen's canonical re-sorting).
-/
import Kingdon.Lemmas.GpDen
import Kingdon.Lemmas.Linear
import Kingdon.Lemmas.ConstructLemmas
import Mathlib.Data.Finsupp.Basic
namespace Kingdon
open Finsupp
variable {α : Type}

/-- the stored keys of a multivector, in storage order -/
def keysOf (x : MV α) : List Nat := x.map (·.1)

theorem keysOf_insertAdd [Add α] (r : MV α) (k : Nat) (t : α) :
    keysOf (insertAdd r k t) = if k ∈ keysOf r then keysOf r else keysOf r ++ [k] := by
  induction r with
  | nil => simp [insertAdd, keysOf]
  | cons p r ih =>
    obtain ⟨k', v⟩ := p
    by_cases h : k' = k
    · subst h; simp [insertAdd, keysOf]
    · have h' : ¬ k = k' := fun e => h e.symm
      simp only [keysOf] at ih
      simp only [insertAdd, keysOf, h, if_false, List.map_cons, List.mem_cons, h', false_or, ih]
      split <;> simp [*]

theorem mem_keysOf_insertAdd [Add α] (r : MV α) (k' : Nat) (t : α) (k : Nat) :
    k ∈ keysOf (insertAdd r k' t) ↔ k ∈ keysOf r ∨ k = k' := by
  rw [keysOf_insertAdd]
  split
  · constructor
    · exact Or.inl
    · rintro (h | rfl) <;> assumption
  · simp

theorem nodup_keysOf_insertAdd [Add α] (r : MV α) (k : Nat) (t : α) (h : (keysOf r).Nodup) :
    (keysOf (insertAdd r k t)).Nodup := by
  rw [keysOf_insertAdd]
  split
  · exact h
  · rename_i hk
    rw [List.nodup_append]
    refine ⟨h, by simp, ?_⟩
    intro a ha b hb
    simp at hb
    subst hb
    rintro rfl
    exact hk ha

/-- a pair contributes a term to blade `k` -/
def contributes (signf : Nat → Nat → Int) (keyout : Nat → Nat → Nat) (filt : Nat → Nat → Nat → Bool)
    (pq : (Nat × α) × (Nat × α)) (k : Nat) : Prop :=
  signf pq.1.1 pq.2.1 ≠ 0 ∧ filt pq.1.1 pq.2.1 (keyout pq.1.1 pq.2.1) = true ∧ keyout pq.1.1 pq.2.1 = k

theorem mem_keysOf_cpStep [Add α] [Mul α] [Neg α] (signf keyout filt) (res : MV α) (pq) (k : Nat) :
    k ∈ keysOf (cpStep signf keyout filt res pq) ↔ k ∈ keysOf res ∨ contributes signf keyout filt pq k := by
  unfold cpStep contributes
  by_cases h0 : signf pq.1.1 pq.2.1 = 0
  · simp [h0]
  · by_cases hf : filt pq.1.1 pq.2.1 (keyout pq.1.1 pq.2.1) = true
    · simp only [h0, hf, if_false, if_true, mem_keysOf_insertAdd]
      simp [eq_comm, h0]
    · simp [h0, hf]

theorem nodup_keysOf_cpStep [Add α] [Mul α] [Neg α] (signf keyout filt) (res : MV α) (pq)
    (h : (keysOf res).Nodup) : (keysOf (cpStep signf keyout filt res pq)).Nodup := by
  unfold cpStep
  simp only
  split
  · exact h
  · split
    · exact nodup_keysOf_insertAdd _ _ _ h
    · exact h

theorem nodup_keysOf_foldl_cpStep [Add α] [Mul α] [Neg α] (signf keyout filt)
    (l : List ((Nat × α) × (Nat × α))) (res : MV α) (h : (keysOf res).Nodup) :
    (keysOf (l.foldl (cpStep signf keyout filt) res)).Nodup := by
  induction l generalizing res with
  | nil => exact h
  | cons pq l ih => exact ih _ (nodup_keysOf_cpStep _ _ _ _ _ h)

theorem mem_keysOf_foldl_cpStep [Add α] [Mul α] [Neg α] (signf keyout filt)
    (l : List ((Nat × α) × (Nat × α))) (res : MV α) (k : Nat) :
    k ∈ keysOf (l.foldl (cpStep signf keyout filt) res) ↔
      k ∈ keysOf res ∨ ∃ pq ∈ l, contributes signf keyout filt pq k := by
  induction l generalizing res with
  | nil => simp
  | cons pq l ih =>
    rw [List.foldl_cons, ih, mem_keysOf_cpStep]
    simp only [List.mem_cons, exists_eq_or_imp, or_assoc]

theorem mem_pairs (x y : MV α) (p q : Nat × α) : (p, q) ∈ pairs x y ↔ p ∈ x ∧ q ∈ y := by
  unfold pairs
  simp only [List.mem_flatMap, List.mem_map, Prod.mk.injEq]
  constructor
  · rintro ⟨a, ha, b, hb, rfl, rfl⟩; exact ⟨ha, hb⟩
  · rintro ⟨hp, hq⟩; exact ⟨p, hp, q, hq, rfl, rfl⟩

/-- a product-type generator never stores a blade twice -/
theorem codegenProduct_keys_nodup [Add α] [Mul α] [Neg α] (signf : Nat → Nat → Int) (keyout : Nat → Nat → Nat)
    (filt : Nat → Nat → Nat → Bool) (x y : MV α) : (keysOf (codegenProduct signf keyout filt x y)).Nodup := by
  unfold codegenProduct
  exact nodup_keysOf_foldl_cpStep _ _ _ _ _ (by simp [keysOf])

/-- **C02, last clause**: a blade is present in the result exactly if some pair of stored input blades contributes a
    term to it (non-zero table sign, accepted by the filter) — so every blade that can receive a non-zero coefficient
    is stored, and no blade is stored that no pair can reach -/
theorem mem_keys_codegenProduct [Add α] [Mul α] [Neg α] (signf : Nat → Nat → Int) (keyout : Nat → Nat → Nat)
    (filt : Nat → Nat → Nat → Bool) (x y : MV α) (k : Nat) :
    k ∈ keysOf (codegenProduct signf keyout filt x y) ↔
      ∃ p ∈ x, ∃ q ∈ y, signf p.1 q.1 ≠ 0 ∧ filt p.1 q.1 (keyout p.1 q.1) = true ∧ keyout p.1 q.1 = k := by
  unfold codegenProduct
  rw [mem_keysOf_foldl_cpStep]
  simp only [keysOf, List.map_nil, List.not_mem_nil, false_or, contributes]
  constructor
  · rintro ⟨⟨p, q⟩, hm, h⟩
    rw [mem_pairs] at hm
    exact ⟨p, hm.1, q, hm.2, h⟩
  · rintro ⟨p, hp, q, hq, h⟩
    exact ⟨(p, q), (mem_pairs x y p q).mpr ⟨hp, hq⟩, h⟩

section ring
variable [CommRing α]

/-- a coefficient can only be non-zero on a stored blade -/
theorem den_ne_zero_mem_keys (x : MV α) (k : Nat) (h : (den x) k ≠ 0) : k ∈ keysOf x := by
  induction x with
  | nil => simp at h
  | cons p x ih =>
    rw [den_cons, Finsupp.add_apply] at h
    by_cases e : p.1 = k
    · simp [keysOf, e]
    · rw [Finsupp.single_apply, if_neg e, zero_add] at h
      have := ih h
      simp only [keysOf, List.map_cons, List.mem_cons] at this ⊢
      exact Or.inr this

/-- value of the denotation at a blade: the sum of the stored values with that key -/
theorem den_apply (x : MV α) (k : Nat) : (den x) k = ((x.filter (·.1 == k)).map (·.2)).sum := by
  induction x with
  | nil => simp
  | cons p x ih =>
    rw [den_cons, Finsupp.add_apply, ih, Finsupp.single_apply, List.filter_cons]
    by_cases e : p.1 = k
    · simp [e]
    · simp [e]

/-- the coefficient read for blade `k` (first occurrence), absent = 0 -/
def coef (x : MV α) (k : Nat) : α := (lookupKey x k).getD 0

omit [CommRing α] in
theorem lookupKey_cons (p : Nat × α) (x : MV α) (k : Nat) :
    lookupKey (p :: x) k = if p.1 = k then some p.2 else lookupKey x k := by
  unfold lookupKey
  by_cases e : p.1 = k
  · simp [e]
  · simp [e]

omit [CommRing α] in
theorem lookupKey_isSome (x : MV α) (k : Nat) : (lookupKey x k).isSome = true ↔ k ∈ keysOf x := by
  induction x with
  | nil => simp [lookupKey, keysOf]
  | cons p x ih =>
    rw [lookupKey_cons]
    by_cases e : p.1 = k
    · simp [e, keysOf]
    · have e' : ¬ k = p.1 := fun h => e h.symm
      simp only [e, if_false, ih, keysOf, List.map_cons, List.mem_cons, e', false_or]

omit [CommRing α] in
theorem lookupKey_eq_none (x : MV α) (k : Nat) (h : k ∉ keysOf x) : lookupKey x k = none := by
  cases hl : lookupKey x k with
  | none => rfl
  | some v => exact absurd ((lookupKey_isSome x k).mp (by simp [hl])) h

omit [CommRing α] in
theorem lookupKey_mem (x : MV α) (k : Nat) (v : α) (h : lookupKey x k = some v) : (k, v) ∈ x := by
  induction x with
  | nil => simp [lookupKey] at h
  | cons p x ih =>
    rw [lookupKey_cons] at h
    by_cases e : p.1 = k
    · rw [if_pos e] at h
      obtain ⟨a, b⟩ := p
      simp only at e
      simp only [Option.some.injEq] at h
      subst e; subst h
      simp
    · rw [if_neg e] at h
      exact List.mem_cons_of_mem _ (ih h)

theorem coef_of_not_mem (x : MV α) (k : Nat) (h : k ∉ keysOf x) : coef x k = 0 := by
  unfold coef; rw [lookupKey_eq_none x k h]; rfl

/-- with duplicate-free keys the coefficient is the stored value -/
theorem den_eq_coef (x : MV α) (hk : (keysOf x).Nodup) (k : Nat) : (den x) k = coef x k := by
  induction x with
  | nil => simp [coef, lookupKey]
  | cons p x ih =>
    simp only [keysOf, List.map_cons, List.nodup_cons] at hk
    rw [den_cons, Finsupp.add_apply, Finsupp.single_apply]
    unfold coef
    rw [lookupKey_cons]
    by_cases e : p.1 = k
    · have h0 : (den x) k = 0 := by
        by_contra hne
        exact hk.1 (e ▸ den_ne_zero_mem_keys x k hne)
      simp [e, h0]
    · have := ih hk.2
      unfold coef at this
      simp [e, this]

theorem den_filterMap_lookup (ks : List Nat) (x : MV α) :
    den (ks.filterMap fun k => (lookupKey x k).map fun v => (k, v)) =
      (ks.map fun k => single k (coef x k)).sum := by
  induction ks with
  | nil => simp
  | cons k ks ih =>
    rw [List.filterMap_cons, List.map_cons, List.sum_cons]
    unfold coef at ih ⊢
    cases hl : lookupKey x k with
    | none => simp [ih]
    | some v => simp [ih]

theorem den_map_coef (ks : List Nat) (x : MV α) :
    den (ks.map fun k => (k, coef x k)) = (ks.map fun k => single k (coef x k)).sum := by
  induction ks with
  | nil => simp
  | cons k ks ih => simp [ih]

theorem sum_single_apply (ks : List Nat) (f : Nat → α) (hn : ks.Nodup) (k0 : Nat) :
    ((ks.map fun k => single k (f k)).sum) k0 = if k0 ∈ ks then f k0 else 0 := by
  induction ks with
  | nil => simp
  | cons k ks ih =>
    rw [List.nodup_cons] at hn
    rw [List.map_cons, List.sum_cons, Finsupp.add_apply, ih hn.2, Finsupp.single_apply]
    by_cases e : k = k0
    · subst e; simp [hn.1]
    · have e' : ¬ k0 = k := fun h => e h.symm
      simp [e, e']

omit [CommRing α] in
theorem keysOf_filterMap_lookup (ks : List Nat) (x : MV α) :
    keysOf (ks.filterMap fun k => (lookupKey x k).map fun v => (k, v)) = ks.filter (· ∈ keysOf x) := by
  induction ks with
  | nil => simp [keysOf]
  | cons k ks ih =>
    rw [List.filterMap_cons, List.filter_cons]
    cases hl : lookupKey x k with
    | none =>
      have : k ∉ keysOf x := fun hm => by
        have := (lookupKey_isSome x k).mpr hm
        simp [hl] at this
      simp [this, ih]
    | some v =>
      have : k ∈ keysOf x := (lookupKey_isSome x k).mp (by simp [hl])
      simp only [Option.map_some, this, decide_true, if_true]
      simp only [keysOf, List.map_cons] at ih ⊢
      rw [ih]

omit [CommRing α] in
theorem mem_canonKeys_of_lt (c : Cfg) (h : Cfg.Adm c) (k : Nat) (hk : k < 2 ^ c.d) : k ∈ c.canonKeys := by
  obtain ⟨n, hn, hb⟩ := h.spelled k hk
  unfold Cfg.canonKeys
  exact List.mem_map.mpr ⟨n, hn, hb⟩

omit [CommRing α] in
theorem nodup_indicesForGrade (c : Cfg) (hinj : (c.basis.map c.binOf).Nodup) (g : Nat) :
    (c.indicesForGrade g).Nodup := by
  unfold Cfg.indicesForGrade
  exact List.Nodup.sublist (List.Sublist.map _ List.filter_sublist) hinj

omit [CommRing α] in
theorem mem_indicesForGrades (c : Cfg) (h : Cfg.Adm c) (gs : List Nat) (k : Nat) :
    k ∈ c.indicesForGrades gs ↔ (k < 2 ^ c.d ∧ popcount k ∈ gs) := by
  unfold Cfg.indicesForGrades
  rw [List.mem_flatMap]
  constructor
  · rintro ⟨g, hg, hm⟩
    obtain ⟨h1, h2⟩ := (Con.mem_indicesForGrade c h g k).mp hm
    exact ⟨h1, h2 ▸ hg⟩
  · rintro ⟨h1, h2⟩
    exact ⟨popcount k, h2, (Con.mem_indicesForGrade c h _ k).mpr ⟨h1, rfl⟩⟩

omit [CommRing α] in
theorem nodup_indicesForGrades (c : Cfg) (h : Cfg.Adm c) (hinj : (c.basis.map c.binOf).Nodup) (gs : List Nat)
    (hgs : gs.Nodup) : (c.indicesForGrades gs).Nodup := by
  unfold Cfg.indicesForGrades
  rw [List.nodup_flatMap]
  refine ⟨fun g _ => nodup_indicesForGrade c hinj g, ?_⟩
  refine List.Pairwise.imp ?_ hgs
  intro a b hab k ha hb
  have h1 := ((Con.mem_indicesForGrade c h a k).mp ha).2
  have h2 := ((Con.mem_indicesForGrade c h b k).mp hb).2
  exact hab (h1.symm.trans h2)

/-- `do_codegen`'s re-sorting into canonical order keeps exactly the produced blades and their coefficients -/
theorem sortCanon_keys (c : Cfg) (x : MV α) : keysOf (sortCanon c x) = c.canonKeys.filter (· ∈ keysOf x) := by
  unfold sortCanon
  exact keysOf_filterMap_lookup _ _

theorem sortCanon_den (c : Cfg) (h : Cfg.Adm c) (hinj : (c.basis.map c.binOf).Nodup) (x : MV α)
    (hk : (keysOf x).Nodup) (hr : ∀ k ∈ keysOf x, k < 2 ^ c.d) : den (sortCanon c x) = den x := by
  unfold sortCanon
  rw [den_filterMap_lookup]
  ext k
  rw [sum_single_apply _ _ (show c.canonKeys.Nodup from hinj), den_eq_coef x hk]
  split
  · rfl
  · rename_i hm
    symm
    apply coef_of_not_mem
    intro hx
    exact hm (mem_canonKeys_of_lt c h k (hr k hx))

/-- **C04, grade selection**: `a.grade(..)` returns exactly the stored coefficients of the requested grades: every
    returned (blade, value) pair is a stored pair of a requested grade ... -/
theorem gradeSel_subset (c : Cfg) (h : Cfg.Adm c) (gs : List Nat) (x : MV α) (kv : Nat × α) (hm : kv ∈ gradeSel c gs x) :
    kv ∈ x ∧ popcount kv.1 ∈ gs := by
  unfold gradeSel at hm
  rw [List.mem_filterMap] at hm
  obtain ⟨k, hkm, hkv⟩ := hm
  cases hl : lookupKey x k with
  | none => simp [hl] at hkv
  | some v =>
    simp only [hl, Option.map_some, Option.some.injEq] at hkv
    subst hkv
    exact ⟨lookupKey_mem x k v hl, ((mem_indicesForGrades c h gs k).mp hkm).2⟩

/-- ... and as an element it is the grade projection (for duplicate-free keys inside the algebra, requested grades
    listed once) -/
theorem gradeSel_den (c : Cfg) (h : Cfg.Adm c) (hinj : (c.basis.map c.binOf).Nodup) (gs : List Nat) (hgs : gs.Nodup)
    (x : MV α) (hk : (keysOf x).Nodup) (hr : ∀ k ∈ keysOf x, k < 2 ^ c.d) :
    den (gradeSel c gs x) = (den x).filter (fun k => popcount k ∈ gs) := by
  classical
  unfold gradeSel
  rw [den_filterMap_lookup]
  ext k
  rw [sum_single_apply _ _ (nodup_indicesForGrades c h hinj gs hgs), Finsupp.filter_apply, den_eq_coef x hk]
  simp only [mem_indicesForGrades c h]
  by_cases hp : popcount k ∈ gs
  · by_cases hlt : k < 2 ^ c.d
    · simp [hp, hlt]
    · have : coef x k = 0 := coef_of_not_mem x k (fun hx => hlt (hr k hx))
      simp [hp, hlt, this]
  · simp [hp]

/-- **C08, full layouts**: `asfullmv` (canonical or binary order) denotes the same element and stores all 2^d blades -/
theorem asfullmv_den (c : Cfg) (h : Cfg.Adm c) (hinj : (c.basis.map c.binOf).Nodup) (canonical : Bool) (x : MV α)
    (hk : (keysOf x).Nodup) (hr : ∀ k ∈ keysOf x, k < 2 ^ c.d) : den (asfullmv c canonical x) = den x := by
  unfold asfullmv
  simp only
  have key : ∀ ks : List Nat, ks.Nodup → (∀ k, k < 2 ^ c.d → k ∈ ks) →
      den (ks.map fun k => (k, (lookupKey x k).getD 0)) = den x := by
    intro ks hn hall
    have := den_map_coef ks x
    unfold coef at this
    rw [this]
    ext k
    have h2 := sum_single_apply ks (coef x) hn k
    unfold coef at h2
    rw [h2, den_eq_coef x hk]
    split
    · rfl
    · rename_i hm
      symm
      apply coef_of_not_mem
      intro hx
      exact hm (hall k (hr k hx))
  cases canonical with
  | true =>
    simp only [if_true]
    apply key
    · exact nodup_indicesForGrades c h hinj _ List.nodup_range
    · intro k hlt
      rw [mem_indicesForGrades c h]
      refine ⟨hlt, ?_⟩
      rw [List.mem_range]
      have := popcount_le c.d k hlt
      omega
  | false =>
    simp only [Bool.false_eq_true, if_false]
    apply key
    · exact List.nodup_range
    · intro k hlt; exact List.mem_range.mpr hlt

theorem asfullmv_keys_binary (c : Cfg) (x : MV α) : keysOf (asfullmv c false x) = List.range (2 ^ c.d) := by
  unfold asfullmv keysOf
  simp only [Bool.false_eq_true, if_false, List.map_map]
  exact List.map_id' _

/-- sums store the blades of the left operand followed by the new blades of the right operand -/
theorem keysOf_add (x y : MV α) (k : Nat) : k ∈ keysOf (add x y) ↔ k ∈ keysOf x ∨ k ∈ keysOf y := by
  unfold add
  induction y generalizing x with
  | nil => simp [keysOf]
  | cons q y ih =>
    rw [List.foldl_cons, ih, mem_keysOf_insertAdd]
    simp only [keysOf, List.map_cons, List.mem_cons, or_assoc]

theorem mem_keysOf_insertSub (r : MV α) (k' : Nat) (t : α) (k : Nat) :
    k ∈ keysOf (insertSub r k' t) ↔ k ∈ keysOf r ∨ k = k' := by
  induction r with
  | nil => simp [insertSub, keysOf]
  | cons p r ih =>
    obtain ⟨a, v⟩ := p
    by_cases e : a = k'
    · subst e; simp only [insertSub, keysOf, if_true, List.map_cons, List.mem_cons]; tauto
    · simp only [keysOf] at ih
      simp only [insertSub, e, if_false, keysOf, List.map_cons, List.mem_cons, ih, or_assoc]

theorem keysOf_sub (x y : MV α) (k : Nat) : k ∈ keysOf (sub x y) ↔ k ∈ keysOf x ∨ k ∈ keysOf y := by
  unfold sub
  induction y generalizing x with
  | nil => simp [keysOf]
  | cons q y ih =>
    rw [List.foldl_cons, ih, mem_keysOf_insertSub]
    simp only [keysOf, List.map_cons, List.mem_cons, or_assoc]

end ring

/-- for an admissible configuration distinct basis names are distinct blades (pigeonhole: 2^d names, every blade
    below 2^d spelled) -/
theorem binOf_injective_of_admissible (c : Cfg) (h : c.admissible = true) : (c.basis.map c.binOf).Nodup := by
  have hadm := Cfg.adm_of_admissible c h
  have hlen : c.basis.length = 2 ^ c.d := by
    unfold Cfg.admissible at h
    simp only [Bool.and_eq_true, beq_iff_eq] at h
    exact h.1.1.1.1.2
  have hsub : List.range (2 ^ c.d) ⊆ c.basis.map c.binOf := by
    intro k hk
    rw [List.mem_range] at hk
    obtain ⟨n, hn, hb⟩ := hadm.spelled k hk
    exact List.mem_map.mpr ⟨n, hn, hb⟩
  have hsp : List.Subperm (List.range (2 ^ c.d)) (c.basis.map c.binOf) :=
    List.subperm_of_subset List.nodup_range hsub
  have hperm := hsp.perm_of_length_le (by simp [hlen])
  exact hperm.nodup_iff.mp List.nodup_range

end Kingdon

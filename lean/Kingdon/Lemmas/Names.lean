import Kingdon.Lemmas.Phase2
namespace Kingdon

theorem testBit_bitsOf (w : List Nat) (hw : w.Nodup) (g : Nat) : (bitsOf w).testBit g = decide (g ∈ w) := by
  induction w with
  | nil => simp [bitsOf]
  | cons a w ih =>
    have hnd := List.nodup_cons.mp hw
    simp only [bitsOf, Nat.testBit_xor, ih hnd.2, Nat.testBit_two_pow, List.mem_cons]
    by_cases h : a = g
    · subst h; simp [hnd.1]
    · have h' : ¬ g = a := fun e => h e.symm
      simp [h, h']

theorem evalWord_key (sig) (w : List Nat) : (evalWord sig w).k = bitsOf w := by
  induction w with
  | nil => rfl
  | cons g w ih => simp [evalWord, SB.mul, gen, bitsOf, ih]

/-- the sign of a generator times a blade that does not contain it is ±1 (no metric factor) -/
theorem csign_gen_disjoint (sig : List Int) (g K : Nat) (h : K.testBit g = false) :
    csign sig (2 ^ g) K = 1 ∨ csign sig (2 ^ g) K = -1 := by
  induction sig generalizing g K with
  | nil => simp [csign]
  | cons s sig ih =>
    cases g with
    | zero =>
      have hK : K % 2 = 0 := by
        have := Nat.testBit_zero (x := K); rw [h] at this; simpa using this.symm
      simp [csign, hK, csign_zero_left]
    | succ g =>
      have e1 : 2 ^ (g + 1) % 2 = 0 := by rw [Nat.pow_succ]; omega
      have e2 : 2 ^ (g + 1) / 2 = 2 ^ g := by rw [Nat.pow_succ]; omega
      have hK : (K / 2).testBit g = false := by
        have := Nat.testBit_succ (x := K) (i := g); rw [← this]; exact h
      rcases ih g (K / 2) hK with e | e <;> simp only [csign, e1, e2, e] <;> split <;> simp

/-- a blade *name* (distinct generators, any order) denotes ± the blade with those bits -/
theorem evalWord_nodup (sig) (w : List Nat) (hw : w.Nodup) :
    (evalWord sig w).c = 1 ∨ (evalWord sig w).c = -1 := by
  induction w with
  | nil => simp [evalWord, SB.one]
  | cons g w ih =>
    have hnd := List.nodup_cons.mp hw
    have hb : (bitsOf w).testBit g = false := by rw [testBit_bitsOf w hnd.2]; simp [hnd.1]
    have := csign_gen_disjoint sig g (bitsOf w) hb
    simp only [evalWord, SB.mul, gen, evalWord_key]
    rcases ih hnd.2 with e | e <;> rcases this with e' | e' <;> simp [e, e']

end Kingdon

namespace Kingdon

/-- C01/C14 core: the sign kingdon stores for two *named* blades is the canonical Clifford sign
    twisted by the orientations of the three names involved. -/
theorem computeSignW_eq (sig : List Int) (wI wJ wK : List Nat)
    (hI : wI.Nodup) (hK : wK.Nodup) (vI : Valid sig wI) (vJ : Valid sig wJ)
    (ht : wK.Perm (phase1 wI wJ 0 []).1) :
    computeSignW sig wI wJ wK =
      eps sig wI * eps sig wJ * eps sig wK * csign sig (bitsOf wI) (bitsOf wJ) := by
  have h := (swapBlades_sound sig wI wJ wK hI vI vJ ht).2
  rw [evalWord_append] at h
  have hc := congrArg SB.c h
  simp only [SB.mul, SB.smul, evalWord_key] at hc
  have hk := evalWord_nodup sig wK hK
  unfold computeSignW eps
  generalize (-1) ^ (swapBlades wI wJ wK).1 * prodSig sig (swapBlades wI wJ wK).2.2 = S at *
  generalize (evalWord sig wI).c = a at *
  generalize (evalWord sig wJ).c = b at *
  generalize csign sig (bitsOf wI) (bitsOf wJ) = C at *
  rcases hk with e | e <;> rw [e] at hc ⊢ <;> grind

end Kingdon

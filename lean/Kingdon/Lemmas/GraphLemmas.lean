/-
  C20: the payload sent to the front end, decoded the way the front end decodes it, reproduces every reachable
  multivector exactly; drags overwrite exactly the addressed coefficients.
-/
import Kingdon.Model.Graph
namespace Kingdon.Graph
variable {V : Type}

/-- a stored multivector is well formed w.r.t. the canonical key order of its algebra -/
def WFmv (canon keys : List Nat) (vals : List V) : Prop :=
  keys.Nodup ∧ (∀ k ∈ keys, k ∈ canon) ∧ keys.length = vals.length

mutual
def WF (canon : List Nat) : Subj V → Prop
  | .atom _ => True
  | .mv keys vals => WFmv canon keys vals
  | .mvArr keys elems => ∀ vals ∈ elems, WFmv canon keys vals
  | .seq _ xs => WFList canon xs
  | .thunk x => WF canon x
def WFList (canon : List Nat) : List (Subj V) → Prop
  | [] => True
  | x :: xs => WF canon x ∧ WFList canon xs
end

theorem find_none_of_not_mem (kvs : List (Nat × V)) (k : Nat) (h : k ∉ kvs.map (·.1)) :
    kvs.find? (·.1 == k) = none := by
  simp only [List.find?_eq_none]
  intro x hx
  simp only [beq_iff_eq]
  intro e
  exact h (List.mem_map.2 ⟨x, hx, e⟩)

theorem fold_set_get (canon : List Nat) (hc : canon.Nodup) (kvs : List (Nat × V))
    (hnd : (kvs.map (·.1)).Nodup) (hin : ∀ kv ∈ kvs, kv.1 ∈ canon) (init : List V)
    (i : Nat) (hi : i < canon.length) :
    (kvs.foldl (fun acc (kv : Nat × V) => acc.set (key2idx canon kv.1) kv.2) init)[i]? =
      match kvs.find? (·.1 == canon[i]) with
      | some p => if i < init.length then some p.2 else none
      | none => init[i]? := by
  induction kvs generalizing init with
  | nil => simp
  | cons kv rest ih =>
    simp only [List.map_cons, List.nodup_cons] at hnd
    simp only [List.foldl_cons]
    rw [ih hnd.2 (fun kv h => hin kv (List.mem_cons_of_mem _ h))]
    by_cases e : kv.1 = canon[i]
    · have h1 : rest.find? (·.1 == canon[i]) = none := find_none_of_not_mem rest _ (e ▸ hnd.1)
      have h2 : key2idx canon kv.1 = i := by
        rw [e]; exact hc.idxOf_getElem i hi
      rw [e] at h2
      simp [e, h1, h2, List.getElem?_set]
    · have h2 : key2idx canon kv.1 ≠ i := by
        intro h
        have := hin kv (List.mem_cons_self)
        apply e
        subst h
        simp [key2idx, List.getElem_idxOf]
      simp [e, h2]
theorem fold_set_length (canon : List Nat) (kvs : List (Nat × V)) (init : List V) :
    (kvs.foldl (fun acc (kv : Nat × V) => acc.set (key2idx canon kv.1) kv.2) init).length = init.length := by
  induction kvs generalizing init with
  | nil => rfl
  | cons kv rest ih => simp [ih]

theorem toElement_keys [Zero V] (canon keys : List Nat) (vals : List V) (hc : canon.Nodup)
    (h : WFmv canon keys vals) : toElement canon vals (some keys) = dense canon keys vals := by
  obtain ⟨hnd, hin, hl⟩ := h
  apply List.ext_getElem?
  intro i
  by_cases hi : i < canon.length
  · simp only [toElement, dense]
    rw [fold_set_get canon hc _ _ _ _ i hi]
    · simp only [List.getElem?_map, List.getElem?_eq_getElem hi, Option.map_some]
      split <;> simp [*]
    · rw [List.map_fst_zip (by omega)]; exact hnd
    · intro kv hkv
      exact hin _ (List.of_mem_zip hkv).1
  · rw [List.getElem?_eq_none, List.getElem?_eq_none]
    · simp [dense]; omega
    · simp [toElement, fold_set_length]; omega

theorem find_zip_self (canon : List Nat) (hc : canon.Nodup) (vals : List V) (i : Nat) (hi : i < canon.length)
    (hv : i < vals.length) :
    (canon.zip vals).find? (·.1 == canon[i]) = some (canon[i], vals[i]) := by
  induction canon generalizing vals i with
  | nil => simp at hi
  | cons c cs ih =>
    cases vals with
    | nil => simp at hv
    | cons v vs =>
      simp only [List.nodup_cons] at hc
      cases i with
      | zero => simp
      | succ j =>
        have hj : j < cs.length := by simpa using hi
        have hjv : j < vs.length := by simpa using hv
        simp only [List.zip_cons_cons, List.getElem_cons_succ, List.find?_cons]
        have : (c == cs[j]) = false := by
          simp only [beq_eq_false_iff_ne, ne_eq]
          intro e; exact hc.1 (e ▸ List.getElem_mem _)
        simp only [this]
        exact ih hc.2 vs j hj hjv

theorem toElement_nokeys [Zero V] (canon : List Nat) (vals : List V) (hc : canon.Nodup)
    (hl : canon.length = vals.length) : toElement canon vals none = dense canon canon vals := by
  apply List.ext_getElem?
  intro i
  by_cases hi : i < canon.length
  · simp only [toElement, dense, List.getElem?_map, List.getElem?_eq_getElem hi, Option.map_some]
    rw [find_zip_self canon hc vals i hi (by omega)]
    simp
  · rw [List.getElem?_eq_none, List.getElem?_eq_none]
    · simp [dense]; omega
    · simp [toElement]; omega

theorem decode_encodeMV [Zero V] (canon keys : List Nat) (vals : List V) (hc : canon.Nodup)
    (h : WFmv canon keys vals) : decode canon (encodeMV canon keys vals) = .elem (dense canon keys vals) := by
  unfold encodeMV
  split
  · rename_i e
    subst e
    simp only [decode]
    rw [toElement_nokeys _ _ hc h.2.2]
  · simp only [decode]
    rw [toElement_keys _ _ _ hc h]
theorem decodeList_append [Zero V] (canon : List Nat) (a b : List (Payload V)) :
    decodeList canon (a ++ b) = decodeList canon a ++ decodeList canon b := by
  induction a with
  | nil => simp [decodeList]
  | cons x xs ih => simp [decodeList, ih]

theorem decLeavesList_append (a b : List (Dec V)) :
    decLeavesList (a ++ b) = decLeavesList a ++ decLeavesList b := by
  induction a with
  | nil => simp [decLeavesList]
  | cons x xs ih => simp [decLeavesList, ih]

theorem decode_mvArr [Zero V] (canon keys : List Nat) (hc : canon.Nodup) (elems : List (List V))
    (h : ∀ vals ∈ elems, WFmv canon keys vals) :
    decLeavesList (decodeList canon (elems.map fun vals => encodeMV canon keys vals)) =
      elems.map fun vals => dense canon keys vals := by
  induction elems with
  | nil => simp [decodeList, decLeavesList]
  | cons e es ih =>
    simp only [List.map_cons, decodeList, decLeavesList]
    rw [decode_encodeMV canon keys e hc (h e List.mem_cons_self), ih (fun v hv => h v (List.mem_cons_of_mem _ hv))]
    simp [decLeaves]

mutual
theorem decode_encode [Zero V] (canon : List Nat) (hc : canon.Nodup) (t : Subj V) (h : WF canon t) :
    decLeavesList (decodeList canon (enc canon t)) = leaves canon t := by
  match t, h with
  | .atom s, h => simp [enc, decodeList, decode, decLeavesList, decLeaves, leaves]
  | .mv keys vals, h =>
    simp only [WF] at h
    simp [enc, decodeList, decode_encodeMV canon keys vals hc h, decLeavesList, decLeaves, leaves]
  | .mvArr keys elems, h =>
    simp only [WF] at h
    simp only [enc, leaves]
    exact decode_mvArr canon keys hc elems h
  | .seq b xs, h =>
    simp only [WF] at h
    have := decode_encodeList canon hc xs h
    simp [enc, decodeList, decode, decLeavesList, decLeaves, leaves, this]
  | .thunk x, h =>
    simp only [WF] at h
    simp only [enc, leaves]
    exact decode_encode canon hc x h
theorem decode_encodeList [Zero V] (canon : List Nat) (hc : canon.Nodup) (ts : List (Subj V)) (h : WFList canon ts) :
    decLeavesList (decodeList canon (encList canon ts)) = leavesList canon ts := by
  match ts, h with
  | [], h => simp [encList, decodeList, decLeavesList, leavesList]
  | x :: xs, h =>
    simp only [WFList] at h
    simp only [encList, leavesList, decodeList_append, decLeavesList_append]
    rw [decode_encode canon hc x h.1, decode_encodeList canon hc xs h.2]
end

theorem subjects_reflect_multivectors [Zero V] (canon : List Nat) (hc : canon.Nodup) (pre : List (Subj V))
    (h : WFList canon pre) :
    decLeavesList (decodeList canon (subjects canon pre)) = leavesList canon pre :=
  decode_encodeList canon hc pre h

theorem encode_atom (canon : List Nat) (s : String) : enc (V := V) canon (.atom s) = [.atom s] := by
  simp [enc]

theorem key2idx_lt (canon : List Nat) (k : Nat) (hk : k ∈ canon) : key2idx canon k < canon.length :=
  List.idxOf_lt_length_of_mem hk
theorem key2idx_getElem (canon : List Nat) (k : Nat) (hk : k ∈ canon) : canon[key2idx canon k]? = some k := by
  rw [List.getElem?_eq_getElem (key2idx_lt canon k hk)]
  simp [key2idx, List.getElem_idxOf]
theorem key2idx_inj (canon : List Nat) (a b : Nat) (ha : a ∈ canon) (hb : b ∈ canon)
    (h : key2idx canon a = key2idx canon b) : a = b := by
  have h1 := key2idx_getElem canon a ha
  have h2 := key2idx_getElem canon b hb
  rw [h] at h1
  rw [h1] at h2
  exact Option.some.inj h2

theorem find_zip_map (keys : List Nat) (f : Nat → V) (k : Nat) (hk : k ∈ keys) :
    (keys.zip (keys.map f)).find? (·.1 == k) = some (k, f k) := by
  induction keys with
  | nil => simp at hk
  | cons c cs ih =>
    simp only [List.map_cons, List.zip_cons_cons, List.find?_cons]
    by_cases e : c = k
    · subst e; simp
    · have : (c == k) = false := by simpa using e
      simp only [this]
      exact ih (by simpa [Ne.symm e] using hk)

theorem drag_exact [Zero V] [Inhabited V] (canon keys : List Nat) (old new : List V) (hc : canon.Nodup)
    (h : WFmv canon keys old) (hn : new.length = canon.length) (k : Nat) (hk : k ∈ keys) :
    (dense canon keys (dragOne canon keys old new))[key2idx canon k]? = new[key2idx canon k]? := by
  obtain ⟨hnd, hin, hl⟩ := h
  unfold dragOne
  split
  · rename_i e; subst e
    have : List.take keys.length new ++ List.drop (min new.length keys.length) old = new := by
      rw [List.take_of_length_le (by omega), List.drop_eq_nil_of_le (by omega), List.append_nil]
    rw [this, ← toElement_nokeys keys new hc hn.symm]
    rfl
  · have hlt := key2idx_lt canon k (hin k hk)
    have hck : canon[key2idx canon k] = k := by simp [key2idx, List.getElem_idxOf]
    simp only [dense, List.getElem?_map, List.getElem?_eq_getElem hlt, Option.map_some, hck]
    rw [find_zip_map keys _ k hk]
    change some (new[key2idx canon k]!) = _
    rw [getElem!_pos new _ (by omega), List.getElem?_eq_getElem]
theorem drag_length [Inhabited V] (canon keys : List Nat) (old new : List V)
    (h : keys.length = old.length) (hn : new.length = canon.length) :
    (dragOne canon keys old new).length = old.length := by
  unfold dragOne
  split
  · rename_i e; subst e
    simp; omega
  · simp [h]

theorem dragAll_cons [Inhabited V] (canon : List Nat) (subs : List (List Nat × List V))
    (u : Nat × List V) (us : List (Nat × List V)) :
    dragAll canon subs (u :: us) = dragAll canon (match subs[u.1]? with
      | none => subs
      | some (keys, old) => subs.set u.1 (keys, dragOne canon keys old u.2)) us := rfl

theorem drag_others_untouched [Inhabited V] (canon : List Nat) (subs : List (List Nat × List V))
    (updates : List (Nat × List V)) (j : Nat) (hj : ∀ u ∈ updates, u.1 ≠ j) :
    (dragAll canon subs updates)[j]? = subs[j]? := by
  induction updates generalizing subs with
  | nil => rfl
  | cons u us ih =>
    rw [dragAll_cons, ih _ (fun u hu => hj u (List.mem_cons_of_mem _ hu))]
    have := hj u List.mem_cons_self
    split
    · rfl
    · simp [this]

theorem drag_keys_fixed [Inhabited V] (canon : List Nat) (subs : List (List Nat × List V))
    (updates : List (Nat × List V)) :
    (dragAll canon subs updates).map (·.1) = subs.map (·.1) := by
  induction updates generalizing subs with
  | nil => rfl
  | cons u us ih =>
    rw [dragAll_cons, ih]
    split
    · rfl
    · rename_i keys old e
      rw [List.map_set]
      apply List.ext_getElem?
      intro i
      simp only [List.getElem?_set, List.length_map, List.getElem?_map]
      split
      · rename_i e2; subst e2
        split
        · simp [e]
        · rw [List.getElem?_eq_none (by omega)]; rfl
      · rfl
end Kingdon.Graph

/-
  C17: kingdon's Polynomial / RationalPolynomial arithmetic is exact rational-function arithmetic.
  `eval ρ` interprets a stored polynomial in any commutative ring under a valuation of the variable names.
-/
import Kingdon.Model.KPoly
import Mathlib.Algebra.Ring.Defs
import Mathlib.Algebra.Field.Defs
import Mathlib.Algebra.BigOperators.Group.List.Basic
import Mathlib.Data.Int.Cast.Lemmas
import Mathlib.Data.String.Basic
import Mathlib.Tactic.Ring
import Mathlib.Tactic.LinearCombination
import Mathlib.Tactic.FieldSimp
namespace Kingdon.KP

theorem str_eq_of_not_lt {x y : String} (h1 : ¬ x < y) (h2 : ¬ y < x) : x = y :=
  le_antisymm (not_lt.mp h2) (not_lt.mp h1)

theorem compareVars_eq_zero : ∀ (a b : List String), compareVars a b = 0 → a = b
  | [], [], _ => rfl
  | [], y :: b, h => by simp [compareVars] at h; omega
  | x :: a, [], h => by simp [compareVars] at h; omega
  | x :: a, y :: b, h => by
    simp only [compareVars] at h
    split_ifs at h with h1 h2
    · omega
    · rw [compareVars_eq_zero a b h, str_eq_of_not_lt h1 h2]

/-! ### addition chains and `power_supply` -/

def ChainOK (e : Nat × List Nat) : Prop := e.2.getLast? = some e.1 ∧ ∀ x ∈ e.2, x ≤ e.1
def ChainsOK (cs : List (Nat × List Nat)) : Prop := ∀ e ∈ cs, ChainOK e

theorem chainsLookup_mem {chains : List (Nat × List Nat)} {n : Nat} {ch : List Nat}
    (h : chainsLookup chains n = some ch) : (n, ch) ∈ chains := by
  unfold chainsLookup at h
  cases hf : chains.find? (·.1 == n) with
  | none => simp [hf] at h
  | some e =>
    simp [hf] at h
    have h1 := List.find?_some hf
    have h2 := List.mem_of_find?_eq_some hf
    simp at h1
    obtain ⟨a, b⟩ := e
    simp at h h1; subst h h1; exact h2

theorem inner_ok (limit : Nat) (chain : List Nat) (k : Nat) (hk : chain.getLast? = some k)
    (hle : ∀ x ∈ chain, x ≤ k) (ls : List Nat) (acc : List (Nat × List Nat)) (hacc : ChainsOK acc) :
    ChainsOK (ls.foldl (fun acc left =>
      let value := left + chain.getLastD 0
      if value ≤ limit && (chainsLookup acc value).isNone then acc ++ [(value, chain ++ [value])] else acc) acc) := by
  induction ls generalizing acc with
  | nil => exact hacc
  | cons left ls ih =>
    rw [List.foldl_cons]
    apply ih
    have hr : chain.getLastD 0 = k := by
      rw [List.getLastD_eq_getLast?, hk]; rfl
    simp only [hr]
    split_ifs
    · intro e he
      rw [List.mem_append] at he
      rcases he with he | he
      · exact hacc e he
      · simp at he; subst he
        refine ⟨by simp, ?_⟩
        intro x hx
        simp at hx
        rcases hx with hx | hx
        · have := hle x hx; simp; omega
        · simp [hx]
    · exact hacc

theorem outer_ok (limit : Nat) (es : List (Nat × List Nat)) (hes : ∀ e ∈ es, ChainOK e)
    (acc : List (Nat × List Nat)) (hacc : ChainsOK acc) :
    ChainsOK (es.foldl (fun acc (entry : Nat × List Nat) =>
    let chain := entry.2
    let right := chain.getLastD 0
    chain.foldl (fun acc left =>
      let value := left + right
      if value ≤ limit && (chainsLookup acc value).isNone then acc ++ [(value, chain ++ [value])] else acc) acc) acc) := by
  induction es generalizing acc with
  | nil => exact hacc
  | cons e es ih =>
    rw [List.foldl_cons]
    apply ih (fun e' he' => hes e' (List.mem_cons_of_mem _ he'))
    have := hes e List.mem_cons_self
    exact inner_ok limit e.2 e.1 this.1 this.2 e.2 acc hacc

theorem chainsPass_ok (limit : Nat) (chains : List (Nat × List Nat)) (h : ChainsOK chains) :
    ChainsOK (chainsPass limit chains) := outer_ok limit chains h chains h

theorem minimalChains_ok (limit fuel : Nat) (chains : List (Nat × List Nat)) (h : ChainsOK chains) :
    ChainsOK (minimalChains limit fuel chains) := by
  induction fuel generalizing chains with
  | zero => exact h
  | succ f ih =>
    unfold minimalChains
    split_ifs
    · exact h
    · exact ih _ (chainsPass_ok limit chains h)

theorem additionChains_ok (limit : Nat) : ChainsOK (additionChains limit) := by
  apply minimalChains_ok
  intro e he
  simp at he; subst he
  exact ⟨rfl, by simp⟩

def psStep {β : Type} (mulf : β → β → β) (chains : List (Nat × List Nat))
    (st : Option (List (Nat × β) × List β)) (e : Nat) : Option (List (Nat × β) × List β) :=
  match st with
  | none => none
  | some (powers, out) =>
    match powers.find? (·.1 == e) with
    | some pe => some (powers, out ++ [pe.2])
    | none =>
      match chainsLookup chains e with
      | none => none
      | some ch =>
        let prev := (ch.dropLast).getLastD 0
        match powers.find? (·.1 == prev), powers.find? (·.1 == e - prev) with
        | some a, some b => let v := mulf a.2 b.2; some (powers ++ [(e, v)], out ++ [v])
        | _, _ => none

theorem powerSupply_eq {β : Type} (mulf : β → β → β) (x : β) (n : Nat) :
    powerSupply mulf x n = match chainsLookup (additionChains n) n with
      | none => none
      | some exps => (exps.foldl (psStep mulf (additionChains n)) (some ([(1, x)], []))).map (·.2) := rfl


theorem find?_key {β : Type} {powers : List (Nat × β)} {e : Nat} {pe : Nat × β}
    (h : powers.find? (·.1 == e) = some pe) : pe ∈ powers ∧ pe.1 = e := by
  have h1 := List.find?_some h
  have h2 := List.mem_of_find?_eq_some h
  simp at h1
  exact ⟨h2, h1⟩

theorem dropLast_getLastD_le (ch : List Nat) (k : Nat) (hle : ∀ x ∈ ch, x ≤ k) :
    (ch.dropLast).getLastD 0 ≤ k := by
  rw [List.getLastD_eq_getLast?]
  cases h : ch.dropLast.getLast? with
  | none => simp
  | some v =>
    have := List.mem_of_getLast? h
    exact hle v (List.dropLast_subset ch this)

theorem psStep_spec {β M : Type} [Monoid M] (sem : β → M) (mulf : β → β → β)
    (hmul : ∀ a b, sem (mulf a b) = sem a * sem b) (x : β) (chains : List (Nat × List Nat))
    (hc : ChainsOK chains) (powers : List (Nat × β)) (out : List β) (e : Nat)
    (powers' : List (Nat × β)) (out' : List β)
    (hp : ∀ pe ∈ powers, sem pe.2 = sem x ^ pe.1)
    (h : psStep mulf chains (some (powers, out)) e = some (powers', out')) :
    (∀ pe ∈ powers', sem pe.2 = sem x ^ pe.1) ∧ ∃ v, out' = out ++ [v] ∧ sem v = sem x ^ e := by
  unfold psStep at h
  simp only at h
  split at h
  · rename_i pe hpe
    simp at h
    obtain ⟨rfl, rfl⟩ := h
    obtain ⟨hm, hk⟩ := find?_key hpe
    exact ⟨hp, pe.2, rfl, by rw [hp pe hm, hk]⟩
  · split at h
    · exact absurd h (by simp)
    · rename_i ch hch
      split at h
      · rename_i a b ha hb
        simp at h
        obtain ⟨rfl, rfl⟩ := h
        obtain ⟨hma, hka⟩ := find?_key ha
        obtain ⟨hmb, hkb⟩ := find?_key hb
        have hok := hc _ (chainsLookup_mem hch)
        have hle := dropLast_getLastD_le ch e hok.2
        have hv : sem (mulf a.2 b.2) = sem x ^ e := by
          rw [hmul, hp a hma, hp b hmb, hka, hkb, ← pow_add]
          congr 1; omega
        refine ⟨?_, _, rfl, hv⟩
        intro pe hpe
        rw [List.mem_append] at hpe
        rcases hpe with hpe | hpe
        · exact hp pe hpe
        · simp at hpe; subst hpe; exact hv
      · exact absurd h (by simp)

theorem foldl_psStep_none {β : Type} (mulf : β → β → β) (chains : List (Nat × List Nat)) (l : List Nat) :
    l.foldl (psStep mulf chains) none = none := by
  induction l with
  | nil => rfl
  | cons e l ih => simpa [List.foldl_cons, psStep] using ih

theorem foldl_psStep_inv {β M : Type} [Monoid M] (sem : β → M) (mulf : β → β → β)
    (hmul : ∀ a b, sem (mulf a b) = sem a * sem b) (x : β) (chains : List (Nat × List Nat))
    (hc : ChainsOK chains) (l : List Nat) (powers : List (Nat × β)) (out : List β)
    (powers' : List (Nat × β)) (out' : List β)
    (hp : ∀ pe ∈ powers, sem pe.2 = sem x ^ pe.1)
    (h : l.foldl (psStep mulf chains) (some (powers, out)) = some (powers', out')) :
    ∀ pe ∈ powers', sem pe.2 = sem x ^ pe.1 := by
  induction l generalizing powers out with
  | nil => simp at h; obtain ⟨rfl, rfl⟩ := h; exact hp
  | cons e l ih =>
    rw [List.foldl_cons] at h
    cases hs : psStep mulf chains (some (powers, out)) e with
    | none => rw [hs, foldl_psStep_none] at h; exact absurd h (by simp)
    | some st =>
      obtain ⟨p2, o2⟩ := st
      rw [hs] at h
      exact ih p2 o2 (psStep_spec sem mulf hmul x chains hc powers out e p2 o2 hp hs).1 h

theorem powerSupply_last {β M : Type} [Monoid M] (sem : β → M) (mulf : β → β → β)
    (hmul : ∀ a b, sem (mulf a b) = sem a * sem b) (x : β) (n : Nat) (outl : List β) (v : β)
    (h : powerSupply mulf x n = some outl) (hv : outl.getLast? = some v) : sem v = sem x ^ n := by
  rw [powerSupply_eq] at h
  have hc := additionChains_ok n
  split at h
  · exact absurd h (by simp)
  · rename_i exps hex
    have hok := hc _ (chainsLookup_mem hex)
    obtain ⟨l, hl⟩ := List.getLast?_eq_some_iff.mp hok.1
    simp only at hl
    rw [hl, List.foldl_append] at h
    cases hs : l.foldl (psStep mulf (additionChains n)) (some ([(1, x)], [])) with
    | none => rw [hs] at h; simp [psStep] at h
    | some st =>
      obtain ⟨p1, o1⟩ := st
      rw [hs] at h
      have hp1 := foldl_psStep_inv sem mulf hmul x _ hc l [(1, x)] [] p1 o1 (by simp) hs
      simp only [List.foldl_cons, List.foldl_nil] at h
      cases hs2 : psStep mulf (additionChains n) (some (p1, o1)) n with
      | none => rw [hs2] at h; simp at h
      | some st2 =>
        obtain ⟨p2, o2⟩ := st2
        rw [hs2] at h
        simp at h
        subst h
        obtain ⟨_, w, how, hw⟩ := psStep_spec sem mulf hmul x _ hc p1 o1 n p2 o2 hp1 hs2
        rw [how] at hv
        simp at hv
        rw [← hv]; exact hw

section ring
variable {α : Type} [CommRing α] (ρ : String → α)

def evalVars (vs : List String) : α := (vs.map ρ).prod
def evalMono (m : Mono) : α := (m.coeff : α) * evalVars ρ m.vars
/-- the function a stored polynomial denotes -/
def eval (p : Poly) : α := (p.map (evalMono ρ)).sum

@[simp] theorem eval_nil : eval ρ [] = 0 := by simp [eval]
@[simp] theorem eval_cons (m : Mono) (p : Poly) : eval ρ (m :: p) = evalMono ρ m + eval ρ p := by
  simp [eval]
@[simp] theorem evalVars_nil : evalVars ρ [] = 1 := by simp [evalVars]
@[simp] theorem evalVars_cons (x : String) (a : List String) :
    evalVars ρ (x :: a) = ρ x * evalVars ρ a := by simp [evalVars]

theorem eval_isZeroish (p : Poly) (h : isZeroish p = true) : eval ρ p = 0 := by
  unfold isZeroish at h
  simp only [Bool.or_eq_true, List.isEmpty_iff, beq_iff_eq] at h
  rcases h with rfl | rfl
  · simp
  · simp [evalMono]

theorem eval_merge (p q : Poly) : eval ρ (merge p q) = eval ρ p + eval ρ q := by
  fun_induction merge p q with
  | case1 q => simp
  | case2 p hp => simp
  | case3 ea p eb q diff hd ih => simp [ih]; ring
  | case4 ea p eb q diff hd1 hd2 ih => simp [ih]; ring
  | case5 ea p eb q diff hd1 hd2 c hc ih =>
    have h0 : compare ea eb = 0 := by simp only [diff] at hd1 hd2; omega
    have hv := compareVars_eq_zero _ _ h0
    simp [ih, evalMono, c, hv]; ring
  | case6 ea p eb q diff hd1 hd2 c hc ih =>
    have h0 : compare ea eb = 0 := by simp only [diff] at hd1 hd2; omega
    have hv := compareVars_eq_zero _ _ h0
    have hc0 : ea.coeff + eb.coeff = 0 := by simpa [c] using hc
    have : ((ea.coeff + eb.coeff : Int) : α) = 0 := by rw [hc0]; simp
    push_cast at this
    rw [eval_cons, eval_cons, ih]
    simp only [evalMono, hv]
    linear_combination (-(evalVars ρ eb.vars)) * this

/-- sums denote sums (all inputs, no well-formedness needed) -/
theorem eval_add (p q : Poly) : eval ρ (add p q) = eval ρ p + eval ρ q := by
  unfold add
  split_ifs with h1 h2
  · simp [eval_isZeroish ρ q h1]
  · simp [eval_isZeroish ρ p h2]
  · exact eval_merge ρ p q

theorem eval_neg (p : Poly) : eval ρ (neg p) = - eval ρ p := by
  induction p with
  | nil => simp [neg]
  | cons m p ih =>
    simp only [neg, List.map_cons, eval_cons] at ih ⊢
    rw [ih]; simp [evalMono]; ring

theorem eval_sub (p q : Poly) : eval ρ (sub p q) = eval ρ p - eval ρ q := by
  simp [sub, eval_add, eval_neg]; ring

theorem evalVars_mulVars (a b : List String) : evalVars ρ (mulVars a b) = evalVars ρ a * evalVars ρ b := by
  fun_induction mulVars a b <;> simp [*] <;> ring

theorem evalMono_mulMono (a b : Mono) : evalMono ρ (mulMono a b) = evalMono ρ a * evalMono ρ b := by
  simp [evalMono, mulMono, evalVars_mulVars]; ring

theorem eval_foldl_add (l : List Mono) (acc : Poly) :
    eval ρ (l.foldl (fun res c => add res [c]) acc) = eval ρ acc + (l.map (evalMono ρ)).sum := by
  induction l generalizing acc with
  | nil => simp
  | cons c l ih => simp [ih, eval_add]; ring

theorem sum_map_mulMono (a : Mono) (q : Poly) :
    ((q.map (mulMono a)).map (evalMono ρ)).sum = evalMono ρ a * eval ρ q := by
  induction q with
  | nil => simp
  | cons b q ih => simp [evalMono_mulMono] at ih ⊢; rw [ih]; ring

theorem sum_flatMap_mulMono (p q : Poly) :
    ((p.flatMap fun a => q.map fun b => mulMono a b).map (evalMono ρ)).sum = eval ρ p * eval ρ q := by
  induction p with
  | nil => simp
  | cons a p ih =>
    simp only [List.flatMap_cons, List.map_append, List.sum_append, eval_cons]
    rw [ih, sum_map_mulMono]; ring

/-- products denote products -/
theorem eval_mul (p q : Poly) : eval ρ (mul p q) = eval ρ p * eval ρ q := by
  unfold mul
  split_ifs with h
  · simp only [Bool.or_eq_true] at h
    rcases h with h | h <;> simp [eval_isZeroish ρ _ h]
  · rw [eval_foldl_add, sum_flatMap_mulMono]; simp

theorem eval_ofInt (c : Int) : eval ρ (ofInt c) = (c : α) := by
  simp [ofInt, evalMono]

theorem eval_ofName (s : String) : eval ρ (ofName s) = ρ s := by
  simp [ofName, evalMono]

theorem eqZero_sound (p : Poly) (h : eqZero p = true) : eval ρ p = 0 := eval_isZeroish ρ p h
theorem eqOne_sound (p : Poly) (h : eqOne p = true) : eval ρ p = 1 := by
  simp only [eqOne, isOne, beq_iff_eq] at h
  subst h; simp [evalMono]

/-- `==` never equates polynomials denoting different functions -/
theorem eq_sound (p q : Poly) (h : eq p q = true) : eval ρ p = eval ρ q := by
  unfold eq at h
  split_ifs at h with h1 h2
  · simp only [Bool.and_eq_true] at h1
    rw [eval_isZeroish ρ _ h1.1, eval_isZeroish ρ _ h1.2]
  · simp only [Bool.and_eq_true] at h2
    rw [eqOne_sound ρ _ h2.1, eqOne_sound ρ _ h2.2]
  · rw [beq_iff_eq] at h; rw [h]

/-- a falsy polynomial denotes 0 -/
theorem toBool_false_sound (p : Poly) (h : toBool p = false) : eval ρ p = 0 := by
  unfold toBool at h
  split at h
  · simp at h; simp [evalMono, h]
  · simp at h; simp [h]

/-- every yielded power of `power_supply` is a power of the base (for any associative multiplication with a
    multiplicative semantics), hence `p ** n` denotes the n-th power whenever it returns -/
theorem eval_pow (p q : Poly) (n : Nat) (h : pow p n = some q) : eval ρ q = eval ρ p ^ n := by
  unfold pow at h
  cases hps : powerSupply mul p n with
  | none => rw [hps] at h; simp at h
  | some outl =>
    rw [hps] at h
    simp at h
    exact powerSupply_last (eval ρ) mul (eval_mul ρ) p n outl q hps h

end ring

/-! ### normal forms: what the code generation relies on for *exact* zero tests -/

/-- well-formed: no zero coefficients, variables sorted inside each monomial, monomials strictly increasing -/
def WF (p : Poly) : Prop :=
  (∀ m ∈ p, m.coeff ≠ 0 ∧ m.vars.Pairwise (fun x y => ¬ y < x)) ∧ p.Pairwise (fun a b => compare a b < 0)

theorem compareVars_neg : ∀ (a b : List String), compareVars b a = - compareVars a b
  | [], [] => by simp [compareVars]
  | [], y :: b => by simp [compareVars]
  | x :: a, [] => by simp [compareVars]
  | x :: a, y :: b => by
    simp only [compareVars]
    by_cases h1 : x < y
    · have := lt_asymm h1; simp [h1, this]
    · by_cases h2 : y < x
      · simp [h1, h2]
      · simp [h1, h2, compareVars_neg a b]

theorem compareVars_nil_left (b : List String) : compareVars [] b ≤ 0 := by
  cases b <;> simp [compareVars]

theorem compareVars_trans : ∀ (a b c : List String),
    compareVars a b < 0 → compareVars b c < 0 → compareVars a c < 0
  | [], [], _, h1, _ => by simp [compareVars] at h1
  | [], y :: b, [], _, h2 => by simp [compareVars] at h2; omega
  | [], y :: b, z :: c, _, _ => by simp [compareVars]; omega
  | x :: a, [], _, h1, _ => by simp [compareVars] at h1; omega
  | x :: a, y :: b, [], _, h2 => by simp [compareVars] at h2; omega
  | x :: a, y :: b, z :: c, h1, h2 => by
    simp only [compareVars] at h1 h2 ⊢
    by_cases hxy : x < y
    · by_cases hyz : y < z
      · simp [lt_trans hxy hyz]
      · by_cases hzy : z < y
        · simp [hyz, hzy] at h2
        · have : y = z := str_eq_of_not_lt hyz hzy
          subst this; simp [hxy]
    · by_cases hyx : y < x
      · simp [hxy, hyx] at h1
      · have : x = y := str_eq_of_not_lt hxy hyx
        subst this
        simp only [hxy, if_false] at h1
        by_cases hyz : x < z
        · simp [hyz]
        · by_cases hzy : z < x
          · simp [hyz, hzy] at h2
          · simp only [hyz, hzy, if_false] at h2 ⊢
            exact compareVars_trans a b c h1 h2

def LBv (v : List String) (p : Poly) : Prop := ∀ b ∈ p, compareVars v b.vars < 0

theorem LBv_merge (v : List String) (p q : Poly) (hp : LBv v p) (hq : LBv v q) : LBv v (merge p q) := by
  fun_induction merge p q with
  | case1 q => exact hq
  | case2 p _ => exact hp
  | case3 ea p eb q diff hd ih =>
    intro b hb
    rw [List.mem_cons] at hb
    rcases hb with rfl | hb
    · exact hp _ List.mem_cons_self
    · exact ih (fun b hb => hp b (List.mem_cons_of_mem _ hb)) hq b hb
  | case4 ea p eb q diff hd1 hd2 ih =>
    intro b hb
    rw [List.mem_cons] at hb
    rcases hb with rfl | hb
    · exact hq _ List.mem_cons_self
    · exact ih hp (fun b hb => hq b (List.mem_cons_of_mem _ hb)) b hb
  | case5 ea p eb q diff hd1 hd2 c hc ih =>
    intro b hb
    rw [List.mem_cons] at hb
    rcases hb with rfl | hb
    · exact hp ea List.mem_cons_self
    · exact ih (fun b hb => hp b (List.mem_cons_of_mem _ hb)) (fun b hb => hq b (List.mem_cons_of_mem _ hb)) b hb
  | case6 ea p eb q diff hd1 hd2 c hc ih =>
    exact ih (fun b hb => hp b (List.mem_cons_of_mem _ hb)) (fun b hb => hq b (List.mem_cons_of_mem _ hb))

def MonoOK (m : Mono) : Prop := m.coeff ≠ 0 ∧ m.vars.Pairwise (fun x y => ¬ y < x)

theorem monoOK_merge (p q : Poly) (hp : ∀ m ∈ p, MonoOK m) (hq : ∀ m ∈ q, MonoOK m) :
    ∀ m ∈ merge p q, MonoOK m := by
  fun_induction merge p q with
  | case1 q => exact hq
  | case2 p _ => exact hp
  | case3 ea p eb q diff hd ih =>
    intro b hb
    rw [List.mem_cons] at hb
    rcases hb with rfl | hb
    · exact hp _ List.mem_cons_self
    · exact ih (fun b hb => hp b (List.mem_cons_of_mem _ hb)) hq b hb
  | case4 ea p eb q diff hd1 hd2 ih =>
    intro b hb
    rw [List.mem_cons] at hb
    rcases hb with rfl | hb
    · exact hq _ List.mem_cons_self
    · exact ih hp (fun b hb => hq b (List.mem_cons_of_mem _ hb)) b hb
  | case5 ea p eb q diff hd1 hd2 c hc ih =>
    intro b hb
    rw [List.mem_cons] at hb
    rcases hb with rfl | hb
    · exact ⟨by simpa using hc, (hp _ List.mem_cons_self).2⟩
    · exact ih (fun b hb => hp b (List.mem_cons_of_mem _ hb)) (fun b hb => hq b (List.mem_cons_of_mem _ hb)) b hb
  | case6 ea p eb q diff hd1 hd2 c hc ih =>
    exact ih (fun b hb => hp b (List.mem_cons_of_mem _ hb)) (fun b hb => hq b (List.mem_cons_of_mem _ hb))

theorem pairwise_merge (p q : Poly) (hp : p.Pairwise (fun a b => compare a b < 0))
    (hq : q.Pairwise (fun a b => compare a b < 0)) :
    (merge p q).Pairwise (fun a b => compare a b < 0) := by
  fun_induction merge p q with
  | case1 q => exact hq
  | case2 p _ => exact hp
  | case3 ea p eb q diff hd ih =>
    rw [List.pairwise_cons] at hp ⊢
    refine ⟨?_, ih hp.2 hq⟩
    apply LBv_merge ea.vars p (eb :: q) hp.1
    intro b hb
    rw [List.mem_cons] at hb
    rcases hb with rfl | hb
    · exact hd
    · exact compareVars_trans _ _ _ hd ((List.pairwise_cons.mp hq).1 b hb)
  | case4 ea p eb q diff hd1 hd2 ih =>
    rw [List.pairwise_cons] at hq ⊢
    refine ⟨?_, ih hp hq.2⟩
    have hba : compareVars eb.vars ea.vars < 0 := by
      rw [compareVars_neg]; simp only [diff, compare] at hd2; omega
    apply LBv_merge eb.vars (ea :: p) q _ hq.1
    intro b hb
    rw [List.mem_cons] at hb
    rcases hb with rfl | hb
    · exact hba
    · exact compareVars_trans _ _ _ hba ((List.pairwise_cons.mp hp).1 b hb)
  | case5 ea p eb q diff hd1 hd2 c hc ih =>
    have h0 : compare ea eb = 0 := by simp only [diff] at hd1 hd2; omega
    have hv := compareVars_eq_zero _ _ h0
    rw [List.pairwise_cons] at hp hq ⊢
    refine ⟨?_, ih hp.2 hq.2⟩
    apply LBv_merge ea.vars p q hp.1
    rw [hv]; exact hq.1
  | case6 ea p eb q diff hd1 hd2 c hc ih =>
    exact ih (List.pairwise_cons.mp hp).2 (List.pairwise_cons.mp hq).2

theorem wf_merge (p q : Poly) (hp : WF p) (hq : WF q) : WF (merge p q) :=
  ⟨monoOK_merge p q hp.1 hq.1, pairwise_merge p q hp.2 hq.2⟩

theorem wf_nil : WF [] := by simp [WF]
theorem wf_single (m : Mono) (h : MonoOK m) : WF [m] := by
  refine ⟨?_, by simp⟩
  intro m' hm'; simp at hm'; subst hm'; exact h
theorem wf_ofName (s : String) : WF (ofName s) := by
  apply wf_single; simp [MonoOK]
theorem wf_ofInt (c : Int) (hc : c ≠ 0) : WF (ofInt c) := by
  apply wf_single; simp [MonoOK, hc]
theorem wf_neg (p : Poly) (h : WF p) : WF (neg p) := by
  refine ⟨?_, ?_⟩
  · intro m hm
    simp only [neg, List.mem_map] at hm
    obtain ⟨m', hm', rfl⟩ := hm
    have := h.1 m' hm'
    exact ⟨by simpa using this.1, this.2⟩
  · simp only [neg, List.pairwise_map]
    exact h.2
theorem wf_add (p q : Poly) (hp : WF p) (hq : WF q) : WF (add p q) := by
  unfold add
  split_ifs
  · exact hp
  · exact hq
  · exact wf_merge p q hp hq

theorem mem_mulVars (a b : List String) : ∀ z ∈ mulVars a b, z ∈ a ∨ z ∈ b := by
  fun_induction mulVars a b with
  | case1 b => intro z hz; exact Or.inr hz
  | case2 a _ => intro z hz; exact Or.inl hz
  | case3 x a y b h ih =>
    intro z hz
    rw [List.mem_cons] at hz
    rcases hz with rfl | hz
    · simp
    · rcases ih z hz with h | h
      · exact Or.inl (List.mem_cons_of_mem _ h)
      · exact Or.inr h
  | case4 x a y b h ih =>
    intro z hz
    rw [List.mem_cons] at hz
    rcases hz with rfl | hz
    · simp
    · rcases ih z hz with h | h
      · exact Or.inl h
      · exact Or.inr (List.mem_cons_of_mem _ h)

theorem sorted_mulVars (a b : List String) (ha : a.Pairwise (fun x y => ¬ y < x))
    (hb : b.Pairwise (fun x y => ¬ y < x)) : (mulVars a b).Pairwise (fun x y => ¬ y < x) := by
  fun_induction mulVars a b with
  | case1 b => exact hb
  | case2 a _ => exact ha
  | case3 x a y b h ih =>
    rw [List.pairwise_cons] at ha ⊢
    refine ⟨?_, ih ha.2 hb⟩
    intro z hz
    rcases mem_mulVars _ _ z hz with hz | hz
    · exact ha.1 z hz
    · rw [List.mem_cons] at hz
      rcases hz with rfl | hz
      · exact lt_asymm h
      · have := (List.pairwise_cons.mp hb).1 z hz
        exact lt_asymm (lt_of_lt_of_le h (not_lt.mp this))
  | case4 x a y b h ih =>
    rw [List.pairwise_cons] at hb ⊢
    refine ⟨?_, ih ha hb.2⟩
    intro z hz
    rcases mem_mulVars _ _ z hz with hz | hz
    · rw [List.mem_cons] at hz
      rcases hz with rfl | hz
      · exact h
      · have := (List.pairwise_cons.mp ha).1 z hz
        exact not_lt.mpr (le_trans (not_lt.mp h) (not_lt.mp this))
    · exact hb.1 z hz

theorem monoOK_mulMono (a b : Mono) (ha : MonoOK a) (hb : MonoOK b) : MonoOK (mulMono a b) :=
  ⟨Int.mul_ne_zero ha.1 hb.1, sorted_mulVars _ _ ha.2 hb.2⟩

theorem wf_foldl_add (l : List Mono) (hl : ∀ c ∈ l, MonoOK c) (acc : Poly) (hacc : WF acc) :
    WF (l.foldl (fun res c => add res [c]) acc) := by
  induction l generalizing acc with
  | nil => exact hacc
  | cons c l ih =>
    rw [List.foldl_cons]
    exact ih (fun c' hc' => hl c' (List.mem_cons_of_mem _ hc')) _
      (wf_add _ _ hacc (wf_single c (hl c List.mem_cons_self)))

theorem wf_mul (p q : Poly) (hp : WF p) (hq : WF q) : WF (mul p q) := by
  unfold mul
  split_ifs
  · exact wf_nil
  · apply wf_foldl_add _ _ _ wf_nil
    intro c hc
    simp only [List.mem_flatMap, List.mem_map] at hc
    obtain ⟨a, ha, b, hb, rfl⟩ := hc
    exact monoOK_mulMono a b (hp.1 a ha) (hq.1 b hb)

/-- on well-formed polynomials the zero tests are exact: they hold iff the polynomial has no terms -/
theorem wf_eqZero_iff (p : Poly) (h : WF p) : eqZero p = true ↔ p = [] := by
  simp only [eqZero, isZeroish, Bool.or_eq_true, List.isEmpty_iff, beq_iff_eq]
  constructor
  · rintro (h1 | h1)
    · exact h1
    · subst h1
      exact absurd rfl (h.1 _ List.mem_cons_self).1
  · intro h1; exact Or.inl h1
theorem wf_toBool_iff (p : Poly) (h : WF p) : toBool p = false ↔ p = [] := by
  unfold toBool
  split
  · rename_i m
    have := (h.1 _ List.mem_cons_self).1
    simp [this]
  · simp

/-! ### rational polynomials over a field -/

section field
variable {K : Type} [Field K] (ρ : String → K)

/-- the rational function a stored RationalPolynomial denotes (meaningful where the denominator does not vanish) -/
def RPoly.eval (r : RPoly) : K := KP.eval ρ r.numer / KP.eval ρ r.denom

theorem eval_one_lit : KP.eval ρ [⟨1, []⟩] = 1 := by simp [evalMono]

theorem RPoly.eval_zero : RPoly.eval ρ RPoly.zero = 0 := by
  simp [RPoly.eval, RPoly.zero, RPoly.ofPoly]
theorem RPoly.eval_one : RPoly.eval ρ RPoly.one = 1 := by
  simp [RPoly.eval, RPoly.one, RPoly.ofPoly, evalMono]
theorem RPoly.eval_ofName (s : String) : RPoly.eval ρ (RPoly.ofName s) = ρ s := by
  simp [RPoly.eval, RPoly.ofName, RPoly.ofPoly, KP.ofName, evalMono]

theorem RPoly.eval_neg (r : RPoly) : RPoly.eval ρ (RPoly.neg r) = - RPoly.eval ρ r := by
  simp [RPoly.eval, RPoly.neg, KP.eval_neg, neg_div]

theorem RPoly.eqZero_sound (r : RPoly) (h : RPoly.eqZero r = true) : RPoly.eval ρ r = 0 := by
  simp [RPoly.eval, KP.eqZero_sound ρ _ h]

theorem RPoly.eval_add (r s : RPoly) (hr : KP.eval ρ r.denom ≠ 0) (hs : KP.eval ρ s.denom ≠ 0) :
    RPoly.eval ρ (RPoly.add r s) = RPoly.eval ρ r + RPoly.eval ρ s := by
  have key : ∀ nn nd : Poly, KP.eval ρ nd ≠ 0 →
      KP.eval ρ nn / KP.eval ρ nd = RPoly.eval ρ r + RPoly.eval ρ s →
      RPoly.eval ρ (if KP.eqZero nn then RPoly.zero
        else if nn.length == nd.length && KP.eq nn nd then RPoly.one else ⟨nn, nd⟩) =
        RPoly.eval ρ r + RPoly.eval ρ s := by
    intro nn nd hnd hv
    split_ifs with h3 h4
    · rw [RPoly.eval_zero, ← hv, KP.eqZero_sound ρ _ h3]; simp
    · simp only [Bool.and_eq_true] at h4
      rw [RPoly.eval_one, ← hv, KP.eq_sound ρ _ _ h4.2, div_self hnd]
    · exact hv
  unfold RPoly.add
  split_ifs with h1 h2 h5
  · simp [RPoly.eqZero_sound ρ s h1]
  · simp [RPoly.eqZero_sound ρ r h2]
  · simp only [Bool.and_eq_true] at h5
    have he := KP.eq_sound ρ _ _ h5.2
    apply key _ _ hr
    simp only [RPoly.eval, KP.eval_add, ← he]
    field_simp
  · apply key
    · rw [KP.eval_mul]; exact mul_ne_zero hr hs
    · simp only [RPoly.eval, KP.eval_add, KP.eval_mul]
      field_simp

theorem RPoly.one_denom_ne : KP.eval ρ [⟨1, []⟩] ≠ 0 := by simp [evalMono]

theorem RPoly.add_denom_ne_zero (r s : RPoly) (hr : KP.eval ρ r.denom ≠ 0) (hs : KP.eval ρ s.denom ≠ 0) :
    KP.eval ρ (RPoly.add r s).denom ≠ 0 := by
  have key : ∀ nn nd : Poly, KP.eval ρ nd ≠ 0 →
      KP.eval ρ (if KP.eqZero nn then RPoly.zero
        else if nn.length == nd.length && KP.eq nn nd then RPoly.one else ⟨nn, nd⟩).denom ≠ 0 := by
    intro nn nd hnd
    split_ifs with h3 h4
    · exact RPoly.one_denom_ne ρ
    · exact RPoly.one_denom_ne ρ
    · exact hnd
  unfold RPoly.add
  split_ifs with h1 h2 h5
  · exact hr
  · exact hs
  · exact key _ _ hr
  · apply key
    rw [KP.eval_mul]; exact mul_ne_zero hr hs

theorem RPoly.eval_sub (r s : RPoly) (hr : KP.eval ρ r.denom ≠ 0) (hs : KP.eval ρ s.denom ≠ 0) :
    RPoly.eval ρ (RPoly.sub r s) = RPoly.eval ρ r - RPoly.eval ρ s := by
  unfold RPoly.sub
  rw [RPoly.eval_add ρ r (RPoly.neg s) hr hs, RPoly.eval_neg]; ring

theorem RPoly.evalVars_cancel (a b : List String) (hb : evalVars ρ b ≠ 0) :
    evalVars ρ (RPoly.cancelVars a b).2 ≠ 0 ∧
    evalVars ρ a / evalVars ρ b = evalVars ρ (RPoly.cancelVars a b).1 / evalVars ρ (RPoly.cancelVars a b).2 := by
  fun_induction RPoly.cancelVars a b with
  | case1 b => exact ⟨hb, rfl⟩
  | case2 a ha => exact ⟨hb, rfl⟩
  | case3 x a y b hxy ih =>
    simp only [beq_iff_eq] at hxy
    subst hxy
    simp only [evalVars_cons] at hb ⊢
    have hx : ρ x ≠ 0 := left_ne_zero_of_mul hb
    have hb := right_ne_zero_of_mul hb
    obtain ⟨h1, h2⟩ := ih hb
    refine ⟨h1, ?_⟩
    rw [← h2, mul_div_mul_left _ _ hx]
  | case4 x a y b hxy hlt r ih =>
    obtain ⟨h1, h2⟩ := ih hb
    refine ⟨h1, ?_⟩
    simp only [evalVars_cons, r] at h2 ⊢
    rw [mul_div_assoc, h2, mul_div_assoc]
  | case5 x a y b hxy hlt r ih =>
    simp only [evalVars_cons] at hb
    have hy : ρ y ≠ 0 := left_ne_zero_of_mul hb
    have hb := right_ne_zero_of_mul hb
    obtain ⟨h1, h2⟩ := ih hb
    simp only [evalVars_cons, r] at h2 ⊢
    refine ⟨mul_ne_zero hy h1, ?_⟩
    rw [mul_comm (ρ y), ← div_div, h2, div_div, mul_comm (ρ y)]

theorem RPoly.eqOne_sound (r : RPoly) (h : RPoly.eqOne r = true) : RPoly.eval ρ r = 1 := by
  simp only [RPoly.eqOne, Bool.and_eq_true] at h
  have h1 := KP.eqOne_sound ρ _ h.1
  have h2 := KP.eqOne_sound ρ _ h.2
  simp [RPoly.eval, h1, h2]

theorem RPoly.mul_both (r s : RPoly) (hr : KP.eval ρ r.denom ≠ 0) (hs : KP.eval ρ s.denom ≠ 0) :
    KP.eval ρ (RPoly.mul r s).denom ≠ 0 ∧
    RPoly.eval ρ (RPoly.mul r s) = RPoly.eval ρ r * RPoly.eval ρ s := by
  have hnd : KP.eval ρ (KP.mul r.denom s.denom) ≠ 0 := by
    rw [KP.eval_mul]; exact mul_ne_zero hr hs
  have hv : KP.eval ρ (KP.mul r.numer s.numer) / KP.eval ρ (KP.mul r.denom s.denom) =
      RPoly.eval ρ r * RPoly.eval ρ s := by
    simp only [RPoly.eval, KP.eval_mul]; field_simp
  unfold RPoly.mul
  split_ifs with h1 h2 h3 h4
  · exact ⟨hr, by simp [RPoly.eqZero_sound ρ r h1]⟩
  · exact ⟨hs, by simp [RPoly.eqZero_sound ρ s h2]⟩
  · exact ⟨hr, by simp [RPoly.eqOne_sound ρ s h3]⟩
  · exact ⟨hs, by simp [RPoly.eqOne_sound ρ r h4]⟩
  dsimp only
  split_ifs with h5 h6
  · refine ⟨by simp [RPoly.ofPoly, evalMono], ?_⟩
    rw [← hv, KP.eqZero_sound ρ _ h5]
    simp [RPoly.eval, RPoly.ofPoly, evalMono]
  · simp only [Bool.and_eq_true] at h6
    refine ⟨RPoly.one_denom_ne ρ, ?_⟩
    rw [RPoly.eval_one, ← hv, KP.eq_sound ρ _ _ h6.2, div_self hnd]
  · split
    · rename_i f1 f2 hf1 hf2
      rw [hf1, hf2] at hv
      rw [hf2] at hnd
      simp only [eval_cons, eval_nil, add_zero, evalMono] at hv hnd
      have hc : (f2.coeff : K) ≠ 0 := left_ne_zero_of_mul hnd
      have hb := right_ne_zero_of_mul hnd
      obtain ⟨c1, c2⟩ := RPoly.evalVars_cancel ρ f1.vars f2.vars hb
      refine ⟨by simpa [evalMono] using ⟨hc, c1⟩, ?_⟩
      rw [← hv]
      simp only [RPoly.eval, eval_cons, eval_nil, add_zero, evalMono]
      rw [mul_div_mul_comm, mul_div_mul_comm, c2]
    · exact ⟨hnd, hv⟩

theorem RPoly.eval_mul (r s : RPoly) (hr : KP.eval ρ r.denom ≠ 0) (hs : KP.eval ρ s.denom ≠ 0) :
    RPoly.eval ρ (RPoly.mul r s) = RPoly.eval ρ r * RPoly.eval ρ s := (RPoly.mul_both ρ r s hr hs).2

theorem RPoly.mul_denom_ne_zero (r s : RPoly) (hr : KP.eval ρ r.denom ≠ 0) (hs : KP.eval ρ s.denom ≠ 0) :
    KP.eval ρ (RPoly.mul r s).denom ≠ 0 := (RPoly.mul_both ρ r s hr hs).1

theorem RPoly.eval_inv (r s : RPoly) (h : RPoly.inv r = some s) : RPoly.eval ρ s = (RPoly.eval ρ r)⁻¹ := by
  unfold RPoly.inv at h
  split_ifs at h
  simp at h
  subst h
  simp [RPoly.eval]

theorem RPoly.eval_div (r s : RPoly) (hr : KP.eval ρ r.denom ≠ 0) (hs : KP.eval ρ s.denom ≠ 0)
    (hn : KP.eval ρ s.numer ≠ 0) :
    RPoly.eval ρ (RPoly.div r s) = RPoly.eval ρ r / RPoly.eval ρ s := by
  have _ := hs
  have hz : RPoly.eqZero s = false := by
    cases h : RPoly.eqZero s
    · rfl
    · exact absurd (KP.eqZero_sound ρ _ h) hn
  simp only [RPoly.div, RPoly.inv, hz]
  simp only [Bool.false_eq_true, if_false]
  rw [(RPoly.mul_both ρ r ⟨s.denom, s.numer⟩ hr hn).2]
  simp [RPoly.eval, div_eq_mul_inv]

theorem RPoly.eq_sound (r s : RPoly) (h : RPoly.eq r s = true) : RPoly.eval ρ r = RPoly.eval ρ s := by
  unfold RPoly.eq at h
  split_ifs at h with h1 h2
  · simp only [Bool.and_eq_true] at h1
    rw [RPoly.eqZero_sound ρ _ h1.1, RPoly.eqZero_sound ρ _ h1.2]
  · simp only [Bool.and_eq_true] at h2
    rw [RPoly.eqOne_sound ρ _ h2.1, RPoly.eqOne_sound ρ _ h2.2]
  · simp only [Bool.and_eq_true] at h
    simp only [RPoly.eval, KP.eq_sound ρ _ _ h.1, KP.eq_sound ρ _ _ h.2]

theorem RPoly.toBool_false_sound (r : RPoly) (h : RPoly.toBool r = false) : RPoly.eval ρ r = 0 := by
  simp [RPoly.eval, KP.toBool_false_sound ρ _ h]
end field
end Kingdon.KP

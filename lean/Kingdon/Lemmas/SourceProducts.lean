/-
  The translated product generators of codegen.py equal the model's generators.
-/
import Kingdon.Lemmas.SourceBase
namespace Kingdon.SrcEq
open Kingdon

/-! ### helper lemmas: dict primitives on casts, the loop, one iteration -/
section helpers
variable {α : Type}

theorem ofNat_beq (a b : Nat) : (Int.ofNat a == Int.ofNat b) = (a == b) := by
  rw [Bool.eq_iff_iff]; simp only [beq_iff_eq]; exact Int.ofNat_inj

theorem castMV_nil : castMV ([] : MV α) = [] := rfl
theorem castMV_cons (k : Nat) (v : α) (r : MV α) : castMV ((k, v) :: r) = (Int.ofNat k, v) :: castMV r := rfl

theorem dictSet_of_not_has [Add α] (r : MV α) (k : Nat) (t : α)
    (h : Py.dictHas (castMV r) (Int.ofNat k) = false) :
    Py.dictSet (castMV r) (Int.ofNat k) t = castMV (insertAdd r k t) := by
  induction r with
  | nil => rfl
  | cons p r ih =>
    obtain ⟨k', v⟩ := p
    simp only [castMV_cons, Py.dictHas, List.any_cons, ofNat_beq, Bool.or_eq_false_iff] at h
    have h1 : ¬ k' = k := by simpa using h.1
    simp only [castMV_cons, Py.dictSet, insertAdd, ofNat_beq, h.1, if_neg h1, Bool.false_eq_true, if_false]
    rw [ih h.2]

theorem dictSet_of_has [Add α] (r : MV α) (k : Nat) (t : α)
    (h : Py.dictHas (castMV r) (Int.ofNat k) = true) :
    ∃ v, Py.dictGet (castMV r) (Int.ofNat k) = .ok v ∧
      Py.dictSet (castMV r) (Int.ofNat k) (v + t) = castMV (insertAdd r k t) := by
  induction r with
  | nil => simp [castMV_nil, Py.dictHas] at h
  | cons p r ih =>
    obtain ⟨k', v⟩ := p
    by_cases hk : k' = k
    · subst hk
      refine ⟨v, ?_, ?_⟩
      · simp [castMV_cons, Py.dictGet]; rfl
      · simp [castMV_cons, Py.dictSet, insertAdd]
    · have hb : (k' == k) = false := by simpa using hk
      simp only [castMV_cons, Py.dictHas, List.any_cons, ofNat_beq, hb, Bool.false_or] at h
      obtain ⟨w, hw1, hw2⟩ := ih h
      refine ⟨w, ?_, ?_⟩
      · simp only [castMV_cons, Py.dictGet, List.find?_cons, ofNat_beq, hb]
        simpa only [Py.dictGet] using hw1
      · simp only [castMV_cons, Py.dictSet, insertAdd, ofNat_beq, hb, if_neg hk, Bool.false_eq_true, if_false]
        rw [hw2]

theorem forIn_cast {β γ σ τ : Type} (l : List β) (cb : β → γ) (cs : σ → τ)
    (f : γ → τ → Except String (ForInStep τ)) (g : σ → β → σ)
    (h : ∀ b ∈ l, ∀ s, f (cb b) (cs s) = .ok (.yield (cs (g s b)))) (s : σ) :
    forIn (l.map cb) (cs s) f = .ok (cs (l.foldl g s)) := by
  induction l generalizing s with
  | nil => rfl
  | cons b l ih =>
    rw [List.map_cons, List.forIn_cons, h b (List.mem_cons_self ..)]
    exact ih (fun b' hb' => h b' (List.mem_cons_of_mem _ hb')) _

def castP (pq : (Nat × α) × (Nat × α)) : (Int × α) × (Int × α) :=
  ((Int.ofNat pq.1.1, pq.1.2), (Int.ofNat pq.2.1, pq.2.2))

theorem product_cast (x y : MV α) : Py.product (castMV x) (castMV y) = (pairs x y).map castP := by
  simp only [Py.product, castMV, pairs, List.map_flatMap, List.flatMap_map, List.map_map]
  rfl

theorem mem_pairs {x y : MV α} {pq} (h : pq ∈ pairs x y) : pq.1.1 ∈ keysOf x ∧ pq.2.1 ∈ keysOf y := by
  simp only [pairs, List.mem_flatMap, List.mem_map] at h
  obtain ⟨p, hp, q, hq, rfl⟩ := h
  exact ⟨List.mem_map_of_mem hp, List.mem_map_of_mem hq⟩

end helpers

variable {α : Type} [Add α] [Sub α] [Mul α] [Neg α]
omit [Sub α] in
/-- one iteration of the translated loop body is the model's `cpStep` -/
theorem cp_step (signf : Nat → Nat → Int) (keyout : Nat → Nat → Nat)
    (filt : Nat → Nat → Nat → Bool)
    (sF : Int × Int → Int) (kF : Int → Int → Int) (fF : Int → Int → Int → Bool)
    (pq : (Nat × α) × (Nat × α)) (r : MV α)
    (hs : sF (Int.ofNat pq.1.1, Int.ofNat pq.2.1) = signf pq.1.1 pq.2.1)
    (hk : kF (Int.ofNat pq.1.1) (Int.ofNat pq.2.1) = Int.ofNat (keyout pq.1.1 pq.2.1))
    (hf : fF (Int.ofNat pq.1.1) (Int.ofNat pq.2.1) (Int.ofNat (keyout pq.1.1 pq.2.1)) = filt pq.1.1 pq.2.1 (keyout pq.1.1 pq.2.1)) :
    (fun (x : (Int × α) × (Int × α)) (__s : Py.Dict Int α) =>
            if Py.truthy (sF (x.1.fst, x.2.fst)) = true then
              if
                  (match some fF with
                    | some filter_func => !Py.truthy (filter_func x.1.fst x.2.fst (kF x.1.fst x.2.fst))
                    | none => false) =
                    true then
                (pure (ForInStep.yield __s) : Py.M _)
              else
                if Py.dictHas __s (kF x.1.fst x.2.fst) = true then do
                  let __do_lift ← Py.dictGet __s (kF x.1.fst x.2.fst)
                  pure
                      (ForInStep.yield
                        (Py.dictSet __s (kF x.1.fst x.2.fst)
                          (__do_lift +
                            if decide (sF (x.1.fst, x.2.fst) > 0) = true then x.1.snd * x.2.snd
                            else -x.1.snd * x.2.snd)))
                else
                  pure
                    (ForInStep.yield
                      (Py.dictSet __s (kF x.1.fst x.2.fst)
                        (if decide (sF (x.1.fst, x.2.fst) > 0) = true then x.1.snd * x.2.snd else -x.1.snd * x.2.snd)))
            else pure (ForInStep.yield __s)) (castP pq) (castMV r)
      = .ok (.yield (castMV (cpStep signf keyout filt r pq))) := by
  simp only [castP, hs, hk, hf, cpStep, Py.truthy, id]
  by_cases h0 : signf pq.1.1 pq.2.1 = 0
  · simp [h0]; rfl
  · simp only [h0, bne_iff_ne, ne_eq, not_false_eq_true, if_true, if_false]
    cases hfl : filt pq.1.1 pq.2.1 (keyout pq.1.1 pq.2.1)
    · simp; rfl
    · simp only [Bool.not_true, Bool.false_eq_true, if_false, if_true, decide_eq_true_eq]
      cases hh : Py.dictHas (castMV r) (Int.ofNat (keyout pq.1.1 pq.2.1))
      · simp only [Bool.false_eq_true, if_false]
        rw [dictSet_of_not_has _ _ _ hh]; rfl
      · obtain ⟨v, hv1, hv2⟩ := dictSet_of_has r _ (if signf pq.1.1 pq.2.1 > 0 then pq.1.2 * pq.2.2 else -pq.1.2 * pq.2.2) hh
        simp only [if_true, hv1]
        show Except.ok _ = _
        rw [hv2]

/-- `codegen_product` with explicit sign / key-out / filter functions that agree on casts -/
theorem codegen_product_eq (alg : Src.Alg) (signf : Nat → Nat → Int) (keyout : Nat → Nat → Nat)
    (filt : Nat → Nat → Nat → Bool)
    (sF : Int × Int → Int) (kF : Int → Int → Int) (fF : Int → Int → Int → Bool) (x y : MV α)
    (hs : ∀ a ∈ keysOf x, ∀ b ∈ keysOf y, sF (Int.ofNat a, Int.ofNat b) = signf a b)
    (hk : ∀ a ∈ keysOf x, ∀ b ∈ keysOf y, kF (Int.ofNat a) (Int.ofNat b) = Int.ofNat (keyout a b))
    (hf : ∀ a ∈ keysOf x, ∀ b ∈ keysOf y, fF (Int.ofNat a) (Int.ofNat b) (Int.ofNat (keyout a b)) = filt a b (keyout a b)) :
    Src.codegen_product alg (castMV x) (castMV y) (some fF) (some sF) kF
      = .ok (castMV (codegenProduct signf keyout filt x y)) := by
  unfold Src.codegen_product
  simp only [Option.getD_some]
  rw [product_cast, ← castMV_nil]
  rw [forIn_cast (pairs x y) castP castMV _ (cpStep signf keyout filt)]
  · rfl
  · intro pq hpq r
    obtain ⟨h1, h2⟩ := mem_pairs hpq
    exact cp_step signf keyout filt sF kF fF pq r (hs _ h1 _ h2) (hk _ h1 _ h2) (hf _ h1 _ h2)

theorem codegen_product_none (alg : Src.Alg) (x y : Py.Dict Int α) (sF : Option (Int × Int → Int)) (kF : Int → Int → Int) :
    Src.codegen_product alg x y none sF kF = Src.codegen_product alg x y (some fun _ _ _ => true) sF kF := by
  rfl


theorem codegen_product_eq_nofilter (alg : Src.Alg) (signf : Nat → Nat → Int) (keyout : Nat → Nat → Nat)
    (sF : Int × Int → Int) (kF : Int → Int → Int) (x y : MV α)
    (hs : ∀ a ∈ keysOf x, ∀ b ∈ keysOf y, sF (Int.ofNat a, Int.ofNat b) = signf a b)
    (hk : ∀ a ∈ keysOf x, ∀ b ∈ keysOf y, kF (Int.ofNat a) (Int.ofNat b) = Int.ofNat (keyout a b)) :
    Src.codegen_product alg (castMV x) (castMV y) none (some sF) kF
      = .ok (castMV (codegenProduct signf keyout noFilter x y)) := by
  rw [codegen_product_none]
  exact codegen_product_eq alg signf keyout noFilter sF kF _ x y hs hk (fun _ _ _ _ => rfl)

theorem codegen_product_nosign (alg : Src.Alg) (x y : Py.Dict Int α) (fF : Option (Int → Int → Int → Bool)) (kF : Int → Int → Int) :
    Src.codegen_product alg x y fF none kF = Src.codegen_product alg x y fF (some alg.signs) kF := by
  rfl

theorem xor_cast (a b : Nat) : Py.xor (Int.ofNat a) (Int.ofNat b) = Int.ofNat (a ^^^ b) := rfl
theorem signs_cast (c : Cfg) (a b : Nat) : (algOf c).signs (Int.ofNat a, Int.ofNat b) = c.computeSign a b := rfl

theorem codegen_gp_eq (c : Cfg) (x y : MV α) :
    Src.codegen_gp (algOf c) (castMV x) (castMV y) = .ok (castMV (gp c x y)) := by
  unfold Src.codegen_gp
  rw [codegen_product_nosign, codegen_product_eq_nofilter (algOf c) c.computeSign (· ^^^ ·)]
  · rfl
  · intros; rfl
  · intros; rfl

/-- the common shape of the metric products with a filter -/
theorem codegen_filtered (c : Cfg) (x y : MV α) (fF : Int → Int → Int → Bool) (filt : Nat → Nat → Nat → Bool)
    (hf : ∀ a b : Nat, fF (Int.ofNat a) (Int.ofNat b) (Int.ofNat (a ^^^ b)) = filt a b (a ^^^ b)) :
    Src.codegen_product (algOf c) (castMV x) (castMV y) (some fF) none Py.xor
      = .ok (castMV (codegenProduct c.computeSign (· ^^^ ·) filt x y)) := by
  rw [codegen_product_nosign]
  exact codegen_product_eq (algOf c) c.computeSign (· ^^^ ·) filt _ _ fF x y
    (fun _ _ _ _ => rfl) (fun _ _ _ _ => rfl) (fun a _ b _ => hf a b)

theorem codegen_op_eq (c : Cfg) (x y : MV α) :
    Src.codegen_op (algOf c) (castMV x) (castMV y) = .ok (castMV (op c x y)) := by
  unfold Src.codegen_op
  simp only []
  rw [codegen_filtered c x y _ (fun kx ky ko => ko == kx + ky)]
  · rfl
  · intro a b
    rw [Bool.eq_iff_iff]; simp only [beq_iff_eq, Int.ofNat_eq_natCast]; omega

theorem codegen_ip_eq (c : Cfg) (x y : MV α) :
    Src.codegen_ip (algOf c) (castMV x) (castMV y) Py.abs = .ok (castMV (ip c x y)) := by
  unfold Src.codegen_ip
  simp only []
  rw [codegen_filtered c x y _ (fun kx ky ko => (ko : Int) == ((kx : Int) - ky).natAbs)]
  · rfl
  · intro a b; rfl

theorem codegen_lc_eq (c : Cfg) (x y : MV α) :
    Src.codegen_lc (algOf c) (castMV x) (castMV y) = .ok (castMV (lc c x y)) := by
  unfold Src.codegen_lc Src.codegen_ip
  simp only []
  rw [codegen_filtered c x y _ (fun kx ky ko => (ko : Int) == -((kx : Int) - ky))]
  · rfl
  · intro a b; rfl

theorem codegen_rc_eq (c : Cfg) (x y : MV α) :
    Src.codegen_rc (algOf c) (castMV x) (castMV y) = .ok (castMV (rc c x y)) := by
  unfold Src.codegen_rc Src.codegen_ip
  simp only []
  rw [codegen_filtered c x y _ (fun kx ky ko => (ko : Int) == (kx : Int) - ky)]
  · rfl
  · intro a b; rfl

theorem codegen_sp_eq (c : Cfg) (x y : MV α) :
    Src.codegen_sp (algOf c) (castMV x) (castMV y) = .ok (castMV (sp c x y)) := by
  unfold Src.codegen_sp Src.codegen_ip
  simp only []
  rw [codegen_filtered c x y _ (fun _ _ ko => ko == 0)]
  · rfl
  · intro a b
    rw [Bool.eq_iff_iff]; simp only [beq_iff_eq, Int.ofNat_eq_natCast]; omega

theorem codegen_cp_eq (c : Cfg) (x y : MV α) :
    Src.codegen_cp (algOf c) (castMV x) (castMV y) = .ok (castMV (cp c x y)) := by
  unfold Src.codegen_cp
  simp only []
  rw [codegen_filtered c x y _ (fun kx ky _ => c.computeSign kx ky - c.computeSign ky kx != 0)]
  · rfl
  · intro a b; rfl

theorem codegen_acp_eq (c : Cfg) (x y : MV α) :
    Src.codegen_acp (algOf c) (castMV x) (castMV y) = .ok (castMV (acp c x y)) := by
  unfold Src.codegen_acp
  simp only []
  rw [codegen_filtered c x y _ (fun kx ky _ => c.computeSign kx ky + c.computeSign ky kx != 0)]
  · rfl
  · intro a b; rfl


theorem len_pss (c : Cfg) : (algOf c).len - 1 = Int.ofNat c.pss := by
  have : 0 < 2 ^ c.d := Nat.pow_pos (by decide)
  simp only [algOf, Cfg.pss, Int.ofNat_eq_natCast]
  omega

theorem signs_sub (c : Cfg) (p a q b : Nat) :
    (algOf c).signs (Int.ofNat p - Int.ofNat a, Int.ofNat q - Int.ofNat b) = c.computeSign (p - a) (q - b) := by
  simp only [algOf, Int.ofNat_eq_natCast]
  congr 1 <;> omega

theorem signs_sub_l (c : Cfg) (p a b : Nat) :
    (algOf c).signs (Int.ofNat p - Int.ofNat a, Int.ofNat b) = c.computeSign (p - a) b := by
  simp only [algOf, Int.ofNat_eq_natCast]
  congr 1 <;> omega

theorem signs_sub_r (c : Cfg) (a q b : Nat) :
    (algOf c).signs (Int.ofNat a, Int.ofNat q - Int.ofNat b) = c.computeSign a (q - b) := by
  simp only [algOf, Int.ofNat_eq_natCast]
  congr 1 <;> omega

theorem codegen_rp_eq (c : Cfg) (x y : MV α)
    (hx : ∀ k ∈ keysOf x, k < 2 ^ c.d) (hy : ∀ k ∈ keysOf y, k < 2 ^ c.d) :
    Src.codegen_rp (algOf c) (castMV x) (castMV y) = .ok (castMV (rp c x y)) := by
  unfold Src.codegen_rp
  simp only [len_pss]
  unfold rp
  simp only []
  rw [codegen_product_eq (algOf c) _ (fun kx ky => c.pss - (kx ^^^ ky))
    (fun kx ky ko => (c.pss : Int) == (kx : Int) + ky - ko)]
  · intro a _ b _
    simp only [xor_cast, signs_sub, signs_sub_l, signs_sub_r]
  · intro a ha b hb
    have := Nat.xor_lt_two_pow (hx a ha) (hy b hb)
    simp only [xor_cast]
    simp only [Cfg.pss, Int.ofNat_eq_natCast]
    generalize 2 ^ c.d = n at this ⊢
    omega
  · intro a _ b _
    rfl
end Kingdon.SrcEq
